import PyribsModel.Util
import PyribsModel.Store
import PyribsModel.StoreDrv
