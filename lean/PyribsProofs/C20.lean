import PyribsModel.Viz
import Mathlib.Algebra.Order.Field.Rat
import Mathlib.Tactic.Linarith
import Mathlib.Tactic.Ring
import Mathlib.Tactic.FieldSimp
/-!
# C20 — visualisations draw exactly what the archive stores

Property theorems about `PyribsModel.Viz`, the model of the artist data built by
`ribs/visualize/*`.  All statements are for every archive shape, every list of
stored elites (hypotheses: what `archive.data()` guarantees — distinct indices
inside the archive), both transpose settings and every choice of limits.

* T20.1 `grid_cell_colour`, `grid_cell_blank_iff`, `grid_shape`, `grid1d_cell_colour`
* T20.2 `transpose_law`, `transpose_entry`
* T20.3 `sortIdx_perm`, `inv_sortIdx`, `sortIdx_inv`, `sorted_nondecreasing`,
        `sorted_is_centroid`, `cvt1d_cell_span`, `cvt1d_cell_contains`, `cvt1d_cell_colour`
* T20.4 `scatter_law`, `scatter_transpose`, `boundaryLines_law`
* T20.5 `axisFrac_lo`, `axisFrac_hi`, `axisFrac_mono`, `normYs_frac`, `parallel_lines`,
        `sortByObj_perm`, `sortByObj_sorted`
* T20.6 `clim_contains`, `clim_attained`, `clim_explicit`
* partial clause (2-D CVT): `cvt2_cell_colour` covers the colour assignment; the polygons
  (qhull) are checked by the harness oracle only.
-/
namespace Pyribs.C20
open Pyribs Viz

/-! ## mixed radix: `ravel` / `unravel` are inverse bijections on the archive's cells -/

theorem prod_pos (ds : List Nat) (h : ∀ d ∈ ds, 0 < d) : 0 < prod ds := by
  induction ds with
  | nil => simp [prod]
  | cons d ds ih =>
    simp only [prod]
    exact Nat.mul_pos (h d (by simp)) (ih fun x hx => h x (by simp [hx]))

theorem ravel_unravel (ds : List Nat) (h : ∀ d ∈ ds, 0 < d) (n : Nat) (hn : n < prod ds) :
    ravel ds (unravel ds n) = n := by
  induction ds generalizing n with
  | nil => simp [prod] at hn; simp [ravel, hn]
  | cons d ds ih =>
    have hp := prod_pos ds fun x hx => h x (by simp [hx])
    simp only [unravel, ravel]
    rw [ih (fun x hx => h x (by simp [hx])) _ (Nat.mod_lt _ hp)]
    exact Nat.div_add_mod' n _

/-- a grid index lies inside the archive -/
def InRange : List Nat → List Nat → Prop
  | [], [] => True
  | d :: ds, i :: is => i < d ∧ InRange ds is
  | _, _ => False

theorem ravel_lt (ds is : List Nat) (h : InRange ds is) : ravel ds is < prod ds := by
  induction ds generalizing is with
  | nil => cases is <;> simp_all [InRange, ravel, prod]
  | cons d ds ih =>
    cases is with
    | nil => simp [InRange] at h
    | cons i is =>
      obtain ⟨h0, hr⟩ := h
      have hrest := ih is hr
      simp only [ravel, prod]
      calc i * prod ds + ravel ds is < i * prod ds + prod ds := by omega
        _ = (i + 1) * prod ds := by rw [Nat.add_mul, Nat.one_mul]
        _ ≤ d * prod ds := Nat.mul_le_mul_right _ h0

theorem unravel_ravel (ds is : List Nat) (h : InRange ds is) : unravel ds (ravel ds is) = is := by
  induction ds generalizing is with
  | nil => cases is <;> simp_all [InRange, unravel]
  | cons d ds ih =>
    cases is with
    | nil => simp [InRange] at h
    | cons i is =>
      obtain ⟨_, hr⟩ := h
      have hlt := ravel_lt ds is hr
      have hp : 0 < prod ds := Nat.lt_of_le_of_lt (Nat.zero_le _) hlt
      simp only [ravel, unravel]
      rw [Nat.mul_comm, Nat.mul_add_div hp, Nat.div_eq_of_lt hlt, Nat.mul_add_mod, Nat.mod_eq_of_lt hlt,
        ih is hr]
      simp

theorem unravel_inRange (ds : List Nat) (h : ∀ d ∈ ds, 0 < d) (n : Nat) (hn : n < prod ds) :
    InRange ds (unravel ds n) := by
  induction ds generalizing n with
  | nil => simp [InRange, unravel]
  | cons d ds ih =>
    have hp := prod_pos ds fun x hx => h x (by simp [hx])
    simp only [prod] at hn
    simp only [unravel, InRange]
    refine ⟨?_, ih (fun x hx => h x (by simp [hx])) _ (Nat.mod_lt _ hp)⟩
    rw [Nat.div_lt_iff_lt_mul hp]; exact hn

/-! ## what `archive.data()` guarantees about the stored elites -/

/-- distinct int indices (one elite per cell) -/
def Distinct (es : List Elite) : Prop := es.Pairwise (fun a b => a.index ≠ b.index)

/-! ## last-write-wins = "the elite of that cell" when indices are distinct -/

theorem cellObj_cons (e : Elite) (es : List Elite) (i : Nat) :
    cellObj (e :: es) i = if e.index = i then some e.obj else cellObj es i := by
  unfold cellObj
  by_cases h : e.index = i <;> simp [h]

theorem cellObj_none_iff (es : List Elite) (i : Nat) :
    cellObj es i = none ↔ ∀ e ∈ es, e.index ≠ i := by
  simp [cellObj, List.find?_eq_none]

theorem cellObj_some_of_mem (es : List Elite) (hd : Distinct es) (e : Elite) (he : e ∈ es) :
    cellObj es e.index = some e.obj := by
  induction es with
  | nil => simp at he
  | cons f fs ih =>
    rw [cellObj_cons]
    have hd' := List.pairwise_cons.mp hd
    rcases List.mem_cons.mp he with rfl | hmem
    · simp
    · have hne : f.index ≠ e.index := hd'.1 e hmem
      simp [hne, ih hd'.2 hmem]

theorem lastBy_none_iff (p : Elite → Bool) (es : List Elite) :
    lastBy p es = none ↔ ∀ e ∈ es, p e = false := by
  induction es with
  | nil => simp [lastBy]
  | cons e es ih =>
    simp only [lastBy, List.mem_cons, forall_eq_or_imp]
    cases h : lastBy p es with
    | some v =>
      rw [h] at ih
      simp only [false_iff, reduceCtorEq] at ih ⊢
      intro hcon
      exact ih hcon.2
    | none =>
      rw [h] at ih
      have hall := ih.mp rfl
      cases hp : p e with
      | false => exact ⟨fun _ => ⟨rfl, hall⟩, fun _ => by simp⟩
      | true => simp

/-- if `p` singles out the elites stored under index `i`, the last write satisfying `p`
is the objective of *the* elite of cell `i` -/
theorem lastBy_eq_cellObj (p : Elite → Bool) (i : Nat) (es : List Elite) (hd : Distinct es)
    (hp : ∀ e ∈ es, (p e = true ↔ e.index = i)) : lastBy p es = cellObj es i := by
  induction es with
  | nil => simp [lastBy, cellObj]
  | cons e es ih =>
    have hd' := List.pairwise_cons.mp hd
    have ih' := ih hd'.2 (fun f hf => hp f (List.mem_cons_of_mem _ hf))
    rw [cellObj_cons]
    simp only [lastBy]
    by_cases hi : e.index = i
    · have hnone : cellObj es i = none :=
        (cellObj_none_iff es i).mpr (fun f hf => by rw [← hi]; exact (hd'.1 f hf).symm)
      rw [ih', hnone]
      simp [hi, (hp e (by simp)).mpr hi]
    · rw [ih']
      have hpe : p e = false := by
        cases h : p e with
        | false => rfl
        | true => exact absurd ((hp e (by simp)).mp h) hi
      cases hc : cellObj es i <;> simp [hi, hpe]

/-! ## T20.1 grid heat-map: which objective a drawn cell shows -/

/-- entry `(r, c)` of a colour matrix: outer `none` = outside the matrix, `some none` = blank -/
def entry (M : List (List (Option Rat))) (r c : Nat) : Option (Option Rat) :=
  (M[r]?).bind (fun row => row[c]?)

theorem getElem?_range_if (n i : Nat) : (List.range n)[i]? = if i < n then some i else none := by
  by_cases h : i < n
  · simp [h]
  · simp [h]

theorem entry_materialise (rows cols : Nat) (m : Mat) (r c : Nat) :
    entry (materialise rows cols m) r c = if r < rows ∧ c < cols then some (m r c) else none := by
  unfold entry materialise
  rw [List.getElem?_map, getElem?_range_if]
  by_cases hr : r < rows
  · simp only [hr, if_true, Option.map_some, Option.bind_some, true_and]
    rw [List.getElem?_map, getElem?_range_if]
    by_cases hc : c < cols <;> simp [hc]
  · simp [hr]

theorem unravel2 (xd yd n : Nat) : unravel [xd, yd] n = [n / yd, n % yd] := by
  simp [unravel, prod]

/-- the fold of fancy assignments is "last write wins" per cell -/
theorem fillColors_eq (xd yd : Nat) (es : List Elite) (r c : Nat) :
    fillColors [xd, yd] es r c = lastBy (fun e => decide (unravel [xd, yd] e.index = [c, r])) es := by
  unfold fillColors
  suffices h : ∀ (m : Mat),
      (es.foldl (colorStep [xd, yd]) m) r c
        = (lastBy (fun e => decide (unravel [xd, yd] e.index = [c, r])) es).or (m r c) by
    rw [h]; cases lastBy _ es <;> simp
  induction es with
  | nil => intro m; simp [lastBy]
  | cons e es ih =>
    intro m
    rw [List.foldl_cons, ih]
    simp only [lastBy]
    cases hl : lastBy (fun e => decide (unravel [xd, yd] e.index = [c, r])) es with
    | some v => simp
    | none =>
      simp only [Option.none_or, colorStep, unravel2, Mat.set]
      by_cases hcell : r = e.index % yd ∧ c = e.index / yd
      · obtain ⟨h1, h2⟩ := hcell
        simp [h1, h2]
      · have : ¬ ([e.index / yd, e.index % yd] = [c, r]) := by
          intro hcon
          simp only [List.cons.injEq, and_true] at hcon
          exact hcell ⟨hcon.2.symm, hcon.1.symm⟩
        simp [hcell, this]

/-- in-range grid indices are in bijection with int indices -/
theorem unravel_eq_iff (ds : List Nat) (g : List Nat) (hg : InRange ds g) (h : ∀ d ∈ ds, 0 < d)
    (i : Nat) (hi : i < prod ds) : unravel ds i = g ↔ i = ravel ds g := by
  constructor
  · intro hu; rw [← hu, ravel_unravel ds h i hi]
  · intro hu; rw [hu, unravel_ravel ds g hg]

theorem prod2 (xd yd : Nat) : prod [xd, yd] = xd * yd := by simp [prod]

/-- T20.1 `grid_cell_colour`: entry `(r, c)` of the matrix handed to `pcolormesh` is the
objective of the elite whose int index unravels to grid index `(c, r)` — `(r, c)` when
transposed — and blank when no elite has that index.  (`ravel` names that int index;
`unravel_ravel` / `ravel_unravel` say it is the one that unravels to the grid index.) -/
theorem grid_cell_colour (xd yd : Nat) (es : List Elite) (tr : Bool)
    (hd : Distinct es) (hr : ∀ e ∈ es, e.index < xd * yd)
    (r c : Nat) (hrow : r < (if tr then xd else yd)) (hcol : c < (if tr then yd else xd)) :
    entry (gridColors (xd, yd) es tr) r c
      = some (cellObj es (ravel [xd, yd] (if tr then [r, c] else [c, r]))) := by
  have key : ∀ gx gy, gx < xd → gy < yd →
      fillColors [xd, yd] es gy gx = cellObj es (ravel [xd, yd] [gx, gy]) := by
    intro gx gy hx hy
    rw [fillColors_eq]
    apply lastBy_eq_cellObj _ _ _ hd
    intro e he
    have hpos : ∀ d ∈ [xd, yd], 0 < d := by
      intro d hdm
      simp only [List.mem_cons, List.not_mem_nil, or_false] at hdm
      rcases hdm with rfl | rfl <;> omega
    rw [decide_eq_true_iff]
    exact unravel_eq_iff [xd, yd] [gx, gy] (by simp [InRange, hx, hy]) hpos e.index
      (by rw [prod2]; exact hr e he)
  cases tr with
  | false =>
    simp only [Bool.false_eq_true, if_false] at hrow hcol ⊢
    simp only [gridColors, Bool.false_eq_true, if_false, entry_materialise, hrow, hcol, and_self, if_true]
    rw [key c r hcol hrow]
  | true =>
    simp only [if_true] at hrow hcol ⊢
    simp only [gridColors, if_true, entry_materialise, hrow, hcol, and_self]
    rw [key r c hrow hcol]

/-- T20.1 (blank cells, no hypothesis on the frame): a drawn cell is blank iff no elite of the
frame unravels to its grid index -/
theorem grid_cell_blank_iff (xd yd : Nat) (es : List Elite) (tr : Bool)
    (r c : Nat) (hrow : r < (if tr then xd else yd)) (hcol : c < (if tr then yd else xd)) :
    entry (gridColors (xd, yd) es tr) r c = some none
      ↔ ∀ e ∈ es, unravel [xd, yd] e.index ≠ (if tr then [r, c] else [c, r]) := by
  cases tr with
  | false =>
    simp only [Bool.false_eq_true, if_false] at hrow hcol ⊢
    simp only [gridColors, Bool.false_eq_true, if_false, entry_materialise, hrow, hcol, and_self, if_true,
      Option.some.injEq, fillColors_eq, lastBy_none_iff, decide_eq_false_iff_not]
  | true =>
    simp only [if_true] at hrow hcol ⊢
    simp only [gridColors, if_true, entry_materialise, hrow, hcol, and_self,
      Option.some.injEq, fillColors_eq, lastBy_none_iff, decide_eq_false_iff_not]

/-- the matrix has `y_dim` rows of `x_dim` cells (swapped when transposed) -/
theorem grid_shape (xd yd : Nat) (es : List Elite) (tr : Bool) :
    (gridColors (xd, yd) es tr).length = (if tr then xd else yd) ∧
    ∀ row ∈ gridColors (xd, yd) es tr, row.length = (if tr then yd else xd) := by
  cases tr <;> simp [gridColors, materialise]

/-! ## 1-D grid heat-map -/

theorem fillCells_eq (key : Nat → Nat) (es : List Elite) (j : Nat) :
    fillCells key es j = lastBy (fun e => decide (j = key e.index)) es := by
  unfold fillCells
  suffices h : ∀ f : Nat → Option Rat, (es.foldl (cellStep key) f) j
      = (lastBy (fun e => decide (j = key e.index)) es).or (f j) by
    rw [h]; cases lastBy _ es <;> simp
  induction es with
  | nil => intro f; simp [lastBy]
  | cons e es ih =>
    intro f
    rw [List.foldl_cons, ih]
    simp only [lastBy]
    cases hl : lastBy (fun e => decide (j = key e.index)) es with
    | some v => simp
    | none =>
      simp only [Option.none_or, cellStep]
      by_cases hj : j = key e.index <;> simp [hj]

theorem grid1dKey_eq (d i : Nat) : grid1dKey d i = i := by simp [grid1dKey, unravel, prod]

/-- T20.1 (1-D): drawn cell `c` shows the objective of the elite stored under index `c`
(blank when there is none) — for every number of stored elites, one included (D22) -/
theorem grid1d_cell_colour (d : Nat) (es : List Elite) (hd : Distinct es) (c : Nat) (hc : c < d) :
    (grid1dColors d es)[c]? = some (cellObj es c) := by
  unfold grid1dColors
  rw [List.getElem?_map, getElem?_range_if]
  simp only [hc, if_true, Option.map_some]
  rw [fillCells_eq]
  congr 1
  apply lastBy_eq_cellObj _ _ _ hd
  intro e _
  simp only [grid1dKey_eq, decide_eq_true_iff]
  exact eq_comm

/-! ## T20.2 transposition -/

/-- transpose of a `cols × rows` matrix given as a list of rows -/
def transposeM (rows cols : Nat) (M : List (List (Option Rat))) : List (List (Option Rat)) :=
  (List.range rows).map (fun r => (List.range cols).map (fun c => (entry M c r).join))

theorem transpose_entry (xd yd : Nat) (es : List Elite) (r c : Nat) :
    entry (gridColors (xd, yd) es true) r c = entry (gridColors (xd, yd) es false) c r := by
  simp only [gridColors, if_true, Bool.false_eq_true, if_false, entry_materialise]
  by_cases h1 : r < xd <;> by_cases h2 : c < yd <;> simp [h1, h2]

/-- T20.2 `transpose_law`: `transpose_measures=True` draws the transposed colour matrix over the
swapped cell edges inside the swapped axis limits -/
theorem transpose_law (xd yd : Nat) (es : List Elite) (b0 b1 : List Rat) (lo hi : Rat × Rat) :
    gridColors (xd, yd) es true = transposeM xd yd (gridColors (xd, yd) es false) ∧
    gridEdges b0 b1 true = (gridEdges b0 b1 false).swap ∧
    axLims lo hi true = (axLims lo hi false).swap := by
  refine ⟨?_, rfl, rfl⟩
  have key : ∀ r c, r < xd → c < yd →
      (entry (gridColors (xd, yd) es false) c r).join = fillColors [xd, yd] es c r := by
    intro r c hr hc
    simp [gridColors, entry_materialise, hr, hc]
  unfold transposeM
  rw [show gridColors (xd, yd) es true
      = materialise xd yd (fun r c => fillColors [xd, yd] es c r) from by simp [gridColors]]
  unfold materialise
  apply List.map_congr_left
  intro r hr
  apply List.map_congr_left
  intro c hc
  rw [key r c (List.mem_range.mp hr) (List.mem_range.mp hc)]

/-! ## T20.3 1-D CVT heat-map: sorting, inverse permutation, cell edges, cell colours -/

theorem insertBy_perm (p : Rat × Nat) (l : List (Rat × Nat)) : (insertBy p l).Perm (p :: l) := by
  induction l with
  | nil => simp [insertBy]
  | cons q qs ih =>
    simp only [insertBy]
    split
    · exact List.Perm.refl _
    · exact (List.Perm.cons q ih).trans (List.Perm.swap p q qs)

theorem isort_perm (l : List (Rat × Nat)) : (isort l).Perm l := by
  induction l with
  | nil => exact List.Perm.refl _
  | cons p ps ih =>
    simp only [isort]
    exact (insertBy_perm p _).trans (List.Perm.cons p ih)

theorem withIdx_snd (k : Nat) (cs : List Rat) :
    (withIdx k cs).map (·.2) = List.range' k cs.length := by
  induction cs generalizing k with
  | nil => simp [withIdx]
  | cons c cs ih => simp [withIdx, ih, List.range'_succ]

theorem withIdx_fst (k : Nat) (cs : List Rat) : (withIdx k cs).map (·.1) = cs := by
  induction cs generalizing k with
  | nil => simp [withIdx]
  | cons c cs ih => simp [withIdx, ih]

/-- T20.3 `sortIdx` (= `np.argsort(centroids)`) is a permutation of the centroid indices -/
theorem sortIdx_perm (cs : List Rat) : (sortIdx cs).Perm (List.range cs.length) := by
  unfold sortIdx sortPairs
  rw [List.range_eq_range', ← withIdx_snd 0 cs]
  exact (isort_perm _).map _

theorem sortedCentroids_perm (cs : List Rat) : (sortedCentroids cs).Perm cs := by
  unfold sortedCentroids sortPairs
  have h := (isort_perm (withIdx 0 cs)).map (·.1)
  rwa [withIdx_fst] at h

theorem sortIdx_nodup (cs : List Rat) : (sortIdx cs).Nodup :=
  (sortIdx_perm cs).nodup_iff.mpr List.nodup_range

theorem sortIdx_length (cs : List Rat) : (sortIdx cs).length = cs.length := by
  rw [(sortIdx_perm cs).length_eq, List.length_range]

theorem invFrom_not_mem (i : Nat) (xs : List Nat) (f : Nat → Nat) (y : Nat) (h : y ∉ xs) :
    invFrom i xs f y = f y := by
  induction xs generalizing i f with
  | nil => rfl
  | cons x xs ih =>
    simp only [invFrom]
    rw [ih _ _ (fun hm => h (List.mem_cons_of_mem _ hm))]
    have : y ≠ x := fun hyx => h (by simp [hyx])
    simp [this]

theorem invFrom_getElem (i : Nat) (xs : List Nat) (f : Nat → Nat) (hn : xs.Nodup) (p x : Nat)
    (hp : xs[p]? = some x) : invFrom i xs f x = i + p := by
  induction xs generalizing i f p with
  | nil => simp at hp
  | cons y ys ih =>
    have hn' := List.nodup_cons.mp hn
    simp only [invFrom]
    cases p with
    | zero =>
      simp only [List.getElem?_cons_zero, Option.some.injEq] at hp
      subst hp
      rw [invFrom_not_mem _ _ _ _ hn'.1]
      simp
    | succ p =>
      simp only [List.getElem?_cons_succ] at hp
      rw [ih (i + 1) _ hn'.2 p hp]
      omega

/-- T20.3 `inv ∘ sortIdx = id`: the inverse index sends the centroid at sorted position `p`
back to `p` -/
theorem inv_sortIdx (cs : List Rat) (p x : Nat) (hp : (sortIdx cs)[p]? = some x) :
    invIdx (sortIdx cs) x = p := by
  unfold invIdx
  rw [invFrom_getElem 0 _ _ (sortIdx_nodup cs) p x hp]
  omega

/-- T20.3 `sortIdx ∘ inv = id` on the centroid indices -/
theorem sortIdx_inv (cs : List Rat) (x : Nat) (hx : x < cs.length) :
    (sortIdx cs)[invIdx (sortIdx cs) x]? = some x := by
  have hmem : x ∈ sortIdx cs := (sortIdx_perm cs).mem_iff.mpr (List.mem_range.mpr hx)
  obtain ⟨p, hp⟩ := List.mem_iff_getElem?.mp hmem
  rw [inv_sortIdx cs p x hp]
  exact hp

theorem insertBy_sorted (p : Rat × Nat) (l : List (Rat × Nat))
    (h : l.Pairwise (fun a b => a.1 ≤ b.1)) : (insertBy p l).Pairwise (fun a b => a.1 ≤ b.1) := by
  induction l with
  | nil => simp [insertBy]
  | cons q qs ih =>
    have hq := List.pairwise_cons.mp h
    simp only [insertBy]
    split
    · rename_i hle
      refine List.pairwise_cons.mpr ⟨?_, h⟩
      intro b hb
      rcases List.mem_cons.mp hb with rfl | hb'
      · exact hle
      · exact le_trans hle (hq.1 b hb')
    · rename_i hnle
      refine List.pairwise_cons.mpr ⟨?_, ih hq.2⟩
      intro b hb
      have hb2 := (insertBy_perm p qs).mem_iff.mp hb
      rcases List.mem_cons.mp hb2 with rfl | hb'
      · exact le_of_lt (not_le.mp hnle)
      · exact hq.1 b hb'

theorem isort_sorted (l : List (Rat × Nat)) : (isort l).Pairwise (fun a b => a.1 ≤ b.1) := by
  induction l with
  | nil => simp [isort]
  | cons p ps ih => simp only [isort]; exact insertBy_sorted p _ ih

/-- T20.3 the sorted centroids are non-decreasing -/
theorem sorted_nondecreasing (cs : List Rat) : (sortedCentroids cs).Pairwise (· ≤ ·) := by
  unfold sortedCentroids sortPairs
  exact List.pairwise_map.mpr (isort_sorted _)

theorem mem_withIdx (k : Nat) (cs : List Rat) (q : Rat × Nat) (h : q ∈ withIdx k cs) :
    k ≤ q.2 ∧ cs[q.2 - k]? = some q.1 := by
  induction cs generalizing k with
  | nil => simp [withIdx] at h
  | cons c cs ih =>
    simp only [withIdx, List.mem_cons] at h
    rcases h with rfl | h
    · simp
    · obtain ⟨h1, h2⟩ := ih (k + 1) h
      refine ⟨by omega, ?_⟩
      have : q.2 - k = (q.2 - (k + 1)) + 1 := by omega
      rw [this, List.getElem?_cons_succ]
      exact h2

/-- T20.3 the value at sorted position `p` is the centroid with index `sortIdx[p]`
(`sorted_centroids_1d = centroids_1d[centroid_sort_idx]`) -/
theorem sorted_is_centroid (cs : List Rat) (p : Nat) (v : Rat) (i : Nat)
    (hv : (sortedCentroids cs)[p]? = some v) (hi : (sortIdx cs)[p]? = some i) : cs[i]? = some v := by
  unfold sortedCentroids at hv
  unfold sortIdx at hi
  rw [List.getElem?_map] at hv hi
  cases hq : (sortPairs cs)[p]? with
  | none => simp [hq] at hv
  | some q =>
    simp only [hq, Option.map_some, Option.some.injEq] at hv hi
    have hmem : q ∈ sortPairs cs := List.mem_of_getElem? hq
    have hmem2 := (isort_perm _).mem_iff.mp hmem
    have h3 := (mem_withIdx 0 cs q hmem2).2
    rw [← hv, ← hi]
    simpa using h3

theorem midpoints_getElem (s : List Rat) (q : Nat) (a b : Rat) (ha : s[q]? = some a)
    (hb : s[q + 1]? = some b) : (midpoints s)[q]? = some ((a + b) / 2) := by
  induction s generalizing q with
  | nil => simp at ha
  | cons x xs ih =>
    cases xs with
    | nil => simp at hb
    | cons y ys =>
      simp only [midpoints]
      cases q with
      | zero =>
        simp only [List.getElem?_cons_zero, List.getElem?_cons_succ, Option.some.injEq] at ha hb
        simp [ha, hb]
      | succ q =>
        simp only [List.getElem?_cons_succ] at ha hb ⊢
        exact ih q ha hb

theorem midpoints_length (s : List Rat) : (midpoints s).length = s.length - 1 := by
  induction s with
  | nil => rfl
  | cons x xs ih =>
    cases xs with
    | nil => rfl
    | cons y ys =>
      simp only [midpoints, List.length_cons] at ih ⊢
      omega

theorem getElem?_lt {α : Type} (l : List α) (i : Nat) (a : α) (h : l[i]? = some a) : i < l.length := by
  by_contra hcon
  rw [List.getElem?_eq_none (Nat.le_of_not_lt hcon)] at h
  exact absurd h (by simp)

/-- T20.3 `cvt1d_cell_span`: the cell edges are the lower bound, the midpoints of neighbouring
sorted centroids, and the upper bound: drawn cell `p` spans
`[mid(s[p-1], s[p]), mid(s[p], s[p+1])]` (with the archive bounds at the two ends) -/
theorem cvt1d_cell_span (lo hi : Rat) (cs : List Rat) :
    (cvtEdges lo hi cs)[0]? = some lo ∧
    (∀ q a b, (sortedCentroids cs)[q]? = some a → (sortedCentroids cs)[q + 1]? = some b →
      (cvtEdges lo hi cs)[q + 1]? = some ((a + b) / 2)) ∧
    (cs ≠ [] → (cvtEdges lo hi cs)[cs.length]? = some hi) ∧
    (cs ≠ [] → (cvtEdges lo hi cs).length = cs.length + 1) := by
  have hlen : (sortedCentroids cs).length = cs.length := (sortedCentroids_perm cs).length_eq
  refine ⟨by simp [cvtEdges], ?_, ?_, ?_⟩
  · intro q a b ha hb
    have hm := midpoints_getElem _ q a b ha hb
    simp only [cvtEdges, List.getElem?_cons_succ]
    rw [List.getElem?_append_left (getElem?_lt _ _ _ hm)]
    exact hm
  · intro hne
    have hpos : 0 < cs.length := List.length_pos_iff.mpr hne
    obtain ⟨n, hn⟩ : ∃ n, cs.length = n + 1 := ⟨cs.length - 1, by omega⟩
    rw [hn]
    simp only [cvtEdges, List.getElem?_cons_succ]
    have hml : (midpoints (sortedCentroids cs)).length = n := by
      rw [midpoints_length, hlen, hn]; omega
    rw [List.getElem?_append_right (by omega), hml]
    simp
  · intro hne
    have hpos : 0 < cs.length := List.length_pos_iff.mpr hne
    simp only [cvtEdges, List.length_cons, List.length_append, midpoints_length, hlen, List.length_nil]
    omega

theorem pairwise_getElem? (s : List Rat) (h : s.Pairwise (· ≤ ·)) (i j : Nat) (a b : Rat)
    (ha : s[i]? = some a) (hb : s[j]? = some b) (hij : i < j) : a ≤ b := by
  have hi := getElem?_lt _ _ _ ha
  have hj := getElem?_lt _ _ _ hb
  have := (List.pairwise_iff_getElem.mp h) i j hi hj hij
  rw [List.getElem?_eq_getElem hi] at ha
  rw [List.getElem?_eq_getElem hj] at hb
  simp only [Option.some.injEq] at ha hb
  rw [← ha, ← hb]
  exact this

/-- T20.3 `cvt1d_cell_contains`: drawn cell `p` contains the `p`-th smallest centroid
(centroids inside the archive bounds) -/
theorem cvt1d_cell_contains (lo hi : Rat) (cs : List Rat) (hb : ∀ c ∈ cs, lo ≤ c ∧ c ≤ hi)
    (p : Nat) (x : Rat) (hx : (sortedCentroids cs)[p]? = some x) :
    ∃ l r, (cvtEdges lo hi cs)[p]? = some l ∧ (cvtEdges lo hi cs)[p + 1]? = some r ∧
      l ≤ x ∧ x ≤ r := by
  have hlen : (sortedCentroids cs).length = cs.length := (sortedCentroids_perm cs).length_eq
  have hp : p < cs.length := hlen ▸ getElem?_lt _ _ _ hx
  have hne : cs ≠ [] := by intro h; simp [h] at hp
  have hxb := hb x ((sortedCentroids_perm cs).mem_iff.mp (List.mem_of_getElem? hx))
  obtain ⟨h0, hmid, hlast, _⟩ := cvt1d_cell_span lo hi cs
  have hs := sorted_nondecreasing cs
  -- left edge
  have hleft : ∃ l, (cvtEdges lo hi cs)[p]? = some l ∧ l ≤ x := by
    cases p with
    | zero => exact ⟨lo, h0, hxb.1⟩
    | succ q =>
      have hq : q < (sortedCentroids cs).length := by omega
      have ha : (sortedCentroids cs)[q]? = some (sortedCentroids cs)[q] := List.getElem?_eq_getElem hq
      have hle := pairwise_getElem? _ hs q (q + 1) _ _ ha hx (by omega)
      refine ⟨_, hmid q _ x ha hx, ?_⟩
      linarith
  -- right edge
  have hright : ∃ r, (cvtEdges lo hi cs)[p + 1]? = some r ∧ x ≤ r := by
    by_cases hend : p + 1 = cs.length
    · rw [hend]; exact ⟨hi, hlast hne, hxb.2⟩
    · have hq : p + 1 < (sortedCentroids cs).length := by omega
      have hb' : (sortedCentroids cs)[p + 1]? = some (sortedCentroids cs)[p + 1] :=
        List.getElem?_eq_getElem hq
      have hle := pairwise_getElem? _ hs p (p + 1) _ _ hx hb' (by omega)
      refine ⟨_, hmid p x _ hx hb', ?_⟩
      linarith
  obtain ⟨l, hl, hlx⟩ := hleft
  obtain ⟨r, hr, hxr⟩ := hright
  exact ⟨l, r, hl, hr, hlx, hxr⟩

/-- T20.3 `cvt1d_cell_colour`: drawn cell `p` shows the objective of the elite stored at
centroid index `sortIdx[p]` (blank when that cell is empty) -/
theorem cvt1d_cell_colour (cs : List Rat) (es : List Elite) (hd : Distinct es)
    (hr : ∀ e ∈ es, e.index < cs.length) (p i : Nat) (hi : (sortIdx cs)[p]? = some i) :
    (cvt1dColors cs es)[p]? = some (cellObj es i) := by
  have hp : p < cs.length := sortIdx_length cs ▸ getElem?_lt _ _ _ hi
  unfold cvt1dColors
  rw [List.getElem?_map, getElem?_range_if]
  simp only [hp, if_true, Option.map_some]
  rw [fillCells_eq]
  congr 1
  apply lastBy_eq_cellObj _ _ _ hd
  intro e he
  rw [decide_eq_true_iff]
  constructor
  · intro hpe
    have h1 := sortIdx_inv cs e.index (hr e he)
    rw [← hpe, hi] at h1
    exact (Option.some.inj h1).symm
  · intro hei
    rw [hei, inv_sortIdx cs p i hi]

/-! ## T20.4 scatter plots: marker positions and colours -/

theorem allSome_eq_some {α : Type} (xs : List (Option α)) (ys : List α)
    (h : allSome xs = some ys) : xs = ys.map some := by
  induction xs generalizing ys with
  | nil =>
    simp only [allSome, Option.some.injEq] at h
    subst h; rfl
  | cons x xs ih =>
    cases x with
    | none => simp [allSome] at h
    | some a =>
      simp only [allSome] at h
      cases hx : allSome xs with
      | none => simp [hx] at h
      | some zs =>
        simp only [hx, Option.map_some, Option.some.injEq] at h
        subst h
        simp [ih zs hx]

theorem allSome_map {α β : Type} (f : α → β) (xs : List (Option α)) :
    allSome (xs.map (Option.map f)) = (allSome xs).map (List.map f) := by
  induction xs with
  | nil => simp [allSome]
  | cons x xs ih =>
    cases x with
    | none => simp [allSome]
    | some a =>
      simp only [List.map_cons, Option.map_some, allSome, ih]
      cases allSome xs <;> simp

theorem getElem?_of_map_some {α : Type} (xs : List (Option α)) (ys : List α)
    (h : xs = ys.map some) (k : Nat) (a : α) (hk : xs[k]? = some (some a)) : ys[k]? = some a := by
  subst h
  rw [List.getElem?_map] at hk
  cases hy : ys[k]? with
  | none => simp [hy] at hk
  | some b => simp only [hy, Option.map_some, Option.some.injEq] at hk; rw [hk]

/-- T20.4 `scatter_law`: one marker per row of `data()`, in `data()` order; marker `k` sits at
the measures of elite `k` (axes swapped when transposed) and its colour value is that elite's
objective; the colour limits are those of the stored objectives -/
theorem scatter_law (es : List Elite) (tr : Bool) (vmin vmax : Option Rat) (s : Scatter)
    (h : scatter es tr vmin vmax = .ok s) :
    s.offsets.length = es.length ∧ s.colors = es.map (·.obj) ∧
    clim (es.map (·.obj)) vmin vmax = .ok s.clim ∧
    ∀ (k : Nat) (e : Elite), es[k]? = some e → ∃ x y, e.meas = [x, y] ∧
      s.offsets[k]? = some (if tr then (y, x) else (x, y)) ∧ s.colors[k]? = some e.obj := by
  unfold scatter at h
  cases hA : allSome (es.map (scatterPt tr)) with
  | none => simp [hA] at h
  | some pts =>
    simp only [hA] at h
    cases hc : clim (es.map (·.obj)) vmin vmax with
    | error e => simp [hc] at h
    | ok cl =>
      simp only [hc, Except.ok.injEq] at h
      subst h
      have hmap := allSome_eq_some _ _ hA
      refine ⟨?_, rfl, rfl, ?_⟩
      · have := congrArg List.length hmap
        simpa using this.symm
      · intro k e hk
        have hk' : (es.map (scatterPt tr))[k]? = some (scatterPt tr e) := by
          rw [List.getElem?_map, hk]; rfl
        cases hpt : scatterPt tr e with
        | none =>
          rw [hmap, List.getElem?_map, hpt] at hk'
          cases hy : pts[k]? <;> simp [hy] at hk'
        | some pt =>
          rw [hpt] at hk'
          have hoff := getElem?_of_map_some _ _ hmap k pt hk'
          unfold scatterPt at hpt
          split at hpt
          · rename_i x y hxy
            simp only [Option.some.injEq] at hpt
            exact ⟨x, y, hxy, by rw [hoff, hpt], by simp [hk]⟩
          · simp at hpt

theorem scatterPt_swap (e : Elite) : scatterPt true e = (scatterPt false e).map Prod.swap := by
  unfold scatterPt
  split <;> simp

/-- T20.4 `scatter_transpose`: `transpose_measures=True` swaps the two coordinates of every
marker and changes nothing else -/
theorem scatter_transpose (es : List Elite) (vmin vmax : Option Rat) (s : Scatter)
    (h : scatter es false vmin vmax = .ok s) :
    scatter es true vmin vmax = .ok ⟨s.offsets.map Prod.swap, s.colors, s.clim⟩ := by
  unfold scatter at h ⊢
  have hm : es.map (scatterPt true) = (es.map (scatterPt false)).map (Option.map Prod.swap) := by
    simp [scatterPt_swap]
  rw [hm, allSome_map]
  cases hA : allSome (es.map (scatterPt false)) with
  | none => simp [hA] at h
  | some pts =>
    simp only [hA] at h
    cases hc : clim (es.map (·.obj)) vmin vmax with
    | error e => simp [hc] at h
    | ok cl =>
      simp only [hc, Except.ok.injEq] at h
      subst h
      simp

/-- T20.4 boundary lines: vertical lines stand at the boundaries of the dimension drawn along
x and span the bounds of the dimension drawn along y; horizontal lines the other way round;
transposing swaps the roles of the two dimensions -/
theorem boundaryLines_law (b0 b1 : List Rat) (lo hi : Rat × Rat) :
    boundaryLines b0 b1 lo hi false = ⟨b0, (lo.2, hi.2), b1, (lo.1, hi.1)⟩ ∧
    boundaryLines b0 b1 lo hi true = ⟨b1, (lo.1, hi.1), b0, (lo.2, hi.2)⟩ := ⟨rfl, rfl⟩

/-! ## T20.5 parallel axes plot -/

theorem axisFrac_lo (lo hi : Rat) : axisFrac lo hi lo = 0 := by simp [axisFrac]

theorem axisFrac_hi (lo hi : Rat) (h : lo ≠ hi) : axisFrac lo hi hi = 1 := by
  unfold axisFrac
  exact div_self (sub_ne_zero.mpr (Ne.symm h))

theorem axisFrac_mono (lo hi m m' : Rat) (h : lo < hi) (hm : m ≤ m') :
    axisFrac lo hi m ≤ axisFrac lo hi m' := by
  unfold axisFrac
  exact div_le_div_of_nonneg_right (by linarith) (by linarith)

theorem normRest_getElem (lo0 hi0 : Rat) (los his ys : List Rat) (k : Nat) (lo hi y : Rat)
    (hl : los[k]? = some lo) (hh : his[k]? = some hi) (hy : ys[k]? = some y) :
    (normRest lo0 hi0 los his ys)[k]? = some ((y - lo) / (hi - lo) * (hi0 - lo0) + lo0) := by
  induction los generalizing his ys k with
  | nil => simp at hl
  | cons l ls ih =>
    cases his with
    | nil => simp at hh
    | cons h hs =>
      cases ys with
      | nil => simp at hy
      | cons z zs =>
        simp only [normRest]
        cases k with
        | zero =>
          simp only [List.getElem?_cons_zero, Option.some.injEq] at hl hh hy
          simp [hl, hh, hy]
        | succ k =>
          simp only [List.getElem?_cons_succ] at hl hh hy ⊢
          exact ih hs zs k hl hh hy

/-- T20.5 `normYs_frac`: on every axis `k` the drawn point sits at the relative height
`(m_k - lo_k) / (hi_k - lo_k)` of the host axis, i.e. where axis `k` (whose limits are
`lo_k, hi_k`) shows the value `m_k` -/
theorem normYs_frac (los his ys : List Rat) (lo0 hi0 : Rat) (h0l : los[0]? = some lo0)
    (h0h : his[0]? = some hi0) (hne : lo0 ≠ hi0) (k : Nat) (lo hi y : Rat)
    (hl : los[k]? = some lo) (hh : his[k]? = some hi) (hy : ys[k]? = some y) :
    ∃ y', (normYs los his ys)[k]? = some y' ∧ axisFrac lo0 hi0 y' = axisFrac lo hi y := by
  cases los with
  | nil => simp at hl
  | cons l ls =>
    cases his with
    | nil => simp at hh
    | cons h hs =>
      cases ys with
      | nil => simp at hy
      | cons z zs =>
        simp only [List.getElem?_cons_zero, Option.some.injEq] at h0l h0h
        subst h0l h0h
        simp only [normYs]
        cases k with
        | zero =>
          simp only [List.getElem?_cons_zero, Option.some.injEq] at hl hh hy ⊢
          subst hl hh hy
          exact ⟨_, rfl, rfl⟩
        | succ k =>
          simp only [List.getElem?_cons_succ] at hl hh hy ⊢
          refine ⟨_, normRest_getElem _ _ _ _ _ k lo hi y hl hh hy, ?_⟩
          have hd : h - l ≠ 0 := sub_ne_zero.mpr (Ne.symm hne)
          unfold axisFrac
          rw [add_sub_cancel_right, mul_div_assoc, div_self hd, mul_one]

theorem insertObj_perm (e : Elite) (l : List Elite) : (insertObj e l).Perm (e :: l) := by
  induction l with
  | nil => simp [insertObj]
  | cons f fs ih =>
    simp only [insertObj]
    split
    · exact List.Perm.refl _
    · exact (List.Perm.cons f ih).trans (List.Perm.swap e f fs)

/-- `sort_archive=True` draws the same elites -/
theorem sortByObj_perm (es : List Elite) : (sortByObj es).Perm es := by
  induction es with
  | nil => exact List.Perm.refl _
  | cons e es ih =>
    simp only [sortByObj]
    exact (insertObj_perm e _).trans (List.Perm.cons e ih)

theorem insertObj_sorted (e : Elite) (l : List Elite)
    (h : l.Pairwise (fun a b => a.obj ≤ b.obj)) : (insertObj e l).Pairwise (fun a b => a.obj ≤ b.obj) := by
  induction l with
  | nil => simp [insertObj]
  | cons f fs ih =>
    have hq := List.pairwise_cons.mp h
    simp only [insertObj]
    split
    · rename_i hle
      refine List.pairwise_cons.mpr ⟨?_, h⟩
      intro b hb
      rcases List.mem_cons.mp hb with rfl | hb'
      · exact hle
      · exact le_trans hle (hq.1 b hb')
    · rename_i hnle
      refine List.pairwise_cons.mpr ⟨?_, ih hq.2⟩
      intro b hb
      have hb2 := (insertObj_perm e fs).mem_iff.mp hb
      rcases List.mem_cons.mp hb2 with rfl | hb'
      · exact le_of_lt (not_le.mp hnle)
      · exact hq.1 b hb'

/-- … in non-decreasing order of objective (better elites are drawn later, i.e. on top) -/
theorem sortByObj_sorted (es : List Elite) : (sortByObj es).Pairwise (fun a b => a.obj ≤ b.obj) := by
  induction es with
  | nil => simp [sortByObj]
  | cons e es ih => simp only [sortByObj]; exact insertObj_sorted e _ ih

/-- T20.5 `parallel_lines`: one poly-line per stored elite (in `data()` order, or sorted by
objective), whose y data is the per-axis normalisation of that elite's selected measures and
whose colour position is the normalised objective of the same elite -/
theorem parallel_lines (los his : List Rat) (order : Option (List Int)) (es : List Elite)
    (sort : Bool) (vmin vmax : Option Rat) (lines : List ParLine) (cl : Rat × Rat)
    (h : parallelPlot los his order es sort vmin vmax = .ok (lines, cl)) :
    ∃ cols l hh, pick los cols = some l ∧ pick his cols = some hh ∧
      (order = none → cols = List.range los.length) ∧
      clim (es.map (·.obj)) vmin vmax = .ok cl ∧
      lines.length = es.length ∧
      ∀ (k : Nat) (e : Elite), (if sort then sortByObj es else es)[k]? = some e →
        ∃ ys, pick e.meas cols = some ys ∧
          lines[k]? = some ⟨e.obj, normClip cl.1 cl.2 e.obj, normYs (axesLo l hh) (axesHi l hh) ys⟩ := by
  unfold parallelPlot at h
  split at h
  · simp at h
  · rename_i cols hcols
    cases hc : clim (es.map (·.obj)) vmin vmax with
    | error e => simp [hc] at h
    | ok cl' =>
      obtain ⟨lo, hi⟩ := cl'
      simp only [hc] at h
      cases hl : pick los cols with
      | none => simp [hl] at h
      | some l =>
        cases hh : pick his cols with
        | none => simp [hl, hh] at h
        | some hv =>
          simp only [hl, hh] at h
          split at h
          · rename_i lines' hlines
            simp only [Except.ok.injEq, Prod.mk.injEq] at h
            obtain ⟨rfl, rfl⟩ := h
            have hmap := allSome_eq_some _ _ hlines
            refine ⟨cols, l, hv, hl, hh, ?_, rfl, ?_, ?_⟩
            · intro hnone
              subst hnone
              simp only [parCols, Option.some.injEq] at hcols
              exact hcols.symm
            · have hlen := congrArg List.length hmap
              simp only [List.length_map] at hlen
              rw [← hlen]
              cases sort
              · simp
              · simp [(sortByObj_perm es).length_eq]
            · intro k e hk
              have hk' : (List.map (fun e => (pick e.meas cols).map
                    (fun ys => (⟨e.obj, normClip lo hi e.obj, normYs (axesLo l hv) (axesHi l hv) ys⟩ : ParLine)))
                    (if sort = true then sortByObj es else es))[k]?
                  = some ((pick e.meas cols).map
                    (fun ys => (⟨e.obj, normClip lo hi e.obj, normYs (axesLo l hv) (axesHi l hv) ys⟩ : ParLine))) := by
                rw [List.getElem?_map, hk]; rfl
              cases hp : pick e.meas cols with
              | none =>
                rw [hmap, List.getElem?_map, hp] at hk'
                cases hy : lines'[k]? <;> simp [hy] at hk'
              | some ys =>
                rw [hp] at hk'
                exact ⟨ys, rfl, getElem?_of_map_some _ _ hmap k _ hk'⟩
          · simp at h

/-! ## T20.6 colour limits -/

theorem minL_spec (xs : List Rat) (m : Rat) (h : minL xs = some m) :
    m ∈ xs ∧ ∀ x ∈ xs, m ≤ x := by
  induction xs generalizing m with
  | nil => simp [minL] at h
  | cons x xs ih =>
    simp only [minL] at h
    cases hm : minL xs with
    | none =>
      simp only [hm, Option.some.injEq] at h
      subst h
      cases xs with
      | nil => simp
      | cons y ys =>
        simp only [minL] at hm
        cases h2 : minL ys <;> simp [h2] at hm
    | some m' =>
      simp only [hm, Option.some.injEq] at h
      obtain ⟨hmem, hle⟩ := ih m' hm
      by_cases hx : x ≤ m'
      · simp only [hx, if_true] at h
        subst h
        refine ⟨by simp, ?_⟩
        intro y hy
        rcases List.mem_cons.mp hy with rfl | hy'
        · exact le_refl _
        · exact le_trans hx (hle y hy')
      · simp only [hx, if_false] at h
        subst h
        refine ⟨List.mem_cons_of_mem _ hmem, ?_⟩
        intro y hy
        rcases List.mem_cons.mp hy with rfl | hy'
        · exact le_of_lt (not_le.mp hx)
        · exact hle y hy'

theorem maxL_spec (xs : List Rat) (m : Rat) (h : maxL xs = some m) :
    m ∈ xs ∧ ∀ x ∈ xs, x ≤ m := by
  induction xs generalizing m with
  | nil => simp [maxL] at h
  | cons x xs ih =>
    simp only [maxL] at h
    cases hm : maxL xs with
    | none =>
      simp only [hm, Option.some.injEq] at h
      subst h
      cases xs with
      | nil => simp
      | cons y ys =>
        simp only [maxL] at hm
        cases h2 : maxL ys <;> simp [h2] at hm
    | some m' =>
      simp only [hm, Option.some.injEq] at h
      obtain ⟨hmem, hle⟩ := ih m' hm
      by_cases hx : m' ≤ x
      · simp only [hx, if_true] at h
        subst h
        refine ⟨by simp, ?_⟩
        intro y hy
        rcases List.mem_cons.mp hy with rfl | hy'
        · exact le_refl _
        · exact le_trans (hle y hy') hx
      · simp only [hx, if_false] at h
        subst h
        refine ⟨List.mem_cons_of_mem _ hmem, ?_⟩
        intro y hy
        rcases List.mem_cons.mp hy with rfl | hy'
        · exact le_of_lt (not_le.mp hx)
        · exact hle y hy'

theorem minL_isSome (xs : List Rat) (h : xs ≠ []) : ∃ m, minL xs = some m := by
  cases xs with
  | nil => exact absurd rfl h
  | cons x xs => simp only [minL]; cases minL xs <;> simp

theorem maxL_isSome (xs : List Rat) (h : xs ≠ []) : ∃ m, maxL xs = some m := by
  cases xs with
  | nil => exact absurd rfl h
  | cons x xs => simp only [maxL]; cases maxL xs <;> simp

theorem clim_default (objs : List Rat) (lo hi : Rat) (h : clim objs none none = .ok (lo, hi)) :
    minL objs = some lo ∧ maxL objs = some hi := by
  unfold clim at h
  cases h1 : minL objs <;> cases h2 : maxL objs <;> simp_all

/-- T20.6 `clim_contains`: the default colour limits contain every stored objective -/
theorem clim_contains (objs : List Rat) (lo hi : Rat) (h : clim objs none none = .ok (lo, hi)) :
    ∀ o ∈ objs, lo ≤ o ∧ o ≤ hi := by
  obtain ⟨h1, h2⟩ := clim_default objs lo hi h
  intro o ho
  exact ⟨(minL_spec objs lo h1).2 o ho, (maxL_spec objs hi h2).2 o ho⟩

/-- T20.6 `clim_attained`: with at least one stored objective the default limits exist and are
attained: they are exactly the range (min, max) of the stored objectives -/
theorem clim_attained (objs : List Rat) (hne : objs ≠ []) :
    ∃ lo hi, clim objs none none = .ok (lo, hi) ∧ lo ∈ objs ∧ hi ∈ objs := by
  obtain ⟨lo, hlo⟩ := minL_isSome objs hne
  obtain ⟨hi, hhi⟩ := maxL_isSome objs hne
  refine ⟨lo, hi, ?_, (minL_spec objs lo hlo).1, (maxL_spec objs hi hhi).1⟩
  simp [clim, hlo, hhi]

/-- explicit limits are used as given; a one-sided explicit limit leaves the other at the
extreme stored objective -/
theorem clim_explicit (objs : List Rat) (a b : Rat) :
    clim objs (some a) (some b) = .ok (a, b) ∧
    (∀ hi, maxL objs = some hi → clim objs (some a) none = .ok (a, hi)) ∧
    (∀ lo, minL objs = some lo → clim objs none (some b) = .ok (lo, b)) := by
  refine ⟨by simp [clim], ?_, ?_⟩
  · intro hi h; simp [clim, h]
  · intro lo h; simp [clim, h]

/-! ## 2-D CVT heat-map: the colour assignment (polygon geometry is not modelled) -/

theorem widen_contains (p : Rat × Rat) (h : p.1 ≤ p.2) :
    (widen p).1 ≤ p.1 ∧ p.2 ≤ (widen p).2 ∧ (p.1 < p.2 → widen p = p) ∧ (widen p).1 < (widen p).2 := by
  unfold widen
  by_cases he : p.1 = p.2
  · simp only [he, if_true]
    refine ⟨by linarith, by linarith, fun hlt => absurd hlt (lt_irrefl _), by linarith⟩
  · simp only [he, if_false]
    exact ⟨le_refl _, le_refl _, by simp, lt_of_le_of_ne h he⟩

/-- partial clause, modelled part: the face-colour parameter of the polygon of centroid `i`
is the normalised objective of the elite stored at centroid `i`, and the polygon is blank
(transparent) iff that cell is empty -/
theorem cvt2_cell_colour (cells : Nat) (es : List Elite) (vmin vmax : Option Rat)
    (cs : List (Option Rat)) (cl : Rat × Rat) (hd : Distinct es)
    (h : cvt2Cells cells es vmin vmax = .ok (cs, cl)) :
    cs.length = cells ∧
    (∀ i, i < cells → cs[i]? = some ((cellObj es i).map (fun o => clip01 ((o - cl.1) / (cl.2 - cl.1))))) ∧
    (∀ i, i < cells → (cs[i]? = some none ↔ ∀ e ∈ es, e.index ≠ i)) := by
  unfold cvt2Cells at h
  cases hc : clim ((es.filter (fun e => decide (e.index < cells))).map (·.obj)) vmin vmax with
  | error e => simp [hc] at h
  | ok cl' =>
    simp only [hc, Except.ok.injEq, Prod.mk.injEq] at h
    obtain ⟨rfl, rfl⟩ := h
    have hcell : ∀ i, lastObj es i = cellObj es i := by
      intro i
      unfold lastObj
      apply lastBy_eq_cellObj _ _ _ hd
      intro e _
      simp
    have hget : ∀ i, i < cells →
        ((List.range cells).map (fun i => (lastObj es i).map
          (fun o => clip01 ((o - (widen cl').1) / ((widen cl').2 - (widen cl').1)))))[i]?
        = some ((cellObj es i).map
          (fun o => clip01 ((o - (widen cl').1) / ((widen cl').2 - (widen cl').1)))) := by
      intro i hi
      rw [List.getElem?_map, getElem?_range_if]
      simp [hi, hcell]
    refine ⟨by simp, hget, ?_⟩
    intro i hi
    rw [hget i hi]
    simp only [Option.some.injEq, Option.map_eq_none_iff]
    exact cellObj_none_iff es i

/-! ## T20.6 on the 1-D path: `np.nanmin / np.nanmax` over the drawn cells is the range of the
stored objectives -/

theorem cellObj_some_mem (es : List Elite) (i : Nat) (o : Rat) (h : cellObj es i = some o) :
    ∃ e ∈ es, e.obj = o := by
  unfold cellObj at h
  cases hf : es.find? (fun e => e.index == i) with
  | none => simp [hf] at h
  | some e =>
    simp only [hf, Option.map_some, Option.some.injEq] at h
    exact ⟨e, List.mem_of_find?_eq_some hf, h⟩

theorem cells_mem_iff (es : List Elite) (hd : Distinct es) (cells : List (Option Rat))
    (h1 : ∀ (p : Nat) (v : Option Rat), cells[p]? = some v → ∃ i, v = cellObj es i)
    (h2 : ∀ e ∈ es, ∃ p : Nat, cells[p]? = some (cellObj es e.index)) (o : Rat) :
    o ∈ cells.filterMap id ↔ ∃ e ∈ es, e.obj = o := by
  rw [List.mem_filterMap]
  constructor
  · rintro ⟨v, hv, hvo⟩
    obtain ⟨p, hp⟩ := List.mem_iff_getElem?.mp hv
    obtain ⟨i, hi⟩ := h1 p v hp
    simp only [id] at hvo
    rw [hvo] at hi
    exact cellObj_some_mem es i o hi.symm
  · rintro ⟨e, he, heo⟩
    obtain ⟨p, hp⟩ := h2 e he
    refine ⟨cellObj es e.index, List.mem_of_getElem? hp, ?_⟩
    rw [cellObj_some_of_mem es hd e he, heo]
    rfl

/-- default limits of a 1-D heat-map whose drawn cells enumerate the stored elites: they
contain every stored objective and both are attained -/
theorem heatmap1d_clim (es : List Elite) (hd : Distinct es) (edges : List Rat)
    (cells : List (Option Rat))
    (h1 : ∀ (p : Nat) (v : Option Rat), cells[p]? = some v → ∃ i, v = cellObj es i)
    (h2 : ∀ e ∈ es, ∃ p : Nat, cells[p]? = some (cellObj es e.index))
    (hm : Heatmap) (h : heatmap1d edges cells none none = .ok hm) :
    hm.colors = [cells] ∧ hm.xEdges = edges ∧ hm.yEdges = [0, 1] ∧
    (∀ e ∈ es, hm.clim.1 ≤ e.obj ∧ e.obj ≤ hm.clim.2) ∧
    (∃ e ∈ es, e.obj = hm.clim.1) ∧ (∃ e ∈ es, e.obj = hm.clim.2) := by
  unfold heatmap1d at h
  cases hc : clim (cells.filterMap id) none none with
  | error e => rw [hc] at h; simp at h
  | ok cl =>
    obtain ⟨lo, hi⟩ := cl
    rw [hc] at h
    simp only [Except.ok.injEq] at h
    subst h
    have hiff := cells_mem_iff es hd cells h1 h2
    obtain ⟨hmin, hmax⟩ := clim_default _ lo hi hc
    refine ⟨rfl, rfl, rfl, ?_, ?_, ?_⟩
    · intro e he
      exact clim_contains _ lo hi hc e.obj ((hiff e.obj).mpr ⟨e, he, rfl⟩)
    · exact (hiff lo).mp (minL_spec _ lo hmin).1
    · exact (hiff hi).mp (maxL_spec _ hi hmax).1

/-- T20.6 for the 1-D grid heat-map -/
theorem grid1d_clim (d : Nat) (b0 : List Rat) (es : List Elite) (hd : Distinct es)
    (hr : ∀ e ∈ es, e.index < d) (hm : Heatmap) (h : gridHeatmap1 d b0 es none none = .ok hm) :
    hm.colors = [grid1dColors d es] ∧ hm.xEdges = b0 ∧
    (∀ e ∈ es, hm.clim.1 ≤ e.obj ∧ e.obj ≤ hm.clim.2) ∧
    (∃ e ∈ es, e.obj = hm.clim.1) ∧ (∃ e ∈ es, e.obj = hm.clim.2) := by
  unfold gridHeatmap1 at h
  split at h
  · simp at h
  · have := heatmap1d_clim es hd b0 (grid1dColors d es) ?_ ?_ hm h
    · exact ⟨this.1, this.2.1, this.2.2.2⟩
    · intro p v hp
      have hlt : p < d := by
        have := getElem?_lt _ _ _ hp
        simpa [grid1dColors] using this
      rw [grid1d_cell_colour d es hd p hlt] at hp
      exact ⟨p, (Option.some.inj hp).symm⟩
    · intro e he
      exact ⟨e.index, grid1d_cell_colour d es hd e.index (hr e he)⟩

/-- T20.6 for the 1-D CVT heat-map -/
theorem cvt1d_clim (lo hi : Rat) (cs : List Rat) (es : List Elite) (hd : Distinct es)
    (hr : ∀ e ∈ es, e.index < cs.length) (hm : Heatmap)
    (h : cvtHeatmap1 lo hi cs es none none = .ok hm) :
    hm.colors = [cvt1dColors cs es] ∧ hm.xEdges = cvtEdges lo hi cs ∧
    (∀ e ∈ es, hm.clim.1 ≤ e.obj ∧ e.obj ≤ hm.clim.2) ∧
    (∃ e ∈ es, e.obj = hm.clim.1) ∧ (∃ e ∈ es, e.obj = hm.clim.2) := by
  unfold cvtHeatmap1 at h
  split at h
  · simp at h
  · have := heatmap1d_clim es hd (cvtEdges lo hi cs) (cvt1dColors cs es) ?_ ?_ hm h
    · exact ⟨this.1, this.2.1, this.2.2.2⟩
    · intro p v hp
      have hlt : p < cs.length := by
        have := getElem?_lt _ _ _ hp
        simpa [cvt1dColors] using this
      have hlt' : p < (sortIdx cs).length := by rw [sortIdx_length]; exact hlt
      have hi' : (sortIdx cs)[p]? = some (sortIdx cs)[p] := List.getElem?_eq_getElem hlt'
      rw [cvt1d_cell_colour cs es hd hr p _ hi'] at hp
      exact ⟨_, (Option.some.inj hp).symm⟩
    · intro e he
      exact ⟨invIdx (sortIdx cs) e.index,
        cvt1d_cell_colour cs es hd hr _ e.index (sortIdx_inv cs e.index (hr e he))⟩

/-- the 2-D grid heat-map hands `pcolormesh` exactly `gridColors`, `gridEdges` and the limits
of the stored objectives -/
theorem gridHeatmap2_fields (dims : Nat × Nat) (b0 b1 : List Rat) (es : List Elite) (tr : Bool)
    (vmin vmax : Option Rat) (hm : Heatmap) (h : gridHeatmap2 dims b0 b1 es tr vmin vmax = .ok hm) :
    hm.colors = gridColors dims es tr ∧ (hm.xEdges, hm.yEdges) = gridEdges b0 b1 tr ∧
    clim (es.map (·.obj)) vmin vmax = .ok hm.clim := by
  unfold gridHeatmap2 at h
  split at h
  · simp at h
  · cases hc : clim (es.map (·.obj)) vmin vmax with
    | error e => simp [hc] at h
    | ok cl =>
      simp only [hc, Except.ok.injEq] at h
      subst h
      exact ⟨rfl, rfl, rfl⟩

/-! ## T20.5 for every content (one elite, shared coordinates): degenerate axes are widened -/

theorem axes_getElem (l h : List Rat) (k : Nat) (lo hi : Rat) (hl : l[k]? = some lo)
    (hh : h[k]? = some hi) :
    (axesOf l h)[k]? = some (widen (lo, hi)) ∧ (axesLo l h)[k]? = some (widen (lo, hi)).1 ∧
    (axesHi l h)[k]? = some (widen (lo, hi)).2 := by
  have key : (axesOf l h)[k]? = some (widen (lo, hi)) := by
    unfold axesOf
    induction l generalizing h k with
    | nil => simp at hl
    | cons a as ih =>
      cases h with
      | nil => simp at hh
      | cons b bs =>
        cases k with
        | zero =>
          simp only [List.getElem?_cons_zero, Option.some.injEq] at hl hh
          simp [hl, hh]
        | succ k =>
          simp only [List.getElem?_cons_succ] at hl hh
          simp only [List.zip_cons_cons, List.map_cons, List.getElem?_cons_succ]
          exact ih bs k hl hh
  refine ⟨key, ?_, ?_⟩
  · unfold axesLo; rw [List.getElem?_map, key]; rfl
  · unfold axesHi; rw [List.getElem?_map, key]; rfl

/-- T20.5 `parallel_position`: whenever the bounds of the plotted measures contain the stored
measure (`lo ≤ m ≤ hi`: grid ranges, or min / max of the stored measures — **also when
`lo = hi`**, e.g. an archive with exactly one elite or elites sharing a coordinate), the axis
limits `(lo', hi')` are non-degenerate and contain `[lo, hi]`, and the point drawn for `m` on
axis `k` sits at the relative height `axisFrac lo' hi' m ∈ [0, 1]` of the host axis, i.e.
exactly where axis `k` shows the value `m` -/
theorem parallel_position (l h ys : List Rat) (lo0 hi0 : Rat) (h0l : l[0]? = some lo0)
    (h0h : h[0]? = some hi0) (h0 : lo0 ≤ hi0) (k : Nat) (lo hi m : Rat) (hl : l[k]? = some lo)
    (hh : h[k]? = some hi) (hm : ys[k]? = some m) (hb : lo ≤ m ∧ m ≤ hi) :
    ∃ y' ax0 axk, (axesOf l h)[0]? = some ax0 ∧ (axesOf l h)[k]? = some axk ∧
      (normYs (axesLo l h) (axesHi l h) ys)[k]? = some y' ∧
      ax0.1 < ax0.2 ∧ axk.1 < axk.2 ∧ axk.1 ≤ lo ∧ hi ≤ axk.2 ∧
      axisFrac ax0.1 ax0.2 y' = axisFrac axk.1 axk.2 m ∧
      0 ≤ axisFrac axk.1 axk.2 m ∧ axisFrac axk.1 axk.2 m ≤ 1 := by
  obtain ⟨a0, a0l, a0h⟩ := axes_getElem l h 0 lo0 hi0 h0l h0h
  obtain ⟨ak, akl, akh⟩ := axes_getElem l h k lo hi hl hh
  have w0 := widen_contains (lo0, hi0) h0
  have wk := widen_contains (lo, hi) (le_trans hb.1 hb.2)
  obtain ⟨y', hy', hfrac⟩ := normYs_frac (axesLo l h) (axesHi l h) ys _ _ a0l a0h (ne_of_lt w0.2.2.2)
    k _ _ m akl akh hm
  refine ⟨y', widen (lo0, hi0), widen (lo, hi), a0, ak, hy', w0.2.2.2, wk.2.2.2, wk.1, wk.2.1, hfrac, ?_, ?_⟩
  · unfold axisFrac
    have h1 : (widen (lo, hi)).1 ≤ m := le_trans wk.1 hb.1
    have h2 : (0 : Rat) < (widen (lo, hi)).2 - (widen (lo, hi)).1 := by linarith [wk.2.2.2]
    exact div_nonneg (by linarith) (le_of_lt h2)
  · unfold axisFrac
    have h2 : (0 : Rat) < (widen (lo, hi)).2 - (widen (lo, hi)).1 := by linarith [wk.2.2.2]
    have : m ≤ (widen (lo, hi)).2 := le_trans hb.2 wk.2.1
    rw [div_le_iff₀ h2]
    linarith

/-! ## non-vacuity: concrete archives satisfying the hypotheses, evaluated by the kernel -/

def exElites : List Elite := [⟨0, 1 / 2, [0, 0]⟩, ⟨5, -3, [1, 1]⟩]

/-- a 2 × 3 grid archive holding two elites: the hypotheses of T20.1 / T20.2 hold and the
colour matrices are the expected ones (index 5 unravels to grid index (1, 2)); a 1-D grid
with exactly one elite (D22) -/
theorem nonvacuous_grid :
    exElites.Pairwise (fun a b => a.index ≠ b.index) ∧ (∀ e ∈ exElites, e.index < 2 * 3) ∧
    unravel [2, 3] 5 = [1, 2] ∧
    gridColors (2, 3) exElites false = [[some (1 / 2), none], [none, none], [none, some (-3)]] ∧
    gridColors (2, 3) exElites true = [[some (1 / 2), none, none], [none, none, some (-3)]] ∧
    grid1dColors 3 [⟨1, 4, [1]⟩] = [none, some 4, none] ∧
    gridHeatmap [2, 3] [[0, 1 / 2, 1], [0, 1, 2, 3]] exElites true none none
      = .ok ⟨[[some (1 / 2), none, none], [none, none, some (-3)]], [0, 1, 2, 3], [0, 1 / 2, 1],
             (-3, 1 / 2)⟩ := by
  decide +kernel

/-- three shuffled centroids: `argsort`, its inverse, the cell edges and the cell colours -/
theorem nonvacuous_cvt1d :
    sortIdx [3 / 4, 1 / 4, 1 / 2] = [1, 2, 0] ∧
    (List.range 3).map (invIdx (sortIdx [3 / 4, 1 / 4, 1 / 2])) = [2, 0, 1] ∧
    sortedCentroids [3 / 4, 1 / 4, 1 / 2] = [1 / 4, 1 / 2, 3 / 4] ∧
    cvtEdges 0 1 [3 / 4, 1 / 4, 1 / 2] = [0, 3 / 8, 5 / 8, 1] ∧
    cvt1dColors [3 / 4, 1 / 4, 1 / 2] [⟨0, 1, [3 / 4]⟩, ⟨2, 5, [1 / 2]⟩] = [none, some 5, some 1] ∧
    cvt2Cells 3 [⟨0, 1, []⟩, ⟨2, 5, []⟩] none none = .ok ([some 0, none, some 1], (1, 5)) := by
  decide +kernel

/-- two elites with 3 measures: scatter (transposed), parallel lines (sorted by objective,
axes 2 and 0) and default colour limits -/
theorem nonvacuous_scatter_parallel :
    scatter [⟨0, 1, [3 / 4, 12]⟩, ⟨2, 5, [1 / 2, 11]⟩] true none none
      = .ok ⟨[(12, 3 / 4), (11, 1 / 2)], [1, 5], (1, 5)⟩ ∧
    parallelPlot [0, 10, 0] [1, 18, 4] (some [2, 0]) [⟨0, 5, [3 / 4, 12, 1]⟩, ⟨2, 1, [1 / 2, 11, 3]⟩]
        true (some 0) (some 4)
      = .ok ([⟨1, 1 / 4, [3, 2]⟩, ⟨5, 1, [1, 3]⟩], (0, 4)) ∧
    clim [1, 5, -2] none none = .ok (-2, 5) ∧
    axisFrac 10 18 12 = 1 / 4 ∧
    -- exactly one elite in an archive whose bounds are the stored measures (lower = upper):
    -- every axis is widened and the measures are drawn mid-axis
    parallelAxes [1 / 2, 2, 3] [1 / 2, 2, 3] none
      = some [(49 / 100, 51 / 100), (199 / 100, 201 / 100), (299 / 100, 301 / 100)] ∧
    parallelPlot [1 / 2, 2, 3] [1 / 2, 2, 3] none [⟨0, 1, [1 / 2, 2, 3]⟩] false none none
      = .ok ([⟨1, 0, [1 / 2, 1 / 2, 1 / 2]⟩], (1, 1)) := by
  decide +kernel

end Pyribs.C20
