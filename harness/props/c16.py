"""C16 — BanditScheduler keeps num_active emitters and selects them by UCB1.

Correspondence: the real `ribs.schedulers.BanditScheduler` (spy emitters with and
without a `restarts` counter, recording archives that by stratum accept
everything / something / nothing) and the Lean `Bandit` model
(`PyribsModel/Bandit.lean`, machine `bandit`) run in lock step.  The UCB1 scores
are computed by the harness from the history it recorded itself (exact rationals
for success/selection, a bracket for zeta*sqrt(ln T / selection)); the
implementation's activation is fed to the model as an angelic choice which the
model checks for admissibility.

Oracle: the property statement evaluated on the recorded history (Python only).
"""
import copy
import math
import pickle
import random
import warnings
from fractions import Fraction

import numpy as np

from core import Driver, Failure, nl, q

ID = "C16"
from genf import translate  # noqa: E402,F401  (regenerates lean/PyribsGen/Formulas.lean from the tree under check)
PROOF_MODULES = ["PyribsProofs.C16", "PyribsGen.Formulas", "PyribsProofs.GenFCtl", "PyribsGen.Control",
                 "PyribsProofs.GenFLoop"]
THEOREMS = [
    "Pyribs.GenFProofs.bandit_tell_loop_from_source",
    "Pyribs.GenFProofs.bandit_tell_loop_inactive",
    "Pyribs.GenFProofs.bandit_tell_init_from_source",
    # the UCB1 score of BanditScheduler.ask, regenerated from the source
    "Pyribs.GenFProofs.ucb1_matches",
    "Pyribs.GenFProofs.ucb_mono_success",
    "Pyribs.GenFProofs.ucb_zeta_zero",
    "Pyribs.GenFProofs.ucb_no_bonus_before_success",
    "Pyribs.GenFProofs.ucb_mono_zeta",
    "Pyribs.C16.num_active_invariant",
    "Pyribs.C16.num_active_run",
    "Pyribs.C16.ask_never_index_error",
    "Pyribs.C16.tell_ok",
    "Pyribs.C16.asks_only_active",
    "Pyribs.C16.tells_only_active",
    "Pyribs.C16.tell_slices",
    "Pyribs.C16.counts_exact",
    "Pyribs.C16.selection_order",
    "Pyribs.C16.never_selected_first",
    "Pyribs.C16.activateTop_admissible",
    "Pyribs.C16.model_choice_accepted",
    "Pyribs.C16.terminated_keeps",
    "Pyribs.C16.all_resets",
    "Pyribs.C16.protocol",
    "Pyribs.C16.rejected_unchanged",
    "Pyribs.C16.consistent_run",
    "Pyribs.C16.tellSpecFrom_partition",
    "Pyribs.C16.nonvacuous",
]
RULE = ("histories of ask / tell (plus about 10 % out-of-order and ask_dqd / tell_dqd calls) on a BanditScheduler with "
        "pool 1-8, num_active 1..pool, zeta in {0, 0.05, 1, 10}, both reselect modes, both add modes, with/without "
        "result archive, spies with and without a restarts counter restarting at scripted tells, batch sizes 0-4 "
        "changing every iteration; pickle round trips / deep copies of the scheduler between ask and tell and after tell "
        "(the run continues on the restored object); a stratum with two BanditSchedulers alive at once, calls "
        "interleaved; with/without extra fields passed to tell (routed like objective and measures), "
        "main archive float64 or float32 with evaluation values not representable in float32; the caller re-using the list object it passed as emitter_pool (reverse / shuffle / rotate / pop / clear / overwrite / extend, straight after construction or between calls: the scheduler keeps the pool it was constructed with); tells that forward a whole evaluation record including a `solution` entry of the right length (tell(**record): the rows routed stay the ones the emitters generated); strata by what the archive accepts: everything, something, nothing at all "
        "(threshold_min above all objectives), nothing for a stretch then something, plus a restart-heavy and a "
        "protocol stratum, and a zeta = 0 stratum (each row acceptable with one probability, per-emitter batch sizes 1-8, so that close "
        "success rates meet very different selection counts and any exploration bonus would flip a comparison). A case is non-trivial when some accepted ask after the first has both emitters to "
        "reselect and a pool larger than num_active (so that a selection by score actually happens); counted once "
        "per distinct op list")
PARTIAL = []
ASSUMPTIONS = [
    "a scheduler restored by pickle.loads(pickle.dumps(s)) or copy.deepcopy(s) must behave exactly like the original "
    "would have; schedulers alive at the same time must not influence each other",
    "the pool of a BanditScheduler is the sequence of emitters passed to the constructor, as it was at construction; "
    "what the caller does with its list object afterwards does not change the pool",
    "a `solution` entry among the keyword fields of tell (right length) does not replace the solutions handed out by "
    "ask: archives and emitters receive the rows the emitters generated",
    "constructor options whose value equals the documented default (reselect='terminated', zeta=0.05, "
    "result_archive=None, add_mode='batch'; archive extra_fields None) are omitted from the call; model and oracle use "
    "the documented value",
    "`_selection` and `_success` are read by attribute access (BanditScheduler has no public accessor for its counts)",
    "'solutions inserted' is read as: rows whose add-feedback status returned by the archive is non-zero. "
    "Documented reading, not a violation: in batch mode several rows of one batch aimed at the same empty cell all "
    "report status 2 although only one of them is stored, so the success count can differ between the add modes",
    "'never selected' is read as: selection count 0, i.e. the emitter has not generated a row yet (the score formula "
    "divides by the selection count)",
    "UCB1 scores are computed by the harness in exact rationals for success/selection and in floating point with an "
    "explicit relative radius 2^-30 for zeta*sqrt(ln T / selection); overlapping brackets are ties and either order "
    "is accepted",
    "total success T = 0: the formula is undefined (ln 0); reading adopted: never-selected emitters first, any order "
    "among previously selected ones",
    "the first ask activates the first num_active pool members (class docstring); compared with the model only, the "
    "oracle accepts any choice there because all emitters are never-selected",
    "out-of-order calls (RuntimeError) and ask_dqd / tell_dqd (NotImplementedError) are compared with the model only",
    "every per-row argument an emitter is told (objective, measures, every extra field; BanditScheduler has no "
    "DQD path, so no Jacobian) must be exactly its own rows of what tell was given, value and dtype; what an archive "
    "is handed is compared in that archive's own dtype",
]
TECHNIQUE = "Lean 4 model + theorems; lock-step correspondence with angelic tie-breaking; history oracle"
LEVEL_TEXT = ("proof (unbounded: every pool size >= num_active, both reselect modes, arbitrary restart counters, batch "
              "sizes, score assignments and call histories) about the bandit model, with the UCB1 scores as a "
              "parameter; the scores themselves (log, sqrt) are computed by the harness as brackets and the "
              "implementation's selection is checked for admissibility on generated histories")
TRUSTED_EXTRA = [
    "the UCB1 score brackets computed by the harness (fractions + math.log / math.sqrt, relative radius 2^-30)",
    "the spy emitters and the recording archive subclasses of the harness; attribute access to _selection/_success",
]

SOLDIM = 3
MDIM = 2
RADIUS = Fraction(1, 2**30)
STATS = {}


def stat(key, k=1):
    STATS[key] = STATS.get(key, 0) + k


# ---------------------------------------------------------------------------


def make_eval(it, n, seed, kind, hot, counter, noise=False):
    """objective / measures / extra fields for the n rows of the batch asked at op `it`.

    With `noise` the float values carry a perturbation < 3e-4 that is not representable in float32; row
    positions are decoded by rounding.

    kind 'all'     : every row beats everything stored so far (objective grows with a global counter)
    kind 'some'    : random cells and objectives
    kind 'nothing' : GridArchive with threshold_min = 100; objectives < 4 unless `hot`
    """
    rng = random.Random(seed)
    p = np.arange(n)
    frac = (p + 1) / 64.0
    cx = np.array([rng.randrange(4) for _ in range(n)], dtype=float)
    cy = np.array([rng.randrange(4) for _ in range(n)], dtype=float)
    eps = (lambda j: (((p * 7 + it * 3 + j) % 11) + 1) * 0.1 / 4096.0) if noise else (lambda j: np.zeros(n))
    if kind == "all":
        obj = counter + p + frac + eps(0)
    elif kind == "some":
        obj = np.array([rng.randrange(3) for _ in range(n)], dtype=float) + frac + eps(0)
    else:
        obj = np.array([rng.randrange(4) for _ in range(n)], dtype=float) + frac + eps(0)
        # `hot`: True / False for the whole tell, or the probability with which each single row is acceptable
        mask = np.full(n, hot) if isinstance(hot, bool) else np.array([rng.random() < hot for _ in range(n)], dtype=bool)
        obj = obj + np.where(mask, 200.0 + counter, 0.0)
    meas = np.stack([cx + frac + eps(1), cy + ((it % 60) + 1) / 64.0 + eps(2)], axis=1).reshape(n, MDIM)
    fields = {"tag": (it * 1000 + p).astype(np.int64),
              "vec": np.stack([p.astype(float) + eps(3), np.full(n, float(it)) + eps(4)], axis=1).reshape(n, 2)}
    return obj, meas, fields


def field_rows(name, arr, it):
    """row positions a (slice of an) extra-field array belongs to; None if it does not decode"""
    arr = np.asarray(arr)
    try:
        if name == "tag":
            if arr.ndim != 1 or any(int(x) // 1000 != it for x in arr):
                return None
            return [int(x) % 1000 for x in arr]
        if name == "vec":
            if arr.ndim != 2 or arr.shape[1] != 2 or any(round(float(x)) != it for x in arr[:, 1]):
                return None
            return [int(round(float(x))) for x in arr[:, 0]]
    except (TypeError, ValueError, IndexError):
        return None
    return None


def meas_rows(arr, it):
    arr = np.asarray(arr)
    if arr.ndim != 2 or arr.shape[1] != MDIM:
        return None
    near = lambda v: float(round(v)) if abs(v - round(v)) < 0.05 else v
    if any(near((float(y) % 1.0) * 64 - 1) != it % 60 for y in arr[:, 1]):
        return None
    out = [near((float(x) % 1.0) * 64 - 1) for x in arr[:, 0]]
    if any(x != int(x) or x < 0 for x in out):
        return None
    return [int(x) for x in out]


def sols_of(arr):
    arr = np.asarray(arr)
    if arr.ndim != 2 or arr.shape[1] != SOLDIM:
        return None
    return [(int(a), int(b), int(c)) for a, b, c in arr]


_CLS = {}


def _classes():
    """Spy emitters as module-level classes (created on first use), so that a BanditScheduler holding them survives
    pickle / deepcopy; they record into `self._log` and read the scripted restarts from `self._ctl`, both shared by
    all spies (and archives) of one scheduler."""
    if _CLS:
        return _CLS
    from ribs.emitters import EmitterBase

    class BSpy(EmitterBase):

        def __init__(self, archive, idx, log, ctl):
            EmitterBase.__init__(self, archive, solution_dim=SOLDIM, bounds=None)
            self.idx = idx
            self.next_n = 0
            self.cur_it = -1
            self._log, self._ctl = log, ctl

        @property
        def batch_size(self):
            return 7

        def ask(self):
            n = self.next_n
            out = np.zeros((n, SOLDIM))
            out[:, 0] = self.idx
            out[:, 1] = self.cur_it
            out[:, 2] = np.arange(n)
            self._log.append({"ev": "ask", "em": self.idx, "out": out.copy()})
            return out

        def tell(self, solution, objective, measures, add_info, **fields):
            self._log.append({"ev": "tell", "em": self.idx, "solution": np.array(solution),
                              "objective": np.array(objective), "measures": np.array(measures),
                              "fields": {k: np.array(v) for k, v in fields.items()},
                              "add_info": {k: np.array(v) for k, v in add_info.items()}})
            if self.idx in self._ctl["restart_now"] and hasattr(self, "restarts"):
                self.restarts += 1

    class BCounterSpy(BSpy):

        def __init__(self, archive, idx, log, ctl, start):
            BSpy.__init__(self, archive, idx, log, ctl)
            self.restarts = start

    for name, c in {"BSpy": BSpy, "BCounterSpy": BCounterSpy}.items():
        c.__module__, c.__qualname__, c.__name__ = __name__, name, name
        globals()[name] = c
        _CLS[name] = c
    return _CLS


def build(case):
    from ribs.archives import GridArchive
    from ribs.schedulers import BanditScheduler
    from props.c04 import recording
    log = []
    kw = {}
    if case["archive"] in ("nothing", "nothing-then-some"):
        kw = {"learning_rate": 0.5, "threshold_min": 100.0}
    extra = {"tag": ((), np.int64), "vec": ((2,), np.float64)} if case.get("extra") else None
    xk = {} if extra is None else {"extra_fields": extra}
    mk = lambda r, **k: recording(GridArchive, log, r)(solution_dim=SOLDIM, dims=[4, 4], ranges=[(0, 4), (0, 4)],
                                                       **xk, **k)
    if case.get("dtype") == "f32":
        kw["dtype"] = np.float32  # main archive only: the result archive stays float64
    archive = mk(False, **kw)
    result = mk(True) if case["result"] else None
    ctl = {"restart_now": []}
    cl = _classes()
    spies = [cl["BCounterSpy"](archive, i, log, ctl, c["start"]) if c["counter"] else cl["BSpy"](archive, i, log, ctl)
             for i, c in enumerate(case["emitters"])]
    # options whose value is the documented default (reselect="terminated", zeta=0.05, result_archive=None,
    # add_mode="batch") are left to the constructor; the model and the oracle use the documented value
    opts = {}
    if case["reselect"] != "terminated":
        opts["reselect"] = case["reselect"]
    if not (isinstance(case["zeta"], float) and case["zeta"] == 0.05):
        opts["zeta"] = case["zeta"]
    if result is not None:
        opts["result_archive"] = result
    if case["mode"] != "batch":
        opts["add_mode"] = case["mode"]
    # the list object handed to the constructor belongs to the caller, who goes on using it (see the `mutate-pool` ops);
    # the harness keeps its own list of the spies
    given = list(spies)
    sched = BanditScheduler(archive, given, case["num_active"], **opts)
    return sched, archive, result, spies, log, ctl, given


# ---------------------------------------------------------------------------
# generator


def gen_with(kind, rng, style="plain"):
    if kind in ("nothing", "nothing-then-some") or style == "restarts":
        n = rng.choice([3, 4, 5, 6, 7, 8])
        k = rng.randint(1, max(1, n // 2))
    else:
        n = rng.choice([1, 2, 3, 4, 5, 6, 8])
        k = rng.randint(1, n)
    reselect = rng.choice(["terminated", "all"]) if style != "restarts" else "terminated"
    p_counter = {"plain": rng.choice([0.0, 0.5, 1.0]), "restarts": rng.choice([0.6, 1.0]), "protocol": 0.5}[style]
    emitters = [{"counter": rng.random() < p_counter, "start": rng.choice([0, 0, 0, 3])} for _ in range(n)]
    case = {
        "archive": kind, "pool": n, "num_active": k, "zeta": rng.choice([0.0, 0.05, 0.05, 1.0, 10.0]),
        "reselect": reselect, "mode": rng.choice(["batch", "batch", "single"]), "result": rng.random() < 0.3,
        "emitters": emitters,
        "extra": rng.random() < 0.5, "dtype": rng.choice(["f64", "f64", "f32"]), "noise": rng.random() < 0.5,
    }
    iters = rng.randint(3, 12)
    p_illegal = 0.35 if style == "protocol" else rng.choice([0.0, 0.0, 0.1])
    p_restart = {"plain": 0.25, "restarts": 0.5, "protocol": 0.2}[style]
    sizes = rng.choice([[0, 1, 2, 3, 4], [1, 2], [2], [0, 0, 1, 3]])
    p_snap = rng.choice([0.0, 0.0, 0.1, 0.25])
    cold = rng.randint(3, iters) if kind == "nothing-then-some" else 0
    ops = []
    for t in range(iters):
        for name in ("ask", "tell"):
            while rng.random() < p_illegal:
                bad = rng.choice(["askdqd", "telldqd", "tell" if name == "ask" else "ask"])
                ops.append(mk_op(bad, rng, n, sizes, p_restart, kind, t, cold))
            ops.append(mk_op(name, rng, n, sizes, p_restart, kind, t, cold))
            if rng.random() < p_snap:
                # checkpoint (pickle round trip) / deep copy between ask and tell or after a tell; the run goes on
                # with the restored scheduler
                ops.append({"op": rng.choice(["pickle", "pickle", "deepcopy"])})
    case["ops"] = ops
    return decorate(case, rng)


MUTATIONS = ["reverse", "reverse", "clear", "pop", "rotate", "sort", "duplicate", "overwrite", "extend"]


def decorate(case, rng):
    """What the caller does around the calls, drawn from a derived generator after everything else (so the histories
    themselves stay as they were):
    * the caller goes on using the list it passed as `emitter_pool` -- reverses, sorts, rotates, clears, overwrites or
      extends it -- right after construction or between calls; the scheduler must keep working on the pool it was
      constructed with;
    * the caller forwards a complete evaluation record, `scheduler.tell(**record)`, which contains a `solution` entry
      of the right length (its own post-processed copy of what ask returned); the rows routed must stay the ones the
      emitters generated."""
    rr = random.Random(rng.randrange(1 << 30))
    ops = case["ops"]
    p_rec = rr.choice([0.0, 0.0, 0.25, 0.6])
    for op in ops:
        if op["op"] == "tell" and rr.random() < p_rec:
            op["record"] = rr.choice(["shifted", "reversed", "zeros", "rounded"])
    if rr.random() < 0.45:
        for _ in range(rr.choice([1, 1, 2, 3])):
            # position 0 = straight after the constructor; otherwise early in the history (what follows is judged)
            at = 0 if rr.random() < 0.35 else rr.randint(0, max(0, min(len(ops), 8)))
            ops.insert(at, {"op": "mutate-pool", "how": rr.choice(MUTATIONS), "seed": rr.randrange(1 << 30)})
    return case


def gen_zeta0(rng):
    """zeta = 0 (pure exploitation): histories in which the exploitation terms of previously selected emitters are
    close while their selection counts differ widely, so that any exploration bonus would flip a comparison.  Each
    row is acceptable with one probability for all emitters (threshold_min above the other objectives), every emitter
    has its own batch size, (nearly) every slot is reselected at every ask."""
    n = rng.choice([3, 3, 4, 5])
    k = rng.choice([1, 1, 2])
    base = [rng.choice([1, 1, 2, 4, 8]) for _ in range(n)]
    case = {
        "archive": "nothing-then-some", "pool": n, "num_active": k, "zeta": rng.choice([0.0, 0]),
        "reselect": rng.choice(["all", "all", "terminated"]), "mode": rng.choice(["batch", "batch", "single"]),
        "result": False, "emitters": [{"counter": False, "start": 0} for _ in range(n)],
        "extra": False, "dtype": "f64", "noise": False,
    }
    p_hot = rng.choice([0.3, 0.5, 0.7])
    ops = []
    for _ in range(rng.randint(12, 24)):
        ops.append({"op": "ask", "ns": list(base)})
        ops.append({"op": "tell", "seed": rng.randrange(1 << 30), "restart": [], "hot": p_hot})
    case["ops"] = ops
    return decorate(case, rng)


def gen_large_pool(rng):
    """pools of 17, 24, 40, 100 emitters, num_active 1..5, unequal batch sizes, histories long enough for every
    emitter to have been selected (so that finite, different UCB1 scores compete at the reselections)"""
    n = rng.choice([17, 17, 24, 24, 40, 100])
    k = rng.randint(1, 5)
    case = {
        "archive": "some", "pool": n, "num_active": k, "zeta": rng.choice([0.0, 0.05, 0.05, 1.0]),
        "reselect": rng.choice(["all", "all", "terminated"]), "mode": "batch", "result": False,
        "emitters": [{"counter": False, "start": 0} for _ in range(n)],
        "extra": False, "dtype": "f64", "noise": False,
    }
    ops = []
    for _ in range(-(-n // k) + rng.randint(3, 8)):
        ops.append({"op": "ask", "ns": [rng.choice([1, 2, 3, 4]) for _ in range(n)]})
        ops.append({"op": "tell", "seed": rng.randrange(1 << 30), "restart": [], "hot": False})
    case["ops"] = ops
    return decorate(case, rng)


def mk_op(name, rng, n, sizes, p_restart, kind, t, cold):
    if name == "ask":
        return {"op": "ask", "ns": [rng.choice(sizes) for _ in range(n)]}
    if name == "tell":
        return {"op": "tell", "seed": rng.randrange(1 << 30),
                "restart": [i for i in range(n) if rng.random() < p_restart],
                "hot": kind == "nothing-then-some" and t >= cold and rng.random() < 0.7}
    return {"op": name}


def nontrivial(case):
    """some accepted ask after the first one reselects with a pool larger than num_active"""
    if case["pool"] <= case["num_active"]:
        return False
    phase, asks = "none", 0
    for op in case["ops"]:
        if op["op"] == "ask" and phase != "ask":
            asks += 1
            phase = "ask"
        elif op["op"] == "tell" and phase == "ask":
            phase = "tell"
    if asks < 2:
        return False
    if case["reselect"] == "all":
        return True
    return any(not e["counter"] for e in case["emitters"]) or \
        any(op["op"] == "tell" and op["restart"] for op in case["ops"])


# ---------------------------------------------------------------------------
# UCB1 brackets from the recorded history


def bracket(s, n, total, zeta):
    """(lo, hi) bracket of s/n + zeta*sqrt(ln(total)/n); total >= 1, n >= 1"""
    c = Fraction(s, n) + Fraction(zeta * math.sqrt(math.log(total) / n))
    r = RADIUS * max(1, abs(c))
    return c - r, c + r


def scores_of(sel, succ, zeta):
    total = sum(succ)
    out = []
    for s, n in zip(succ, sel):
        if n == 0:
            out.append(None)  # top
        elif total == 0:
            out.append((Fraction(0), Fraction(0)))  # reading adopted for ln 0: all previously selected tie
        else:
            out.append(bracket(s, n, total, zeta))
    return out


def score_ge(a, b):
    """a >= b up to ties"""
    if a is None:
        return True
    if b is None:
        return False
    return a[1] >= b[0]


def parse_events(s):
    out = []
    if s == "none":
        return out
    unl = lambda t: [] if t == "-" else [int(x) for x in t.split(",")]
    for e in s.split(";"):
        f = e.split(":")
        if f[0] == "ask":
            out.append(("ask", int(f[1]), int(f[2])))
        elif f[0] == "add":
            out.append(("add", f[1] == "1", unl(f[2])))
        else:
            sols = [] if f[2] == "-" else [tuple(int(x) for x in t.split(".")) for t in f[2].split(",")]
            out.append(("tell", int(f[1]), sols, unl(f[3]), unl(f[4])))
    return out


def exc_kind(e):
    if e is None:
        return "ok"
    if isinstance(e, NotImplementedError):
        return "err notimplemented"
    if isinstance(e, RuntimeError):
        return "err runtime"
    if isinstance(e, IndexError):
        return "err index"
    if isinstance(e, TypeError):
        return "err type"
    return "err other:" + type(e).__name__


def run_case(case):
    drv = Driver("bandit")
    co = _run_co(case, drv)
    try:
        next(co)
        for it, op in enumerate(case["ops"]):
            co.send((it, op))
        co.send(None)
    except StopIteration as e:
        return e.value
    finally:
        drv.close()
    raise AssertionError("unreachable")


def _run_co(case, drv):
    """One BanditScheduler with its oracle state and its model instance, as a coroutine: it is sent `(op index, op)`
    for every call made on this scheduler and `None` at the end; StopIteration carries `Failure | None`."""
    sched, archive, result, spies, log, ctl, given = build(case)
    n, k, zeta = case["pool"], case["num_active"], case["zeta"]
    has_counter = [c["counter"] for c in case["emitters"]]
    if True:  # pylint: disable=using-constant-test
        drv.ask(f"new pool={n} active={k} resel={case['reselect']} mode={case['mode']} "
                f"result={1 if result is not None else 0}")
        # the harness's own record of the public history
        sel = [0] * n  # rows generated by each emitter (counted when told, as the scheduler does)
        succ = [0] * n  # rows of each emitter the archive reported as inserted
        phase = "none"
        pending = None  # (it, active list, {em: n}, outs)
        seen_restarts = [0] * n  # counter values at the previous accepted ask
        counter = 0.0
        n_asks = 0
        while True:
            nxt = yield
            if nxt is None:
                break
            it, op = nxt
            name = op["op"]
            where = f"op#{it} {name}"
            if name in ("pickle", "deepcopy"):
                # checkpoint / copy at this protocol position; the run continues on the restored scheduler, which
                # must behave exactly like the original would have (model and oracle state carry on)
                act0 = [bool(x) for x in sched.active]
                cnt0 = ([float(x) for x in sched._selection], [float(x) for x in sched._success])  # pylint: disable=protected-access
                try:
                    with warnings.catch_warnings():
                        warnings.simplefilter("ignore")
                        sched = pickle.loads(pickle.dumps(sched)) if name == "pickle" else copy.deepcopy(sched)
                except Exception as e:  # pylint: disable=broad-except
                    return Failure("oracle", f"{where}: the scheduler cannot be restored: {type(e).__name__}: {e}")
                archive = sched.archive
                result = None if result is None else sched.result_archive
                spies = list(sched.emitter_pool)
                log, ctl = spies[0]._log, spies[0]._ctl  # pylint: disable=protected-access
                for a in (archive, result):
                    if a is not None:
                        a._log = log  # pylint: disable=protected-access
                cnt1 = ([float(x) for x in sched._selection], [float(x) for x in sched._success])  # pylint: disable=protected-access
                if [bool(x) for x in sched.active] != act0 or cnt1 != cnt0 or len(spies) != n:
                    return Failure("oracle", f"{where}: the restored scheduler has another active set / other counts "
                                   f"than the original ({act0}, {cnt0} vs {[bool(x) for x in sched.active]}, {cnt1})")
                stat(f"snapshot:{name}:{phase}")
                continue
            if name == "mutate-pool":
                # the caller re-uses the list object it passed to the constructor; nothing is called on the scheduler
                how = op["how"]
                if how == "reverse":
                    given.reverse()
                elif how == "clear":
                    given.clear()
                elif how == "pop":
                    if given:
                        given.pop(random.Random(op["seed"]).randrange(len(given)))
                elif how == "rotate":
                    if given:
                        given.append(given.pop(0))
                elif how == "sort":
                    random.Random(op["seed"]).shuffle(given)
                elif how == "duplicate":
                    if given:
                        given.insert(0, given[-1])
                elif how == "overwrite":
                    given[:] = [None] * len(given)
                else:
                    given.extend(given[:2])
                stat(f"caller-mutates-pool-list:{how}:{phase}")
                continue
            in_order = name == "ask" and phase != "ask" or name == "tell" and phase == "ask"
            before = [bool(x) for x in sched.active]
            mark = len(log)
            exc, ret = None, None
            obj = meas = None
            xf = {}
            try:
                if name == "ask":
                    for s, m in zip(spies, op["ns"]):
                        s.next_n, s.cur_it = m, it
                    with warnings.catch_warnings():
                        warnings.simplefilter("ignore")  # log(0) on the unchanged tree
                        ret = sched.ask()
                elif name == "tell":
                    rows_n = sum(pending[2].values()) if pending is not None else 0
                    obj, meas, xf = make_eval(pending[0] if pending else 0, rows_n, op["seed"],
                                              {"nothing-then-some": "nothing"}.get(case["archive"], case["archive"]),
                                              op["hot"], counter, bool(case.get("noise")))
                    if not case.get("extra"):
                        xf = {}
                    ctl["restart_now"] = op["restart"]
                    rec = {}
                    if op.get("record"):
                        # tell(**record): the record carries the caller's own copy of the solutions as `solution`
                        mine = np.concatenate([pending[3][i] for i in pending[1]], axis=0).reshape(-1, SOLDIM) \
                            if pending is not None and pending[1] else np.zeros((0, SOLDIM))
                        rec["solution"] = {"shifted": mine * 0.5 + 100.0, "reversed": mine[::-1].copy(),
                                           "zeros": np.zeros_like(mine), "rounded": np.round(mine / 3.0, 2)}[op["record"]]
                        stat(f"tell:record-with-solution-key:{op['record']}")
                    with warnings.catch_warnings():
                        warnings.simplefilter("ignore")
                        sched.tell(obj, meas, **xf, **rec)
                elif name == "askdqd":
                    sched.ask_dqd()
                else:
                    sched.tell_dqd(None, None, None)
            except Exception as e:  # pylint: disable=broad-except
                exc = e
            finally:
                ctl["restart_now"] = []
            got = exc_kind(exc)
            new = log[mark:]
            after = [bool(x) for x in sched.active]
            stat(f"call:{name}:{got}")
            model_req = None
            impl_events = []

            if name in ("askdqd", "telldqd") or not in_order:
                want = "err notimplemented" if name in ("askdqd", "telldqd") else "err runtime"
                if got != want:
                    return Failure("corr", f"{where}: expected {want}, got {got}")
                if new or after != before:
                    return Failure("corr", f"{where}: rejected call changed the active set or called "
                                   f"{[(e['ev'], e.get('em')) for e in new]}")
                model_req = {"ask": None, "tell": "tell status=-", "askdqd": "askdqd", "telldqd": "telldqd"}[name]
            elif got != "ok":
                return Failure("oracle", f"{where}: in-order call raised {got}: {exc}")
            elif name == "ask":
                n_asks += 1
                act = [i for i in range(n) if after[i]]
                # ---- oracle ----
                if len(act) != k:
                    return Failure("oracle", f"{where}: {len(act)} emitters active after ask, num_active = {k} "
                                   f"(active {act})")
                asks = [e for e in new if e["ev"] == "ask"]
                if len(asks) != len(new) or sorted(e["em"] for e in asks) != act:
                    return Failure("oracle", f"{where}: asked {[(e['ev'], e['em']) for e in new]}, active {act}")
                outs = {e["em"]: e["out"] for e in asks}
                want = np.concatenate([outs[i] for i in act], axis=0)
                ret = np.asarray(ret)
                if ret.shape != want.shape or not np.array_equal(ret, want):
                    return Failure("oracle", f"{where}: ask result is not the concatenation over the active "
                                   f"emitters in pool order: {ret.tolist()} vs {want.tolist()}")
                now = [int(getattr(s, "restarts", -1)) for s in spies]
                restarted = [has_counter[i] and now[i] > seen_restarts[i] for i in range(n)]
                if case["reselect"] == "terminated":
                    mask = [before[i] and (not has_counter[i] or restarted[i]) for i in range(n)]
                    for i in range(n):
                        if before[i] and not mask[i] and not after[i]:
                            return Failure("oracle", f"{where}: reselect='terminated': emitter {i} was active, has "
                                           f"a restarts counter that did not increase ({now[i]}), but is no "
                                           f"longer active (active before {[j for j in range(n) if before[j]]}, "
                                           f"after {act})")
                else:
                    mask = list(before)
                kept = [before[i] and not mask[i] for i in range(n)]
                newly = [i for i in range(n) if after[i] and not kept[i]]
                left = [i for i in range(n) if not after[i]]
                sc = scores_of(sel, succ, zeta)
                if n_asks > 1 and any(mask) and left:
                    stat("ask:selection-by-score")
                    if sum(succ) == 0:
                        stat("ask:selection-with-T=0")
                    if any(s is None for s in sc) and any(s is not None for s in sc):
                        stat("ask:selection-mixed-never/previously")
                for c in newly:
                    for j in left:
                        if not score_ge(sc[c], sc[j]):
                            if sc[j] is None:
                                return Failure("oracle", f"{where}: emitter {c} (selected before: {sel[c]} rows) "
                                               f"was activated while emitter {j}, never selected, was left "
                                               f"inactive (selection {sel}, success {succ}, active before "
                                               f"{[x for x in range(n) if before[x]]}, after {act})",
                                               key="D9" if sum(succ) == 0 else None)
                            return Failure("oracle", f"{where}: emitter {c} with UCB1 score "
                                           f"{float(sc[c][0]):.9g} was activated while emitter {j} with score "
                                           f"{float(sc[j][0]):.9g} was left inactive (selection {sel}, success "
                                           f"{succ}, zeta {zeta}, active after {act})")
                # ---- model request ----
                show = lambda s: "top" if s is None else f"{q(s[0])}:{q(s[1])}"
                model_req = (f"ask restarts={','.join(str(x) for x in now)} scores={','.join(show(s) for s in sc)} "
                             f"batch={nl(op['ns'])} active={nl(int(a) for a in after)}")
                impl_events = [("ask", e["em"], len(e["out"])) for e in asks]
                seen_restarts = now
                pending = (it, act, {i: len(outs[i]) for i in act}, outs)
                phase = "ask"
            else:  # tell
                pit, act, ns, outs = pending
                total = sum(ns.values())
                starts, pos = {}, 0
                for i in act:
                    starts[i] = pos
                    pos += ns[i]
                adds = [e for e in new if e["ev"] == "add"]
                tells = [e for e in new if e["ev"] == "tell"]
                if len(adds) + len(tells) != len(new) or [id(e) for e in new[:len(adds)]] != [id(e) for e in adds]:
                    return Failure("oracle", f"{where}: unexpected order of calls during tell")
                status = np.zeros(total, dtype=int)
                for is_result in (False, True):
                    if is_result and result is None:
                        continue
                    seen = []
                    for e in adds:
                        if e["result"] != is_result:
                            continue
                        rows = []
                        for (em, sit, p) in sols_of(e["solution"]):
                            if sit != pit or em not in ns or not 0 <= p < ns[em]:
                                return Failure("oracle", f"{where}: archive received a solution nobody generated "
                                               f"in this batch: {(em, sit, p)}")
                            rows.append(starts[em] + p)
                        arch = result if is_result else archive
                        told = dict(xf, objective=obj, measures=meas)
                        if sorted(e["fields"]) != sorted(xf):
                            return Failure("oracle", f"{where}: extra fields {sorted(e['fields'])} reached the "
                                           f"archive, told {sorted(xf)}")
                        for fname, full in sorted(told.items()):
                            arr = e["objective"] if fname == "objective" else e["measures"] if fname == "measures" \
                                else e["fields"][fname]
                            dt = arch.dtypes[fname]
                            want = (full[rows] if rows else full[:0]).astype(dt)
                            # compared in the receiving archive's own dtype (an early cast to it is harmless)
                            if np.asarray(arr).shape != want.shape or not np.array_equal(np.asarray(arr).astype(dt), want):
                                return Failure("oracle", f"{where}: {fname} handed to the "
                                               f"{'result ' if is_result else ''}archive for rows {rows} is "
                                               f"{np.asarray(arr).tolist()} (dtype {np.asarray(arr).dtype}); told, in "
                                               f"that archive's dtype {np.dtype(dt)}: {want.tolist()}")
                        if not is_result:
                            st = np.asarray(e["ret"]["status"])
                            status[rows] = st.reshape(-1) if rows else []
                        seen += rows
                    if sorted(seen) != list(range(total)):
                        return Failure("oracle", f"{where}: rows inserted into the "
                                       f"{'result ' if is_result else ''}archive: {seen}, expected each of "
                                       f"0..{total - 1} exactly once")
                if sorted(e["em"] for e in tells) != act:
                    return Failure("oracle", f"{where}: told emitters {[e['em'] for e in tells]}, the active (asked) "
                                   f"ones are {act}")
                for e in tells:
                    em = e["em"]
                    rows = list(range(starts[em], starts[em] + ns[em]))
                    if e["solution"].shape != outs[em].shape or not np.array_equal(e["solution"], outs[em]):
                        return Failure("oracle", f"{where}: emitter {em} was told solutions "
                                       f"{sols_of(e['solution'])}, it generated {sols_of(outs[em])}")
                    if meas_rows(e["measures"], pit) != rows:
                        return Failure("oracle", f"{where}: emitter {em} was told objective / measures of rows "
                                       f"{meas_rows(e['measures'], pit)}, its rows are {rows}")
                    if sorted(e["fields"]) != sorted(xf):
                        return Failure("oracle", f"{where}: emitter {em} was told extra fields {sorted(e['fields'])}, "
                                       f"tell was given {sorted(xf)}")
                    # every per-row argument: exactly the emitter's own rows of what was told, value and dtype
                    for fname, full in [("objective", obj), ("measures", meas)] + sorted(xf.items()):
                        arr = e[fname] if fname in ("objective", "measures") else e["fields"][fname]
                        want = full[rows[0]:rows[-1] + 1] if rows else full[:0]
                        if arr.shape != want.shape or not np.array_equal(arr, want) or arr.dtype != full.dtype:
                            got_rows = field_rows(fname, arr, pit) if fname in xf else meas_rows(e["measures"], pit)
                            return Failure("oracle", f"{where}: emitter {em} was told {fname} = {arr.tolist()} (dtype "
                                           f"{arr.dtype}, rows {got_rows}); its rows are {rows}, for which tell was "
                                           f"given {want.tolist()} (dtype {full.dtype})")
                    st = [int(x) for x in np.asarray(e["add_info"].get("status", [])).reshape(-1)]
                    if st != [int(x) for x in status[rows]]:
                        return Failure("oracle", f"{where}: emitter {em} received feedback status {st}, the archive "
                                       f"returned {[int(x) for x in status[rows]]} for its rows {rows}")
                    sel[em] += ns[em]
                    succ[em] += int(np.count_nonzero(status[rows]))
                # counts match what actually happened
                isel = [float(x) for x in sched._selection]  # pylint: disable=protected-access
                isucc = [float(x) for x in sched._success]  # pylint: disable=protected-access
                if isel != [float(x) for x in sel] or isucc != [float(x) for x in succ]:
                    return Failure("oracle", f"{where}: scheduler counts selection={isel} success={isucc}, what "
                                   f"happened: emitted={sel} inserted={succ}")
                if after != before:
                    return Failure("oracle", f"{where}: tell changed the active set")
                if case["archive"] == "nothing" and (not archive.empty or any(succ)):
                    return Failure("corr", f"{where}: stratum 'nothing' inserted something (harness error)")
                if case["archive"] == "all" and int(np.count_nonzero(status)) != total:
                    return Failure("corr", f"{where}: stratum 'all' rejected a row (harness error)")
                stat("tell:rows", total)
                stat("tell:rows-inserted", int(np.count_nonzero(status)))
                counter += total + 1
                for e in adds:
                    impl_events.append(("add", e["result"],
                                        [starts[em] + p for (em, _, p) in sols_of(e["solution"])]))
                for e in tells:
                    em = e["em"]
                    impl_events.append(("tell", em, [(a, c) for (a, _, c) in sols_of(e["solution"])],
                                        meas_rows(e["measures"], pit),
                                        [int(x) for x in np.asarray(e["add_info"].get("status", [])).reshape(-1)]))
                model_req = "tell status=" + nl(status)
                pending = None
                phase = "tell"

            # ---- correspondence ----
            if model_req is None:  # rejected ask: any well-formed ask request
                model_req = (f"ask restarts={','.join(['-1'] * n)} scores={','.join(['top'] * n)} "
                             f"batch={nl([0] * n)} active=model")
            m = drv.ask(model_req)
            mk = m if (m.startswith("err") or m == "inadmissible") else "ok"
            if mk != got:
                return Failure("corr", f"{where}: outcome impl={got} model={m} (request {model_req})")
            if got == "ok":
                fields = dict(t.split("=", 1) for t in m.split()[1:])
                if name == "ask":
                    msols = [] if fields["sols"] == "-" else \
                        [tuple(int(x) for x in t.split(".")) for t in fields["sols"].split(",")]
                    isols = sols_of(np.asarray(ret).reshape(-1, SOLDIM))
                    if [(a, c) for a, _, c in isols] != msols or any(b != it for _, b, _ in isols):
                        return Failure("corr", f"{where}: ask result impl={isols} model={msols}")
                    if fields["active"] != nl(int(a) for a in after):
                        return Failure("corr", f"{where}: active impl={after} model={fields['active']}")
                mev = parse_events(fields["ev"])
                if mev != impl_events:
                    return Failure("corr", f"{where}: calls made impl={impl_events} model={mev}")
                if name == "tell":
                    st = dict(t.split("=", 1) for t in drv.ask("state").split())
                    if st["sel"] != nl(sched._selection) or st["succ"] != nl(sched._success):  # pylint: disable=protected-access
                        return Failure("corr", f"{where}: counts impl sel={nl(sched._selection)} "  # pylint: disable=protected-access
                                       f"succ={nl(sched._success)} model sel={st['sel']} succ={st['succ']}")  # pylint: disable=protected-access
        return None


def gen_multi(rng):
    """two BanditSchedulers alive at once (own archives, own pools, own batch sizes), calls interleaved"""
    subs, streams = [], []
    for i in range(2):
        sub = gen_with(rng.choice(["some", "all", "nothing-then-some"]), rng,
                       style=rng.choice(["plain", "plain", "restarts"]))
        streams.append([dict(op, s=i) for op in sub.pop("ops")])
        subs.append(sub)
    ops = []
    while any(streams):
        i = rng.choice([j for j in range(2) if streams[j]])
        for _ in range(rng.choice([1, 1, 1, 2])):
            if streams[i]:
                ops.append(streams[i].pop(0))
    return {"multi": subs, "ops": ops}


def run_multi(case):
    drvs = [Driver("bandit") for _ in case["multi"]]
    cos = [_run_co(dict(sub, ops=[]), d) for sub, d in zip(case["multi"], drvs)]
    try:
        for co in cos:
            next(co)
        for it, op in enumerate(case["ops"]):
            try:
                cos[op["s"]].send((it, op))
            except StopIteration as e:
                return None if e.value is None else Failure(e.value.kind, f"[scheduler {op['s']} of 2] {e.value.what}",
                                                            key=e.value.key)
        for i, co in enumerate(cos):
            try:
                co.send(None)
            except StopIteration as e:
                if e.value is not None:
                    return Failure(e.value.kind, f"[scheduler {i} of 2] {e.value.what}", key=e.value.key)
        return None
    finally:
        for d in drvs:
            d.close()


def run(ctx):
    STATS.clear()
    try:
        _run(ctx, ctx.quick)
    finally:
        for key, v in sorted(STATS.items()):
            ctx.count(key, v)


def _run(ctx, quick):
    tb = (lambda a, b: a if quick else b)
    ctx.explore("accept-all", lambda r: gen_with("all", r), run_case, ctx.n(120, 6000), nontrivial=nontrivial,
                time_budget=tb(4, 60))
    ctx.explore("accept-some", lambda r: gen_with("some", r), run_case, ctx.n(150, 8000), nontrivial=nontrivial,
                time_budget=tb(5, 80))
    ctx.explore("nothing-inserted", lambda r: gen_with("nothing", r), run_case, ctx.n(100, 5000),
                nontrivial=nontrivial, time_budget=tb(4, 60))
    ctx.explore("nothing-then-some", lambda r: gen_with("nothing-then-some", r), run_case, ctx.n(100, 5000),
                nontrivial=nontrivial, time_budget=tb(3, 60))
    ctx.explore("restarts", lambda r: gen_with("some", r, style="restarts"), run_case, ctx.n(100, 5000),
                nontrivial=nontrivial, time_budget=tb(3, 60))
    ctx.explore("protocol", lambda r: gen_with("some", r, style="protocol"), run_case, ctx.n(60, 2000),
                nontrivial=nontrivial, time_budget=tb(3, 30))
    ctx.explore("several-schedulers", gen_multi, run_multi, ctx.n(40, 2000), time_budget=tb(3, 40))
    ctx.explore("large-pool", gen_large_pool, run_case, ctx.n(12, 600), nontrivial=nontrivial, time_budget=tb(6, 60))
    ctx.explore("zeta-zero", gen_zeta0, run_case, ctx.n(80, 4000), nontrivial=nontrivial, time_budget=tb(4, 50))


def replay(ctx, case):
    return run_multi(case) if case.get("multi") else run_case(case)
