import PyribsModel.Rng
import PyribsGen.RngSites
/-!
# C09 — seeded runs are reproducible and independent of global random state

Theorems about the abstract semantics of `PyribsModel/Rng.lean`, for every
deterministic generator algorithm `draw`, every deterministic glue, every trace /
program, all global generator states, all entropy streams and all foreign
interleavings — and their instantiation on the site table that the translator
regenerates from the source tree on every run (`PyribsGen/RngSites.lean`).

* T09.1 `noninterference` (traces) and `noninterference_prog` (data-dependent control)
* T09.2 `pickle_continuation`, `continuation_state_only`, `pickle_continuation_prog`
* T09.3 `all_sites_seeded`   — over the GENERATED table
* T09.4 `spawn_distinct`     — over the GENERATED table
* T09.5 `generated_run_noninterfering`, `generated_prog_noninterfering`,
        `generated_pickle_continuation`
* T09.6 `entropy_only_collapses_siblings` — why `entropyOnly` provenance is not seeded

Clause not carried by a theorem (statistical, see `PARTIAL` in harness/props/c09.py):
"components given different seeds draw different streams".
-/
namespace Pyribs.C09
open Pyribs Rng

variable {δ ω : Type}

/-! ## One step -/

/-- A seeded library step is a function of the object graph alone; it leaves the
global generator state and the entropy position untouched. -/
theorem execLib_ok (draw : Site → Nat → Nat × Nat) (ent : Nat → Nat) (w : World δ ω)
    (e : LibEv δ ω) (h : e.ok = true) :
    (execLib draw ent w e).obj = (stepObj draw w.obj e).1 ∧
    (execLib draw ent w e).out = (stepObj draw w.obj e).2 ++ w.out ∧
    (execLib draw ent w e).glob = w.glob ∧
    (execLib draw ent w e).ent = w.ent := by
  cases e with
  | glue f => simp [execLib, stepObj, World.emit, World.obj]
  | site s c use =>
    have hs : s.prov.source = .own := Site.own_of_seeded s h
    simp [execLib, stepObj, World.emit, World.obj, hs]

/-! ## Traces -/

/-- **Key lemma.** On a trace all of whose executed sites are seeded, the full run
is the run determined by the object graph alone; the global generator state is
changed by the foreign actions only; no entropy is consumed. -/
theorem run_eq_runObj (draw : Site → Nat → Nat × Nat) (ent : Nat → Nat) (tr : List (Ev δ ω))
    (w : World δ ω) (h : ∀ e ∈ tr, e.ok = true) :
    (run draw ent w tr).obj = (runObj draw w.obj tr).1 ∧
    (run draw ent w tr).out = (runObj draw w.obj tr).2 ++ w.out ∧
    (run draw ent w tr).glob = foreignOnly tr w.glob ∧
    (run draw ent w tr).ent = w.ent := by
  induction tr generalizing w with
  | nil => simp [run, runObj, foreignOnly]
  | cons e tr ih =>
    have hrest : ∀ e' ∈ tr, e'.ok = true := fun e' he' => h e' (List.mem_cons_of_mem _ he')
    cases e with
    | foreign f =>
      have := ih (exec draw ent w (.foreign f)) hrest
      simpa [run, runObj, foreignOnly, exec, World.obj] using this
    | lib le =>
      have hle : le.ok = true := by simpa [Ev.ok] using h (.lib le) (List.mem_cons_self ..)
      obtain ⟨h1, h2, h3, h4⟩ := execLib_ok draw ent w le hle
      obtain ⟨i1, i2, i3, i4⟩ := ih (exec draw ent w (.lib le)) hrest
      simp only [exec] at i1 i2 i3 i4
      refine ⟨?_, ?_, ?_, ?_⟩
      · simp only [run, runObj, exec]; rw [i1, h1]
      · simp only [run, runObj, exec]; rw [i2, h1, h2, List.append_assoc]
      · simp only [run, foreignOnly, exec]; rw [i3, h3]
      · simp only [run, exec]; rw [i4, h4]

/-- foreign actions are invisible to the run determined by the object graph -/
theorem runObj_libOf (draw : Site → Nat → Nat × Nat) (o : Obj δ) (tr : List (Ev δ ω)) :
    runObj draw o (libOf tr) = runObj draw o tr := by
  induction tr generalizing o with
  | nil => rfl
  | cons e tr ih =>
    cases e with
    | foreign f => simpa [libOf, List.filter, Ev.isLib, runObj] using ih o
    | lib le =>
      have : libOf (Ev.lib le :: tr) = Ev.lib le :: libOf tr := by simp [libOf, List.filter, Ev.isLib]
      rw [this]; simp only [runObj]; rw [ih]

/-- **T09.1 (non-interference).**  Two runs of the same library steps — under
different global generator states, different entropy streams and *different*
interleavings of foreign draws from the global generators — in which every
executed site is seeded, started from the same component states and data:
all component states, all data and all outputs coincide; each run leaves the
global state exactly as the foreign code alone would have left it, and consumes
no entropy. -/
theorem noninterference (draw : Site → Nat → Nat × Nat) (tr₁ tr₂ : List (Ev δ ω))
    (h₁ : ∀ e ∈ tr₁, e.ok = true) (h₂ : ∀ e ∈ tr₂, e.ok = true)
    (hlib : libOf tr₁ = libOf tr₂)
    (e₁ e₂ : Nat → Nat) (w₁ w₂ : World δ ω)
    (hobj : w₁.obj = w₂.obj) (hout : w₁.out = w₂.out) :
    (run draw e₁ w₁ tr₁).comp = (run draw e₂ w₂ tr₂).comp ∧
    (run draw e₁ w₁ tr₁).data = (run draw e₂ w₂ tr₂).data ∧
    (run draw e₁ w₁ tr₁).out = (run draw e₂ w₂ tr₂).out ∧
    (run draw e₁ w₁ tr₁).glob = foreignOnly tr₁ w₁.glob ∧
    (run draw e₂ w₂ tr₂).glob = foreignOnly tr₂ w₂.glob ∧
    (run draw e₁ w₁ tr₁).ent = w₁.ent ∧
    (run draw e₂ w₂ tr₂).ent = w₂.ent := by
  obtain ⟨a1, a2, a3, a4⟩ := run_eq_runObj draw e₁ tr₁ w₁ h₁
  obtain ⟨b1, b2, b3, b4⟩ := run_eq_runObj draw e₂ tr₂ w₂ h₂
  have key : runObj draw w₁.obj tr₁ = runObj draw w₂.obj tr₂ := by
    rw [← runObj_libOf draw w₁.obj tr₁, ← runObj_libOf draw w₂.obj tr₂, hlib, hobj]
  have hobj' : (run draw e₁ w₁ tr₁).obj = (run draw e₂ w₂ tr₂).obj := by rw [a1, b1, key]
  refine ⟨?_, ?_, ?_, a3, b3, a4, b4⟩
  · exact congrArg Obj.comp hobj'
  · exact congrArg Obj.data hobj'
  · rw [a2, b2, key, hout]

/-- T09.1, the special case without foreign actions: the global state is unchanged. -/
theorem noninterference_global_unchanged (draw : Site → Nat → Nat × Nat) (tr : List (Ev δ ω))
    (h : ∀ e ∈ tr, e.ok = true) (hl : ∀ e ∈ tr, e.isLib = true) (ent : Nat → Nat) (w : World δ ω) :
    (run draw ent w tr).glob = w.glob := by
  rw [(run_eq_runObj draw ent tr w h).2.2.1]
  induction tr generalizing w with
  | nil => rfl
  | cons e tr ih =>
    cases e with
    | foreign f => simpa [Ev.isLib] using hl (.foreign f) (List.mem_cons_self ..)
    | lib le =>
      simp only [foreignOnly]
      exact ih (fun e he => h e (List.mem_cons_of_mem _ he)) (fun e he => hl e (List.mem_cons_of_mem _ he)) w

theorem run_append (draw : Site → Nat → Nat × Nat) (ent : Nat → Nat) (w : World δ ω)
    (pre post : List (Ev δ ω)) :
    run draw ent w (pre ++ post) = run draw ent (run draw ent w pre) post := by
  induction pre generalizing w with
  | nil => rfl
  | cons e pre ih => simp [run, ih]

/-- **T09.2 (the continuation is a function of the saved state alone).**  Whatever the
global state, the entropy stream and the foreign interleaving: the object graph
after a seeded continuation, and the outputs it adds to the log, are those of
`runObj` on the object graph at the checkpoint. -/
theorem continuation_state_only (draw : Site → Nat → Nat × Nat) (post : List (Ev δ ω))
    (h : ∀ e ∈ post, e.ok = true) (ent : Nat → Nat) (w : World δ ω) :
    (run draw ent w post).obj = (runObj draw w.obj post).1 ∧
    (run draw ent w post).out = (runObj draw w.obj post).2 ++ w.out :=
  ⟨(run_eq_runObj draw ent post w h).1, (run_eq_runObj draw ent post w h).2.1⟩

/-- **T09.2 (pickle continuation).**  Interrupt a run after `pre`, save the object
graph (`pickle.dumps(scheduler)`), restore it in a process with an arbitrary
global generator state `g'`, entropy stream `ent'` at position `n'`, and run `post`
there — possibly with a different foreign interleaving `post'`: component states,
data and the complete output log equal those of the uninterrupted run. -/
theorem pickle_continuation (draw : Site → Nat → Nat × Nat) (pre post post' : List (Ev δ ω))
    (hpost : ∀ e ∈ post, e.ok = true) (hpost' : ∀ e ∈ post', e.ok = true)
    (hlib : libOf post = libOf post')
    (ent ent' : Nat → Nat) (w : World δ ω) (g' n' : Nat) :
    let mid := run draw ent w pre
    let resumed := run draw ent' (mid.obj.restore mid.out g' n') post'
    (run draw ent w (pre ++ post)).comp = resumed.comp ∧
    (run draw ent w (pre ++ post)).data = resumed.data ∧
    (run draw ent w (pre ++ post)).out = resumed.out := by
  intro mid resumed
  rw [run_append]
  obtain ⟨a, b, c, _⟩ := noninterference draw post post' hpost hpost' hlib ent ent'
    mid (mid.obj.restore mid.out g' n') rfl rfl
  exact ⟨a, b, c⟩

/-! ## Programs: which sites execute may depend on everything drawn so far -/

def libTicks (ts : List Tick) : Nat := (ts.filter Tick.isLib).length

theorem runProg_eq_iterObj (P : Prog δ ω) (hP : P.ok) (draw : Site → Nat → Nat × Nat)
    (ent : Nat → Nat) (ts : List Tick) (w : World δ ω) :
    (runProg P draw ent w ts).obj = (iterObj P draw (libTicks ts) w.obj).1 ∧
    (runProg P draw ent w ts).out = (iterObj P draw (libTicks ts) w.obj).2 ++ w.out ∧
    (runProg P draw ent w ts).glob = tickForeignOnly ts w.glob ∧
    (runProg P draw ent w ts).ent = w.ent := by
  induction ts generalizing w with
  | nil => simp [runProg, libTicks, iterObj, tickForeignOnly]
  | cons t ts ih =>
    cases t with
    | foreign f =>
      have := ih (stepProg P draw ent w (.foreign f))
      simpa [runProg, libTicks, List.filter, Tick.isLib, tickForeignOnly, stepProg, World.obj] using this
    | lib =>
      have hl : libTicks (Tick.lib :: ts) = libTicks ts + 1 := by
        simp [libTicks, List.filter, Tick.isLib]
      obtain ⟨i1, i2, i3, i4⟩ := ih (stepProg P draw ent w .lib)
      rw [hl]
      simp only [runProg, tickForeignOnly, iterObj]
      cases hp : P w.data with
      | none =>
        have hw : stepProg P draw ent w .lib = w := by simp [stepProg, hp]
        rw [hw] at i1 i2 i3 i4 ⊢
        have hp' : P w.obj.data = none := hp
        simp only [hp']
        exact ⟨i1, i2, i3, i4⟩
      | some e =>
        have hw : stepProg P draw ent w .lib = execLib draw ent w e := by simp [stepProg, hp]
        obtain ⟨h1, h2, h3, h4⟩ := execLib_ok draw ent w e (hP _ _ hp)
        rw [hw] at i1 i2 i3 i4 ⊢
        have hp' : P w.obj.data = some e := hp
        simp only [hp']
        refine ⟨?_, ?_, ?_, ?_⟩
        · rw [i1, h1]
        · rw [i2, h1, h2, List.append_assoc]
        · rw [i3, h3]
        · rw [i4, h4]

/-- **T09.1 for programs.**  The library is any deterministic program whose every
reachable site is seeded; the environment interleaves foreign actions arbitrarily.
Two runs with the same number of library steps agree on all component states,
data and outputs, whatever the global states, entropy streams and interleavings;
the global state is changed by the foreign actions only. -/
theorem noninterference_prog (P : Prog δ ω) (hP : P.ok) (draw : Site → Nat → Nat × Nat)
    (ts₁ ts₂ : List Tick) (hk : libTicks ts₁ = libTicks ts₂)
    (e₁ e₂ : Nat → Nat) (w₁ w₂ : World δ ω) (hobj : w₁.obj = w₂.obj) (hout : w₁.out = w₂.out) :
    (runProg P draw e₁ w₁ ts₁).comp = (runProg P draw e₂ w₂ ts₂).comp ∧
    (runProg P draw e₁ w₁ ts₁).data = (runProg P draw e₂ w₂ ts₂).data ∧
    (runProg P draw e₁ w₁ ts₁).out = (runProg P draw e₂ w₂ ts₂).out ∧
    (runProg P draw e₁ w₁ ts₁).glob = tickForeignOnly ts₁ w₁.glob ∧
    (runProg P draw e₂ w₂ ts₂).glob = tickForeignOnly ts₂ w₂.glob ∧
    (runProg P draw e₁ w₁ ts₁).ent = w₁.ent ∧
    (runProg P draw e₂ w₂ ts₂).ent = w₂.ent := by
  obtain ⟨a1, a2, a3, a4⟩ := runProg_eq_iterObj P hP draw e₁ ts₁ w₁
  obtain ⟨b1, b2, b3, b4⟩ := runProg_eq_iterObj P hP draw e₂ ts₂ w₂
  have hobj' : (runProg P draw e₁ w₁ ts₁).obj = (runProg P draw e₂ w₂ ts₂).obj := by
    rw [a1, b1, hk, hobj]
  refine ⟨congrArg Obj.comp hobj', congrArg Obj.data hobj', ?_, a3, b3, a4, b4⟩
  rw [a2, b2, hk, hobj, hout]

theorem runProg_append (P : Prog δ ω) (draw : Site → Nat → Nat × Nat) (ent : Nat → Nat)
    (w : World δ ω) (pre post : List Tick) :
    runProg P draw ent w (pre ++ post) = runProg P draw ent (runProg P draw ent w pre) post := by
  induction pre generalizing w with
  | nil => rfl
  | cons t pre ih => simp [runProg, ih]

/-- **T09.2 for programs.**  Saving the object graph at any tick and resuming it in
another process (other global state, other entropy, other foreign interleaving
with the same number of library steps) continues exactly like the uninterrupted run. -/
theorem pickle_continuation_prog (P : Prog δ ω) (hP : P.ok) (draw : Site → Nat → Nat × Nat)
    (pre post post' : List Tick) (hk : libTicks post = libTicks post')
    (ent ent' : Nat → Nat) (w : World δ ω) (g' n' : Nat) :
    let mid := runProg P draw ent w pre
    let resumed := runProg P draw ent' (mid.obj.restore mid.out g' n') post'
    (runProg P draw ent w (pre ++ post)).comp = resumed.comp ∧
    (runProg P draw ent w (pre ++ post)).data = resumed.data ∧
    (runProg P draw ent w (pre ++ post)).out = resumed.out := by
  intro mid resumed
  rw [runProg_append]
  obtain ⟨a, b, c, _⟩ := noninterference_prog P hP draw post post' hk ent ent'
    mid (mid.obj.restore mid.out g' n') rfl rfl
  exact ⟨a, b, c⟩

/-! ## The generated table -/

/-- **T09.3.**  Every random site the translator found in the current source tree
is seeded.  (Fails to check as soon as one site is `global`, `fresh` or `unclassified`.) -/
theorem all_sites_seeded : Pyribs.Gen.sites.all Site.seeded = true := by decide +kernel

theorem site_seeded_of_mem {s : Site} (h : s ∈ Pyribs.Gen.sites) : s.seeded = true :=
  List.all_eq_true.1 all_sites_seeded s h

theorem all_spawns_separated : Pyribs.Gen.spawns.all Spawn.separated = true := by decide +kernel

/-- **T09.4.**  For every spawn site of the source tree: calls with different
callees (the optimizer factory and the ranker factory) receive different children
of the spawn, every child index is in range, and nobody is handed the un-spawned
parent. -/
theorem spawn_distinct :
    ∀ sp ∈ Pyribs.Gen.spawns,
      (∀ a ∈ sp.consumers, ∀ b ∈ sp.consumers, a.callee ≠ b.callee → a.child ≠ b.child) ∧
      (∀ a ∈ sp.consumers, ∃ i, a.child = some i ∧ ∀ n, sp.n = some n → i < n) := by
  intro sp hsp
  have hall := List.all_eq_true.1 all_spawns_separated sp hsp
  simp only [Spawn.separated, Bool.and_eq_true, List.all_eq_true] at hall
  refine ⟨?_, ?_⟩
  · intro a ha b hb hne
    have := (hall a ha).2 b hb
    simp only [Bool.or_eq_true, beq_iff_eq, bne_iff_ne] at this
    rcases this with h | h
    · exact absurd h hne
    · exact h
  · intro a ha
    have h1 := (hall a ha).1
    cases hc : a.child with
    | none => simp [hc] at h1
    | some i =>
      refine ⟨i, rfl, ?_⟩
      intro n hn
      simpa [hc, hn] using h1

/-- the site executed by an event, if any -/
def evSite : Ev δ ω → Option Site
  | .lib (.site s _ _) => some s
  | _ => none

theorem ok_of_generated {e : Ev δ ω} (h : ∀ s, evSite e = some s → s ∈ Pyribs.Gen.sites) :
    e.ok = true := by
  cases e with
  | foreign f => rfl
  | lib le =>
    cases le with
    | glue f => rfl
    | site s c use => exact site_seeded_of_mem (h s rfl)

/-- **T09.5 (traces).**  Any run whose random sites are all rows of the generated
table is non-interfering. -/
theorem generated_run_noninterfering (draw : Site → Nat → Nat × Nat) (tr₁ tr₂ : List (Ev δ ω))
    (h₁ : ∀ e ∈ tr₁, ∀ s, evSite e = some s → s ∈ Pyribs.Gen.sites)
    (h₂ : ∀ e ∈ tr₂, ∀ s, evSite e = some s → s ∈ Pyribs.Gen.sites)
    (hlib : libOf tr₁ = libOf tr₂)
    (e₁ e₂ : Nat → Nat) (w₁ w₂ : World δ ω) (hobj : w₁.obj = w₂.obj) (hout : w₁.out = w₂.out) :
    (run draw e₁ w₁ tr₁).comp = (run draw e₂ w₂ tr₂).comp ∧
    (run draw e₁ w₁ tr₁).data = (run draw e₂ w₂ tr₂).data ∧
    (run draw e₁ w₁ tr₁).out = (run draw e₂ w₂ tr₂).out ∧
    (run draw e₁ w₁ tr₁).glob = foreignOnly tr₁ w₁.glob ∧
    (run draw e₂ w₂ tr₂).glob = foreignOnly tr₂ w₂.glob ∧
    (run draw e₁ w₁ tr₁).ent = w₁.ent ∧
    (run draw e₂ w₂ tr₂).ent = w₂.ent :=
  noninterference draw tr₁ tr₂ (fun e he => ok_of_generated (h₁ e he))
    (fun e he => ok_of_generated (h₂ e he)) hlib e₁ e₂ w₁ w₂ hobj hout

/-- a program all of whose sites are rows of the generated table -/
def FromTable (P : Prog δ ω) : Prop :=
  ∀ d s c use, P d = some (.site s c use) → s ∈ Pyribs.Gen.sites

theorem ok_of_fromTable {P : Prog δ ω} (h : FromTable P) : P.ok := by
  intro d e he
  cases e with
  | glue f => rfl
  | site s c use => exact site_seeded_of_mem (h d s c use he)

/-- **T09.5 (programs).**  Any deterministic program over the generated table —
whatever its control flow — is non-interfering. -/
theorem generated_prog_noninterfering (P : Prog δ ω) (hP : FromTable P)
    (draw : Site → Nat → Nat × Nat) (ts₁ ts₂ : List Tick) (hk : libTicks ts₁ = libTicks ts₂)
    (e₁ e₂ : Nat → Nat) (w₁ w₂ : World δ ω) (hobj : w₁.obj = w₂.obj) (hout : w₁.out = w₂.out) :
    (runProg P draw e₁ w₁ ts₁).comp = (runProg P draw e₂ w₂ ts₂).comp ∧
    (runProg P draw e₁ w₁ ts₁).data = (runProg P draw e₂ w₂ ts₂).data ∧
    (runProg P draw e₁ w₁ ts₁).out = (runProg P draw e₂ w₂ ts₂).out ∧
    (runProg P draw e₁ w₁ ts₁).glob = tickForeignOnly ts₁ w₁.glob ∧
    (runProg P draw e₂ w₂ ts₂).glob = tickForeignOnly ts₂ w₂.glob ∧
    (runProg P draw e₁ w₁ ts₁).ent = w₁.ent ∧
    (runProg P draw e₂ w₂ ts₂).ent = w₂.ent :=
  noninterference_prog P (ok_of_fromTable hP) draw ts₁ ts₂ hk e₁ e₂ w₁ w₂ hobj hout

/-- **T09.5 (pickle).**  Any deterministic program over the generated table resumes
from a saved object graph exactly like the uninterrupted run. -/
theorem generated_pickle_continuation (P : Prog δ ω) (hP : FromTable P)
    (draw : Site → Nat → Nat × Nat) (pre post post' : List Tick)
    (hk : libTicks post = libTicks post') (ent ent' : Nat → Nat) (w : World δ ω) (g' n' : Nat) :
    let mid := runProg P draw ent w pre
    let resumed := runProg P draw ent' (mid.obj.restore mid.out g' n') post'
    (runProg P draw ent w (pre ++ post)).comp = resumed.comp ∧
    (runProg P draw ent w (pre ++ post)).data = resumed.data ∧
    (runProg P draw ent w (pre ++ post)).out = resumed.out :=
  pickle_continuation_prog P (ok_of_fromTable hP) draw pre post post' hk ent ent' w g' n'

/-! ## Non-vacuity and sensitivity -/

namespace Example

/-- a concrete generator: value `7·s + 3`, next state `s + 1` -/
def draw : Site → Nat → Nat × Nat := fun _ s => (7 * s + 3, s + 1)

def sCtor : Site := ⟨"x.py", 1, 0, "A.__init__", .construct, "numpy.random.default_rng", .fromSeedParam "seed"⟩
def sDraw : Site := ⟨"x.py", 2, 0, "A.ask", .draw, "Generator.normal", .ownGenerator "_rng"⟩
def sFresh : Site := ⟨"x.py", 3, 0, "A.__init__", .library, "scipy.stats.qmc.Sobol", .fresh⟩
def sGlobal : Site := ⟨"x.py", 4, 0, "A.ask", .moduleDraw, "numpy.random.normal", .global⟩

/-- the drawn value is added to the data and emitted -/
def use : Nat → Nat → Nat × List Nat := fun v d => (d + v, [d + v])

/-- two components (0 and 1), constructions, draws, glue, and foreign actions in between -/
def trA : List (Ev Nat Nat) :=
  [.lib (.site sCtor 0 use), .foreign (· + 5), .lib (.site sCtor 1 use), .lib (.glue fun d => (2 * d, [])),
   .lib (.site sDraw 0 use), .lib (.site sDraw 1 use), .lib (.site sDraw 0 use)]

/-- the same library steps under another foreign interleaving -/
def trB : List (Ev Nat Nat) :=
  [.foreign (· * 3), .lib (.site sCtor 0 use), .lib (.site sCtor 1 use), .foreign (fun _ => 0),
   .lib (.glue fun d => (2 * d, [])),
   .lib (.site sDraw 0 use), .foreign (· + 1), .lib (.site sDraw 1 use), .lib (.site sDraw 0 use)]

/-- component `c` starts from seed `10·(c+1)` -/
def w0 (g : Nat) : World Nat Nat := ⟨fun c => 10 * (c + 1), 0, g, 0, []⟩

def outs (ent : Nat → Nat) (g : Nat) (tr : List (Ev Nat Nat)) : List Nat := (run draw ent (w0 g) tr).out

end Example

open Example in
/-- **Non-vacuity.**  A concrete, non-trivial history (two components, six library
steps, foreign actions) satisfies every hypothesis of T09.1, and its outputs are
non-empty. -/
theorem nonvacuous :
    (∀ e ∈ trA, e.ok = true) ∧ (∀ e ∈ trB, e.ok = true) ∧
    -- five sites emitted five observables; both runs agree although global states, entropy streams
    -- and foreign interleavings differ
    outs (fun n => n) 1 trA = [749, 662, 512, 216, 73] ∧
    outs (fun n => 1000 * n + 17) 99 trB = [749, 662, 512, 216, 73] ∧
    (run draw (fun n => n) (w0 1) trA).glob = 6 ∧
    (run draw (fun n => 1000 * n + 17) (w0 99) trB).glob = 1 ∧
    (run draw (fun n => n) (w0 1) trA).ent = 0 := by
  refine ⟨?_, ?_, ?_, ?_, ?_, ?_, ?_⟩
  · intro e he
    simp only [trA, List.mem_cons, List.mem_nil_iff, or_false] at he
    rcases he with h | h | h | h | h | h | h <;> subst h <;> rfl
  · intro e he
    simp only [trB, List.mem_cons, List.mem_nil_iff, or_false] at he
    rcases he with h | h | h | h | h | h | h | h | h <;> subst h <;> rfl
  all_goals decide

open Example in
/-- the two example traces have the same library steps -/
theorem nonvacuous_same_lib : libOf trA = libOf trB := by
  simp [libOf, trA, trB, List.filter, Ev.isLib]

open Example in
/-- **Sensitivity of the semantics.**  The hypothesis "every executed site is seeded"
cannot be dropped: one `fresh` site makes the outputs depend on the entropy
stream, one `global` site makes them depend on — and disturbs — the global state.
(This is what defect D2 is: the scrambled-Sobol / Halton sampler sites are `fresh`.) -/
theorem unseeded_site_interferes :
    outs (fun n => n) 0 [.lib (.site sFresh 0 use)] ≠ outs (fun n => n + 1) 0 [.lib (.site sFresh 0 use)] ∧
    outs (fun n => n) 0 [.lib (.site sGlobal 0 use)] ≠ outs (fun n => n) 1 [.lib (.site sGlobal 0 use)] ∧
    (run draw (fun n => n) (w0 0) [.lib (.site sGlobal 0 use)]).glob ≠ 0 ∧
    sFresh.seeded = false ∧ sGlobal.seeded = false := by
  decide

/-- **T09.6 (why a seed must be used whole).**  Children spawned from one parent are
different seeds, a faithful copy keeps them apart, but rebuilding a SeedSequence from
`.entropy` alone maps all of them (and all their descendants) to one and the same
seed -- "components given different seeds draw different streams" then fails.  This is
why a site with provenance `entropyOnly` is not `seeded` and breaks T09.3. -/
theorem entropy_only_collapses_siblings (s : SeedSeq) (i j : Nat) :
    (i ≠ j → s.child i ≠ s.child j) ∧
    (i ≠ j → (s.child i).copy ≠ (s.child j).copy) ∧
    (s.child i).fromEntropy = (s.child j).fromEntropy ∧
    ((s.child i).child j).fromEntropy = s.fromEntropy ∧
    (∀ p, (⟨"f.py", 1, 0, "E.__init__", .construct, "numpy.random.SeedSequence", .entropyOnly p⟩ : Site).seeded
      = false) := by
  refine ⟨?_, ?_, rfl, rfl, fun _ => rfl⟩
  · intro h e
    simp [SeedSeq.child] at e
    exact h e
  · intro h e
    simp [SeedSeq.child, SeedSeq.copy] at e
    exact h e

/-- A site that stores its seed material in a caller-owned container is not seeded: the separation of
component states (`World.comp` is indexed by component) is exactly what such a store gives up. -/
theorem escaped_seed_not_seeded (p : String) :
    (⟨"f.py", 1, 0, "E.__init__", .escape, "es_kwargs['seed'] <- seed material", .callerOwned p⟩ : Site).seeded
      = false := rfl

/-- **Non-vacuity / sensitivity of T09.4.**  The check accepts the shape the source
has (`opt_seed, ranker_seed = seed_sequence.spawn(2)`) and rejects a reused child,
an out-of-range child, and a consumer that is handed the un-spawned parent. -/
theorem spawn_check_sensitive :
    Spawn.separated ⟨"e.py", 104, "E.__init__", some 2, [⟨122, "_get_es", some 0⟩, ⟨135, "_get_ranker", some 1⟩]⟩
      = true ∧
    Spawn.separated ⟨"e.py", 104, "E.__init__", some 2, [⟨122, "_get_es", some 0⟩, ⟨135, "_get_ranker", some 0⟩]⟩
      = false ∧
    Spawn.separated ⟨"e.py", 104, "E.__init__", some 2, [⟨122, "_get_es", some 0⟩, ⟨135, "_get_ranker", some 2⟩]⟩
      = false ∧
    Spawn.separated ⟨"e.py", 104, "E.__init__", some 2, [⟨122, "_get_es", some 0⟩, ⟨135, "_get_ranker", none⟩]⟩
      = false := by
  decide

end Pyribs.C09
