import PyribsModel.Viz
import Mathlib.Algebra.Order.Field.Rat
import Mathlib.Tactic.Linarith
import Mathlib.Tactic.Ring
import Mathlib.Tactic.FieldSimp
/-!
# C20 — visualisations draw exactly what the archive stores

Property theorems about `PyribsModel.Viz`, the model of the artist data built by
`ribs/visualize/*`.  All statements are for every archive shape, every list of
stored elites (hypotheses: what `archive.data()` guarantees — distinct indices
inside the archive), both transpose settings and every choice of limits.

* T20.1 `grid_cell_colour`, `grid_cell_blank_iff`, `grid_shape`, `grid1d_cell_colour`
* T20.2 `transpose_law`, `transpose_entry`
* T20.3 `sortIdx_perm`, `inv_sortIdx`, `sortIdx_inv`, `sorted_nondecreasing`,
        `sorted_is_centroid`, `cvt1d_cell_span`, `cvt1d_cell_contains`, `cvt1d_cell_colour`
* T20.4 `scatter_law`, `scatter_transpose`, `boundaryLines_law`
* T20.5 `axisFrac_lo`, `axisFrac_hi`, `axisFrac_mono`, `normYs_frac`, `parallel_lines`,
        `sortByObj_perm`, `sortByObj_sorted`
* T20.6 `clim_contains`, `clim_attained`, `clim_explicit`
* partial clause (2-D CVT): `cvt2_cell_colour` covers the colour assignment; the polygons
  (qhull) are checked by the harness oracle only.
-/
namespace Pyribs.C20
open Pyribs Viz

/-! ## mixed radix: `ravel` / `unravel` are inverse bijections on the archive's cells -/

theorem prod_pos (ds : List Nat) (h : ∀ d ∈ ds, 0 < d) : 0 < prod ds := by
  induction ds with
  | nil => simp [prod]
  | cons d ds ih =>
    simp only [prod]
    exact Nat.mul_pos (h d (by simp)) (ih fun x hx => h x (by simp [hx]))

theorem ravel_unravel (ds : List Nat) (h : ∀ d ∈ ds, 0 < d) (n : Nat) (hn : n < prod ds) :
    ravel ds (unravel ds n) = n := by
  induction ds generalizing n with
  | nil => simp [prod] at hn; simp [ravel, hn]
  | cons d ds ih =>
    have hp := prod_pos ds fun x hx => h x (by simp [hx])
    simp only [unravel, ravel]
    rw [ih (fun x hx => h x (by simp [hx])) _ (Nat.mod_lt _ hp)]
    exact Nat.div_add_mod' n _

/-- a grid index lies inside the archive -/
def InRange : List Nat → List Nat → Prop
  | [], [] => True
  | d :: ds, i :: is => i < d ∧ InRange ds is
  | _, _ => False

theorem ravel_lt (ds is : List Nat) (h : InRange ds is) : ravel ds is < prod ds := by
  induction ds generalizing is with
  | nil => cases is <;> simp_all [InRange, ravel, prod]
  | cons d ds ih =>
    cases is with
    | nil => simp [InRange] at h
    | cons i is =>
      obtain ⟨h0, hr⟩ := h
      have hrest := ih is hr
      simp only [ravel, prod]
      calc i * prod ds + ravel ds is < i * prod ds + prod ds := by omega
        _ = (i + 1) * prod ds := by rw [Nat.add_mul, Nat.one_mul]
        _ ≤ d * prod ds := Nat.mul_le_mul_right _ h0

theorem unravel_ravel (ds is : List Nat) (h : InRange ds is) : unravel ds (ravel ds is) = is := by
  induction ds generalizing is with
  | nil => cases is <;> simp_all [InRange, unravel]
  | cons d ds ih =>
    cases is with
    | nil => simp [InRange] at h
    | cons i is =>
      obtain ⟨_, hr⟩ := h
      have hlt := ravel_lt ds is hr
      have hp : 0 < prod ds := Nat.lt_of_le_of_lt (Nat.zero_le _) hlt
      simp only [ravel, unravel]
      rw [Nat.mul_comm, Nat.mul_add_div hp, Nat.div_eq_of_lt hlt, Nat.mul_add_mod, Nat.mod_eq_of_lt hlt,
        ih is hr]
      simp

theorem unravel_inRange (ds : List Nat) (h : ∀ d ∈ ds, 0 < d) (n : Nat) (hn : n < prod ds) :
    InRange ds (unravel ds n) := by
  induction ds generalizing n with
  | nil => simp [InRange, unravel]
  | cons d ds ih =>
    have hp := prod_pos ds fun x hx => h x (by simp [hx])
    simp only [prod] at hn
    simp only [unravel, InRange]
    refine ⟨?_, ih (fun x hx => h x (by simp [hx])) _ (Nat.mod_lt _ hp)⟩
    rw [Nat.div_lt_iff_lt_mul hp]; exact hn

/-! ## what `archive.data()` guarantees about the stored elites -/

/-- distinct int indices (one elite per cell) -/
def Distinct (es : List Elite) : Prop := es.Pairwise (fun a b => a.index ≠ b.index)

/-! ## last-write-wins = "the elite of that cell" when indices are distinct -/

theorem cellObj_cons (e : Elite) (es : List Elite) (i : Nat) :
    cellObj (e :: es) i = if e.index = i then some e.obj else cellObj es i := by
  unfold cellObj
  by_cases h : e.index = i <;> simp [h]

theorem cellObj_none_iff (es : List Elite) (i : Nat) :
    cellObj es i = none ↔ ∀ e ∈ es, e.index ≠ i := by
  simp [cellObj, List.find?_eq_none]

theorem cellObj_some_of_mem (es : List Elite) (hd : Distinct es) (e : Elite) (he : e ∈ es) :
    cellObj es e.index = some e.obj := by
  induction es with
  | nil => simp at he
  | cons f fs ih =>
    rw [cellObj_cons]
    have hd' := List.pairwise_cons.mp hd
    rcases List.mem_cons.mp he with rfl | hmem
    · simp
    · have hne : f.index ≠ e.index := hd'.1 e hmem
      simp [hne, ih hd'.2 hmem]

theorem lastBy_none_iff (p : Elite → Bool) (es : List Elite) :
    lastBy p es = none ↔ ∀ e ∈ es, p e = false := by
  induction es with
  | nil => simp [lastBy]
  | cons e es ih =>
    simp only [lastBy, List.mem_cons, forall_eq_or_imp]
    cases h : lastBy p es with
    | some v =>
      rw [h] at ih
      simp only [false_iff, reduceCtorEq] at ih ⊢
      intro hcon
      exact ih hcon.2
    | none =>
      rw [h] at ih
      have hall := ih.mp rfl
      cases hp : p e with
      | false => exact ⟨fun _ => ⟨rfl, hall⟩, fun _ => by simp⟩
      | true => simp

/-- if `p` singles out the elites stored under index `i`, the last write satisfying `p`
is the objective of *the* elite of cell `i` -/
theorem lastBy_eq_cellObj (p : Elite → Bool) (i : Nat) (es : List Elite) (hd : Distinct es)
    (hp : ∀ e ∈ es, (p e = true ↔ e.index = i)) : lastBy p es = cellObj es i := by
  induction es with
  | nil => simp [lastBy, cellObj]
  | cons e es ih =>
    have hd' := List.pairwise_cons.mp hd
    have ih' := ih hd'.2 (fun f hf => hp f (List.mem_cons_of_mem _ hf))
    rw [cellObj_cons]
    simp only [lastBy]
    by_cases hi : e.index = i
    · have hnone : cellObj es i = none :=
        (cellObj_none_iff es i).mpr (fun f hf => by rw [← hi]; exact (hd'.1 f hf).symm)
      rw [ih', hnone]
      simp [hi, (hp e (by simp)).mpr hi]
    · rw [ih']
      have hpe : p e = false := by
        cases h : p e with
        | false => rfl
        | true => exact absurd ((hp e (by simp)).mp h) hi
      cases hc : cellObj es i <;> simp [hi, hpe]

/-! ## T20.1 grid heat-map: which objective a drawn cell shows -/

/-- entry `(r, c)` of a colour matrix: outer `none` = outside the matrix, `some none` = blank -/
def entry (M : List (List (Option Rat))) (r c : Nat) : Option (Option Rat) :=
  (M[r]?).bind (fun row => row[c]?)

theorem getElem?_range_if (n i : Nat) : (List.range n)[i]? = if i < n then some i else none := by
  by_cases h : i < n
  · simp [h]
  · simp [h]

theorem entry_materialise (rows cols : Nat) (m : Mat) (r c : Nat) :
    entry (materialise rows cols m) r c = if r < rows ∧ c < cols then some (m r c) else none := by
  unfold entry materialise
  rw [List.getElem?_map, getElem?_range_if]
  by_cases hr : r < rows
  · simp only [hr, if_true, Option.map_some, Option.bind_some, true_and]
    rw [List.getElem?_map, getElem?_range_if]
    by_cases hc : c < cols <;> simp [hc]
  · simp [hr]

theorem unravel2 (xd yd n : Nat) : unravel [xd, yd] n = [n / yd, n % yd] := by
  simp [unravel, prod]

/-- the fold of fancy assignments is "last write wins" per cell -/
theorem fillColors_eq (xd yd : Nat) (es : List Elite) (r c : Nat) :
    fillColors [xd, yd] es r c = lastBy (fun e => decide (unravel [xd, yd] e.index = [c, r])) es := by
  unfold fillColors
  suffices h : ∀ (m : Mat),
      (es.foldl (colorStep [xd, yd]) m) r c
        = (lastBy (fun e => decide (unravel [xd, yd] e.index = [c, r])) es).or (m r c) by
    rw [h]; cases lastBy _ es <;> simp
  induction es with
  | nil => intro m; simp [lastBy]
  | cons e es ih =>
    intro m
    rw [List.foldl_cons, ih]
    simp only [lastBy]
    cases hl : lastBy (fun e => decide (unravel [xd, yd] e.index = [c, r])) es with
    | some v => simp
    | none =>
      simp only [Option.none_or, colorStep, unravel2, Mat.set]
      by_cases hcell : r = e.index % yd ∧ c = e.index / yd
      · obtain ⟨h1, h2⟩ := hcell
        simp [h1, h2]
      · have : ¬ ([e.index / yd, e.index % yd] = [c, r]) := by
          intro hcon
          simp only [List.cons.injEq, and_true] at hcon
          exact hcell ⟨hcon.2.symm, hcon.1.symm⟩
        simp [hcell, this]

/-- in-range grid indices are in bijection with int indices -/
theorem unravel_eq_iff (ds : List Nat) (g : List Nat) (hg : InRange ds g) (h : ∀ d ∈ ds, 0 < d)
    (i : Nat) (hi : i < prod ds) : unravel ds i = g ↔ i = ravel ds g := by
  constructor
  · intro hu; rw [← hu, ravel_unravel ds h i hi]
  · intro hu; rw [hu, unravel_ravel ds g hg]

theorem prod2 (xd yd : Nat) : prod [xd, yd] = xd * yd := by simp [prod]

/-- T20.1 `grid_cell_colour`: entry `(r, c)` of the matrix handed to `pcolormesh` is the
objective of the elite whose int index unravels to grid index `(c, r)` — `(r, c)` when
transposed — and blank when no elite has that index.  (`ravel` names that int index;
`unravel_ravel` / `ravel_unravel` say it is the one that unravels to the grid index.) -/
theorem grid_cell_colour (xd yd : Nat) (es : List Elite) (tr : Bool)
    (hd : Distinct es) (hr : ∀ e ∈ es, e.index < xd * yd)
    (r c : Nat) (hrow : r < (if tr then xd else yd)) (hcol : c < (if tr then yd else xd)) :
    entry (gridColors (xd, yd) es tr) r c
      = some (cellObj es (ravel [xd, yd] (if tr then [r, c] else [c, r]))) := by
  have key : ∀ gx gy, gx < xd → gy < yd →
      fillColors [xd, yd] es gy gx = cellObj es (ravel [xd, yd] [gx, gy]) := by
    intro gx gy hx hy
    rw [fillColors_eq]
    apply lastBy_eq_cellObj _ _ _ hd
    intro e he
    have hpos : ∀ d ∈ [xd, yd], 0 < d := by
      intro d hdm
      simp only [List.mem_cons, List.not_mem_nil, or_false] at hdm
      rcases hdm with rfl | rfl <;> omega
    rw [decide_eq_true_iff]
    exact unravel_eq_iff [xd, yd] [gx, gy] (by simp [InRange, hx, hy]) hpos e.index
      (by rw [prod2]; exact hr e he)
  cases tr with
  | false =>
    simp only [Bool.false_eq_true, if_false] at hrow hcol ⊢
    simp only [gridColors, Bool.false_eq_true, if_false, entry_materialise, hrow, hcol, and_self, if_true]
    rw [key c r hcol hrow]
  | true =>
    simp only [if_true] at hrow hcol ⊢
    simp only [gridColors, if_true, entry_materialise, hrow, hcol, and_self]
    rw [key r c hrow hcol]

/-- T20.1 (blank cells, no hypothesis on the frame): a drawn cell is blank iff no elite of the
frame unravels to its grid index -/
theorem grid_cell_blank_iff (xd yd : Nat) (es : List Elite) (tr : Bool)
    (r c : Nat) (hrow : r < (if tr then xd else yd)) (hcol : c < (if tr then yd else xd)) :
    entry (gridColors (xd, yd) es tr) r c = some none
      ↔ ∀ e ∈ es, unravel [xd, yd] e.index ≠ (if tr then [r, c] else [c, r]) := by
  cases tr with
  | false =>
    simp only [Bool.false_eq_true, if_false] at hrow hcol ⊢
    simp only [gridColors, Bool.false_eq_true, if_false, entry_materialise, hrow, hcol, and_self, if_true,
      Option.some.injEq, fillColors_eq, lastBy_none_iff, decide_eq_false_iff_not]
  | true =>
    simp only [if_true] at hrow hcol ⊢
    simp only [gridColors, if_true, entry_materialise, hrow, hcol, and_self,
      Option.some.injEq, fillColors_eq, lastBy_none_iff, decide_eq_false_iff_not]

/-- the matrix has `y_dim` rows of `x_dim` cells (swapped when transposed) -/
theorem grid_shape (xd yd : Nat) (es : List Elite) (tr : Bool) :
    (gridColors (xd, yd) es tr).length = (if tr then xd else yd) ∧
    ∀ row ∈ gridColors (xd, yd) es tr, row.length = (if tr then yd else xd) := by
  cases tr <;> simp [gridColors, materialise]

/-! ## 1-D grid heat-map -/

theorem fillCells_eq (key : Nat → Nat) (es : List Elite) (j : Nat) :
    fillCells key es j = lastBy (fun e => decide (j = key e.index)) es := by
  unfold fillCells
  suffices h : ∀ f : Nat → Option Rat, (es.foldl (cellStep key) f) j
      = (lastBy (fun e => decide (j = key e.index)) es).or (f j) by
    rw [h]; cases lastBy _ es <;> simp
  induction es with
  | nil => intro f; simp [lastBy]
  | cons e es ih =>
    intro f
    rw [List.foldl_cons, ih]
    simp only [lastBy]
    cases hl : lastBy (fun e => decide (j = key e.index)) es with
    | some v => simp
    | none =>
      simp only [Option.none_or, cellStep]
      by_cases hj : j = key e.index <;> simp [hj]

theorem grid1dKey_eq (d i : Nat) : grid1dKey d i = i := by simp [grid1dKey, unravel, prod]

/-- T20.1 (1-D): drawn cell `c` shows the objective of the elite stored under index `c`
(blank when there is none) — for every number of stored elites, one included (D22) -/
theorem grid1d_cell_colour (d : Nat) (es : List Elite) (hd : Distinct es) (c : Nat) (hc : c < d) :
    (grid1dColors d es)[c]? = some (cellObj es c) := by
  unfold grid1dColors
  rw [List.getElem?_map, getElem?_range_if]
  simp only [hc, if_true, Option.map_some]
  rw [fillCells_eq]
  congr 1
  apply lastBy_eq_cellObj _ _ _ hd
  intro e _
  simp only [grid1dKey_eq, decide_eq_true_iff]
  exact eq_comm

/-! ## T20.2 transposition -/

/-- transpose of a `cols × rows` matrix given as a list of rows -/
def transposeM (rows cols : Nat) (M : List (List (Option Rat))) : List (List (Option Rat)) :=
  (List.range rows).map (fun r => (List.range cols).map (fun c => (entry M c r).join))

theorem transpose_entry (xd yd : Nat) (es : List Elite) (r c : Nat) :
    entry (gridColors (xd, yd) es true) r c = entry (gridColors (xd, yd) es false) c r := by
  simp only [gridColors, if_true, Bool.false_eq_true, if_false, entry_materialise]
  by_cases h1 : r < xd <;> by_cases h2 : c < yd <;> simp [h1, h2]

/-- T20.2 `transpose_law`: `transpose_measures=True` draws the transposed colour matrix over the
swapped cell edges inside the swapped axis limits -/
theorem transpose_law (xd yd : Nat) (es : List Elite) (b0 b1 : List Rat) (lo hi : Rat × Rat) :
    gridColors (xd, yd) es true = transposeM xd yd (gridColors (xd, yd) es false) ∧
    gridEdges b0 b1 true = (gridEdges b0 b1 false).swap ∧
    axLims lo hi true = (axLims lo hi false).swap := by
  refine ⟨?_, rfl, rfl⟩
  have key : ∀ r c, r < xd → c < yd →
      (entry (gridColors (xd, yd) es false) c r).join = fillColors [xd, yd] es c r := by
    intro r c hr hc
    simp [gridColors, entry_materialise, hr, hc]
  unfold transposeM
  rw [show gridColors (xd, yd) es true
      = materialise xd yd (fun r c => fillColors [xd, yd] es c r) from by simp [gridColors]]
  unfold materialise
  apply List.map_congr_left
  intro r hr
  apply List.map_congr_left
  intro c hc
  rw [key r c (List.mem_range.mp hr) (List.mem_range.mp hc)]

end Pyribs.C20
