import PyribsModel.Sliding
import PyribsModel.ArchDrv
/-! Line-protocol machine "sliding". -/
namespace Pyribs.SlidingDrv
open Pyribs Sliding

structure St where
  s : Sliding

def init : St := ⟨Sliding.new [] [] [] 0 1 1 0 []⟩

def showGeom (g : SbGeom) : String :=
  s!"bnds={String.intercalate ";" (g.bnds.map showRatList)} lo={showRatList g.lo} hi={showRatList g.hi}"

def dump (s : Sliding) : String :=
  ArchDrv.dump s.arch ++ " " ++ showGeom s.geom ++
  s!" total={s.total} buf={showNatList (s.buffer.map (·.tok))}"

def step (st : St) (toks : List String) : St × String :=
  match toks with
  | "new" :: rest =>
    let r : Option Sliding := do
      let dims ← (kv rest "dims") >>= parseNatList
      let lo ← (kv rest "lo") >>= parseRatList
      let hi ← (kv rest "hi") >>= parseRatList
      let eps ← (kv rest "eps") >>= parseRat
      let cap ← (kv rest "cap") >>= String.toNat?
      let freq ← (kv rest "freq") >>= String.toNat?
      let off ← (kv rest "off") >>= parseRat
      let bnds ← (kv rest "bnds") >>= ArchDrv.parsePoints
      pure (Sliding.new dims lo hi eps cap freq off bnds)
    match r with
    | some s => (⟨s⟩, s!"ok cells={cells s.geom.dims}")
    | none => (st, "bad-op")
  | ["add1", row] =>
    match ArchDrv.parseCand row with
    | some c =>
      let remapNow := (st.s.total + 1) % st.s.freq == 0
      let (s', fb) := st.s.addSingle c
      (⟨s'⟩, s!"cells={sbIdx s'.geom c.meas} status={fb.1} value={showRat fb.2} remap={showBool remapNow}")
    | none => (st, "bad-op")
  | "add" :: rows =>
    match rows.mapM ArchDrv.parseCand with
    | some cs =>
      let (s', fb) := st.s.addBatch cs
      (⟨s'⟩, s!"status={showNatList (fb.map (·.1))} value={showRatList (fb.map (·.2))}")
    | none => (st, "bad-op")
  | ["clear"] => (⟨st.s.clear⟩, "ok")
  | ["bounds", d, col] =>
    -- stateless: the boundaries `_remap` derives from one dimension's buffered coordinates
    match d.toNat?, parseRatList col with
    | some d, some col => (st, showRatList (remapBoundaries (insertionSort col) d))
    | _, _ => (st, "bad-op")
  | ["state"] => (st, dump st.s)
  | "retrieve" :: ms =>
    match ms.mapM parseRatList with
    | some ms =>
      let idx := ms.map (sbIdx st.s.geom)
      (st, String.intercalate " " ((idx.zip (st.s.arch.retrieve idx)).map (fun p => ArchDrv.showCellOpt p.1 p.2)))
    | none => (st, "bad-op")
  | "idx" :: ms =>
    match ms.mapM parseRatList with
    | some ms => (st, showNatList (ms.map (sbIdx st.s.geom)))
    | none => (st, "bad-op")
  | _ => (st, "bad-op")

end Pyribs.SlidingDrv
