"""Run every kept seeded change through its property's check; write seeded/RESULTS.md.

usage: seedall.py [ids...] [--confirm] [--extra C01,C02]   (--confirm also runs demo + pinned suite once and
records the outcome in meta.json["confirmed"])
"""
import json, os, re, subprocess, sys
VERIF = os.path.dirname(os.path.dirname(os.path.abspath(__file__)))
args = [a for a in sys.argv[1:] if not a.startswith("--")]
confirm = "--confirm" in sys.argv
rows = []
for name in sorted(os.listdir(os.path.join(VERIF, "seeded"))):
    d = os.path.join(VERIF, "seeded", name)
    if name.startswith("_"):
        continue
    if not os.path.isdir(d) or (args and name not in args and name.split("-")[0] not in args):
        if os.path.isdir(d) and os.path.exists(os.path.join(d, "result.json")):
            rows.append(json.load(open(os.path.join(d, "result.json"))))
        continue
    meta = json.load(open(os.path.join(d, "meta.json")))
    cmd = ["/venv/bin/python", os.path.join(VERIF, "harness", "seedtest.py"), d, "--seeds", "0,1"]
    if confirm and "confirmed" not in meta:
        cmd += ["--demo", "--tests"]
    out = subprocess.run(cmd, stdout=subprocess.PIPE, stderr=subprocess.STDOUT, text=True).stdout
    print(name); print(out)
    m = re.search(r"demo with change: exit (\d+); without: exit (\d+)", out)
    t = re.search(r"missing now (\d+)", out)
    if m and t:
        meta["confirmed"] = {"demo_exit_with_change": int(m.group(1)), "demo_exit_without": int(m.group(2)),
                             "baseline_tests_missing_with_change": int(t.group(1))}
        json.dump(meta, open(os.path.join(d, "meta.json"), "w"), indent=1)
    verdicts = re.findall(r"^(CAUGHT|MISSED|INFRA) check=(\S+) seed=(\d+) violations=(\d+) ?(.*)$", out, re.M)
    res = {"seeded": name, "property": meta["property"], "summary": str(meta.get("summary"))[:160],
           "verdicts": [f"{v[0]}@{v[1]}/seed{v[2]}" for v in verdicts],
           "how": next((v[4][:200] for v in verdicts if v[0] == "CAUGHT"), ""),
           "confirmed": meta.get("confirmed")}
    json.dump(res, open(os.path.join(d, "result.json"), "w"), indent=1)
    rows.append(res)
with open(os.path.join(VERIF, "seeded", "RESULTS.md"), "w") as f:
    f.write("# Seeded changes: which check catches which change\n\n")
    f.write("| seeded change | property | verdicts (check/seed) | confirmed (demo fails with / passes without; suite unchanged) | first report |\n|---|---|---|---|---|\n")
    for r in rows:
        c = r.get("confirmed") or {}
        conf = "yes" if c and c.get("demo_exit_with_change") and not c.get("demo_exit_without") and not c.get("baseline_tests_missing_with_change") else str(c)
        f.write(f"| {r['seeded']}: {r['summary'].replace('|', '/')} | {r['property']} | {', '.join(r['verdicts'])} | {conf} | {r['how'].replace('|', '/')} |\n")
print(open(os.path.join(VERIF, "seeded", "RESULTS.md")).read()[-1500:])
