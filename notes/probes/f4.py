# scratch fuzz SlidingBoundariesArchive (fixed scratch copy) vs re-insertion reference built from the archive's own public index_of
import numpy as np, random, warnings
from ribs.archives import SlidingBoundariesArchive
warnings.simplefilter("ignore")
bad=0
for seed in range(600):
    rnd=random.Random(seed)
    md=rnd.choice([1,2]); dims=[rnd.choice([1,2,3,5]) for _ in range(md)]
    rf=rnd.choice([2,3,4,7]); bc=rnd.choice([1,2,3,5,20])
    lo=rnd.choice([0.0,-5.0,100.0]); rng=[(lo,lo+rnd.choice([1.0,10.0]))]*md
    dt=rnd.choice([np.float64,np.float32])
    a=SlidingBoundariesArchive(solution_dim=1,dims=dims,ranges=rng,remap_frequency=rf,buffer_capacity=bc,dtype=dt,extra_fields={"tag":((),np.int32)})
    elites_order=[]
    hist=[]  # all inserted (meas,obj,sid)
    elites={} # idx -> (obj,sid,meas)
    total=0
    for step in range(rnd.randint(1,30)):
        m=[float(rnd.choice([rnd.randint(-8,8), rnd.randint(-8,8)/4, rnd.choice([0,0,1])])) for _ in range(md)]
        o=float(rnd.randint(-4,4)); sid=len(hist)
        hist.append((m,o,sid)); total+=1
        pre_b=[b.copy() for b in a.boundaries]
        r=a.add_single([float(sid)],o,m,tag=sid)
        if total%rf==0:
            buf=hist[-bc:]
            # expected boundaries
            for i in range(md):
                sm=sorted(np.float64(x[0][i]) for x in buf); n=len(sm)
                eb=[sm[int(j*n/dims[i])] for j in range(dims[i])]+[sm[-1]]
                if not np.array_equal(np.array(eb,dtype=dt),a.boundaries[i]): print("BOUND seed",seed,step,eb,a.boundaries[i]); bad+=1
            if not (np.array_equal(a.lower_bounds,[b[0] for b in a.boundaries]) and np.array_equal(a.upper_bounds,[b[-1] for b in a.boundaries])): print("LB/UB",seed); bad+=1
            # re-insert: old elites (in store order unknown -> ties by obj resolved... use index order of previous data order) then buffer
            old=[elites[k] for k in elites_order]
            seq=[(x[2],x[0],x[1]) for x in old]+[(x[0],x[1],x[2]) for x in buf]
            elites={}; elites_order=[]
            pre_last=None
            for q,(mm,oo,ss) in enumerate(seq):
                idx=int(a.index_of(np.array([mm],dtype=float))[0])
                if q==len(seq)-1:
                    exp_status = 2 if idx not in elites else (1 if oo>elites[idx][0] else 0)
                    exp_val = oo if idx not in elites else oo-elites[idx][0]
                if q==len(seq)-1:
                    elites_order=sorted(elites.keys())
                if idx not in elites: elites[idx]=(oo,ss,mm); elites_order.append(idx)
                elif oo>elites[idx][0]: elites[idx]=(oo,ss,mm)
            if (int(r["status"]),float(r["value"]))!=(exp_status,exp_val): print("FEEDBACK seed",seed,step,r,exp_status,exp_val); bad+=1
        else:
            idx=int(a.index_of(np.array([m]))[0])
            if 'elites_order' not in dir(): elites_order=[]
            if idx not in elites: elites[idx]=(o,sid,m); elites_order.append(idx); es=2; ev=o
            elif o>elites[idx][0]: ev=o-elites[idx][0]; elites[idx]=(o,sid,m); es=1
            else: es=0; ev=o-elites[idx][0]
            if (int(r["status"]),float(r["value"]))!=(es,ev): print("FEEDBACK1 seed",seed,step,r,es,ev); bad+=1
        d=a.data()
        got={int(i):(float(o_),int(t)) for i,o_,t in zip(d["index"],d["objective"],d["tag"])}
        exp={k:(v[0],v[1]) for k,v in elites.items()}
        if got!=exp: print("CONTENT seed",seed,step,"remap" if total%rf==0 else "", got,exp); bad+=1; break
        # own-measure retrieval
        if len(d["index"]):
            if not np.array_equal(a.index_of(d["measures"]),d["index"]): print("OWNIDX seed",seed,step, a.index_of(d["measures"]), d["index"], d["measures"].ravel(), a.boundaries); bad+=1; break
    elites_order=[]
    if bad>8: break
print("bad",bad)
