"""C10 — evolution-strategy emitters select parents and restart exactly as configured.

Correspondence: the real `EvolutionStrategyEmitter` / `GradientArborescenceEmitter`
are built with a spy optimizer (`es=`), a spy ranker (`ranker=`) and, for the
arborescence emitter, a spy gradient optimizer (`grad_opt=`), all injected
through the public constructor arguments.  Every `tell` is mirrored by one
request to the Lean machine `esctl` (`PyribsModel/EsControl.lean`), and the
calls the spies received (with arguments), `emitter.itrs` and `emitter.restarts`
are compared with the actions and counters the model returns.

Oracle: the property statement evaluated directly on the spy logs, the public
counters and `archive.data("solution")` — it does not go through the model.
Everything is exact (integers / exact array equality).
"""
import atexit
import numbers

import numpy as np

from core import Driver, Failure, nl, q

ID = "C10"
from genf import translate  # noqa: E402,F401  (regenerates lean/PyribsGen/Formulas.lean from the tree under check)
PROOF_MODULES = ["PyribsProofs.C10", "PyribsGen.Formulas", "PyribsProofs.GenFCtl", "PyribsGen.Control",
                 "PyribsProofs.GenFTell"]
THEOREMS = [
    "Pyribs.GenFProofs.tell_trace_from_source",
    # the parent-count line of EvolutionStrategyEmitter.tell, regenerated from the source
    "Pyribs.GenFProofs.es_num_parents_matches",
    "Pyribs.GenFProofs.num_parents_rules",
    "Pyribs.GenFProofs.es_check_restart_matches",
    "Pyribs.GenFProofs.check_restart_unknown_raises",
    "Pyribs.GenFProofs.check_restart_every",
    "Pyribs.C10.parents_spec",
    "Pyribs.C10.parents_filter",
    "Pyribs.C10.parents_mu",
    "Pyribs.C10.restart_iff",
    "Pyribs.C10.restart_iff_basic",
    "Pyribs.C10.restart_iff_noImprovement",
    "Pyribs.C10.restart_iff_every",
    "Pyribs.C10.counters_step",
    "Pyribs.C10.tell_ok_iff",
    "Pyribs.C10.tell_err_state",
    "Pyribs.C10.history_counts",
    "Pyribs.C10.history_counts_ok",
    "Pyribs.C10.every_count",
    "Pyribs.C10.basic_count",
    "Pyribs.C10.tell_acts",
    "Pyribs.C10.restart_action",
    "Pyribs.C10.restart_recentres",
    "Pyribs.C10.restart_block_last",
    "Pyribs.C10.restart_action_es",
    "Pyribs.C10.restart_action_gae",
    "Pyribs.C10.no_restart_no_action",
    "Pyribs.C10.err_no_reset",
    "Pyribs.C10.handoff",
    "Pyribs.C10.gather_isSome_iff",
    "Pyribs.C10.gather_spec",
    "Pyribs.C10.lastAsk_history",
    "Pyribs.C10.handoff_history",
    "Pyribs.C10.parseRule_spec",
    "Pyribs.C10.mkCfg_ok_iff",
    "Pyribs.C10.nonvacuous",
    "Pyribs.C10.nonvacuous_gae",
]
RULE = ("histories of ask/tell (tell_dqd first for the arborescence emitter) on both emitters with a spy "
        "optimizer, spy ranker and spy gradient optimizer; strata: random histories per emitter, a sweep over "
        "{emitter} x {mu, filter} x {basic, no_improvement, 1..7} x batch 1..8, feedback blocks (all / some / "
        "none inserted, statuses 1 and 2 mixed), scripted stop signals (also coinciding with the rule), archive "
        "churn between tells (elites replaced / archive cleared and refilled), integer rules given as Python ints "
        "and as NumPy integers (int8, uint8, int16, int32, int64, uint64) with histories running past the range "
        "of the narrow types (>= 130 tells for int8, >= 260 for uint8, >= 32770 for int16 in the thorough tier), "
        "the arborescence emitter with a spy gradient optimizer that really moves and with the stock "
        "gradient_ascent / adam optimizers (solution point read through ask_dqd() after every restart), "
        "EvolutionStrategyEmitter built with bounds= (box, upper-only, lower-only, window, per-dimension mixed with "
        "None entries) over archives that also hold elites outside those bounds (added directly before and "
        "between tells, solutions of either sign; the point handed to opt.reset must be bit-identical to an "
        "elite's solution for restarts by integer rule, no_improvement and stop signal), and "
        "rejected calls; a case is "
        "non-trivial when it contains at least one tell that must restart and one that must not (rejections "
        "stratum: at least one rejected call), counted once per distinct op list")
PARTIAL = []
ASSUMPTIONS = [
    "the ranker returns indices that are in range for its ranking values (C17 proves the library rankers return "
    "permutations); outside this the model has an explicit IndexError outcome that the correspondence does not drive",
    "the archive is non-empty whenever a restart is due (hypothesis of the property; the model's explicit "
    "IndexError outcome for the empty archive is likewise not driven)",
    "the caller tells the rows of the last ask (routing law C04); the model carries them as a ghost variable",
    "sample_elites' random draw is an input of the model (any natural number, reduced modulo the archive size); "
    "the correspondence feeds the implementation's choice back and the model checks it is an elite of the archive",
    "negative integer restart rules are outside the model (Python's % makes them behave like |N|)",
]
TECHNIQUE = "Lean 4 proof about an executable control automaton + lock-step correspondence through injected spies"
LEVEL_TEXT = ("theorems unbounded over configurations, rankers, stop tests, feedback and histories; correspondence "
              "bounded: batch 1..8, rules basic / no_improvement / 1..7 (also 11, 50, 127 as NumPy integers), histories up "
              "to 10 (quick) / 30 (thorough) tells, and up to ~290 (quick) / ~32 800 (thorough) tells for integer rules "
              "given as narrow NumPy integers")

RULES = ["basic", "no_improvement", 1, 2, 3, 4, 5, 6, 7]
# an integer rule may be given as any numbers.Integral: the same N as a fixed-width NumPy integer
NP_INTS = ["int8", "uint8", "int16", "int32", "int64", "uint64"]
# number of tells after which `itrs` no longer fits the type (only the small ones are reachable)
NP_WIDTH = {"int8": 128, "uint8": 256, "int16": 32768}
GOPTS = ["spy", "spy", "gradient_ascent", "adam"]
SELS = ["mu", "filter"]
X0 = -1.0
MEASURE_DIM = 2
NCOEF = MEASURE_DIM + 1

_CTX = [None]  # the running context: counts go through it so that they also travel back from forked workers


def stat(key, k=1):
    if _CTX[0] is not None:
        _CTX[0].count(key, k)


# --------------------------------------------------------------------------
# spies (injected through the public es= / ranker= / grad_opt= arguments)


def _bases():
    from ribs.emitters.opt import EvolutionStrategyBase, GradientOptBase
    from ribs.emitters.rankers import RankerBase
    return EvolutionStrategyBase, GradientOptBase, RankerBase


_CLASSES = {}


def spy_classes():
    if _CLASSES:
        return _CLASSES
    ESB, GOB, RKB = _bases()

    class SpyES(ESB):
        # pylint: disable = super-init-not-called
        def __init__(self, sigma0, solution_dim, batch_size=None, seed=None, dtype=np.float64,
                     lower_bounds=-np.inf, upper_bounds=np.inf, *, log, script):
            # the optimizer decides its batch size: it may differ from the one requested (as pycma does with
            # popsize_factor); the emitter has to read it back from `batch_size`
            self.requested_batch = batch_size
            self.batch_size = script.get("actual_batch") or batch_size
            self.solution_dim = solution_dim
            self.dtype = dtype
            self.log = log
            self.script = script
            self.k = 0

        def reset(self, x0):
            self.log.append(("es.reset", np.array(x0, copy=True)))

        def check_stop(self, ranking_values):
            self.log.append(("es.stop", np.array(ranking_values, copy=True)))
            return bool(self.script["stop"])

        def ask(self, batch_size=None):
            self.k += 1
            n = self.batch_size if batch_size is None else batch_size
            rows = [[-(16 * self.k + r) - 0.25] + [float(j + r) for j in range(1, self.solution_dim)]
                    for r in range(n)]
            self.log.append(("es.ask",))
            return np.array(rows, dtype=self.dtype).reshape(n, self.solution_dim)

        def tell(self, ranking_indices, ranking_values, num_parents):
            self.log.append(("es.tell", np.array(ranking_indices, copy=True),
                             np.array(ranking_values, copy=True), num_parents))

    class SpyRanker(RKB):

        def __init__(self, seed=None, *, log, script):
            super().__init__(seed)
            self.log = log
            self.script = script

        def rank(self, emitter, archive, data, add_info):
            self.log.append(("rk.rank", emitter, archive, {k: np.array(v, copy=True) for k, v in data.items()},
                             {k: np.array(v, copy=True) for k, v in add_info.items()}))
            out = (np.array(self.script["perm"], dtype=np.int64),
                   np.array(self.script["vals"], dtype=np.float64))
            self.log.append(("rk.ret", out[0].copy(), out[1].copy()))
            return out

        def reset(self, emitter, archive):
            self.log.append(("rk.reset", emitter, archive, None, None))

    from ribs.emitters.rankers import RandomDirectionRanker, TwoStageRandomDirectionRanker

    def recording(base):
        class Rec(base):
            """the real ranker, recorded; a shadow generator with the same seed predicts every direction draw"""

            def __init__(self, seed=None, *, log, script):
                super().__init__(seed)
                self._shadow = np.random.default_rng(seed)
                self.log = log

            def rank(self, emitter, archive, data, add_info):
                self.log.append(("rk.rank", emitter, archive, {k: np.array(v, copy=True) for k, v in data.items()},
                                 {k: np.array(v, copy=True) for k, v in add_info.items()}))
                out = super().rank(emitter, archive, data, add_info)
                self.log.append(("rk.ret", np.array(out[0], copy=True), np.array(out[1], copy=True)))
                return out

            def reset(self, emitter, archive):
                # a reset draws a standard normal direction and scales it with the archive's extent *now*
                want = self._shadow.standard_normal(archive.measure_dim) * (
                    np.array(archive.upper_bounds) - np.array(archive.lower_bounds))
                super().reset(emitter, archive)
                self.log.append(("rk.reset", emitter, archive, want, np.array(self.target_measure_dir, copy=True)))
        return Rec

    _CLASSES.update(rd=recording(RandomDirectionRanker), rd2=recording(TwoStageRandomDirectionRanker))

    class SpyGradOpt(GOB):
        # pylint: disable = super-init-not-called
        def __init__(self, theta0, lr, *, log):
            self.log = log
            self.lr = lr
            self._theta = np.array(theta0, copy=True)

        @property
        def theta(self):
            return self._theta

        def reset(self, theta0):
            self.log.append(("go.reset", np.array(theta0, copy=True)))
            self._theta = np.array(theta0, copy=True)

        def step(self, gradient):
            # plain gradient ascent: the solution point really moves, so that an update applied after a
            # re-centring is visible in ask_dqd() (how far it moves is property C19, not compared here)
            self.log.append(("go.step", np.array(gradient, copy=True)))
            self._theta = self._theta + self.lr * np.asarray(gradient, dtype=self._theta.dtype)

    _CLASSES.update(es=SpyES, rk=SpyRanker, go=SpyGradOpt)
    return _CLASSES


# --------------------------------------------------------------------------
# tokens


def elite_sol(tok, dim, dtype, neg=False):
    """solution of the elite with token `tok`: pairwise distinct coordinates; `neg` mirrors it through the origin
    (so that elites lie on either side of an emitter's bounds)"""
    v = np.array([tok + 0.5] + [3.0 * tok + j for j in range(1, dim)], dtype=dtype)
    return -v if neg else v


def x0_of(dim):
    """initial solution of the emitters: pairwise distinct coordinates, no elite's solution"""
    return np.array([X0 - 0.25 * j for j in range(dim)])


def same_bits(a, b):
    """bit-identical arrays (shape, dtype and every byte; distinguishes -0.0 from 0.0)"""
    a, b = np.asarray(a), np.asarray(b)
    return a.shape == b.shape and a.dtype == b.dtype and a.tobytes() == b.tobytes()


def decode_elite(x, dim, dtype):
    """token of an elite solution, or None"""
    x = np.asarray(x)
    if x.shape != (dim,):
        return None
    neg = bool(x[0] < 0)
    t = abs(x[0]) - 0.5
    if not np.isfinite(t) or t != int(t) or t < 1:
        return None
    t = int(t)
    return t if np.array_equal(x, elite_sol(t, dim, dtype, neg)) else None


def val_strs(arr):
    """ranking values as wire strings, one per row (exact)"""
    arr = np.asarray(arr)
    if arr.ndim == 0:
        return ["scalar:" + q(float(arr))]
    return [";".join(q(float(x)) for x in np.atleast_1d(row)) for row in arr]


# --------------------------------------------------------------------------
# driver (one persistent process; `new` resets the machine)

_DRV = [None]


def driver():
    if _DRV[0] is None or _DRV[0].p.poll() is not None:
        _DRV[0] = Driver("esctl")
    return _DRV[0]


def _close_driver():
    if _DRV[0] is not None:
        _DRV[0].close()
        _DRV[0] = None


atexit.register(_close_driver)


def parse_acts(s):
    out = []
    if s == "-":
        return out
    for a in s.split("|"):
        f = a.split(":")
        unl = lambda x: [] if x == "-" else [int(t) for t in x.split(",")]
        uns = lambda x: [] if x == "-" else x.split(",")
        if f[0] == "rank":
            out.append(("rank", unl(f[1]), unl(f[2])))
        elif f[0] == "tell":
            out.append(("tell", unl(f[1]), uns(f[2]), int(f[3])))
        elif f[0] == "stop":
            out.append(("stop", uns(f[1])))
        elif f[0] in ("greset", "oreset"):
            out.append((f[0], f[1]))
        else:
            out.append((f[0],))
    return out


def parse_resp(line):
    """`ok k=v …` / `err <e> k=v …` -> (head, dict)"""
    toks = line.split()
    head = toks[0] if toks[0] == "ok" else " ".join(toks[:2])
    d = {}
    for t in toks:
        if "=" in t:
            k, v = t.split("=", 1)
            d[k] = v
    return head, d


RESTART_ACTS = ("greset", "oreset", "rreset")


def canon_acts(acts):
    """hand-off part in call order (without the gradient step of the arborescence
    emitter: whether one is taken is property C19); restart block as a sorted
    multiset (the order of the resets among themselves is not constrained by the
    property); `late` = everything that is not a reset but happens after one
    (this includes a gradient step taken after the re-centring)"""
    head = [a for a in acts if a[0] not in RESTART_ACTS and a[0] != "gstep"]
    tail = sorted(a for a in acts if a[0] in RESTART_ACTS)
    first_reset = next((i for i, a in enumerate(acts) if a[0] in RESTART_ACTS), len(acts))
    # anything of the hand-off that happens after a reset is kept visible
    late = [a for a in acts[first_reset:] if a[0] not in RESTART_ACTS]
    return head, tail, late


# --------------------------------------------------------------------------
# expected behaviour, read off the property (oracle side, no model involved)


def rule_fires(rule, k, statuses):
    """k = number of this tell (first tell = 1)"""
    if rule == "basic":
        return False
    if rule == "no_improvement":
        return all(s == 0 for s in statuses)
    return k % rule == 0


def expected_parents(sel, batch, statuses):
    return sum(1 for s in statuses if s != 0) if sel == "filter" else batch // 2


def decisions(case):
    """restart decisions of the `iter` ops of a case (for the non-triviality rule)"""
    out, k = [], 0
    for op in case["ops"]:
        if op["op"] == "iter":
            for _ in range(int(op.get("rep", 1))):
                k += 1
                out.append(bool(op["stop"]) or rule_fires(case["rule"], k, op["st"]))
    return out


# --------------------------------------------------------------------------
# generators


def gen_statuses(rng, bs, mode):
    if mode == "none":
        return [0] * bs
    if mode == "all":
        st = [rng.choice([1, 2]) for _ in range(bs)]
        if bs >= 2:
            i, j = rng.sample(range(bs), 2)
            st[i], st[j] = 1, 2
        return st
    if mode == "some":
        st = [rng.choice([0, 1, 2]) for _ in range(bs)]
        if bs >= 2:
            i, j = rng.sample(range(bs), 2)
            st[i], st[j] = 0, rng.choice([1, 2])
        if bs >= 3:
            rest = [x for x in range(bs)]
            i, j, k = rng.sample(rest, 3)
            st[i], st[j], st[k] = 0, 1, 2
        return st
    return [rng.choice([0, 0, 1, 2]) for _ in range(bs)]


def gen_iter(rng, bs, mode, p_stop):
    perm = rng.sample(range(bs), bs)
    if rng.random() < 0.2:
        vals = [[rng.randint(-9, 9), rng.randint(-9, 9)] for _ in range(bs)]
    else:
        vals = [rng.randint(-9, 9) for _ in range(bs)]
    return {"op": "iter", "st": gen_statuses(rng, bs, mode), "stop": int(rng.random() < p_stop),
            "perm": perm, "vals": vals}


def gen_history(rng, kind, sel, rule, bs, n_iters, p_stop=0.15, modes=("random", "all", "some", "none"),
                block=False, churn=0.3):
    tok = [0]

    def fresh():
        tok[0] += 1
        return tok[0]

    def add():
        o = {"op": "add", "tok": fresh(), "cell": [rng.randrange(3), rng.randrange(3)],
             "obj": rng.randint(0, 9)}
        if rng.random() < 0.3:
            o["neg"] = True  # solution mirrored through the origin
        return o

    ops = [add() for _ in range(rng.randint(1, 3))]
    if kind == "gae":
        ops.append({"op": "dqd"})
    mode = rng.choice(modes)
    for _ in range(n_iters):
        r = rng.random()
        if r < churn:
            ops.append(add())
        elif r < churn + 0.06:
            ops.append({"op": "clear"})
            ops.append(add())
        if kind == "gae" and rng.random() < 0.7:
            ops.append({"op": "dqd"})
        if not block or rng.random() < 0.3:
            mode = rng.choice(modes)
        ops.append(gen_iter(rng, bs, mode, p_stop))
    return {
        "kind": kind, "sel": sel, "rule": rule, "batch": bs, "dim": rng.randint(1, 4),
        "f32": rng.random() < 0.25, "aseed": rng.randrange(1000), "normalize": rng.random() < 0.5,
        "rule_np": rng.choice(NP_INTS) if isinstance(rule, int) and rng.random() < 0.35 else None,
        "gopt": rng.choice(GOPTS) if kind == "gae" else "spy",
        "ops": ops,
    }


BOUND_LAYOUTS = ["box", "upper", "lower", "window", "perdim"]


def gen_bounds(rng, dim, layout=None):
    """solution-space bounds of the emitter (`bounds=`; None = no bound on that side / that dimension), placed so
    that elite solutions (coordinates of magnitude 1.5 .. ~100, either sign) lie inside as well as outside"""
    layout = layout or rng.choice(BOUND_LAYOUTS)
    if layout == "box":
        b = float(rng.choice([1, 4, 10, 25]))
        return [[-b, b] for _ in range(dim)]
    if layout == "upper":
        return [[None, float(rng.choice([-3, 0, 2, 5, 12]))] for _ in range(dim)]
    if layout == "lower":
        return [[float(rng.choice([-12, -2, 0, 3, 7])), None] for _ in range(dim)]
    if layout == "window":
        lo = float(rng.choice([-6, 2, 3]))
        return [[lo, lo + float(rng.choice([3, 6, 20]))] for _ in range(dim)]
    out = []
    for _ in range(dim):
        r = rng.random()
        lo, hi = float(rng.choice([-8, -1, 2, 4])), float(rng.choice([5, 9, 30]))
        out.append(None if r < 0.25 else [None, hi] if r < 0.5 else [lo, None] if r < 0.75 else [lo, hi])
    if all(x is None for x in out):
        out[rng.randrange(dim)] = [None, 3.0]
    return out


def with_bounds(rng, case, p):
    """variants sprinkled over every stratum: bounds (EvolutionStrategyEmitter only, the arborescence emitter
    rejects them), an unstructured archive with the real random-direction rankers, an optimizer that settles on
    a batch size other than the one requested"""
    if case["kind"] == "es" and rng.random() < p:
        case["bounds"] = gen_bounds(rng, case["dim"])
    r = rng.random()
    if r < 0.15:
        case["arch"] = rng.choice(["prox", "prox-lc"])
        case["ranker"] = rng.choice(["rd", "2rd", "rd", "2rd", "spy"])
    r = rng.random()
    if r < 0.15:
        case["req_batch"] = rng.choice([b for b in (1, 2, 3, 4, 6, 8, 2 * case["batch"], case["batch"] // 2 or 5)
                                        if b != case["batch"]])
    return case


def make_gen_proximity(max_iters):
    """ProximityArchive (with and without local competition) + the real 'rd' / '2rd' rankers: elites are added
    between the tells so that the archive's bounds move; every restart must reset the ranker against the archive
    as it is then"""
    def gen(rng):
        kind = rng.choice(["es", "gae"])
        rule = rng.choice(["basic", "no_improvement", 1, 2, 3])
        case = gen_history(rng, kind, rng.choice(SELS), rule, rng.randint(1, 6), rng.randint(3, max_iters),
                           p_stop=0.35 if rule == "basic" else 0.15, churn=0.75)
        case["arch"] = rng.choice(["prox", "prox-lc"])
        case["ranker"] = rng.choice(["rd", "2rd"])
        return case
    return gen


def make_gen_optbatch(max_iters):
    """the optimizer settles on a batch size other than the requested one (as pycma does with popsize_factor):
    `batch` is what it reports and emits, `req_batch` what the constructor was given"""
    def gen(rng):
        bs = rng.randint(1, 8)
        case = gen_history(rng, rng.choice(["es", "gae"]), rng.choice(["mu", "mu", "filter"]), rng.choice(RULES), bs,
                           rng.randint(2, max_iters))
        case["req_batch"] = rng.choice([b for b in (1, 2, 3, 5, 6, 8, 12, 2 * bs, bs // 2 or 7) if b != bs])
        return case
    return gen


def make_gen_histories(kind, max_iters):
    def gen(rng):
        return with_bounds(rng, gen_history(rng, kind, rng.choice(SELS), rng.choice(RULES), rng.randint(1, 8),
                           rng.randint(1, max_iters)), 0.3)
    return gen


def make_gen_sweep(max_iters, systematic):
    combos = [(k, s, r, b) for k in ("es", "gae") for s in SELS for r in RULES for b in range(1, 9)]
    counter = [0]

    def gen(rng):
        # quick tier (one process): walk the whole lattice in order, the rng supplies the feedback;
        # thorough tier (forked workers, 12 cases per lattice point): the rng also picks the point
        kind, sel, rule, bs = combos[counter[0] % len(combos) if systematic else rng.randrange(len(combos))]
        counter[0] += 1
        n = 2 * rule + 1 + rng.randint(0, 2) if isinstance(rule, int) else rng.randint(3, 8)
        return with_bounds(rng, gen_history(rng, kind, sel, rule, bs, min(n, max_iters), p_stop=0.05), 0.3)
    return gen


def make_gen_blocks(max_iters):
    def gen(rng):
        rule = rng.choice(["no_improvement"] * 4 + RULES)
        sel = rng.choice(SELS)
        bs = rng.choice([1, 1, 2, 3, 4, 5, 8]) if sel == "mu" else rng.randint(1, 8)
        return with_bounds(rng, gen_history(rng, rng.choice(["es", "gae"]), sel, rule, bs, rng.randint(3, max_iters),
                           p_stop=0.05, modes=("all", "some", "none"), block=True), 0.3)
    return gen


def make_gen_stops(max_iters):
    def gen(rng):
        rule = rng.choice(["basic"] * 3 + RULES)
        return with_bounds(rng, gen_history(rng, rng.choice(["es", "gae"]), rng.choice(SELS), rule, rng.randint(1, 8),
                           rng.randint(2, max_iters), p_stop=rng.choice([0.3, 0.5, 0.9])), 0.3)
    return gen


def make_gen_bounded(max_iters):
    """EvolutionStrategyEmitter built with solution-space bounds (every layout: box, one-sided, window,
    per-dimension) over an archive that also holds elites outside those bounds (added directly, before and
    between the tells; solutions of either sign), restarts by every cause"""
    def gen(rng):
        rule = rng.choice(["basic", "no_improvement", "no_improvement", 1, 2, 3, 5])
        case = gen_history(rng, "es", rng.choice(SELS), rule, rng.randint(1, 6), rng.randint(3, max_iters),
                           p_stop=0.3 if rule == "basic" else 0.15, churn=0.5)
        case["dim"] = rng.randint(1, 4)
        case["bounds"] = gen_bounds(rng, case["dim"], rng.choice(BOUND_LAYOUTS))
        return case
    return gen


def make_gen_npint(thorough):
    """integer rules given as NumPy integers of every width, with histories that run past the range of the
    narrow types (int8: >= 130 tells, uint8: >= 260; int16: >= 32770, thorough tier only)"""
    counter = [0]

    def gen(rng):
        # quick tier: one process, types and emitters in rotation; thorough tier: forked workers, the rng picks
        i = rng.randrange(10 ** 6) if thorough else counter[0]
        counter[0] += 1
        tname = NP_INTS[i % len(NP_INTS)]
        kind = ("es", "gae")[(i // len(NP_INTS)) % 2]
        very_long = thorough and tname == "int16" and rng.random() < 0.06
        bs = 1 if very_long else rng.randint(1, 4)
        rule = rng.choice([1, 2, 3, 4, 5, 6, 7, 7, 11, 50, 127])
        case = gen_history(rng, kind, rng.choice(SELS), rule, bs, rng.randint(2, 5), p_stop=0.1, churn=0.2)
        case["rule_np"] = tname
        case["dim"] = min(case["dim"], 2)
        if very_long:
            total = NP_WIDTH["int16"] + 2 + rng.randint(0, 2 * rule)
        else:
            total = (NP_WIDTH[tname] if tname in ("int8", "uint8") else 16) + 2 + rng.randint(0, 2 * rule + 10)
        # stretch the history: the generated iterations are repeated in blocks until `total` tells are reached
        iters = [o for o in case["ops"] if o["op"] == "iter"]
        have = len(iters)
        while have < total:
            o = rng.choice(iters)
            k = min(total - have, rng.randint(1, max(1, total // 4)))
            o["rep"] = int(o.get("rep", 1)) + k
            have += k
        return case
    return gen


def gen_rejections(rng):
    r = rng.random()
    if r < 0.35:
        # constructor: invalid / valid selection and restart rules
        return {
            "kind": rng.choice(["es", "gae"]), "sel": rng.choice(["mu", "filter", "best", "", "Mu"]),
            "rule": rng.choice(["basic", "no_improvement", "sometimes", "", 0, 1, 3, 7]),
            "batch": rng.randint(1, 4), "dim": rng.randint(1, 3), "f32": False, "aseed": 0, "normalize": False,
            "ops": [{"op": "add", "tok": 1, "cell": [0, 0], "obj": 1}],
        }
    kind = rng.choice(["es", "gae"])
    case = gen_history(rng, kind, rng.choice(SELS), rng.choice(RULES), rng.randint(1, 6), rng.randint(2, 6))
    ops = case["ops"]
    # malformed tells (status vector of the wrong length) sprinkled between valid iterations
    for _ in range(rng.randint(1, 3)):
        bs = case["batch"]
        n = rng.choice([x for x in (0, bs - 1, bs + 1, bs + 3) if x >= 0 and x != bs])
        pos = rng.randint(1, len(ops))
        ops.insert(pos, {"op": "badtell", "st": [rng.choice([0, 1, 2]) for _ in range(n)]})
    if kind == "gae" and rng.random() < 0.6:
        # ask / tell before any gradients were supplied
        case["ops"] = [o for o in ops if o["op"] != "dqd"]
        first_iter = next(i for i, o in enumerate(case["ops"]) if o["op"] in ("iter", "badtell"))
        case["ops"].insert(first_iter, {"op": "early", "st": [1] * case["batch"]})
        case["ops"].insert(first_iter + 1, {"op": "dqd"})
    return case


def nontrivial(case):
    d = decisions(case)
    return any(d) and not all(d)


def nontrivial_rej(case):
    return (case["sel"] not in SELS or case["rule"] not in RULES
            or any(o["op"] in ("badtell", "early") for o in case["ops"]))


# --------------------------------------------------------------------------
# one case


def exc_name(e):
    if isinstance(e, ValueError):
        return "err value"
    if isinstance(e, RuntimeError):
        return "err runtime"
    if isinstance(e, IndexError):
        return "err index"
    if isinstance(e, ZeroDivisionError):
        return "err zerodiv"
    return "err other:" + type(e).__name__


def run_case(case):
    from ribs.archives import GridArchive, ProximityArchive
    from ribs.emitters import EvolutionStrategyEmitter, GradientArborescenceEmitter
    cls = spy_classes()
    kind, sel, rule, bs, dim = case["kind"], case["sel"], case["rule"], case["batch"], case["dim"]
    dtype = np.float32 if case.get("f32") else np.float64
    drv = driver()

    akind = case.get("arch", "grid")
    rkind = case.get("ranker", "spy")
    if akind == "grid":
        arch = GridArchive(solution_dim=dim, dims=[3, 3], ranges=[(0, 3), (0, 3)], seed=case.get("aseed", 0),
                           dtype=dtype)
    else:
        # unstructured archive: its measure-space bounds move as elites are added
        arch = ProximityArchive(solution_dim=dim, measure_dim=MEASURE_DIM, k_neighbors=1, novelty_threshold=1.0,
                                local_competition=akind == "prox-lc", initial_capacity=4,
                                seed=case.get("aseed", 0), dtype=dtype)
        # the random-direction rankers need the archive's bounds already at construction
        arch.add_single(elite_sol(998, dim, dtype), 0.0, [0.0, 0.0])

    def meas_of(op):
        if akind == "grid":
            return [op["cell"][0] + 0.5, op["cell"][1] + 0.5]
        # every token at its own place (always novel), stretching the archive anisotropically
        return [2.0 * op["tok"] * (1 + op["cell"][0]), 2.0 * op["cell"][1]]
    log = []
    script = {"stop": False, "perm": list(range(bs)), "vals": [0] * bs, "actual_batch": bs}
    made = {}

    def mk_es(**kw):
        made["es"] = cls["es"](log=log, script=script, **kw)
        return made["es"]

    def mk_rk(seed=None):
        made["rk"] = cls[{"spy": "rk", "rd": "rd", "2rd": "rd2"}[rkind]](seed, log=log, script=script)
        return made["rk"]

    def mk_go(**kw):
        made["go"] = cls["go"](log=log, **kw)
        return made["go"]

    # ---- construction ---------------------------------------------------
    x0 = x0_of(dim)
    bounds = case.get("bounds")
    bounds_arg = None if bounds is None else [None if b is None else (b[0], b[1]) for b in bounds]
    err = None
    rule_arg = rule
    if case.get("rule_np") and isinstance(rule, int):
        rule_arg = getattr(np, case["rule_np"])(rule)  # the same integer N, given as a fixed-width NumPy integer
    gopt = case.get("gopt", "spy")
    spy_go = gopt == "spy"
    # the batch size asked for; the optimizer may settle on another one (`batch`), which it reports and emits
    req_bs = case.get("req_batch") or bs
    late_fail = None
    try:
        if kind == "es":
            em = EvolutionStrategyEmitter(arch, x0=x0, sigma0=1.0, ranker=mk_rk, es=mk_es, selection_rule=sel,
                                          restart_rule=rule_arg, bounds=bounds_arg, batch_size=req_bs, seed=1)
        else:
            em = GradientArborescenceEmitter(arch, x0=x0, sigma0=1.0, lr=0.5, ranker=mk_rk, es=mk_es,
                                             grad_opt=mk_go if spy_go else gopt, selection_rule=sel,
                                             restart_rule=rule_arg,
                                             normalize_grad=bool(case.get("normalize")), batch_size=req_bs, seed=1)
    except Exception as e:  # pylint: disable=broad-except
        err = exc_name(e)
    m = drv.ask(f"new kind={kind} sel={sel if sel else '<empty>'} rule={rule if rule != '' else '<empty>'} batch={bs}")
    valid_cfg = sel in SELS and rule in RULES
    stat("construct:" + ("accepted" if err is None else "rejected"))
    if isinstance(rule, int) and err is None:
        stat("integer-rule-as:" + (case.get("rule_np") or "int"))
    if kind == "gae" and err is None:
        stat("grad-opt:" + gopt)
    if bounds is not None and err is None:
        sides = {(b is not None and b[0] is not None, b is not None and b[1] is not None) for b in bounds}
        stat("bounds:" + ("two-sided" if sides == {(True, True)} else "upper-only" if sides == {(False, True)}
                          else "lower-only" if sides == {(True, False)} else "per-dimension-mixed"))
    if valid_cfg and err is not None:
        return Failure("oracle", f"construct: valid configuration sel={sel!r} rule={rule!r} rejected ({err})")
    # rejection of an invalid configuration: compared as accepted / rejected only
    if (err is None) != (m == "ok"):
        return Failure("corr", f"construct: sel={sel!r} rule={rule!r} impl={'ok' if err is None else err} model={m}")
    if err is not None:
        return None
    if em.itrs != 0 or em.restarts != 0:
        return Failure("oracle", f"construct: fresh emitter has itrs={em.itrs} restarts={em.restarts}")
    if em.batch_size != bs:
        # (kept for the end: a wrong parent count on a later tell is the more telling failure)
        late_fail = Failure("oracle", f"construct: emitter.batch_size={em.batch_size} but the optimizer reports "
                                      f"(and emits) batches of {bs} (requested {req_bs})")
    stat(f"archive:{akind}")
    stat(f"ranker:{rkind}")
    if req_bs != bs:
        stat("optimizer-adjusts-batch")

    es, rk = made["es"], made["rk"]
    del log[:]  # constructor-time resets are not part of the property
    exp_itrs = exp_restarts = 0
    n_ask = 0
    jac0 = np.array([[[float(((c + 1) * (j + 2)) % 5 - 2) for j in range(dim)] for c in range(NCOEF)]])

    def arch_tokens():
        sols = arch.data("solution")
        toks = [decode_elite(x, dim, dtype) for x in sols]
        assert all(t is not None for t in toks), "harness: archive row does not decode"
        return toks, sols

    def do_dqd():
        th = em.ask_dqd()
        em.tell_dqd(th, np.zeros(1), np.zeros((1, MEASURE_DIM)), jac0.copy(),
                    {"status": np.zeros(1, dtype=np.int32), "value": np.zeros(1)})
        drv.ask("telldqd")

    def do_ask():
        nonlocal n_ask
        n_ask += 1
        rows = np.array(em.ask(), copy=True)
        toks = [16 * n_ask + r for r in range(len(rows))]
        drv.ask("ask " + nl(toks))
        return rows, toks

    def tell_args(rows, st):
        n = len(rows)
        # measures with some spread so that the real random-direction rankers have something to project
        meas = np.array([[float((7 * i + 3 * n_ask) % 5) - 0.5 * i, float((i * 3 + n_ask) % 4)] for i in range(n)]
                        ).reshape(n, MEASURE_DIM)
        return (rows.copy(), np.zeros(n), meas,
                {"status": np.array(st, dtype=np.int32), "value": np.zeros(len(st))})

    have_jac = False
    pending = None  # first correspondence failure on a rejected call; a later oracle failure takes precedence
    for step, op in enumerate(case["ops"]):
        o = op["op"]
        where = f"op#{step} {o}"
        if o == "add":
            arch.add_single(elite_sol(op["tok"], dim, dtype, bool(op.get("neg"))), float(op["obj"]),
                            meas_of(op))
            continue
        if o == "clear":
            arch.clear()
            continue
        if o == "dqd":
            if kind == "gae":
                do_dqd()
                have_jac = True
            continue
        if o == "early":
            # arborescence emitter before any tell_dqd: ask and tell must raise RuntimeError
            if kind != "gae" or have_jac:
                continue
            for what in ("ask", "tell"):
                n0 = len(log)
                e_impl = "ok"
                try:
                    if what == "ask":
                        em.ask()
                    else:
                        em.tell(*tell_args(np.zeros((bs, dim)), op["st"]))
                except Exception as e:  # pylint: disable=broad-except
                    e_impl = exc_name(e)
                if what == "ask":
                    mm = drv.ask("ask " + nl(range(bs)))
                else:
                    mm = drv.ask(f"tell sols={nl(range(bs))} st={nl(op['st'])} perm={nl(range(bs))} "
                                 f"vals={','.join(['0'] * bs)} stop=0 arch=1 rnd=0").split(" itrs=")[0]
                stat("rejected:early-" + what)
                if e_impl != mm:
                    pending = pending or Failure(
                        "corr", f"{where}: {what} before tell_dqd impl={e_impl} model={mm}")
                elif len(log) != n0 or em.itrs != exp_itrs or em.restarts != exp_restarts:
                    pending = pending or Failure(
                        "corr", f"{where}: rejected {what} had effects: calls={[l[0] for l in log[n0:]]} "
                                f"itrs={em.itrs} restarts={em.restarts}")
            continue
        if kind == "gae" and not have_jac:
            do_dqd()  # (shrinking may have removed the dqd op)
            have_jac = True
        if o == "badtell":
            rows, toks = do_ask()
            n0 = len(log)
            e_impl = "ok"
            try:
                em.tell(*tell_args(rows, op["st"]))
            except Exception as e:  # pylint: disable=broad-except
                e_impl = exc_name(e)
            mm = drv.ask(f"tell sols={nl(toks)} st={nl(op['st'])} perm={nl(range(bs))} "
                         f"vals={','.join(['0'] * bs)} stop=0 arch=1 rnd=0")
            head, d = parse_resp(mm)
            stat("rejected:status-length")
            if e_impl != head:
                pending = pending or Failure(
                    "corr", f"{where}: {len(op['st'])} statuses for {bs} rows impl={e_impl} model={head}")
            elif (len(log) != n0 or em.itrs != exp_itrs or em.restarts != exp_restarts
                  or int(d["itrs"]) != exp_itrs or int(d["restarts"]) != exp_restarts):
                pending = pending or Failure(
                    "corr", f"{where}: rejected tell had effects: calls={[l[0] for l in log[n0:]]} "
                            f"itrs={em.itrs} restarts={em.restarts} model={mm}")
            del log[n0:]
            continue
        if o != "iter":
            continue

        # ---- one iteration: ask, then tell with scripted feedback -----------
        st, stop, perm, vals = op["st"], bool(op["stop"]), op["perm"], op["vals"]
        for rep_i in range(int(op.get("rep", 1))):
            if rep_i:
                where = f"op#{step} iter (repetition {rep_i + 1})"
            if len(arch) == 0:
                arch.add_single(elite_sol(999, dim, dtype), 0.0, [0.5, 0.5])  # the property's hypothesis
            rows, toks = do_ask()
            script.update(stop=stop, perm=perm, vals=vals)
            n0 = len(log)
            try:
                em.tell(*tell_args(rows, st))
            except Exception as e:  # pylint: disable=broad-except
                return Failure("oracle", f"{where}: well-formed tell raised {exc_name(e)}: {e}")
            rets = [c for c in log[n0:] if c[0] == "rk.ret"]
            calls = [c for c in log[n0:] if c[0] != "rk.ret"]
            del log[:]  # (long histories: keep the log short)
            if len(rets) == 1:
                # what the ranker actually returned (the script for the spy ranker, the real ranking otherwise)
                perm, vals = [int(x) for x in rets[0][1]], rets[0][2].tolist()
            exp_itrs += 1
            new = sum(1 for s in st if s != 0)
            # 'mu': half of the batch the emitter last emitted
            npar = expected_parents(sel, len(rows), st)
            fires = rule_fires(rule, exp_itrs, st)
            should = stop or fires
            exp_restarts += int(should)
            a_toks, a_sols = arch_tokens()
            vals_arr = np.array(vals, dtype=np.float64)
            sorted_arr = vals_arr[np.array(perm)]
            stat("tells")
            stat(f"restart:{'stop+rule' if stop and fires else 'stop' if stop else 'rule' if fires else 'no'}")
            stat(f"feedback:{'none' if new == 0 else 'all' if new == bs else 'some'}")
            if 1 in st and 2 in st:
                stat("feedback:1-and-2-mixed")
            if npar == 0 and new > 0:
                stat("parents=0-but-inserted")

            # ---- oracle: the property on the spy logs ---------------------------
            names = [c[0] for c in calls]
            ranks = [c for c in calls if c[0] == "rk.rank"]
            tells = [c for c in calls if c[0] == "es.tell"]
            stops = [c for c in calls if c[0] == "es.stop"]
            oresets = [c for c in calls if c[0] == "es.reset"]
            rresets = [c for c in calls if c[0] == "rk.reset"]
            gresets = [c for c in calls if c[0] == "go.reset"]
            if len(ranks) != 1 or len(tells) != 1:
                return Failure("oracle", f"{where}: ranker consulted {len(ranks)}x, optimizer told {len(tells)}x")
            rc, tc = ranks[0], tells[0]
            if rc[1] is not em or rc[2] is not arch:
                return Failure("oracle", f"{where}: ranker.rank received a foreign emitter / archive")
            if not (rc[3]["solution"].shape == rows.shape and np.array_equal(rc[3]["solution"], rows)):
                return Failure("oracle", f"{where}: ranker ranked {rc[3]['solution'].tolist()}, last ask emitted "
                                         f"{rows.tolist()}")
            if not np.array_equal(rc[4]["status"], np.array(st)):
                return Failure("oracle", f"{where}: ranker saw statuses {rc[4]['status'].tolist()}, feedback was {st}")
            if names.index("rk.rank") > names.index("es.tell"):
                return Failure("oracle", f"{where}: optimizer told before the ranker was consulted")
            if not (np.array_equal(tc[1], np.array(perm)) and tc[2].shape == vals_arr.shape
                    and np.array_equal(tc[2], vals_arr)):
                return Failure("oracle", f"{where}: optimizer received ranking {tc[1].tolist()} / {tc[2].tolist()}, "
                                         f"ranker returned {perm} / {vals}")
            if not (isinstance(tc[3], (numbers.Real, np.number)) and tc[3] == npar):
                return Failure("oracle", f"{where}: num_parents={tc[3]!r}, expected {npar} "
                                         f"(selection_rule={sel}, batch={bs}, statuses={st})")
            for sc in stops:
                if not (sc[1].shape == sorted_arr.shape and np.array_equal(sc[1], sorted_arr)):
                    return Failure("oracle", f"{where}: check_stop saw {sc[1].tolist()}, ranked values are "
                                             f"{sorted_arr.tolist()}")
            restarted = bool(oresets or rresets or gresets)
            if restarted != should:
                return Failure("oracle", f"{where}: tell #{exp_itrs} restart_rule={rule} stop={stop} statuses={st}: "
                                         f"{'restarted' if restarted else 'did not restart'}, must "
                                         f"{'restart' if should else 'not restart'} (calls {names})")
            centre = None
            if should:
                want = {"es.reset": 1, "rk.reset": 1, "go.reset": 1 if kind == "gae" and spy_go else 0}
                got = {"es.reset": len(oresets), "rk.reset": len(rresets), "go.reset": len(gresets)}
                if got != want:
                    return Failure("oracle", f"{where}: restart performed {got}, expected {want}")
                first_reset = min(i for i, nme in enumerate(names) if nme in ("es.reset", "rk.reset", "go.reset"))
                if first_reset < names.index("es.tell"):
                    return Failure("oracle", f"{where}: reset before the optimizer was told (calls {names})")
                if "go.step" in names[first_reset:]:
                    return Failure("oracle", f"{where}: gradient step applied after the re-centring: the solution "
                                             f"point is stepped away from the elite again (calls {names})")
                if rresets[0][1] is not em or rresets[0][2] is not arch:
                    return Failure("oracle", f"{where}: ranker.reset received a foreign emitter / archive")
                if rresets[0][3] is not None:
                    stat("real-ranker-reset-checked")
                    if not same_bits(rresets[0][3], rresets[0][4]):
                        return Failure("oracle", f"{where}: after the restart the ranker is not reset for the archive "
                                                 f"as it is now: target_measure_dir={rresets[0][4].tolist()}, a reset "
                                                 f"against the current bounds {np.array(arch.lower_bounds).tolist()}"
                                                 f"..{np.array(arch.upper_bounds).tolist()} gives "
                                                 f"{rresets[0][3].tolist()}")
                if kind == "es":
                    centre = oresets[0][1]
                else:
                    # the emitter's solution point after the tell (public: ask_dqd())
                    centre = np.array(em.ask_dqd()[0], copy=True)
                    if spy_go and not same_bits(gresets[0][1], centre):
                        return Failure("oracle", f"{where}: gradient optimizer re-centred on {gresets[0][1].tolist()} "
                                                 f"but after the tell the solution point ask_dqd() is "
                                                 f"{centre.tolist()} (calls {names})")
                # bit-identical (shape, dtype, every byte) to the solution of some elite of the archive as it is now
                if not any(same_bits(c, centre) for c in a_sols):
                    return Failure("oracle", f"{where}: after the restart the emitter is centred on {centre.tolist()} "
                                             f"({centre.dtype}), not (bit for bit) the solution of an elite currently "
                                             f"in the archive {a_sols.tolist()} ({a_sols.dtype}); emitter bounds="
                                             f"{bounds}; restart cause: {'stop signal' if stop else ''}"
                                             f"{' + ' if stop and fires else ''}{'rule ' + str(rule) if fires else ''} "
                                             f"(calls {names})")
                if bounds is not None:
                    lo = np.array([-np.inf if b is None or b[0] is None else b[0] for b in bounds])
                    hi = np.array([np.inf if b is None or b[1] is None else b[1] for b in bounds])
                    inside = bool(np.all((centre >= lo) & (centre <= hi)))
                    stat("restart-under-bounds:elite-" + ("inside" if inside else "outside") + ":"
                         + ("stop" if stop and not fires else "rule-" + ("N" if isinstance(rule, int) else str(rule))
                            if fires and not stop else "stop+rule"))
                if kind == "gae" and not (oresets[0][1].shape == (NCOEF,) and not np.any(oresets[0][1])):
                    return Failure("oracle", f"{where}: coefficient distribution reset to {oresets[0][1].tolist()}, "
                                             f"expected zeros({NCOEF})")
            if em.itrs != exp_itrs:
                return Failure("oracle", f"{where}: itrs={em.itrs} after {exp_itrs} tells")
            if em.restarts != exp_restarts:
                return Failure("oracle", f"{where}: restarts={em.restarts}, {exp_restarts} restarts were due")

            # ---- correspondence with the Lean model -----------------------------
            ctok = decode_elite(centre, dim, dtype) if centre is not None else None
            rnd = a_toks.index(ctok) if ctok in a_toks else 0
            # tokens of the rows the ranker saw (whole batch = the rows of the last ask, checked above)
            mm = drv.ask(f"tell sols={nl(toks)} st={nl(st)} perm={nl(perm)} vals={','.join(val_strs(vals_arr))} "
                         f"stop={int(stop)} arch={nl(a_toks)} rnd={rnd}")
            head, d = parse_resp(mm)
            if head != "ok":
                return pending or Failure("corr", f"{where}: model rejected a tell the implementation accepted: {mm}")
            impl_acts = []
            for c in calls:
                if c[0] == "rk.rank":
                    impl_acts.append(("rank", toks, [int(x) for x in c[4]["status"]]))
                elif c[0] == "es.tell":
                    impl_acts.append(("tell", [int(x) for x in c[1]], val_strs(c[2]), int(c[3])))
                elif c[0] == "es.stop":
                    impl_acts.append(("stop", val_strs(c[1])))
                elif c[0] in ("es.reset", "go.reset"):
                    t = decode_elite(c[1], dim, dtype)
                    if t is not None:
                        cen = f"e{t}"
                    elif kind == "gae" and c[0] == "es.reset" and not np.any(c[1]):
                        cen = "zero"
                    else:
                        cen = "?" + str(c[1].tolist())
                    impl_acts.append(("oreset" if c[0] == "es.reset" else "greset", cen))
                elif c[0] == "rk.reset":
                    impl_acts.append(("rreset",))
                elif c[0] == "go.step":
                    impl_acts.append(("gstep",))
                else:
                    impl_acts.append((c[0],))
            if kind == "gae" and not spy_go and restarted:
                # a real gradient optimizer is not spied on: its re-centring is read off ask_dqd()
                impl_acts.append(("greset", f"e{ctok}" if ctok is not None else "?" + str(centre.tolist())))
            model_acts = [a for a in parse_acts(d["acts"]) if a[0] not in ("sample", "inc")]
            ih, it_, il = canon_acts(impl_acts)
            mh, mt, ml = canon_acts(model_acts)
            if fires and len(ih) == 2 and len(mh) == 3:
                # the rule alone decides: whether check_stop is still consulted is not constrained
                mh = mh[:2]
            obs_impl = {"np": int(tc[3]), "restart": int(restarted), "itrs": int(em.itrs), "restarts": int(em.restarts),
                        "handoff": ih, "restart_block": it_, "late": il,
                        "point": f"e{ctok}" if restarted else None}
            obs_model = {"np": int(d["np"]), "restart": int(d["restart"]), "itrs": int(d["itrs"]),
                         "restarts": int(d["restarts"]), "handoff": mh, "restart_block": mt, "late": ml,
                         "point": d["point"] if restarted else None}
            if obs_impl != obs_model:
                diff = {k: (obs_impl[k], obs_model[k]) for k in obs_impl if obs_impl[k] != obs_model[k]}
                return pending or Failure("corr", f"{where}: impl/model differ on {diff}")
    return late_fail or pending


# --------------------------------------------------------------------------


def run(ctx):
    _CTX[0] = ctx
    mi = 10 if ctx.quick else 30
    tb = (lambda s: s) if ctx.quick else (lambda s: s * 12)
    ctx.explore("es-histories", make_gen_histories("es", mi), run_case, ctx.n(220, 5000),
                nontrivial=nontrivial, time_budget=tb(6))
    ctx.explore("gae-histories", make_gen_histories("gae", mi), run_case, ctx.n(220, 5000),
                nontrivial=nontrivial, time_budget=tb(6))
    ctx.explore("rule-sweep", make_gen_sweep(17 if ctx.quick else 30, systematic=ctx.quick), run_case, ctx.n(288, 288 * 12),
                nontrivial=nontrivial, time_budget=tb(8))
    ctx.explore("feedback-blocks", make_gen_blocks(mi), run_case, ctx.n(160, 4000),
                nontrivial=nontrivial, time_budget=tb(5))
    ctx.explore("stop-signals", make_gen_stops(mi), run_case, ctx.n(120, 3000),
                nontrivial=nontrivial, time_budget=tb(4))
    ctx.explore("bounded-emitter", make_gen_bounded(mi), run_case, ctx.n(140, 3000),
                nontrivial=nontrivial, time_budget=tb(4))
    ctx.explore("proximity-rd-rankers", make_gen_proximity(mi), run_case, ctx.n(120, 2500),
                nontrivial=nontrivial, time_budget=tb(4))
    ctx.explore("optimizer-batch", make_gen_optbatch(mi), run_case, ctx.n(100, 2000),
                nontrivial=nontrivial, time_budget=tb(3))
    ctx.explore("numpy-int-rules", make_gen_npint(not ctx.quick), run_case, ctx.n(48, 600),
                nontrivial=nontrivial, time_budget=tb(8))
    ctx.explore("rejections", gen_rejections, run_case, ctx.n(80, 1500),
                nontrivial=nontrivial_rej, time_budget=tb(3))
    ctx.extra["tells_compared"] = ctx.dist.get("tells", 0)
    ctx.extra["technique"] = TECHNIQUE
    ctx.extra["level_text"] = LEVEL_TEXT


def replay(ctx, case):
    return run_case(case)
