import PyribsProofs.C01
import Mathlib.Tactic.Positivity
import Mathlib.Tactic.FieldSimp
/-!
# C05 — CMA-MAE thresholds follow the documented update rule and only ever rise

Setting: finite `threshold_min = t₀` and learning rate `0 ≤ a ≤ 1` (`CmaCfg`).
-/
namespace Pyribs.C05
open Pyribs Arch Store

/-- finite `threshold_min` and a learning rate in `[0, 1]` -/
structure CmaCfg (cfg : Cfg) : Prop where
  finite : ∃ t, cfg.tmin = some t
  lr_nonneg : 0 ≤ cfg.lr
  lr_le_one : cfg.lr ≤ 1

/-- accepted candidates of a batch aimed at cell `i` (judged against the pre-call state) -/
def acceptedAt (a : Arch) (rows : List (Nat × Cand)) (i : Nat) : List Cand :=
  (rowsTo rows i).filter (fun c => canInsert a.cfg (a.cellOf i) c)

/-- the closed form of the property: `(1-a)^k · t + (1-(1-a)^k) · m` -/
def closedForm (lr t : Rat) (acc : List Cand) : Rat :=
  (1 - lr) ^ acc.length * t + (1 - (1 - lr) ^ acc.length) * (objSum acc / (acc.length : Rat))

/-- **T05.1 / T05.2 `thr_update`, `elite_update`** : a cell that accepted no candidate in a
call is unchanged; a cell that accepted the list `acc` (k = |acc| ≥ 1) then holds the
highest-objective accepted candidate (earliest first on ties) and its threshold is the
closed form over the prior threshold (`threshold_min` for an empty cell). -/
theorem thr_update (a : Arch) (hc : CmaCfg a.cfg) (rows : List (Nat × Cand)) (i : Nat)
    (hi : i < a.store.cap) :
    (acceptedAt a rows i = [] → (a.addBatch rows).1.cellOf i = a.cellOf i) ∧
    (acceptedAt a rows i ≠ [] →
      ∃ w, argmaxFirst (acceptedAt a rows i) = some w ∧
        (a.addBatch rows).1.cellOf i =
          some (w.withThr (closedForm a.cfg.lr (baseline a.cfg (a.cellOf i)) (acceptedAt a rows i)))) := by
  obtain ⟨t0, ht0⟩ := hc.finite
  rw [cellOf_addBatch, if_pos hi]
  unfold cellWrite
  rw [cellAcc_accRows]
  have hacc : (rowsTo rows i).filter (fun c => canInsert a.cfg (a.store.cells i) c) = acceptedAt a rows i := rfl
  rw [hacc]
  constructor
  · intro h; rw [h]; simp [argmaxFirst]
  · intro h
    cases hm : argmaxFirst (acceptedAt a rows i) with
    | none => exact absurd (argmaxFirst_none.mp hm) h
    | some w =>
      refine ⟨w, rfl, ?_⟩
      simp only [Option.map_some, Option.some_or, newThrBatch, ht0, closedForm, cellOf]
      congr 2
      ring

/-- for `add_single` the rule reads `(1-a)·t + a·f` -/
theorem thr_update_single (a : Arch) (r : Nat × Cand) (hr : r.1 < a.store.cap)
    (hs : status a.cfg (a.cellOf r.1) r.2 ≠ 0) :
    (a.addSingle r).1.cellOf r.1 =
      some (r.2.withThr ((1 - a.cfg.lr) * baseline a.cfg (a.cellOf r.1) + a.cfg.lr * r.2.obj)) := by
  rw [cellOf_addSingle a r hr]
  simp only [hs, ne_eq, not_false_eq_true, and_self, if_true, newThrSingle]
  congr 2
  ring

/-- the prior threshold of an empty cell is `threshold_min` (T05.7 `starts_at_tmin`) -/
theorem baseline_empty (cfg : Cfg) (t : Rat) (h : cfg.tmin = some t) : baseline cfg none = t := by
  simp [baseline, h]

/-- with a finite `threshold_min`, acceptance is exactly "objective > prior threshold" -/
theorem canInsert_iff (cfg : Cfg) (hc : CmaCfg cfg) (pre : Option Elite) (c : Cand) :
    canInsert cfg pre c = true ↔ baseline cfg pre < c.obj := by
  obtain ⟨t0, ht0⟩ := hc.finite
  unfold canInsert cmpThr baseline
  cases pre with
  | none => simp [ht0]
  | some e => simp

/-- **T05.5 `never_stored_at_or_below`** : a candidate at or below its cell's prior
threshold has status 0 (and by C02 `stored_only_if_selected` is never stored). -/
theorem never_stored_at_or_below (cfg : Cfg) (hc : CmaCfg cfg) (pre : Option Elite) (c : Cand)
    (h : c.obj ≤ baseline cfg pre) : status cfg pre c = 0 := by
  have : ¬ canInsert cfg pre c = true := by
    rw [canInsert_iff cfg hc]; exact not_lt.mpr h
  simp [status, this]

/-! ### order inequalities -/

theorem objSum_ge (cs : List Cand) (t : Rat) (h : ∀ c ∈ cs, t ≤ c.obj) :
    (cs.length : Rat) * t ≤ objSum cs := by
  induction cs with
  | nil => simp [objSum]
  | cons c cs ih =>
    have h1 := h c List.mem_cons_self
    have h2 := ih (fun x hx => h x (List.mem_cons_of_mem _ hx))
    simp only [objSum, List.map_cons, List.sum_cons, List.length_cons] at *
    push_cast
    linarith

theorem objSum_le (cs : List Cand) (m : Rat) (h : ∀ c ∈ cs, c.obj ≤ m) :
    objSum cs ≤ (cs.length : Rat) * m := by
  induction cs with
  | nil => simp [objSum]
  | cons c cs ih =>
    have h1 := h c List.mem_cons_self
    have h2 := ih (fun x hx => h x (List.mem_cons_of_mem _ hx))
    simp only [objSum, List.map_cons, List.sum_cons, List.length_cons] at *
    push_cast
    linarith

theorem ratio_bounds (lr : Rat) (h0 : 0 ≤ lr) (h1 : lr ≤ 1) (k : Nat) :
    0 ≤ (1 - lr) ^ k ∧ (1 - lr) ^ k ≤ 1 := by
  have ha : 0 ≤ 1 - lr := by linarith
  have hb : 1 - lr ≤ 1 := by linarith
  exact ⟨pow_nonneg ha k, pow_le_one₀ ha hb⟩

/-- **T05.3 `thr_monotone` (one call)** : the new threshold is at least the prior one. -/
theorem closedForm_ge (lr t : Rat) (h0 : 0 ≤ lr) (h1 : lr ≤ 1) (acc : List Cand) (hne : acc ≠ [])
    (hacc : ∀ c ∈ acc, t < c.obj) : t ≤ closedForm lr t acc := by
  obtain ⟨hr0, hr1⟩ := ratio_bounds lr h0 h1 acc.length
  have hk : (0 : Rat) < acc.length := by
    have : 0 < acc.length := List.length_pos_iff.mpr hne
    exact_mod_cast this
  have hm : t ≤ objSum acc / (acc.length : Rat) := by
    rw [le_div_iff₀ hk]
    have := objSum_ge acc t (fun c hc => le_of_lt (hacc c hc))
    linarith
  unfold closedForm
  nlinarith

/-- **T05.4 `thr_le_best`** : the new threshold never exceeds the best objective accepted in the call. -/
theorem closedForm_le (lr t : Rat) (h0 : 0 ≤ lr) (h1 : lr ≤ 1) (acc : List Cand) (w : Cand)
    (hw : argmaxFirst acc = some w) (hacc : ∀ c ∈ acc, t < c.obj) :
    closedForm lr t acc ≤ w.obj := by
  obtain ⟨hr0, hr1⟩ := ratio_bounds lr h0 h1 acc.length
  obtain ⟨hmem, hub⟩ := argmaxFirst_spec hw
  have hne : acc ≠ [] := fun h => by rw [h] at hmem; simp at hmem
  have hk : (0 : Rat) < acc.length := by
    have : 0 < acc.length := List.length_pos_iff.mpr hne
    exact_mod_cast this
  have hm : objSum acc / (acc.length : Rat) ≤ w.obj := by
    rw [div_le_iff₀ hk]
    have := objSum_le acc w.obj hub
    linarith
  have ht : t ≤ w.obj := le_of_lt (hacc w hmem)
  unfold closedForm
  nlinarith

/-- **T05.6 `a_zero`** : with learning rate 0 thresholds never move. -/
theorem a_zero (t : Rat) (acc : List Cand) : closedForm 0 t acc = t := by
  simp [closedForm]

/-- with learning rate 1 the new threshold is the mean of the accepted objectives -/
theorem a_one (t : Rat) (acc : List Cand) (hne : acc ≠ []) :
    closedForm 1 t acc = objSum acc / (acc.length : Rat) := by
  have : acc.length ≠ 0 := fun h => hne (List.length_eq_zero_iff.mp h)
  simp [closedForm, this]

/-! ### thresholds never decrease: one call, then whole histories -/

theorem acceptedAt_gt (a : Arch) (hc : CmaCfg a.cfg) (rows : List (Nat × Cand)) (i : Nat) :
    ∀ c ∈ acceptedAt a rows i, baseline a.cfg (a.cellOf i) < c.obj := by
  intro c hcm
  exact (canInsert_iff a.cfg hc _ c).mp (List.mem_filter.mp hcm).2

/-- one batch add: an occupied cell stays occupied and its threshold does not decrease; a
newly filled cell gets a threshold ≥ `threshold_min`; and never above the elite it stores -/
theorem batch_thr_mono (a : Arch) (hc : CmaCfg a.cfg) (rows : List (Nat × Cand)) (i : Nat)
    (hi : i < a.store.cap) :
    (∀ e, a.cellOf i = some e → ∃ e', (a.addBatch rows).1.cellOf i = some e' ∧ e.thr ≤ e'.thr) ∧
    (∀ e', (a.addBatch rows).1.cellOf i = some e' → a.cellOf i = none →
        baseline a.cfg none ≤ e'.thr) := by
  obtain ⟨hnil, hcons⟩ := thr_update a hc rows i hi
  by_cases hacc : acceptedAt a rows i = []
  · have := hnil hacc
    constructor
    · intro e he; exact ⟨e, by rw [this, he], le_refl _⟩
    · intro e' he' hn; rw [this, hn] at he'; simp at he'
  · obtain ⟨w, hw, hcell⟩ := hcons hacc
    have hge := closedForm_ge a.cfg.lr (baseline a.cfg (a.cellOf i)) hc.lr_nonneg hc.lr_le_one
      (acceptedAt a rows i) hacc (acceptedAt_gt a hc rows i)
    constructor
    · intro e he
      refine ⟨_, hcell, ?_⟩
      have : baseline a.cfg (a.cellOf i) = e.thr := by rw [he]; rfl
      simp only [Cand.withThr]
      rw [this] at hge ⊢
      exact hge
    · intro e' he' hn
      rw [hcell] at he'
      simp only [Option.some.injEq] at he'
      rw [← he']
      simp only [Cand.withThr]
      rw [hn] at hge ⊢
      exact hge

/-- one `add_single` likewise -/
theorem single_thr_mono (a : Arch) (hc : CmaCfg a.cfg) (r : Nat × Cand) (hr : r.1 < a.store.cap)
    (i : Nat) (e : Elite) (he : a.cellOf i = some e) :
    ∃ e', (a.addSingle r).1.cellOf i = some e' ∧ e.thr ≤ e'.thr := by
  rw [cellOf_addSingle a r hr]
  split
  · rename_i h
    obtain ⟨hi, hs⟩ := h
    refine ⟨_, rfl, ?_⟩
    subst hi
    have hci : canInsert a.cfg (a.cellOf r.1) r.2 = true := (C02.status_ne_zero_iff _ _ _).mp hs
    have hlt := (canInsert_iff a.cfg hc _ _).mp hci
    have hb : baseline a.cfg (a.cellOf r.1) = e.thr := by rw [he]; rfl
    rw [hb] at hlt
    simp only [Cand.withThr, newThrSingle, hb]
    have h0 := hc.lr_nonneg
    have h1 := hc.lr_le_one
    nlinarith
  · exact ⟨e, he, le_refl _⟩

def NoClear (ops : List C01.Op) : Prop := ∀ op ∈ ops, op ≠ C01.Op.clear

/-- **T05.3 `thr_monotone` (histories)** : along any history of add / add_single (between
clears) every cell's threshold is non-decreasing and occupied cells stay occupied. -/
theorem thr_monotone (a : Arch) (hc : CmaCfg a.cfg) (ops : List C01.Op)
    (hw : C01.WellRouted a.store.cap ops) (hnc : NoClear ops) (i : Nat) (hi : i < a.store.cap)
    (e : Elite) (he : a.cellOf i = some e) :
    ∃ e', (ops.foldl C01.step a).cellOf i = some e' ∧ e.thr ≤ e'.thr := by
  induction ops generalizing a e with
  | nil => exact ⟨e, he, le_refl _⟩
  | cons op ops ih =>
    simp only [List.foldl_cons]
    have hw' : C01.WellRouted a.store.cap ops := fun o ho => hw o (List.mem_cons_of_mem _ ho)
    have hnc' : NoClear ops := fun o ho => hnc o (List.mem_cons_of_mem _ ho)
    cases op with
    | add rows =>
      obtain ⟨e1, he1, hle1⟩ := (batch_thr_mono a hc rows i hi).1 e he
      have hcfg : CmaCfg (C01.step a (.add rows)).cfg := by
        simp only [C01.step, addBatch_cfg]; exact hc
      have hcap : (C01.step a (.add rows)).store.cap = a.store.cap := by
        simp [C01.step, addBatch_cap]
      obtain ⟨e2, he2, hle2⟩ := ih (C01.step a (.add rows)) hcfg (hcap ▸ hw') hnc' (hcap ▸ hi) e1 he1
      exact ⟨e2, he2, le_trans hle1 hle2⟩
    | add1 r =>
      have hr : r.1 < a.store.cap := hw (.add1 r) List.mem_cons_self
      obtain ⟨e1, he1, hle1⟩ := single_thr_mono a hc r hr i e he
      have hcfg : CmaCfg (C01.step a (.add1 r)).cfg := by
        simp only [C01.step, addSingle_cfg]; exact hc
      have hcap : (C01.step a (.add1 r)).store.cap = a.store.cap := by
        simp [C01.step, addSingle_cap]
      obtain ⟨e2, he2, hle2⟩ := ih (C01.step a (.add1 r)) hcfg (hcap ▸ hw') hnc' (hcap ▸ hi) e1 he1
      exact ⟨e2, he2, le_trans hle1 hle2⟩
    | clear => exact absurd rfl (hnc .clear List.mem_cons_self)

/-! ### T05.8 the constructor couples `learning_rate` and `threshold_min` -/

theorem config_coupling (lr : Option Rat) (tmin : Option Rat) (off : Rat) :
    (mkCfg lr tmin off = none ↔
      (lr = none ∧ tmin ≠ none) ∨ (∃ l, lr = some l ∧ l ≠ 1 ∧ tmin = none)) ∧
    (∀ cfg, mkCfg lr tmin off = some cfg →
      C01.Elitist cfg ∨ (∃ l t, lr = some l ∧ tmin = some t ∧ cfg.lr = l ∧ cfg.tmin = some t)) := by
  unfold mkCfg
  cases lr with
  | none =>
    cases tmin with
    | none => simp [C01.Elitist]
    | some t => simp
  | some l =>
    cases tmin with
    | none =>
      by_cases h : l = 1
      · simp [h, C01.Elitist]
      · simp [h]
    | some t =>
      simp only [reduceCtorEq, Option.some.injEq, false_iff, not_or, not_and, not_exists]
      refine ⟨⟨by simp, by simp⟩, ?_⟩
      intro cfg hcfg
      subst hcfg
      exact Or.inr ⟨l, t, rfl, rfl, rfl, rfl⟩

/-! ### non-vacuity -/

/-- cell 0 accepts objectives 4 and 8 from `threshold_min = 0` with `a = 1/2`
(k = 2, m = 6): threshold 9/2, elite = the 8; then a candidate at 4 ≤ 9/2 is rejected and
one at 5 raises the threshold to 19/4 while the stored elite stays the 8. -/
theorem nonvacuous :
    let a0 := Arch.new ⟨1/2, some 0, 0⟩ 2
    let a1 := (a0.addBatch [(0, ⟨1, 4, []⟩), (0, ⟨2, 8, []⟩), (0, ⟨3, -1, []⟩), (1, ⟨4, 2, []⟩)]).1
    let a2 := (a1.addBatch [(0, ⟨5, 4, []⟩), (0, ⟨6, 5, []⟩)])
    (a1.cellOf 0).map (fun e => (e.tok, e.thr)) = some (2, 9/2) ∧
    a2.2 = [(0, -1/2), (1, 1/2)] ∧
    (a2.1.cellOf 0).map (fun e => (e.tok, e.obj, e.thr)) = some (6, 5, 19/4) := by
  decide +kernel

end Pyribs.C05
