import PyribsModel.GridIndex
import Mathlib.Algebra.Order.Floor.Ring
import Mathlib.Data.Rat.Floor
import Mathlib.Algebra.Order.Field.Rat
import Mathlib.Tactic.Linarith
import Mathlib.Tactic.FieldSimp
import Mathlib.Tactic.Ring
/-!
# C03 — index_of maps measures to the documented cell for every archive type

Index maps over exact rationals (`PyribsModel/GridIndex.lean`).
-/
namespace Pyribs.C03
open Pyribs

/-! ## GridArchive: one coordinate -/

theorem floor_eq (q : Rat) : q.floor = ⌊q⌋ := rfl

/-- **T03.1 `grid_range`** : the coordinate is always a valid cell index -/
theorem grid_range (d : Nat) (hd : 0 < d) (lo hi eps m : Rat) : gridCoord d lo hi eps m < d := by
  unfold gridCoord clampIdx
  omega

theorem clampIdx_mono (z z' : Int) (d : Nat) (h : z ≤ z') : clampIdx z d ≤ clampIdx z' d := by
  unfold clampIdx
  have : z.toNat ≤ z'.toNat := Int.toNat_le_toNat h
  omega

/-- **T03.2 `grid_monotone`** : the map is monotone in the coordinate -/
theorem grid_monotone (d : Nat) (lo hi eps m m' : Rat) (hlh : lo < hi) (hm : m ≤ m') :
    gridCoord d lo hi eps m ≤ gridCoord d lo hi eps m' := by
  unfold gridCoord
  apply clampIdx_mono
  rw [floor_eq, floor_eq]
  apply Int.floor_le_floor
  have hw : 0 < hi - lo := by linarith
  apply div_le_div_of_nonneg_right _ (le_of_lt hw)
  have : (0 : Rat) ≤ d := Nat.cast_nonneg d
  nlinarith

/-- lower boundary of cell `j`: `lo + j·(hi − lo)/d` -/
def bnd (d : Nat) (lo hi : Rat) (j : Nat) : Rat := lo + (j : Rat) * (hi - lo) / (d : Rat)

theorem quot_bounds (d : Nat) (hd : 0 < d) (lo hi eps m : Rat) (hlh : lo < hi) (j : Nat)
    (hlo : bnd d lo hi j ≤ m) (hhi : m < bnd d lo hi (j + 1) - eps / d) (heps : 0 ≤ eps) :
    (j : Rat) ≤ gridQuot d lo hi eps m ∧ gridQuot d lo hi eps m < (j : Rat) + 1 := by
  have hd' : (0 : Rat) < d := by exact_mod_cast hd
  have hw : 0 < hi - lo := by linarith
  unfold gridQuot bnd at *
  constructor
  · rw [le_div_iff₀ hw]
    have := mul_le_mul_of_nonneg_left hlo (le_of_lt hd')
    field_simp at this ⊢
    linarith
  · rw [div_lt_iff₀ hw]
    have := mul_lt_mul_of_pos_left hhi hd'
    push_cast at this ⊢
    field_simp at this ⊢
    linarith

/-- **T03.3 `grid_cell`** : a coordinate in `[b_j, b_{j+1} − ε/d)` maps to cell `j`
(in particular a coordinate equal to a boundary belongs to the cell above it). -/
theorem grid_cell (d : Nat) (hd : 0 < d) (lo hi eps m : Rat) (hlh : lo < hi) (heps : 0 ≤ eps)
    (j : Nat) (hj : j < d) (hlo : bnd d lo hi j ≤ m) (hhi : m < bnd d lo hi (j + 1) - eps / d) :
    gridCoord d lo hi eps m = j := by
  obtain ⟨h1, h2⟩ := quot_bounds d hd lo hi eps m hlh j hlo hhi heps
  unfold gridCoord clampIdx
  have : (gridQuot d lo hi eps m).floor = (j : Int) := by
    rw [floor_eq, Int.floor_eq_iff]
    exact ⟨by exact_mod_cast h1, by exact_mod_cast h2⟩
  unfold gridQuot at this
  rw [this]
  simp only [Int.toNat_natCast]
  omega

/-- a coordinate exactly on boundary `j` belongs to cell `j` (needs `ε < (hi − lo)`) -/
theorem grid_boundary (d : Nat) (hd : 0 < d) (lo hi eps : Rat) (hlh : lo < hi) (heps : 0 ≤ eps)
    (hsmall : eps < hi - lo) (j : Nat) (hj : j < d) :
    gridCoord d lo hi eps (bnd d lo hi j) = j := by
  apply grid_cell d hd lo hi eps _ hlh heps j hj (le_refl _)
  have hd' : (0 : Rat) < d := by exact_mod_cast hd
  unfold bnd
  push_cast
  have : (hi - lo) / d - eps / d > 0 := by
    rw [← sub_div]; exact div_pos (by linarith) hd'
  have h2 : ((j : Rat) + 1) * (hi - lo) / d = (j : Rat) * (hi - lo) / d + (hi - lo) / d := by ring
  linarith

/-- the ε zone the property grants: within `ε/d` below an upper edge the coordinate
resolves to the cell or to its upper neighbour -/
theorem grid_eps_zone (d : Nat) (hd : 0 < d) (lo hi eps m : Rat) (hlh : lo < hi) (heps : 0 ≤ eps)
    (hsmall : eps < hi - lo) (j : Nat) (hj : j < d)
    (hlo : bnd d lo hi (j + 1) - eps / d ≤ m) (hhi : m < bnd d lo hi (j + 1)) (hlo' : bnd d lo hi j ≤ m) :
    gridCoord d lo hi eps m = j ∨ gridCoord d lo hi eps m = min (j + 1) (d - 1) := by
  have hd' : (0 : Rat) < d := by exact_mod_cast hd
  have hw : 0 < hi - lo := by linarith
  have h1 : (j : Rat) ≤ gridQuot d lo hi eps m := by
    unfold gridQuot bnd at *
    rw [le_div_iff₀ hw]
    have := mul_le_mul_of_nonneg_left hlo' (le_of_lt hd')
    field_simp at this ⊢
    linarith
  have h2 : gridQuot d lo hi eps m < (j : Rat) + 2 := by
    unfold gridQuot bnd at *
    rw [div_lt_iff₀ hw]
    have := mul_lt_mul_of_pos_left hhi hd'
    push_cast at this ⊢
    field_simp at this ⊢
    linarith
  have hf1 : (j : Int) ≤ (gridQuot d lo hi eps m).floor := by
    rw [floor_eq, Int.le_floor]; exact_mod_cast h1
  have hf2 : (gridQuot d lo hi eps m).floor < (j : Int) + 2 := by
    rw [floor_eq, Int.floor_lt]; exact_mod_cast h2
  unfold gridCoord clampIdx
  unfold gridQuot at hf1 hf2
  omega

/-- **T03.4 `grid_edges`** : out-of-range coordinates of any magnitude go to the nearest edge cell -/
theorem grid_below (d : Nat) (lo hi eps m : Rat) (hlh : lo < hi) (hsmall : eps < hi - lo)
    (hm : m < lo) : gridCoord d lo hi eps m = 0 := by
  have hw : 0 < hi - lo := by linarith
  have hq : gridQuot d lo hi eps m < 1 := by
    unfold gridQuot
    rw [div_lt_iff₀ hw]
    have : (0 : Rat) ≤ d := Nat.cast_nonneg d
    nlinarith
  have : (gridQuot d lo hi eps m).floor < 1 := by
    rw [floor_eq, Int.floor_lt]; exact_mod_cast hq
  unfold gridCoord clampIdx
  unfold gridQuot at this
  omega

theorem grid_above (d : Nat) (lo hi eps m : Rat) (hlh : lo < hi) (heps : 0 ≤ eps)
    (hm : hi ≤ m) : gridCoord d lo hi eps m = d - 1 := by
  have hw : 0 < hi - lo := by linarith
  have hq : (d : Rat) ≤ gridQuot d lo hi eps m := by
    unfold gridQuot
    rw [le_div_iff₀ hw]
    have : (0 : Rat) ≤ d := Nat.cast_nonneg d
    nlinarith
  have : (d : Int) ≤ (gridQuot d lo hi eps m).floor := by
    rw [floor_eq, Int.le_floor]; exact_mod_cast hq
  unfold gridCoord clampIdx
  unfold gridQuot at this
  omega

/-! ## T03.5 integer and grid indices convert both ways as inverse bijections -/

theorem prod_pos (ds : List Nat) (h : ∀ d ∈ ds, 0 < d) : 0 < ds.prod := by
  induction ds with
  | nil => simp
  | cons d ds ih =>
    simp only [List.prod_cons]
    exact Nat.mul_pos (h d (by simp)) (ih fun x hx => h x (by simp [hx]))

def InRange : List Nat → List Nat → Prop
  | [], [] => True
  | d :: ds, i :: is => i < d ∧ InRange ds is
  | _, _ => False

theorem ravel_unravel (ds : List Nat) (h : ∀ d ∈ ds, 0 < d) (n : Nat) (hn : n < ds.prod) :
    ravel ds (unravel ds n) = n := by
  induction ds generalizing n with
  | nil => simp at hn; simp [ravel, unravel, hn]
  | cons d ds ih =>
    have hp := prod_pos ds fun x hx => h x (by simp [hx])
    simp only [unravel, ravel]
    rw [ih (fun x hx => h x (by simp [hx])) _ (Nat.mod_lt _ hp)]
    exact Nat.div_add_mod' n _

theorem ravel_lt (ds is : List Nat) (h : InRange ds is) : ravel ds is < ds.prod := by
  induction ds generalizing is with
  | nil => cases is <;> simp_all [InRange, ravel]
  | cons d ds ih =>
    cases is with
    | nil => simp [InRange] at h
    | cons i is =>
      obtain ⟨h0, hr⟩ := h
      have hrest := ih is hr
      simp only [ravel, List.prod_cons]
      calc i * ds.prod + ravel ds is < i * ds.prod + ds.prod := by omega
        _ = (i + 1) * ds.prod := by rw [Nat.add_mul, Nat.one_mul]
        _ ≤ d * ds.prod := Nat.mul_le_mul_right _ h0

theorem unravel_ravel (ds is : List Nat) (h : InRange ds is) : unravel ds (ravel ds is) = is := by
  induction ds generalizing is with
  | nil => cases is <;> simp_all [InRange, unravel]
  | cons d ds ih =>
    cases is with
    | nil => simp [InRange] at h
    | cons i is =>
      obtain ⟨_, hr⟩ := h
      have hlt := ravel_lt ds is hr
      have hp : 0 < ds.prod := Nat.lt_of_le_of_lt (Nat.zero_le _) hlt
      simp only [ravel, unravel]
      rw [Nat.mul_comm, Nat.mul_add_div hp, Nat.div_eq_of_lt hlt, Nat.mul_add_mod, Nat.mod_eq_of_lt hlt,
        ih is hr]
      simp

theorem unravel_inRange (ds : List Nat) (h : ∀ d ∈ ds, 0 < d) (n : Nat) (hn : n < ds.prod) :
    InRange ds (unravel ds n) := by
  induction ds generalizing n with
  | nil => simp [InRange, unravel]
  | cons d ds ih =>
    have hp := prod_pos ds fun x hx => h x (by simp [hx])
    simp only [List.prod_cons] at hn
    simp only [unravel, InRange]
    refine ⟨?_, ih (fun x hx => h x (by simp [hx])) _ (Nat.mod_lt _ hp)⟩
    rw [Nat.div_lt_iff_lt_mul hp]; exact hn

/-- the grid coordinates computed by `index_of` are in range, so the archive index is `< cells` -/
theorem gridCoords_inRange (dims : List Nat) (lo hi m : List Rat) (eps : Rat)
    (hd : ∀ d ∈ dims, 0 < d) (hl : lo.length = dims.length) (hh : hi.length = dims.length)
    (hm : m.length = dims.length) :
    InRange dims (gridCoords ⟨dims, lo, hi, eps⟩ m) := by
  induction dims generalizing lo hi m with
  | nil => simp [gridCoords, zip4, InRange]
  | cons d ds ih =>
    cases lo with
    | nil => simp at hl
    | cons l ls =>
      cases hi with
      | nil => simp at hh
      | cons h hs =>
        cases m with
        | nil => simp at hm
        | cons x xs =>
          simp only [gridCoords, zip4, List.map_cons, InRange]
          refine ⟨grid_range d (hd d (by simp)) l h eps x, ?_⟩
          exact ih ls hs xs (fun y hy => hd y (by simp [hy])) (by simpa using hl) (by simpa using hh)
            (by simpa using hm)

theorem gridIdx_lt (dims : List Nat) (lo hi m : List Rat) (eps : Rat)
    (hd : ∀ d ∈ dims, 0 < d) (hl : lo.length = dims.length) (hh : hi.length = dims.length)
    (hm : m.length = dims.length) :
    gridIdx ⟨dims, lo, hi, eps⟩ m < cells dims :=
  ravel_lt dims _ (gridCoords_inRange dims lo hi m eps hd hl hh hm)

/-! ## T03.6 CVT: a centroid at minimum distance -/

theorem argminFrom_spec (k : Nat) (xs : List Rat) (j : Nat) (y : Rat)
    (h : argminFrom k xs = some (j, y)) :
    k ≤ j ∧ j < k + xs.length ∧ xs[j - k]? = some y ∧ (∀ x ∈ xs, y ≤ x) ∧
    (∀ i, i < j - k → ∀ x, xs[i]? = some x → y < x) := by
  induction xs generalizing k j y with
  | nil => simp [argminFrom] at h
  | cons x xs ih =>
    simp only [argminFrom] at h
    cases hr : argminFrom (k + 1) xs with
    | none =>
      rw [hr] at h
      simp only [Option.some.injEq, Prod.mk.injEq] at h
      obtain ⟨rfl, rfl⟩ := h
      have hx : xs = [] := by
        cases xs with
        | nil => rfl
        | cons z zs =>
          simp only [argminFrom] at hr
          cases hz : argminFrom (k + 1 + 1) zs with
          | none => rw [hz] at hr; simp at hr
          | some p => rw [hz] at hr; obtain ⟨a, b⟩ := p; simp at hr; split at hr <;> simp at hr
      subst hx
      simp
    | some p =>
      obtain ⟨j', y'⟩ := p
      rw [hr] at h
      obtain ⟨h1, h2, h3, h4, h5⟩ := ih (k + 1) j' y' hr
      by_cases hlt : y' < x
      · simp only [hlt, if_true, Option.some.injEq, Prod.mk.injEq] at h
        obtain ⟨rfl, rfl⟩ := h
        refine ⟨by omega, by simp; omega, ?_, ?_, ?_⟩
        · have : j' - k = (j' - (k + 1)) + 1 := by omega
          rw [this, List.getElem?_cons_succ]; exact h3
        · intro z hz
          rcases List.mem_cons.mp hz with rfl | hz
          · exact le_of_lt hlt
          · exact h4 z hz
        · intro i hi z hz
          cases i with
          | zero => simp at hz; subst hz; exact hlt
          | succ i =>
            rw [List.getElem?_cons_succ] at hz
            exact h5 i (by omega) z hz
      · simp only [hlt, if_false, Option.some.injEq, Prod.mk.injEq] at h
        obtain ⟨rfl, rfl⟩ := h
        refine ⟨le_refl _, by simp, by simp, ?_, by intro i hi; omega⟩
        intro z hz
        rcases List.mem_cons.mp hz with rfl | hz
        · exact le_refl _
        · exact le_trans (not_lt.mp hlt) (h4 z hz)

/-- **T03.6 `cvt_min`** : `cvtIdx` names a centroid at minimum squared Euclidean distance,
the first such one; every centroid is at least as far. -/
theorem cvt_min (cs : List (List Rat)) (m : List Rat) (k : Nat) (h : cvtIdx cs m = some k) :
    k < cs.length ∧ ∃ c, cs[k]? = some c ∧ (∀ c' ∈ cs, dist2 c m ≤ dist2 c' m) ∧
      (∀ i, i < k → ∀ c', cs[i]? = some c' → dist2 c m < dist2 c' m) := by
  unfold cvtIdx argminFirst at h
  cases hr : argminFrom 0 (cs.map (fun c => dist2 c m)) with
  | none => rw [hr] at h; simp at h
  | some p =>
    obtain ⟨j, y⟩ := p
    rw [hr] at h
    simp only [Option.map_some, Option.some.injEq] at h
    subst h
    obtain ⟨_, h2, h3, h4, h5⟩ := argminFrom_spec 0 _ j y hr
    simp only [Nat.zero_add, List.length_map, Nat.sub_zero, List.getElem?_map] at h2 h3 h5
    refine ⟨h2, ?_⟩
    cases hc : cs[j]? with
    | none => rw [hc] at h3; simp at h3
    | some c =>
      rw [hc] at h3
      simp only [Option.map_some, Option.some.injEq] at h3
      refine ⟨c, rfl, ?_, ?_⟩
      · intro c' hc'
        rw [h3]; exact h4 _ (List.mem_map_of_mem hc')
      · intro i hi c' hc'
        rw [h3]
        exact h5 i hi _ (by simp [hc'])

/-- a non-empty centroid set always yields an index -/
theorem cvt_total (cs : List (List Rat)) (m : List Rat) (h : cs ≠ []) : ∃ k, cvtIdx cs m = some k := by
  cases cs with
  | nil => exact absurd rfl h
  | cons c cs =>
    unfold cvtIdx argminFirst
    simp only [List.map_cons, argminFrom]
    cases argminFrom (0 + 1) (cs.map fun c => dist2 c m) with
    | none => exact ⟨0, rfl⟩
    | some p => obtain ⟨j, y⟩ := p; by_cases hlt : y < dist2 c m <;> simp [hlt]

/-- chunked search: mapping the per-query search over chunks of the batch and concatenating
is mapping it over the whole batch (k-D tree, brute force and chunked search are one function) -/
theorem chunk_concat (cs : List (List Rat)) (chunks : List (List (List Rat))) :
    (chunks.map (fun ch => ch.map (cvtIdx cs))).flatten = chunks.flatten.map (cvtIdx cs) := by
  rw [List.map_flatten]

/-! ## T03.7 SlidingBoundariesArchive: the cell delimited by the current boundaries -/

theorem countBelow_le (bs : List Rat) (x : Rat) : countBelow bs x ≤ bs.length :=
  List.length_filter_le _ _

/-- for sorted boundaries the elements below `x` are exactly a prefix -/
theorem countBelow_sorted (bs : List Rat) (hs : bs.Pairwise (· ≤ ·)) (x : Rat) :
    (∀ k b, k < countBelow bs x → bs[k]? = some b → b < x) ∧
    (∀ k b, countBelow bs x ≤ k → bs[k]? = some b → x ≤ b) := by
  induction bs with
  | nil => simp [countBelow]
  | cons b0 bs ih =>
    obtain ⟨hle, hs'⟩ := List.pairwise_cons.mp hs
    obtain ⟨ih1, ih2⟩ := ih hs'
    by_cases hb : b0 < x
    · have hc : countBelow (b0 :: bs) x = countBelow bs x + 1 := by
        simp [countBelow, List.filter_cons, hb]
      rw [hc]
      constructor
      · intro k b hk hkb
        cases k with
        | zero => simp at hkb; subst hkb; exact hb
        | succ k => rw [List.getElem?_cons_succ] at hkb; exact ih1 k b (by omega) hkb
      · intro k b hk hkb
        cases k with
        | zero => omega
        | succ k => rw [List.getElem?_cons_succ] at hkb; exact ih2 k b (by omega) hkb
    · have hall : ∀ b ∈ bs, ¬ b < x := fun b hbm => not_lt.mpr (le_trans (not_lt.mp hb) (hle b hbm))
      have hc : countBelow (b0 :: bs) x = 0 := by
        simp only [countBelow, List.filter_cons, hb, decide_false, Bool.false_eq_true, if_false,
          List.length_eq_zero_iff, List.filter_eq_nil_iff]
        intro b hbm; simpa using hall b hbm
      rw [hc]
      constructor
      · intro k b hk; omega
      · intro k b _ hkb
        have : b ∈ b0 :: bs := List.mem_of_getElem? hkb
        rcases List.mem_cons.mp this with rfl | hbm
        · exact not_lt.mp hb
        · exact not_lt.mp (hall b hbm)

/-- **T03.7 `sb_cell`** : with sorted boundaries, cell `j = sbCoord …` satisfies
`b_j < x ≤ b_{j+1}` for the clipped, ε-shifted coordinate `x` (when `x` exceeds the lowest
boundary), and `j ≤ dim − 1`. -/
theorem sb_cell (bs : List Rat) (hs : bs.Pairwise (· ≤ ·)) (lo hi eps m : Rat) :
    let x := sbClip lo hi eps m
    let j := sbCoord bs lo hi eps m
    j ≤ bs.length - 1 ∧
    (0 < countBelow bs x → ∀ b, bs[j]? = some b → b < x) ∧
    (∀ b, bs[j + 1]? = some b → 0 < countBelow bs x → x ≤ b) := by
  simp only
  obtain ⟨h1, h2⟩ := countBelow_sorted bs hs (sbClip lo hi eps m)
  have hle := countBelow_le bs (sbClip lo hi eps m)
  unfold sbCoord
  refine ⟨by omega, ?_, ?_⟩
  · intro hpos b hb; exact h1 _ b (by omega) hb
  · intro b hb hpos; exact h2 _ b (by omega) hb

theorem countBelow_mono (bs : List Rat) (x y : Rat) (h : x ≤ y) : countBelow bs x ≤ countBelow bs y := by
  unfold countBelow
  induction bs with
  | nil => simp
  | cons b bs ih =>
    simp only [List.filter_cons]
    by_cases h1 : b < x
    · have h2 : b < y := lt_of_lt_of_le h1 h
      simp [h1, h2]; exact ih
    · by_cases h2 : b < y
      · simp [h1, h2]; omega
      · simp [h1, h2]; exact ih

theorem sbClip_mono (lo hi eps m m' : Rat) (h : m ≤ m') : sbClip lo hi eps m ≤ sbClip lo hi eps m' := by
  unfold sbClip
  apply min_le_min_right
  apply max_le_max_right
  linarith

/-- the sliding-boundaries map is monotone in the coordinate -/
theorem sb_monotone (bs : List Rat) (lo hi eps m m' : Rat) (h : m ≤ m') :
    sbCoord bs lo hi eps m ≤ sbCoord bs lo hi eps m' := by
  unfold sbCoord
  have := countBelow_mono bs _ _ (sbClip_mono lo hi eps m m' h)
  omega

/-! ## T03.8 `index_of_single` agrees with `index_of` -/

theorem single_eq_batch (g : GridGeom) (m : List Rat) : [m].map (gridIdx g) = [gridIdx g m] := rfl

/-! ## non-vacuity -/

theorem nonvacuous :
    gridCoord 10 0 1 (1/1000000) (3/10) = 3 ∧ gridCoord 10 0 1 (1/1000000) (-5) = 0 ∧
    gridCoord 10 0 1 (1/1000000) (300000000) = 9 ∧
    gridIdx ⟨[3, 4], [0, 0], [3, 4], 1/1000000⟩ [5/2, 1/2] = 8 ∧
    unravel [3, 4] 8 = [2, 0] ∧ ravel [3, 4] [2, 0] = 8 ∧
    cvtIdx [[0, 0], [2, 2], [2, 2]] [3, 3] = some 1 ∧
    sbCoord [0, 1, 1, 5] 0 9 (1/1000000) 1 = 2 ∧ sbCoord [0, 1, 1, 5] 0 9 (1/1000000) (-3) = 0 := by
  decide +kernel

end Pyribs.C03
