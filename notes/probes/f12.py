import numpy as np, random, warnings, copy
from ribs.emitters.opt import *
warnings.simplefilter("ignore")
bad=0
def state(es):
    out={}
    for k in ("mean","sigma","pc","ps","m"):
        if hasattr(es,k) and getattr(es,k) is not None: out[k]=np.array(getattr(es,k),dtype=float).copy()
    if hasattr(es,"cov") and es.cov is not None: out["cov"]=np.array(es.cov.cov,dtype=float).copy()
    if hasattr(es,"adam_opt"): out["theta"]=es.adam_opt.theta.copy(); out["m_"]=es.adam_opt._m.copy(); out["v_"]=es.adam_opt._v.copy()
    return out
def same(a,b): return a.keys()==b.keys() and all(np.array_equal(a[k],b[k]) for k in a)
for name,cls,kw in [("cma",CMAEvolutionStrategy,{}),("sep",SeparableCMAEvolutionStrategy,{}),("lmma",LMMAEvolutionStrategy,{}),("oai",OpenAIEvolutionStrategy,{"mirror_sampling":False}),("oai_m",OpenAIEvolutionStrategy,{"mirror_sampling":True})]:
  for seed in range(40):
    rnd=random.Random(seed); dim=rnd.randint(4,7); bs=rnd.choice([2,4]); 
    bounded = name not in ("oai_m",) and rnd.random()<0.5
    lb=np.full(dim,-1.5) if bounded else -np.inf; ub=np.full(dim,1.5) if bounded else np.inf
    dt=rnd.choice([np.float64,np.float32])
    def mk(): 
        e=cls(sigma0=0.5,solution_dim=dim,batch_size=bs,seed=seed,dtype=dt,lower_bounds=lb,upper_bounds=ub,**kw); e.reset(np.zeros(dim)); return e
    es=mk(); es2=mk()
    init=state(es)
    for it in range(15):
        s=es.ask(); s2=es2.ask()
        if not np.array_equal(s,s2): print("NONDET",name); bad+=1
        if s.dtype!=dt or s.shape!=(bs,dim) or not np.all(np.isfinite(s)) or np.any(s<lb) or np.any(s>ub): print("SAMPLE",name,s.dtype); bad+=1
        perm=np.array(rnd.sample(range(bs),bs)); npar=rnd.randint(0,bs)
        v1=np.sort(np.random.default_rng(it).normal(size=bs))[::-1].copy(); v1r=np.empty(bs); v1r[perm]=v1
        v2r=np.empty(bs); v2r[perm]=np.arange(bs,0,-1)*100.0
        pre=state(es)
        es.tell(perm,v1r,npar); es2.tell(perm,v2r,npar)
        a,b=state(es),state(es2)
        if not same(a,b): print("VALUE-DEPENDENT",name,seed,it); bad+=1
        if name in ("cma","sep","lmma"):
            if npar==0:
                if not same(pre,a): print("ZERO PARENTS CHANGED",name,[k for k in a if not np.array_equal(a[k],pre[k])]); bad+=1
            else:
                w=np.log(npar+0.5)-np.log(np.arange(1,npar+1)); w/=w.sum()
                em=(np.asarray(s,dtype=float)[perm][:npar]*w[:,None]).sum(0)
                if not np.allclose(a["mean"],em,rtol=1e-5,atol=1e-6): print("MEAN",name,seed,it); bad+=1
            if not (np.isfinite(a["sigma"]) and a["sigma"]>0): print("SIGMA",name,a["sigma"]); bad+=1
            if "cov" in a:
                C=a["cov"]
                if C.ndim==2:
                    Cs=np.maximum(C,C.T)
                    if np.min(np.linalg.eigvalsh(Cs))<-1e-8: print("COV not PSD",name); bad+=1
                    if not np.allclose(C,C.T,atol=1e-6*np.abs(C).max()): print("COV asym",name,np.abs(C-C.T).max()); bad+=1
                elif np.any(C<=0): print("diag cov nonpositive"); bad+=1
    es.reset(np.zeros(dim)); 
    r=state(es)
    if not same(r,init): print("RESET",name,[k for k in r if not np.array_equal(r[k],init.get(k))]); bad+=1
print("bad",bad)
