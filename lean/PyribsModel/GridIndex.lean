import PyribsModel.Util
/-!
# GridIndex — models of the `index_of` maps (C03)

* `gridCoord`, `gridIdx`  ↔ `GridArchive.index_of` (affine map + ε, integer cast, clip)
* `ravel`, `unravel`      ↔ `grid_to_int_index` / `int_to_grid_index`
                             (`np.ravel_multi_index` / `np.unravel_index`, row major)
* `dist2`, `argminFirst`, `cvtIdx` ↔ `CVTArchive.index_of` (k-D tree, brute force and
  chunked search are the same function of the data: a centroid at minimum distance)
* `sbCoord`, `sbIdx`      ↔ `SlidingBoundariesArchive.index_of` (clip + `searchsorted`)
All over exact rationals.
-/
namespace Pyribs

/-- clamp an integer into `[0, d-1]` (as a natural number; `d = 0` gives 0) -/
def clampIdx (z : Int) (d : Nat) : Nat := min z.toNat (d - 1)

/-- one coordinate of `GridArchive.index_of`:
`clip(int((d·(m − lo) + ε) / (hi − lo)), 0, d − 1)`; truncation and floor agree after the clip -/
def gridCoord (d : Nat) (lo hi eps m : Rat) : Nat :=
  clampIdx (((d : Rat) * (m - lo) + eps) / (hi - lo)).floor d

/-- exact pre-floor quotient (reported to the harness for tie-zone analysis) -/
def gridQuot (d : Nat) (lo hi eps m : Rat) : Rat := ((d : Rat) * (m - lo) + eps) / (hi - lo)

structure GridGeom where
  dims : List Nat
  lo   : List Rat
  hi   : List Rat
  eps  : Rat
deriving Repr

def zip4 : List Nat → List Rat → List Rat → List Rat → List (Nat × Rat × Rat × Rat)
  | d :: ds, l :: ls, h :: hs, m :: ms => (d, l, h, m) :: zip4 ds ls hs ms
  | _, _, _, _ => []

def gridCoords (g : GridGeom) (m : List Rat) : List Nat :=
  (zip4 g.dims g.lo g.hi m).map (fun (d, l, h, x) => gridCoord d l h g.eps x)

/-- `np.ravel_multi_index` (row major): ((g₀·d₁ + g₁)·d₂ + g₂)… -/
def ravel : List Nat → List Nat → Nat
  | d :: ds, x :: xs => x * ds.prod + ravel ds xs
  | _, _ => 0

/-- `np.unravel_index` (row major) -/
def unravel : List Nat → Nat → List Nat
  | [], _ => []
  | _ :: ds, i => (i / ds.prod) :: unravel ds (i % ds.prod)

def gridIdx (g : GridGeom) (m : List Rat) : Nat := ravel g.dims (gridCoords g m)

def cells (dims : List Nat) : Nat := dims.prod

/-! ### CVT: nearest centroid -/

def dist2 : List Rat → List Rat → Rat
  | a :: as, b :: bs => (a - b) * (a - b) + dist2 as bs
  | _, _ => 0

/-- index of the first minimum of a list of keys (with the running index `k`) -/
def argminFrom (k : Nat) : List Rat → Option (Nat × Rat)
  | [] => none
  | x :: xs =>
    match argminFrom (k + 1) xs with
    | none => some (k, x)
    | some (j, y) => if y < x then some (j, y) else some (k, x)

def argminFirst (xs : List Rat) : Option Nat := (argminFrom 0 xs).map (·.1)

/-- first centroid at minimum squared Euclidean distance -/
def cvtIdx (cs : List (List Rat)) (m : List Rat) : Option Nat :=
  argminFirst (cs.map (fun c => dist2 c m))

/-- all centroids at minimum distance (exact ties may resolve to any of them) -/
def cvtAdmissible (cs : List (List Rat)) (m : List Rat) : List Nat :=
  match argminFrom 0 (cs.map (fun c => dist2 c m)) with
  | none => []
  | some (_, dmin) =>
    ((List.range cs.length).zip cs).filterMap
      (fun (i, c) => if dist2 c m = dmin then some i else none)

/-! ### Sliding boundaries -/

def clampRat (x lo hi : Rat) : Rat := if x < lo then lo else if hi < x then hi else x

/-- `np.clip(m + ε, lo, hi − ε)` — NumPy's clip is `minimum(maximum(x, lo), hi')` -/
def sbClip (lo hi eps m : Rat) : Rat := min (max (m + eps) lo) (hi - eps)

/-- number of elements of `bs` strictly below `x` (`np.searchsorted(bs, x)` for sorted `bs`) -/
def countBelow (bs : List Rat) (x : Rat) : Nat := (bs.filter (fun b => decide (b < x))).length

/-- one coordinate of `SlidingBoundariesArchive.index_of`; `bs` = `boundary[:dim]` -/
def sbCoord (bs : List Rat) (lo hi eps m : Rat) : Nat :=
  countBelow bs (sbClip lo hi eps m) - 1

structure SbGeom where
  dims : List Nat
  bnds : List (List Rat)   -- per dimension: dims[i] + 1 boundaries
  lo   : List Rat
  hi   : List Rat
  eps  : Rat
deriving Repr

def zip5 : List Nat → List (List Rat) → List Rat → List Rat → List Rat →
    List (Nat × List Rat × Rat × Rat × Rat)
  | d :: ds, b :: bs, l :: ls, h :: hs, m :: ms => (d, b, l, h, m) :: zip5 ds bs ls hs ms
  | _, _, _, _, _ => []

def sbCoords (g : SbGeom) (m : List Rat) : List Nat :=
  (zip5 g.dims g.bnds g.lo g.hi m).map (fun (d, b, l, h, x) => sbCoord (b.take d) l h g.eps x)

def sbIdx (g : SbGeom) (m : List Rat) : Nat := ravel g.dims (sbCoords g m)

end Pyribs
