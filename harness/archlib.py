"""Shared lock-step runner and oracles for the fixed-cell archive stack
(C01, C02, C05, C06, C07, C11).

A *case* is a JSON-able dict:
  kind: grid | cvt | sb          dims / lo / hi (strings of exact rationals)
  dtype: f32 | f64               lr: null | "n/d"      tmin: null | "n/d"   off: "n/d"
  layout: string over {s, v, o, m}  (extra fields: scalar, vector, object, rank-2)
  cvt: {cents: [[...]], kd: bool, chunk: int|null}
  ops: [{op: add, rows: [[tok, obj, [m...]], ...]} | {op: add1, row: [...]} | {op: clear}
        | {op: retrieve, qs: [[m...], ...]} | {op: sample, n: k} | {op: bad, ...}]

Every row's solution and extra fields are derived from its token, so field
integrity ("all fields from one and the same submitted candidate") is decidable
from what the archive stores.
"""
import copy
from fractions import Fraction

import numpy as np

from core import Driver, Failure, q, ql

F = Fraction
NP = {"f32": np.float32, "f64": np.float64}
TOL = {"f32": F(1, 2**18), "f64": F(1, 2**40)}


class Tok:
    """Object-field payload (never a tuple / list: NumPy would unpack those)."""

    def __init__(self, t):
        self.t = t

    def __eq__(self, o):
        return isinstance(o, Tok) and o.t == self.t

    def __hash__(self):
        return hash(self.t)

    def __repr__(self):
        return f"Tok({self.t})"


EXTRA_DESC = {
    "s": ("ex_s", (), np.float32),
    "v": ("ex_v", (2,), np.int32),
    "o": ("ex_o", (), object),
    "m": ("ex_m", (2, 2), np.float64),
    # a vector field whose values are *submitted* in a broadcast-compatible shape ((n, 1) / (1,)) — the store's
    # fancy assignment broadcasts them to the declared shape (2,)
    "b": ("ex_b", (2,), np.float64),
    # unsigned integer fields (dtype kind "u": integers too -- blank value 0)
    # an object field with non-scalar entries (a pair of arbitrary objects per solution)
    "t": ("ex_t", (2,), object),
    "u": ("ex_u", (), np.uint32),
    "w": ("ex_w", (3,), np.uint8),
    # an object field holding ONLY plain Python scalars of mixed types (str / int / float / bool): a list of them is
    # what NumPy coerces to one common dtype when it is converted without `dtype=object`
    "p": ("ex_p", (), object),
}


def extra_fields(layout):
    return {EXTRA_DESC[c][0]: (EXTRA_DESC[c][1], EXTRA_DESC[c][2]) for c in layout}


def solution_of(tok, sol_dim):
    return [tok + 0.25 * j for j in range(sol_dim)]


def extra_value(c, tok):
    if c == "s":
        return np.float32(tok * 0.5)
    if c == "v":
        return np.array([tok, -tok], dtype=np.int32)
    if c == "o":
        # arbitrary Python objects: an instance of a user class, or a dict (which NumPy would happily wrap)
        # ... or plain Python scalars of MIXED types (str / int / float / bool next to each other in one batch: NumPy
        # would coerce a list of them to one common dtype -- ['a', 1] -> '<U21', [1, 2.5] -> float64)
        if tok % 3 == 2:
            return [f"s{tok}", int(tok), tok + 0.5, bool(tok % 2)][(tok // 3) % 4]
        return Tok(tok) if tok % 2 == 0 else {"t": tok}
    if c == "p":
        return [f"s{tok}", int(tok), tok + 0.5, bool(tok % 3 == 0)][tok % 4]
    if c == "b":
        return np.full(2, tok * 0.5)
    if c == "t":
        v = np.empty(2, dtype=object)
        v[0], v[1] = f"tag{tok}", tok
        return v
    if c == "u":
        return np.uint32(tok)
    if c == "w":
        return np.array([tok % 251, (tok + 1) % 251, (tok * 7) % 251], dtype=np.uint8)
    return np.array([[tok, tok + 1], [tok + 2, tok + 3]], dtype=np.float64)


def batch_kwargs(layout, toks):
    out = {}
    for c in layout:
        name, shape, dtype = EXTRA_DESC[c]
        if c == "b":
            out[name] = np.array([[t * 0.5] for t in toks], dtype=dtype).reshape(len(toks), 1)
            continue
        arr = np.empty((len(toks),) + shape, dtype=dtype)
        for k, t in enumerate(toks):
            arr[k] = extra_value(c, t)
        out[name] = arr
    return out


def decode_tok(layout, sol_dim, get):
    """Token of a stored row if solution and every extra field agree on one token."""
    sol = np.asarray(get("solution"))
    try:
        tok = int(sol[0])
    except (ValueError, OverflowError):
        return None
    if not np.array_equal(sol.astype(np.float64), np.array(solution_of(tok, sol_dim))):
        return None
    for c in layout:
        name = EXTRA_DESC[c][0]
        try:
            v = get(name)
        except KeyError:
            return None         # the entry lacks a field: not a complete entry of any candidate
        exp = extra_value(c, tok)
        # an object field returns the very kind of object that was stored (not, e.g., a 0-d array around it)
        ok = (type(v) is type(exp) and v == exp) if c in "op" else np.array_equal(np.asarray(v), np.asarray(exp))
        if not ok:
            return None
    return tok


def fr(x):
    return F(x) if not isinstance(x, str) else F(x)


def to_dtype(x, dt):
    """Round an exact rational to the archive dtype (entry cast) and return its exact value."""
    return F(float(NP[dt](float(x)))) if dt == "f32" else F(float(x))


def dtype_arg(case):
    """The `dtype` constructor argument in the documented form the case asks for (`forms.dtype`): one dtype, a dict,
    or a dict whose solution dtype differs (no index / threshold computation depends on the solution dtype)."""
    dt = NP[case["dtype"]]
    form = case.get("forms", {}).get("dtype", "one")
    if form == "dict":
        return {"solution": dt, "objective": dt, "measures": dt}
    if form == "dictsol":
        return {"solution": np.float32 if dt == np.float64 else np.float64, "objective": dt, "measures": dt}
    if form == "dictmix":
        # objective (and threshold) in case["dtype"], measures (and solution) in the other precision
        return {"solution": NP[meas_dtype(case)], "objective": dt, "measures": NP[meas_dtype(case)]}
    return dt


def meas_dtype(case):
    """Precision of the measures ("f32" / "f64"): case["dtype"] unless the dict form asks for mixed precisions."""
    if case.get("forms", {}).get("dtype") == "dictmix":
        return "f64" if case["dtype"] == "f32" else "f32"
    return case["dtype"]


def gen_forms(rng):
    return {"dtype": rng.choice(["one", "one", "dict", "dictsol", "dictmix"]),
            "ranges": rng.choice(["tuples", "tuples", "nd", "lists"]),
            "args": rng.choice(["nd", "nd", "list", "kw", "native", "strided"]),
            "kworder": rng.choice(["same", "alt"]),
            # a caller that copies elites between archives passes every stored field along, `threshold` too
            # (`dst.add(**src.data([...]))`): GridArchive / CVTArchive accept the keyword and must store the threshold
            # they compute, never the caller's number
            "thrkw": rng.random() < 0.15}


def submit(archive, case, single, sol, obj, meas, extras):
    """archive.add / add_single with the arguments in the documented form the case asks for (`forms.args`): ndarrays
    (float64 values, cast on entry), nested lists / Python floats, keyword arguments, arrays already in the archive
    dtype, non-contiguous views.  `obj` may be None (diversity optimisation).

    After the call every array that was handed over is overwritten in place (a caller re-using its buffers): the
    archive must not be affected, now or at a later remap."""
    form = case.get("forms", {}).get("args", "nd")
    npdt = NP[case["dtype"]]
    n = len(sol)
    if case.get("forms", {}).get("kworder") == "alt" and n and int(sol[0][0]) % 2:
        extras = dict(reversed(list(extras.items())))      # the extra fields as keywords in another order
    sol = np.array(sol)                                     # private copies: what follows trashes them
    extras = {k: np.array(v) for k, v in extras.items()}
    if case.get("forms", {}).get("thrkw") and n and case.get("kind") in ("grid", "cvt"):
        extras["threshold"] = np.array([1000.0 + 3 * k for k in range(n)], dtype=npdt)
    if form == "native":
        obj, meas = (None if obj is None else obj.astype(npdt)), meas.astype(NP[meas_dtype(case)])
    elif form == "strided" and n:
        big = np.zeros((2 * n, 2 * meas.shape[1]))
        big[::2, ::2] = meas
        meas = big[::2, ::2]
        if obj is not None:
            bo = np.zeros(2 * n)
            bo[::2] = obj
            obj = bo[::2]
    else:
        obj, meas = (None if obj is None else np.array(obj)), np.array(meas)
    owned = [sol, meas] + ([obj] if obj is not None else []) + list(extras.values())
    try:
        if single:
            s1, o1, m1 = sol[0], (None if obj is None else obj[0]), meas[0]
            e1 = {k: v[0] for k, v in extras.items()}
            if form == "list":
                s1, o1, m1 = s1.tolist(), (None if o1 is None else float(o1)), m1.tolist()
            if form == "kw":
                return archive.add_single(solution=s1, objective=o1, measures=m1, **e1)
            return archive.add_single(s1, o1, m1, **e1)
        if form == "list" and n:        # (an empty nested list carries no inner dimension)
            lsol, lobj, lmeas = sol.tolist(), (None if obj is None else obj.tolist()), meas.tolist()
            if form == "kw":
                return archive.add(solution=lsol, objective=lobj, measures=lmeas, **extras)
            return archive.add(lsol, lobj, lmeas, **extras)
        if form == "kw":
            return archive.add(solution=sol, objective=obj, measures=meas, **extras)
        return archive.add(sol, obj, meas, **extras)
    finally:
        for arr in owned:
            if isinstance(arr, np.ndarray) and arr.size and arr.flags.writeable:
                if arr.dtype == object:
                    arr[...] = None
                elif arr.dtype.kind in "iu":
                    arr[...] = 99
                else:
                    arr[...] = -777.25


def make_archive(case, seed=0):
    from ribs.archives import CVTArchive, GridArchive, SlidingBoundariesArchive
    dt = NP[case["dtype"]]
    kw = {}
    if case.get("lr") is not None:
        kw["learning_rate"] = float(fr(case["lr"]))
    if case.get("tmin") is not None:
        kw["threshold_min"] = float(fr(case["tmin"]))
    ranges = [(float(fr(a)), float(fr(b))) for a, b in zip(case["lo"], case["hi"])]
    # documented alternative forms of the same configuration (`forms`): dtype as a dict, ranges as ndarray / lists
    forms = case.get("forms", {})
    if forms.get("ranges") == "nd":
        ranges = np.array(ranges, dtype=np.float64)
    elif forms.get("ranges") == "lists":
        ranges = [list(r) for r in ranges]
    common = dict(solution_dim=case.get("sol_dim", 2), qd_score_offset=float(fr(case.get("off", "0"))), seed=seed,
                  dtype=dtype_arg(case), extra_fields=extra_fields(case.get("layout", "")))
    # options at their documented default are OMITTED, so that the defaults themselves are what runs (a changed default
    # of qd_score_offset / dtype / extra_fields is then judged against the documented one: `Runner.config_echo`
    # compares what the archive reports with the case, and the dtype / field layout oracles read the case)
    if fr(case.get("off", "0")) == 0:
        del common["qd_score_offset"]
    if not case.get("layout", ""):
        del common["extra_fields"]
    if case["dtype"] == "f64" and forms.get("dtype", "one") == "one":
        del common["dtype"]
    if case["kind"] == "grid":
        return GridArchive(dims=case["dims"], ranges=ranges, **kw, **common)
    if case["kind"] == "cvt":
        c = case["cvt"]
        cents = np.array([[float(fr(x)) for x in p] for p in c["cents"]], dtype=dt)
        ckw = {}
        if not c.get("kd", True):           # the default (k-D tree, no chunking) is left to the constructor
            ckw["use_kd_tree"] = False
        if c.get("chunk") is not None:
            ckw["chunk_size"] = c["chunk"]
        return CVTArchive(cells=len(cents), ranges=ranges, custom_centroids=cents, **ckw, **kw, **common)
    if case["kind"] == "sb":
        return SlidingBoundariesArchive(dims=case["dims"], ranges=ranges, remap_frequency=10**9,
                                        buffer_capacity=4, **common)
    raise ValueError(case["kind"])


class Decoy:
    """A second, differently configured archive that lives next to the one under test and is used between its calls:
    other learning rate / threshold_min / offset / precision, and extra fields of the SAME names with other dtype
    kinds and shapes.  Nothing an archive does may depend on another archive of the process (settings kept in a class
    attribute or a module-level cache show up as soon as two archives are alive at once -- the usual CMA-MAE set-up
    has an archive and a differently configured result archive)."""

    SWAP = {"f": np.int32, "i": np.float64, "u": np.float32, "O": np.float64}

    def __init__(self, case):
        from ribs.archives import CVTArchive, GridArchive
        self.fields = {EXTRA_DESC[c][0]: ((3,) if EXTRA_DESC[c][1] == () else (), self.SWAP[np.dtype(EXTRA_DESC[c][2]).kind])
                       for c in case.get("layout", "")}
        dt = np.float32 if case["dtype"] == "f64" else np.float64
        lr = 0.25 if case.get("lr") is None or fr(case["lr"]) != F(1, 4) else 0.75
        kw = dict(solution_dim=3, learning_rate=lr, threshold_min=-3.0, qd_score_offset=-1.5, dtype=dt,
                  extra_fields=self.fields, seed=7)
        if case["kind"] == "cvt":
            self.a = GridArchive(dims=[3, 2], ranges=[(-1, 1), (-1, 1)], **kw)
        else:
            self.a = CVTArchive(cells=3, ranges=[(-1, 1), (-1, 1)], custom_centroids=[[-0.5, 0], [0.5, 0], [0, 0.7]], **kw)
        self.n = 0

    def poke(self):
        """a retrieve that hits an empty cell and an occupied one, one add and one add_single"""
        a, self.n = self.a, self.n + 1
        ex = {name: np.zeros((2,) + shp, dtype=dt) + self.n for name, (shp, dt) in self.fields.items()}
        a.add(np.full((2, 3), 0.5 * self.n), [1.0 * self.n, 2.0], [[-0.5, 0.1], [0.5, -0.1]], **ex)
        a.add_single([0.0, 1.0, 2.0], 0.5 + self.n, [0.4, 0.0], **{k: v[0] for k, v in ex.items()})
        a.retrieve([[0.0, 0.9], [-0.5, 0.0]])
        a.retrieve_single([0.0, 0.9])
        return a.stats.num_elites


def model_new_line(case, archive):
    """`new` request built from the archive's *reported* geometry."""
    kind = case["kind"]
    lr = "none" if case.get("lr") is None else q(fr(case["lr"]))
    tmin = "-inf" if case.get("tmin") is None else q(fr(case["tmin"]))
    # the archive stores lr / tmin / offset in its dtype: feed the model the stored values
    lr_v = "none" if case.get("lr") is None else q(F(float(archive.learning_rate)))
    tmin_v = "-inf" if case.get("tmin") is None else q(F(float(archive.threshold_min)))
    off_v = q(F(float(archive.qd_score_offset)))
    del lr, tmin
    tail = f"lr={lr_v} tmin={tmin_v} off={off_v}"
    if kind == "grid":
        return (f"new kind=grid dims={','.join(map(str, case['dims']))} lo={ql(F(float(x)) for x in archive.lower_bounds)} "
                f"hi={ql(F(float(x)) for x in archive.upper_bounds)} eps={q(F(float(archive.epsilon)))} {tail}")
    if kind == "cvt":
        cents = ";".join(ql(F(float(x)) for x in p) for p in archive.centroids)
        return f"new kind=cvt cents={cents} {tail}"
    bn = ";".join(ql(F(float(x)) for x in b) for b in archive.boundaries)
    return (f"new kind=sb dims={','.join(map(str, case['dims']))} bnds={bn} lo={ql(F(float(x)) for x in archive.lower_bounds)} "
            f"hi={ql(F(float(x)) for x in archive.upper_bounds)} eps={q(F(float(archive.epsilon)))} {tail}")


def observe(archive, case):
    """Canonical observation of the implementation through public APIs."""
    layout, sd = case.get("layout", ""), case.get("sol_dim", 2)
    d = archive.data()
    rows = {}
    bad = None
    for k in range(len(d["index"])):
        tok = decode_tok(layout, sd, lambda name, k=k: d[name][k])
        i = int(d["index"][k])
        if tok is None:
            bad = f"row stored at cell {i} mixes fields of different candidates (or of none)"
        if i in rows:
            bad = f"cell {i} listed twice by data()"
        rows[i] = {"tok": tok, "obj": F(float(d["objective"][k])), "thr": F(float(d["threshold"][k])),
                   "meas": [F(float(x)) for x in d["measures"][k]]}
    if sd >= 11 and len(d["index"]):
        # wide vector fields through the data-frame view: get_field / iterelites give the stored vectors, component
        # j in place j (the columns are named <field>_<j>: 10 comes after 9, not after 1)
        df = archive.data(["solution", "objective"], return_type="pandas")    # (rank-2 extra fields have no pandas form)
        sol = np.asarray(df.get_field("solution"))
        if sol.shape != np.asarray(d["solution"]).shape or sol.tobytes() != np.asarray(d["solution"]).tobytes():
            bad = bad or "ArchiveDataFrame.get_field('solution') differs from data()['solution'] (wide vectors)"
        first = next(iter(df.iterelites()))
        if np.asarray(first["solution"]).tobytes() != np.asarray(d["solution"][0]).tobytes():
            bad = bad or "ArchiveDataFrame.iterelites() yields another solution vector than data() (wide vectors)"
    st = archive.stats
    be = archive.best_elite
    best = None
    if be is not None:
        best = {"index": int(be["index"]), "tok": decode_tok(layout, sd, lambda name: be[name]),
                "obj": F(float(be["objective"])), "thr": F(float(be["threshold"])),
                "meas": [F(float(x)) for x in be["measures"]]}
    stats = {"num": int(st.num_elites), "cov": F(float(st.coverage)), "qd": F(float(st.qd_score)),
             "nqd": F(float(st.norm_qd_score)),
             "max": None if st.obj_max is None else F(float(st.obj_max)),
             "mean": None if st.obj_mean is None else F(float(st.obj_mean))}
    return {"rows": rows, "order": [int(i) for i in d["index"]], "len": len(archive), "empty": bool(archive.empty),
            "stats": stats, "best": best, "bad": bad, "cells": int(archive.cells)}


def parse_model_state(line):
    d = dict(t.split("=", 1) for t in line.split())
    rows = {}
    if d["data"] != "-":
        for p in d["data"].split(";"):
            i, tok, obj, thr = p.split(":")
            rows[int(i)] = {"tok": int(tok), "obj": F(obj), "thr": F(thr)}
    best = None
    if d["best"] != "none":
        i, tok, obj, thr = d["best"].split(":")
        best = {"index": int(i), "tok": int(tok), "obj": F(obj), "thr": F(thr)}
    opt = lambda s: None if s == "none" else F(s)
    return {"rows": rows, "len": int(d["len"]), "order": [] if d["olist"] == "-" else [int(x) for x in d["olist"].split(",")],
            "stats": {"num": int(d["num"]), "objsum": F(d["objsum"]), "max": opt(d["objmax"]), "qd": F(d["qd"]),
                      "cov": F(d["cov"]), "nqd": F(d["nqd"]), "mean": opt(d["mean"])},
            "best": best}


def close(a, b, dt, scale=1):
    if a is None or b is None:
        return a is b
    return abs(a - b) <= TOL[dt] * max(1, abs(a), abs(b), scale)


def cand_line(tok, obj, meas):
    return f"{tok}:{q(obj)}:{ql(meas)}"


def checkpoint(archive, how):
    """Continue the history on a copy of the archive (a pickle round trip, `copy.deepcopy`): every public read-only
    property is read first (what is cached on first read must survive the copy), the original is dropped.  A copy
    that does not behave like the uninterrupted archive -- cached views that pickling turns into independent arrays,
    state left out of `__getstate__` -- then breaks the lock step with the model and the oracles of the property."""
    import pickle
    for name in ("boundaries", "lower_bounds", "upper_bounds", "centroids", "stats", "best_elite", "empty", "cells",
                 "interval_size", "dims", "capacity", "occupied", "occupied_list", "field_list", "dtypes"):
        try:
            getattr(archive, name)
        except Exception:       # noqa: BLE001  (not every archive has every property; some raise when empty)
            pass
    st = getattr(archive, "_store", None)
    if st is not None:
        for name in ("occupied", "occupied_list", "capacity", "field_list"):
            try:
                getattr(st, name)
            except Exception:   # noqa: BLE001
                pass
    if how == "deepcopy":
        return copy.deepcopy(archive)
    if how == "copy-chain":
        return pickle.loads(pickle.dumps(copy.deepcopy(archive)))
    return pickle.loads(pickle.dumps(archive))


def sprinkle(rng, case, rows_fn=None, p_ckpt=0.3, p_bad=0.35, prox_noobj_ok=False):
    """With some probability: checkpoints (continue on a pickled / deep-copied archive) and rejected calls (fault
    injection, judged by the oracles of the property the run serves: what the archive holds and reports AFTER a
    correctly rejected call must still satisfy it) at random positions of a generated history."""
    ops = case["ops"]
    if rng.random() < p_ckpt and ops:
        for _ in range(rng.choice([1, 1, 2])):
            ops.insert(rng.randint(1, len(ops)), {"op": "ckpt", "how": rng.choice(["pickle", "pickle", "deepcopy", "copy-chain"])})
    objfield = "o" in case.get("layout", "") or "t" in case.get("layout", "")
    if case.get("kind") == "sb" and objfield:
        p_bad = max(p_bad, 0.7)     # SlidingBoundariesArchive.add inserts row by row: a defect of a LATER row of a batch
    if rows_fn is not None and rng.random() < p_bad and ops:
        import faultlib
        for _ in range(rng.choice([1, 1, 2])):
            fault = faultlib.gen_fault(rng, case.get("layout", ""), rows_fn, prox_noobj_ok=prox_noobj_ok)
            if case.get("layout", "") and rng.random() < 0.7:
                # mostly the calls that are rejected LATE (a malformed extra field through add / add_single: shape,
                # dtype and convertibility of a field are only known to the store)
                want_obj = ("o" in case["layout"] or "t" in case["layout"]) and rng.random() < 0.6
                for _try in range(200):
                    if fault["entry"] in ("add", "add_single") and fault["arg"] == "extra" and (
                            not want_obj or fault["kind"] in ("objseq", "ragged")) and (
                            not (want_obj and case.get("kind") == "sb") or (
                                fault["entry"] == "add" and len(fault["rows"]) >= 2 and fault["pos"] >= 1)):
                        break
                    fault = faultlib.gen_fault(rng, case.get("layout", ""), rows_fn, prox_noobj_ok=prox_noobj_ok)
            ops.insert(rng.randint(0, max(0, len(ops) - 1)), fault)
    return case


class Run:
    """One lock-step run of a case: implementation, Lean model and oracles."""

    def __init__(self, case, props, exact_thr=False):
        self.case = case
        self.props = set(props)
        self.dt = case["dtype"]
        self.mdt = meas_dtype(case)     # precision of the measures (differs from the objective's with a mixed dict dtype)
        self.elitist = case.get("tmin") is None
        self.exact_thr = exact_thr
        self.archive = make_archive(case)
        # constructed AFTER the archive under test and used between its calls (see Decoy)
        self.decoy = Decoy(case) if case.get("case_index", 0) % 2 == 0 else None
        if self.decoy is not None:
            self.decoy.poke()
        self.drv = Driver("arch")
        # `rtol` (edge strata, grid only): half-width of the zone around a cell edge that the archive's floating
        # point cannot resolve -- there the model follows the implementation's choice if it is admissible (`pin`)
        self.rtol = fr(case["rtol"]) if case.get("rtol") and case["kind"] == "grid" else None
        r = self.drv.ask(model_new_line(case, self.archive) + (f" rtol={q(self.rtol)}" if self.rtol else ""))
        if not r.startswith("ok"):
            raise RuntimeError(f"model rejected config: {r}")
        self.hist = {}      # cell -> list of (tok, obj, meas) routed since last clear (oracle C01)
        self.inserted_max = None  # oracle C06: max objective inserted since last clear
        self.submitted = {}  # tok -> (obj, meas) as cast on entry
        self.twin = make_archive(case) if ("C01" in self.props and self.elitist) else None
        self.after_bad = None
        self.resyncs = 0
        self.max_dev = F(0)
        self.max_abs = F(1)   # largest |objective| submitted so far (scale of float rounding in the sums)
        self.stat = {}

    def close(self):
        self.drv.close()

    def sync_routing(self, meas_rows, cells, where):
        """Inside the rounding zone the model takes the cell the implementation resolved (if admissible)."""
        if not self.rtol or not meas_rows:
            return None
        m_cells = [int(x) for x in self.drv.ask("idx " + " ".join(ql(m) for m in meas_rows)).split(",")]
        for m, c, mc in zip(meas_rows, cells, m_cells):
            if c != mc:
                r = self.drv.ask(f"pin {ql(m)} {c}")
                self.stat["routing-pinned"] = self.stat.get("routing-pinned", 0) + 1
                if r != "ok":
                    return self.F_("C03", "corr", f"{where}: measures {[str(x) for x in m]} routed to cell {c}, outside "
                                   f"the rounding zone (rtol={self.rtol}) around the exact cell {mc}") or \
                        Failure("corr", f"[routing] {where}: impl={c} not admissible (exact {mc}, rtol={self.rtol})")
        return None

    def bump(self, k):
        self.stat[k] = self.stat.get(k, 0) + 1

    # -- helpers -----------------------------------------------------------

    def cast_row(self, row):
        tok, obj, meas = row
        return tok, to_dtype(fr(obj), self.dt), [to_dtype(fr(m), self.mdt) for m in meas]

    def F_(self, prop, kind, what):
        """Failure attributed to `prop`; ignored (None) when this run does not serve it."""
        if "C11" in self.props:
            if prop == "C11":
                return Failure(kind, f"[C11] {what}")
            if self.after_bad:
                return Failure(kind, f"[C11] after a rejected call ({self.after_bad}) the remaining valid history no "
                               f"longer behaves as if that call had never happened: {what}")
            return None
        return Failure(kind, f"[{prop}] {what}") if prop in self.props else None

    def F_any(self, props, kind, what):
        """a failure that violates several properties at once: attributed to the first one this run serves"""
        for prop in props:
            f = self.F_(prop, kind, what)
            if f is not None:
                return f
        return None

    def snapshot(self):
        o = observe(self.archive, self.case)
        o.pop("bad")
        return o

    def make_sched(self, entry, n):
        from ribs.emitters import GaussianEmitter
        from ribs.schedulers import BanditScheduler, Scheduler
        import faultlib
        sd = self.case.get("sol_dim", 2)
        em = faultlib.sched_emitters(self.archive, n, sd)
        if entry == "sched_tell":
            return Scheduler(self.archive, em)
        return BanditScheduler(self.archive, em, num_active=len(em))

    def do_bad(self, op, where):
        import faultlib
        pre = self.snapshot()
        res, exc = faultlib.inject(self.archive, op, self.dt, self.case.get("sol_dim", 2), len(self.case["lo"]),
                                   self.case.get("layout", ""), mdt=self.mdt, sched=self.make_sched)
        self.bump(f"bad:{op['entry']}:{op['arg']}:{op['kind']}:{res}")
        if res == "skip":
            return None
        desc = f"{op['entry']}({op['arg']}: {op['kind']} at row {op['pos']} of {len(op['rows'])})"
        try:
            post = self.snapshot()
        except (OverflowError, ValueError) as e:
            return self.F_("C11", "oracle", f"{where}: malformed call {desc} "
                           f"{'raised ' + str(exc) if res == 'raised' else 'was accepted without an error'} and left "
                           f"non-finite values in the archive ({type(e).__name__}: {e})")
        if res == "accepted" and faultlib.must_raise(op):
            return self.F_("C11", "oracle", f"{where}: malformed call {desc} was accepted without an error")
        if res == "accepted":
            # a malformed call that is silently accepted must at least not touch the archive (this happens when
            # no row would be inserted: the store returns before looking at the fields)
            if post != pre:
                return self.F_("C11", "oracle", f"{where}: malformed call {desc} was accepted without an error and "
                               f"changed the archive: {[k for k in pre if pre[k] != post[k]]}")
            return None
        if post != pre:
            diff = [k for k in pre if pre[k] != post[k]]
            return self.F_("C11", "oracle", f"{where}: {desc} raised {exc} but changed the archive: {diff} "
                           f"(len {pre['len']} -> {post['len']}, stats {pre['stats']} -> {post['stats']})")
        self.after_bad = desc
        return None

    def impl_add(self, archive, rows, single):
        layout, sd = self.case.get("layout", ""), self.case.get("sol_dim", 2)
        npdt = NP[self.dt]
        toks = [r[0] for r in rows]
        # submit the values exactly as given (float64 of the rational): the archive casts on entry
        sol = np.array([solution_of(t, sd) for t in toks], dtype=npdt).reshape(len(rows), sd)
        obj = np.array([float(fr(r[1])) for r in rows], dtype=np.float64)
        meas = np.array([[float(fr(m)) for m in r[2]] for r in rows], dtype=np.float64).reshape(
            len(rows), len(self.case["lo"]))
        extras = batch_kwargs(layout, toks)
        info = submit(archive, self.case, single, sol, obj, meas, extras)
        if single:
            return [int(info["status"])], [F(float(info["value"]))]
        if len(rows) == 0 and "status" not in info:
            return [], []
        return [int(s) for s in info["status"]], [F(float(v)) for v in info["value"]]

    # -- one add -----------------------------------------------------------

    def do_add(self, rows, single, where):
        dt = self.dt
        crow = [self.cast_row(r) for r in rows]
        pre = observe(self.archive, self.case)
        npdt = NP[dt]
        if rows:
            cells = [int(i) for i in self.archive.index_of(
                np.array([[float(m) for m in r[2]] for r in crow], dtype=NP[self.mdt]))]
        else:
            cells = []
        f = self.sync_routing([r[2] for r in crow], cells, where)
        if f:
            return f
        # twin for single-vs-batch-of-one (C02)
        twin1 = None
        if "C02" in self.props and len(rows) == 1:
            twin1 = copy.deepcopy(self.archive)
        status, value = self.impl_add(self.archive, rows, single)
        post = observe(self.archive, self.case)
        if post["bad"]:
            f = self.F_("C01", "oracle", f"{where}: {post['bad']}")
            if f:
                return f
        # ---- model
        if single:
            m = self.drv.ask("add1 " + cand_line(*crow[0]))
        else:
            m = self.drv.ask("add " + " ".join(cand_line(*r) for r in crow)) if crow else self.drv.ask("add")
        md = dict(t.split("=", 1) for t in m.split())
        m_cells = [] if md["cells"] == "-" else [int(x) for x in md["cells"].split(",")]
        m_status = [] if md["status"] == "-" else [int(x) for x in md["status"].split(",")]
        m_value = [] if md["value"] == "-" else [F(x) for x in md["value"].split(",")]

        tmin = None if self.elitist else to_dtype(fr(self.case["tmin"]), dt)
        lr = F(1) if self.case.get("lr") is None else F(float(NP[dt](float(fr(self.case["lr"])))))

        # ---- oracle C02: feedback against the pre-call archive
        exp_status, exp_value = [], []
        for (tok, obj, meas), c in zip(crow, cells):
            if c in pre["rows"]:
                thr = pre["rows"][c]["thr"]
                exp_status.append(1 if obj > thr else 0)
                exp_value.append(obj - thr)
            else:
                exp_status.append(2 if (tmin is None or obj > tmin) else 0)
                exp_value.append(obj - (F(0) if tmin is None else tmin))
        if status != exp_status:
            f = self.F_("C02", "oracle", f"{where}: status {status} but judged against the pre-call archive it is "
                        f"{exp_status} (cells {cells})")
            if f:
                return f
        for k, (v, e) in enumerate(zip(value, exp_value)):
            if v != to_dtype(e, dt) and not close(v, e, dt, abs(crow[k][1])):
                f = self.F_("C02", "oracle", f"{where}: value[{k}]={v} expected objective - prior threshold = {e}")
                if f:
                    return f
        new_toks = {r["tok"] for r in post["rows"].values()} - {r["tok"] for r in pre["rows"].values()}
        st_of = {r[0]: s for r, s in zip(crow, status)}
        for t in new_toks:
            if st_of.get(t, 0) == 0:
                f = self.F_("C02", "oracle", f"{where}: candidate {t} was stored although its status is 0")
                if f:
                    return f
        if twin1 is not None:
            s2, v2 = self.impl_add(twin1, rows, not single)
            o2 = observe(twin1, self.case)
            same_rows = set(o2["rows"]) == set(post["rows"]) and all(
                o2["rows"][c]["tok"] == post["rows"][c]["tok"] and
                close(o2["rows"][c]["thr"], post["rows"][c]["thr"], dt, abs(post["rows"][c]["obj"]))
                for c in post["rows"])
            same_vals = len(v2) == len(value) and all(
                close(a, b, dt, max(abs(crow[0][1]), abs(a))) for a, b in zip(v2, value))
            if s2 != status or not same_vals or not same_rows:
                f = self.F_("C02", "oracle",
                            f"{where}: add_single and add on a batch of one disagree: "
                            f"{'single' if single else 'batch'} -> {status},{[str(v) for v in value]} vs "
                            f"{s2},{[str(v) for v in v2]}")
                if f:
                    return f

        # ---- bookkeeping of the history (oracles C01 / C05 / C06)
        for (tok, obj, meas), c in zip(crow, cells):
            self.hist.setdefault(c, []).append((tok, obj, meas))
            self.submitted[tok] = (obj, meas)
            self.max_abs = max(self.max_abs, abs(obj))
        acc = {}
        for (tok, obj, meas), c, s in zip(crow, cells, exp_status):
            if s != 0:
                acc.setdefault(c, []).append((tok, obj, meas))
                if self.inserted_max is None or obj > self.inserted_max:
                    self.inserted_max = obj

        # ---- oracle C01 (elitist): contents = best of history, earliest first on ties
        if self.elitist:
            f = self.check_contents(post, where)
            if f:
                return f
        # ---- oracle C05 (finite tmin): threshold rule
        if not self.elitist:
            for c in set(list(pre["rows"]) + list(post["rows"]) + cells):
                a = acc.get(c, [])
                t0 = pre["rows"][c]["thr"] if c in pre["rows"] else tmin
                if not a:
                    if post["rows"].get(c) != pre["rows"].get(c):
                        f = self.F_("C05", "oracle", f"{where}: cell {c} changed without accepting a candidate")
                        if f:
                            return f
                    continue
                k = len(a)
                mean = sum(x[1] for x in a) / k
                if single:
                    exp_thr = (1 - lr) * t0 + lr * a[0][1]
                else:
                    exp_thr = (1 - lr)**k * t0 + (1 - (1 - lr)**k) * mean
                best = a[0]
                for x in a[1:]:
                    if x[1] > best[1]:
                        best = x
                got = post["rows"].get(c)
                if got is None or got["tok"] != best[0]:
                    f = self.F_("C05", "oracle", f"{where}: cell {c} should hold the best accepted candidate "
                                f"{best[0]} (earliest on ties) but holds {got and got['tok']}")
                    if f:
                        return f
                    continue
                # rounding budget of the documented form w*t + (1-w)*m: the two products (w = (1-a)^k is 0 for a = 1,
                # so that a huge |t| then contributes nothing)
                w = (1 - lr) if single else (1 - lr)**k
                scale = max(w * abs(t0), max(abs(x[1]) for x in a))
                if not close(got["thr"], exp_thr, dt, scale):
                    f = self.F_("C05", "oracle", f"{where}: cell {c} threshold {got['thr']} ≠ (1-a)^k t + (1-(1-a)^k) m "
                                f"= {exp_thr} (t={t0}, k={k}, m={mean}, a={lr})")
                    if f:
                        return f
                # (both bounds up to the rounding of the recurrence: a one-ulp excursion below t or above the best
                # accepted objective is float arithmetic, 7.3)
                if (got["thr"] < t0 and not close(got["thr"], t0, dt, scale)) or \
                        (got["thr"] > max(x[1] for x in a) and not close(got["thr"], max(x[1] for x in a), dt)):
                    f = self.F_("C05", "oracle", f"{where}: cell {c} threshold {got['thr']} outside [t, best accepted]")
                    if f:
                        return f
        # ---- oracle C06: statistics
        f = self.check_stats(post, where)
        if f:
            return f
        # ---- oracle C07: self retrieval
        if "C07" in self.props:
            f = self.check_self_retrieval(post, where)
            if f:
                return f

        # ---- correspondence
        if cells != m_cells:
            return self.F_("C03", "corr", f"{where}: routing impl={cells} model={m_cells}") or \
                Failure("corr", f"[routing] {where}: impl={cells} model={m_cells}")
        if status != m_status:
            f = self.F_("C02", "corr", f"{where}: status impl={status} model={m_status}")
            if f:
                return f
        for k, (v, e) in enumerate(zip(value, m_value)):
            if v != to_dtype(e, dt) and not close(v, e, dt, abs(crow[k][1])):
                f = self.F_("C02", "corr", f"{where}: value[{k}] impl={v} model={e}")
                if f:
                    return f
        return self.compare_state(post, where)

    # -- state comparison with the model -------------------------------------

    def compare_state(self, post, where):
        dt = self.dt
        ms = parse_model_state(self.drv.ask("state"))
        contents_prop = "C01" if self.elitist else "C05"
        if set(ms["rows"]) != set(post["rows"]) or any(
                ms["rows"][c]["tok"] != post["rows"][c]["tok"] or ms["rows"][c]["obj"] != post["rows"][c]["obj"]
                for c in ms["rows"]):
            f = self.F_(contents_prop, "corr", f"{where}: contents impl="
                        f"{ {c: r['tok'] for c, r in sorted(post['rows'].items())} } model="
                        f"{ {c: r['tok'] for c, r in sorted(ms['rows'].items())} }")
            if f:
                return f
        for c in ms["rows"]:
            if c not in post["rows"]:
                continue
            a, b = post["rows"][c]["thr"], ms["rows"][c]["thr"]
            if a != b:
                if self.exact_thr or not close(a, b, dt):
                    f = self.F_("C05", "corr", f"{where}: threshold of cell {c} impl={a} model={b}")
                    if f:
                        return f
                # resync the model to the implementation's rounded threshold (continuous relation)
                self.resyncs += 1
                dev = abs(a - b) / max(1, abs(a))
                self.max_dev = max(self.max_dev, dev / TOL[dt])
                self.drv.ask(f"setthr {c} {q(a)}")
        # group-canonical insertion order
        if ms["len"] != post["len"]:
            f = self.F_("C06", "corr", f"{where}: len impl={post['len']} model={ms['len']}")
            if f:
                return f
        s, t = post["stats"], ms["stats"]
        for key in ("num", "max"):
            if s[key] != t[key]:
                f = self.F_("C06", "corr", f"{where}: stats.{key} impl={s[key]} model={t[key]}")
                if f:
                    return f
        for key in ("qd", "cov", "nqd", "mean"):
            if not close(s[key], t[key], dt, self.max_abs * max(1, s["num"])):
                f = self.F_("C06", "corr", f"{where}: stats.{key} impl={s[key]} model={t[key]}")
                if f:
                    return f
        pb, mb = post["best"], ms["best"]
        if (pb is None) != (mb is None) or (pb and (pb["tok"], pb["obj"], pb["index"]) != (mb["tok"], mb["obj"], mb["index"])):
            f = self.F_("C06", "corr", f"{where}: best_elite impl={pb and (pb['index'], pb['tok'])} "
                        f"model={mb and (mb['index'], mb['tok'])}")
            if f:
                return f
        return None

    # -- oracles ---------------------------------------------------------------

    def check_contents(self, post, where):
        exp = {}
        for c, cands in self.hist.items():
            best = cands[0]
            for x in cands[1:]:
                if x[1] > best[1]:
                    best = x
            exp[c] = best
        got = post["rows"]
        if set(exp) != set(got):
            return self.F_("C01", "oracle", f"{where}: occupied cells {sorted(got)} but candidates were routed to "
                           f"{sorted(exp)} since the last clear")
        for c, (tok, obj, meas) in exp.items():
            g = got[c]
            if g["tok"] != tok or g["obj"] != obj or g["meas"] != meas:
                return self.F_("C01", "oracle",
                               f"{where}: cell {c} holds candidate {g['tok']} (obj {g['obj']}) but the best routed there, "
                               f"earliest first on ties, is {tok} (obj {obj}); routed: "
                               f"{[(t, str(o)) for t, o, _ in self.hist[c]]}")
        return None

    def check_stats(self, post, where):
        dt = self.dt
        rows, s = post["rows"], post["stats"]
        n = len(rows)
        off = F(float(self.archive.qd_score_offset))
        cells = post["cells"]
        total = sum(r["obj"] for r in rows.values())
        sc = self.max_abs * max(1, len(rows)) + abs(off) * max(1, len(rows))
        bad = None
        if not (s["num"] == n == post["len"]) or post["empty"] != (n == 0):
            bad = f"num_elites={s['num']} len={post['len']} empty={post['empty']} but {n} occupied cells"
        elif not close(s["qd"], total - n * off, dt, sc):
            bad = f"qd_score={s['qd']} ≠ Σ(objective − offset) = {total - n * off}"
        elif not close(s["cov"], F(n, cells), dt):
            bad = f"coverage={s['cov']} ≠ {n}/{cells}"
        elif not close(s["nqd"], (total - n * off) / cells, dt, sc):
            bad = f"norm_qd_score={s['nqd']} ≠ qd_score/cells = {(total - n * off) / cells}"
        elif n == 0 and not (s["max"] is None and s["mean"] is None and post["best"] is None and s["qd"] == 0):
            bad = f"empty archive but stats not reset: {s} best={post['best']}"
        elif n > 0 and not close(s["mean"], total / n, dt, sc):
            bad = f"obj_mean={s['mean']} ≠ {total / n}"
        elif n > 0 and s["max"] != self.inserted_max:
            bad = f"obj_max={s['max']} ≠ highest objective inserted since the last clear = {self.inserted_max}"
        elif n > 0 and self.elitist and s["max"] != max(r["obj"] for r in rows.values()):
            bad = f"obj_max={s['max']} ≠ current maximum {max(r['obj'] for r in rows.values())} (elitist)"
        elif n > 0:
            b = post["best"]
            if b is None or b["tok"] is None or b["obj"] != s["max"]:
                bad = f"best_elite {b} is not a complete entry with objective obj_max={s['max']}"
            elif b["tok"] not in self.submitted or self.submitted[b["tok"]] != (b["obj"], b["meas"]):
                bad = f"best_elite {b['tok']} does not equal a submitted candidate"
        if bad:
            return self.F_("C06", "oracle", f"{where}: {bad}")
        return None

    def check_self_retrieval(self, post, where):
        rows = post["rows"]
        if not rows:
            return None
        npdt = NP[self.mdt]
        cells = sorted(rows)
        ms = np.array([[float(x) for x in rows[c]["meas"]] for c in cells], dtype=npdt)
        occ, data = self.archive.retrieve(ms)
        for k, c in enumerate(cells):
            if not occ[k] or int(data["index"][k]) != c:
                return self.F_("C07", "oracle",
                               f"{where}: the elite stored in cell {c} is not found by querying its own measures "
                               f"{[str(x) for x in rows[c]['meas']]} (occupied={bool(occ[k])}, index={int(data['index'][k])})")
        # the same values in another container: float64-typed copies / nested lists / one by one (for a float32
        # archive these carry exactly the stored values; how the query is typed must not matter)
        forms = [("a float64 array", ms.astype(np.float64)), ("nested lists", ms.tolist())]
        for label, qarr in forms:
            occ2, data2 = self.archive.retrieve(qarr)
            for k, c in enumerate(cells):
                if not occ2[k] or int(data2["index"][k]) != c:
                    return self.F_("C07", "oracle",
                                   f"{where}: the elite stored in cell {c} is not found by querying its own measures "
                                   f"{[str(x) for x in rows[c]['meas']]} passed as {label} "
                                   f"(occupied={bool(occ2[k])}, index={int(data2['index'][k])}; archive dtype {self.dt})")
        # one by one (a batch of one may take another code path than a large batch, e.g. chunked searches)
        step = max(1, len(cells) // 10)
        for k in range(0, len(cells), step):
            o1, d1 = self.archive.retrieve_single(ms[k].tolist())
            if not o1 or int(d1["index"]) != cells[k]:
                return self.F_("C07", "oracle",
                               f"{where}: retrieve_single does not find the elite of cell {cells[k]} through its own "
                               f"measures {[str(x) for x in rows[cells[k]]['meas']]} passed as a list "
                               f"(occupied={bool(o1)}, index={int(d1['index'])}; archive dtype {self.dt})")
        return None

    def do_retrieve(self, qs, where, single=False):
        """C07: retrieve returns the complete elite of the routed cell or the blanks."""
        dt = self.dt
        npdt = NP[dt]
        layout, sd = self.case.get("layout", ""), self.case.get("sol_dim", 2)
        pre = observe(self.archive, self.case)
        full = self.archive.data()
        by_cell = {int(i): k for k, i in enumerate(full["index"])}
        cq = [[to_dtype(fr(m), self.mdt) for m in qv] for qv in qs]
        arr = np.array([[float(m) for m in qv] for qv in cq], dtype=NP[self.mdt]).reshape(len(qs), len(self.case["lo"]))
        if single:
            o1, d1 = self.archive.retrieve_single(arr[0])
            occ = np.array([o1])
            def one(name, v):
                # (a batch of one around the single value; a plain Python object of an object field -- a str, an
                # int -- must stay that object, np.array([v]) would turn it into a '<U..' / int64 array)
                if isinstance(v, np.ndarray) and v.ndim > 0:
                    return v[None]
                if full[name].dtype == object:
                    w = np.empty(1, dtype=object)
                    w[0] = v
                    return w
                return np.array([v])
            data = {k: one(k, v) for k, v in d1.items()}
        else:
            occ, data = self.archive.retrieve(arr)
        cells = [int(i) for i in self.archive.index_of(arr)] if len(qs) else []
        f = self.sync_routing(cq, cells, where)
        if f:
            return f
        for k, c in enumerate(cells):
            if c in by_cell:
                j = by_cell[c]
                if not occ[k]:
                    return self.F_("C07", "oracle", f"{where}: query {k} maps to occupied cell {c} but occupied=False")
                for name in full:
                    a, b = data[name][k], full[name][j]
                    same = ((a == b) if not isinstance(a, np.ndarray) else np.array_equal(a, b)) \
                        if full[name].dtype == object else np.array_equal(np.asarray(a), np.asarray(b))
                    if not same:
                        return self.F_("C07", "oracle", f"{where}: query {k} (cell {c}) field {name} = {a!r} ≠ stored {b!r}")
            else:
                if occ[k]:
                    return self.F_("C07", "oracle", f"{where}: query {k} maps to empty cell {c} but occupied=True")
                for name in full:
                    a = data[name][k]
                    if full[name].dtype == object:
                        ok = a is None or (isinstance(a, np.ndarray) and all(x is None for x in a.ravel()))
                    elif name == "index":
                        ok = int(a) == -1
                    elif np.issubdtype(full[name].dtype, np.integer):
                        ok = not np.any(np.asarray(a))
                    else:
                        ok = bool(np.all(np.isnan(np.asarray(a, dtype=np.float64))))
                    if not ok:
                        return self.F_("C07", "oracle", f"{where}: query {k} (empty cell {c}) field {name} = {a!r} is not the blank value")
        for name in full:
            if data[name].dtype != full[name].dtype:
                return self.F_("C07", "oracle", f"{where}: field {name} dtype {data[name].dtype} ≠ {full[name].dtype}")
        m = self.drv.ask("retrieve " + " ".join(ql(qv) for qv in cq)) if cq else ""
        got = []
        for k, c in enumerate(cells):
            if occ[k]:
                got.append(f"{int(data['index'][k])}:{decode_tok(layout, sd, lambda name, k=k: data[name][k])}")
            else:
                got.append(f"{c}:none")
        want = [":".join(t.split(":")[:2]) for t in m.split()]
        if got != want:
            return self.F_("C07", "corr", f"{where}: retrieve impl={got} model={want}")
        del pre
        return None

    def do_sample(self, n, where):
        obs = observe(self.archive, self.case)
        layout, sd = self.case.get("layout", ""), self.case.get("sol_dim", 2)
        try:
            el = self.archive.sample_elites(n)
        except IndexError:
            if obs["rows"]:
                return self.F_("C07", "oracle", f"{where}: sample_elites raised IndexError on a non-empty archive")
            return None
        if not obs["rows"]:
            return self.F_("C07", "oracle", f"{where}: sample_elites on an empty archive did not raise IndexError")
        for k in range(n):
            c = int(el["index"][k])
            tok = decode_tok(layout, sd, lambda name, k=k: el[name][k])
            if c not in obs["rows"] or obs["rows"][c]["tok"] != tok or F(float(el["objective"][k])) != obs["rows"][c]["obj"]:
                return self.F_("C07", "oracle", f"{where}: sample_elites returned (cell {c}, tok {tok}) which is not a current elite")
        return None

    def do_clear(self, where):
        self.archive.clear()
        self.drv.ask("clear")
        self.hist = {}
        self.inserted_max = None
        if self.twin is not None:
            self.twin.clear()
        post = observe(self.archive, self.case)
        if post["rows"]:
            return self.F_("C01", "oracle", f"{where}: cells still occupied after clear: {sorted(post['rows'])}")
        f = self.check_stats(post, where)
        if f:
            return f
        return self.compare_state(post, where)

    # -- whole case --------------------------------------------------------------

    def config_echo(self):
        """The archive reports the configuration it was given (the oracles then use the reported numbers): offset,
        learning rate and threshold_min as configured -- or their documented defaults 0, 1, -inf when omitted --
        cast to the objective dtype; dims, cells and ranges as passed."""
        a, case, dt = self.archive, self.case, NP[self.dt]
        want = {"qd_score_offset": dt(float(fr(case.get("off", "0")))),
                "learning_rate": dt(1.0 if case.get("lr") is None else float(fr(case["lr"]))),
                "threshold_min": dt(-np.inf if case.get("tmin") is None else float(fr(case["tmin"])))}
        for name, w in want.items():
            got = getattr(a, name)
            if not (np.asarray(got).shape == () and float(got) == float(w)):
                return self.F_any(["C06", "C05", "C02", "C01", "C07"], "oracle",
                                  f"construction: archive.{name} = {got!r}, configured"
                                  f"{'' if case.get({'qd_score_offset': 'off', 'learning_rate': 'lr', 'threshold_min': 'tmin'}[name]) is not None else ' (documented default)'} {w!r}")
        if case["kind"] in ("grid", "sb"):
            if [int(d) for d in a.dims] != list(case["dims"]) or int(a.cells) != int(np.prod(case["dims"])):
                return self.F_any(["C03", "C06", "C01", "C07", "C02", "C05"], "oracle",
                                  f"construction: dims {list(a.dims)} / cells {a.cells}, configured {case['dims']}")
        if case["kind"] == "grid":
            mdt = NP[self.mdt]
            lo = [float(mdt(float(fr(x)))) for x in case["lo"]]
            hi = [float(mdt(float(fr(x)))) for x in case["hi"]]
            if [float(x) for x in a.lower_bounds] != lo or [float(x) for x in a.upper_bounds] != hi:
                return self.F_any(["C03", "C06", "C01", "C07", "C02", "C05"], "oracle",
                                  f"construction: bounds {list(a.lower_bounds)} .. {list(a.upper_bounds)}, configured "
                                  f"ranges {lo} .. {hi}")
        return None

    def run(self):
        try:
            f = self.config_echo()
            if f is not None:
                return f
            for k, op in enumerate(self.case["ops"]):
                where = f"op#{k} {op['op']}"
                kind = op["op"]
                f = None
                if self.decoy is not None and k in (1, 4):
                    self.decoy.poke()
                if kind == "add" and self.case["kind"] == "sb":
                    # SlidingBoundariesArchive.add is documented as a loop of add_single in batch order
                    tw = copy.deepcopy(self.archive)
                    sb, vb = self.impl_add(tw, op["rows"], False)
                    ss, vs = [], []
                    for j, r in enumerate(op["rows"]):
                        pre_n = len(ss)
                        f = self.do_add([r], True, f"{where}[{j}]")
                        if f is not None:
                            break
                        del pre_n
                    if f is None and op["rows"]:
                        a, b = observe(self.archive, self.case)["rows"], observe(tw, self.case)["rows"]
                        if {c: r["tok"] for c, r in a.items()} != {c: r["tok"] for c, r in b.items()}:
                            f = self.F_("C01", "oracle", f"{where}: SlidingBoundariesArchive.add(batch) differs from "
                                        "add_single applied in batch order")
                    del sb, vb, ss, vs
                    self.bump("add-sb")
                    if f is None and self.twin is not None:
                        for r in op["rows"]:
                            self.impl_add(self.twin, [r], True)
                elif kind == "add":
                    f = self.do_add(op["rows"], False, where)
                    self.bump(f"add[{min(len(op['rows']), 9)}]")
                    if f is None and self.twin is not None:
                        for r in op["rows"]:
                            self.impl_add(self.twin, [r], True)
                elif kind == "add1":
                    f = self.do_add([op["row"]], True, where)
                    self.bump("add1")
                    if f is None and self.twin is not None:
                        self.impl_add(self.twin, [op["row"]], False)
                elif kind == "bad":
                    f = self.do_bad(op, where)
                elif kind == "ckpt":
                    self.archive = checkpoint(self.archive, op.get("how", "pickle"))
                    self.bump(f"ckpt:{op.get('how', 'pickle')}")
                elif kind == "clear":
                    f = self.do_clear(where)
                    self.bump("clear")
                elif kind == "retrieve":
                    f = self.do_retrieve(op["qs"], where, single=op.get("single", False) and len(op["qs"]) == 1)
                    self.bump("retrieve")
                elif kind == "sample":
                    f = self.do_sample(op["n"], where)
                    self.bump("sample")
                if f is not None:
                    return f
            if self.twin is not None:
                a = observe(self.archive, self.case)["rows"]
                b = observe(self.twin, self.case)["rows"]
                if {c: r["tok"] for c, r in a.items()} != {c: r["tok"] for c, r in b.items()}:
                    return self.F_("C01", "oracle",
                                   "final contents depend on how the same candidate sequence was batched: "
                                   f"as given { {c: r['tok'] for c, r in sorted(a.items())} } vs re-batched "
                                   f"(batches single-stepped, singles as batches of one) "
                                   f"{ {c: r['tok'] for c, r in sorted(b.items())} }")
            return None
        finally:
            self.close()


# ---------------------------------------------------------------------------
# generators


def dyadic(rng, lo, hi, denom):
    """Random multiple of 1/denom in [lo, hi] as an exact-rational string."""
    k = rng.randint(int(lo * denom), int(hi * denom))
    return q(F(k, denom))


def gen_geometry(rng, kinds=("grid", "cvt", "sb"), max_cells=60):
    kind = rng.choice(kinds)
    nd = rng.choice([1, 1, 2, 2, 3])
    while True:
        dims = [rng.choice([1, 2, 3, 4, 5, 8]) for _ in range(nd)]
        n = 1
        for d in dims:
            n *= d
        if n <= max_cells:
            break
    width = rng.choice([1, 2, F(1, 2)])
    lo0 = rng.choice([0, -4, 1])
    lo = [q(F(lo0)) for _ in dims]
    hi = [q(F(lo0) + width * d) for d in dims]   # cell width `width` in every dimension
    case = {"kind": kind, "dims": dims, "lo": lo, "hi": hi, "width": q(width)}
    if kind == "cvt":
        # lattice centroids at cell centres (unambiguous nearest centroid for points off the cell edges)
        import itertools
        cents = []
        for g in itertools.product(*[range(d) for d in dims]):
            cents.append([q(F(lo0) + width * (F(x) + F(1, 2))) for x in g])
        order = list(range(len(cents)))
        rng.shuffle(order)
        case["cvt"] = {"cents": [cents[i] for i in order], "kd": rng.random() < 0.5,
                       "chunk": rng.choice([None, 1, 2, 3])}
    return case


def shift_geometry(case, off):
    """Move the whole measure space by `off` in every dimension (a space far from the origin relative to its size:
    the squared norms of the centroids then dwarf their spacing)."""
    off = F(off)
    case["lo"] = [q(fr(x) + off) for x in case["lo"]]
    case["hi"] = [q(fr(x) + off) for x in case["hi"]]
    if "cvt" in case:
        case["cvt"]["cents"] = [[q(fr(x) + off) for x in c] for c in case["cvt"]["cents"]]
        case["cvt"]["kd"] = False
        case["cvt"]["chunk"] = case["cvt"]["chunk"] or 2


def gen_meas(rng, case, pool=None, boundary=False):
    """A measure vector strictly inside a cell (quarter points) or, optionally, on/outside the range."""
    if pool and rng.random() < 0.7:
        return rng.choice(pool)
    w = fr(case["width"])
    out = []
    for d, lo in zip(case["dims"], case["lo"]):
        lo = fr(lo)
        r = rng.random()
        # far outside: up to half the largest finite float of the measures' precision (two of them in one batch
        # already sum to more than the precision can hold); grids only -- for CVT that is the known finding D18
        huge = F(2)**(127 if meas_dtype(case) == "f32" else 1023) if case["kind"] == "grid" and "dtype" in case and not case.get("nohuge") else None
        if r < 0.08:
            x = lo - w * rng.choice([1, 3, 1000])                 # below the range
            if huge and rng.random() < 0.3:
                x = -huge
        elif r < 0.16:
            x = lo + w * d + w * rng.choice([0, 1, 1000]) if boundary else lo + w * d + w * rng.choice([1, 1000])
            if huge and rng.random() < 0.3:
                x = huge
        elif boundary and r < 0.3 and case["kind"] == "grid" and case["dtype"] == "f64":
            x = lo + w * rng.randrange(d)                         # exactly on a boundary (belongs to the cell above)
        else:
            x = lo + w * (rng.randrange(d) + rng.choice([F(1, 4), F(1, 2), F(3, 4)]))
        out.append(q(x))
    return out


def gen_history(rng, case, profile="mixed", nops=None):
    """Operation list for a fixed-cell archive case.

    profiles: mixed | percell (few cells, many candidates, many ties) | ties (exact ties inside
    batches and across calls) | collide (float64 values that collide after the float32 entry cast)
    | extreme (huge / tiny exactly representable magnitudes) | cma (finite tmin: objectives around
    the thresholds)
    """
    nops = nops or rng.randint(3, 22)
    tok = [0]

    def fresh():
        tok[0] += 1
        return tok[0]

    boundary = profile in ("mixed", "extreme")
    pool = [gen_meas(rng, case, boundary=boundary) for _ in range(rng.choice([1, 2, 3, 5]))] \
        if profile in ("percell", "ties", "collide", "cma", "gap", "tminedge") else \
        [gen_meas(rng, case, boundary=boundary) for _ in range(rng.choice([4, 6, 9]))] if profile == "xmag" else \
        [gen_meas(rng, case, boundary=boundary) for _ in range(rng.choice([3, 6, 12]))]

    def objective():
        if profile == "ties":
            return q(F(rng.choice([-1, 0, 1, 2]), 1))
        if profile == "collide":
            base = rng.choice([1, 2, -3])
            return q(F(base) + rng.choice([0, 0, F(1, 2**30), -F(1, 2**31), F(1, 2**40)]))
        if profile == "extreme":
            return q(rng.choice([1, -1]) * F(2)**rng.choice([-100, -20, 0, 20, 100]) * rng.choice([1, 3, 5]))
        if profile == "cma":
            return dyadic(rng, -4, 12, 8)
        if profile == "tminedge":
            # objectives at, and one rounding step around, a threshold_min that is not exactly representable: the
            # archive keeps threshold_min in its own dtype and compares objectives that were cast to the same dtype
            r = rng.random()
            if r < 0.4:
                return case["tmin"]
            if r < 0.6:
                return q(fr(case["tmin"]) + F(rng.choice([-1, 1]), 2**rng.choice([10, 26, 30, 55])))
            return dyadic(rng, -2, 4, 8)
        if profile == "xmag":
            # a few huge objectives among ordinary ones in the same batch (other cells): a cell's threshold must not
            # feel what is summed for another cell
            if rng.random() < 0.2:
                big = F(2)**(27 if case["dtype"] == "f32" else 57)
                return q(big * rng.choice([1, 3, 5]))
            return dyadic(rng, -2, 14, 8)
        if profile == "gap":
            # near-equal, distinct, exactly representable objectives (the threshold is far below them)
            base = rng.choice([1, 1, 2, 100])
            return q(F(base) + F(rng.randint(0, 3), 2**15))
        return dyadic(rng, -8, 8, rng.choice([1, 2, 8]))

    def row():
        return [fresh(), objective(), gen_meas(rng, case, pool, boundary=boundary)]

    ops = []
    for _ in range(nops):
        r = rng.random()
        if r < 0.45:
            n = rng.choice([0, 1, 2, 3, 4, 6, 9, 16] if profile != "mixed" else [0, 1, 1, 2, 3, 5, 8, 24, 64])
            rows = [row() for _ in range(n)]
            if profile == "ties" and len(rows) >= 2:
                # force an exact tie aimed at one cell inside the batch
                rows[-1][1], rows[-1][2] = rows[0][1], rows[0][2]
            ops.append({"op": "add", "rows": rows})
        elif r < 0.75:
            ops.append({"op": "add1", "row": row()})
        elif r < 0.80:
            ops.append({"op": "clear"})
        elif r < 0.93:
            qs = [gen_meas(rng, case, pool, boundary=boundary) for _ in range(rng.randint(0, 6))]
            ops.append({"op": "retrieve", "qs": qs, "single": rng.random() < 0.3})
        else:
            ops.append({"op": "sample", "n": rng.randint(1, 4)})
    return ops


def gen_case(rng, profile="mixed", kinds=("grid", "cvt", "sb"), cma=False, dtype=None, huge=True):
    case = gen_geometry(rng, kinds=kinds)
    if not huge:
        case["nohuge"] = True       # (distances to such points overflow: not what a CQD score is about)
    case["dtype"] = dtype or rng.choice(["f64", "f64", "f32"])
    if profile == "collide":
        case["dtype"] = "f32"
    case["layout"] = rng.choice(["", "s", "v", "o", "sv", "svo", "m", "om", "b", "sb", "u", "uw", "ow", "su", "t", "ot", "p", "sp"])
    case["forms"] = gen_forms(rng)
    if case["kind"] == "cvt" and profile in ("mixed", "percell") and rng.random() < 0.3:
        # chunked brute-force search far from the origin (2^26 in float64, 2^12 in float32: quarter points of the
        # cells are still exactly representable)
        shift_geometry(case, 2**26 if meas_dtype(case) == "f64" else 2**12)
    if profile == "collide" and case["forms"]["dtype"] == "dictmix":
        # float64 objectives (which must stay distinct) next to float32 measures: values that collide in float32
        # only tell the two precisions apart if nothing about the objective is kept in the measures' precision
        case["dtype"] = "f64"
    case["sol_dim"] = rng.choice([1, 2, 3])
    if rng.random() < 0.06:
        case["sol_dim"] = rng.choice([11, 12, 23])      # wide vectors: the pandas view names their columns x_0 .. x_22
    case["off"] = q(rng.choice([F(0), F(-8), F(3, 2), F(-100)]))
    if cma and case["kind"] != "sb":
        case["lr"] = q(rng.choice([F(0), F(1, 4), F(1, 2), F(3, 4), F(1), F(1, 10), F(3, 10), F(9, 10), F(1, 100)]))
        case["tmin"] = q(rng.choice([F(0), F(-4), F(2), F(-1, 2)]))
        if profile == "xmag":
            case["lr"] = q(rng.choice([F(1), F(1), F(1, 2), F(1, 4)]))
            case["tmin"] = q(rng.choice([F(0), F(-4)]))
        if profile == "tminedge":
            case["tmin"] = q(rng.choice([F(1, 10), F(3, 10), F(-7, 10), F(1, 3), F(-1, 3)]))
            case["lr"] = q(rng.choice([F(0), F(1, 2), F(1), F(1, 10)]))
        if profile == "gap":
            # a threshold_min so far below the objectives that objective - threshold rounds in the archive dtype
            case["tmin"] = q(F(-1024) if case["dtype"] == "f32" else rng.choice([F(-2**60), F(-2**54)]))
            case["lr"] = q(rng.choice([F(0), F(1, 2**20), F(1, 4), F(1), F(1)]))
    elif case["kind"] != "sb" and rng.random() < 0.3:
        case["lr"] = "1"          # explicit learning_rate=1 with threshold_min=-inf is the elitist setting too
    case["ops"] = gen_history(rng, case, profile)
    tok = [2 * 10**6]

    def rows_fn():
        tok[0] += 1
        return [tok[0], dyadic(rng, -8, 8, 2), gen_meas(rng, case)]
    sprinkle(rng, case, rows_fn)
    return case


def nontrivial_c01(case):
    """some cell receives >= 2 candidates since a clear (so a tie or a loss is decided)"""
    seen = set()
    for op in case["ops"]:
        rows = op.get("rows") or ([op["row"]] if op["op"] == "add1" else [])
        for r in rows:
            key = tuple(r[2])
            if key in seen:
                return True
            seen.add(key)
        if op["op"] == "clear":
            seen = set()
    return False


def guarded(run, props):
    """run.run(), with an exception escaping from the library on a valid history reported as a failing input."""
    from core import library_failure
    try:
        return run.run()
    except Exception as e:      # noqa: BLE001
        if "C11" in props and not getattr(run, "after_bad", None):
            f = None            # C11 only speaks about what follows a rejected call
        else:
            f = library_failure(e, props, "a valid call of the history")
            if f is None and isinstance(e, (ValueError, OverflowError)) and "to integer ratio" in str(e):
                # the harness converts every number the library reports to an exact rational: NaN / inf in add
                # feedback, statistics or stored data on a history of finite inputs is a failing input
                import traceback
                from core import Failure
                fr_ = traceback.extract_tb(e.__traceback__)[-2]
                label = sorted(props)[0] if len(props) == 1 else "/".join(sorted(props))
                f = Failure("oracle", f"[{label}] the library reported a non-finite number (NaN / inf) on a history of "
                            f"finite inputs ({fr_.name}: {(fr_.line or '')[:120]})")
            if f is not None and "C11" in props:
                f.what = (f"[C11] after a rejected call ({run.after_bad}) the remaining valid history no longer behaves "
                          f"as if that call had never happened: {f.what}")
        try:
            run.drv.close()
        except Exception:       # noqa: BLE001
            pass
        if f is None:
            raise
        return f


def run_case(case, props, exact_thr=False):
    run = Run(case, props, exact_thr=exact_thr)
    return guarded(run, props)



# ------------------------------------------------------------------------------------- hooks (oracle only)
# A user subclass that overrides the documented routing hook `index_of` (here: the mirror image of the measure space,
# which maps it onto itself).  Every entry point must route through the hook -- add, add_single, retrieve,
# retrieve_single, index_of_single -- so the subclass behaves exactly like the stock archive fed with mirrored measures.

def gen_hooks(rng):
    kind = rng.choice(["grid", "grid", "cvt"])
    nd = rng.choice([1, 2, 3])
    return {"kind": "hooks", "arch": kind, "nd": nd, "dims": [rng.choice([2, 3, 5, 7]) for _ in range(nd)],
            "lo": [rng.choice([-1.0, 0.0, -3.5]) for _ in range(nd)], "w": [rng.choice([1.0, 2.0, 7.0]) for _ in range(nd)],
            "dtype": rng.choice(["f64", "f64", "f32"]), "mae": rng.random() < 0.4, "seed": rng.randrange(10**6),
            "ops": [{"op": rng.choice(["add", "add1", "add1", "query"]), "n": rng.randint(1, 6)} for _ in range(rng.randint(4, 12))]}


def run_hooks(case, props):
    from ribs.archives import CVTArchive, GridArchive
    label = sorted(props)[0]
    r = np.random.default_rng(case["seed"])
    npdt = NP[case["dtype"]]
    nd = case["nd"]
    lo = np.array(case["lo"])
    hi = lo + np.array(case["w"])
    ranges = list(zip(lo.tolist(), hi.tolist()))
    kw = dict(learning_rate=0.5, threshold_min=-2.0) if case["mae"] else {}
    if case["arch"] == "grid":
        base_cls, ckw = GridArchive, dict(dims=case["dims"], ranges=ranges)
    else:
        cents = r.uniform(lo, hi, size=(12, nd))
        base_cls, ckw = CVTArchive, dict(cells=12, ranges=ranges, custom_centroids=cents)

    def mirror(m):
        return (lo + hi) - np.asarray(m, dtype=np.float64)

    class Mirrored(base_cls):
        """routes a solution by the mirror image of its measures (the documented hook for child classes)"""

        def index_of(self, measures):
            return super().index_of(mirror(measures))

    a = Mirrored(solution_dim=2, dtype=npdt, **ckw, **kw)
    b = base_cls(solution_dim=2, dtype=npdt, **ckw, **kw)

    def bad(what):
        return Failure("oracle", f"[{label}] a subclass of {base_cls.__name__} ({case['dtype']}) overriding index_of "
                       f"(mirrored measure space): {what}")

    def grid_vals(n):
        # quarter points of the cells of every dimension (never on an edge), exactly representable
        return np.stack([lo[k] + (r.integers(0, 4 * 7, size=n) * 2 + 1) * (hi[k] - lo[k]) / 56 for k in range(nd)], axis=1)
    tok = 0
    for k, op in enumerate(case["ops"]):
        n = op["n"]
        meas = grid_vals(n)
        if op["op"] == "query":
            ia, ib = a.index_of(meas), b.index_of(mirror(meas))
            if not np.array_equal(ia, ib):
                return bad(f"op#{k}: index_of {ia.tolist()} is not the cell of the mirrored measures {ib.tolist()}")
            for m, want in zip(meas, ia):
                got = a.index_of_single(m)
                if int(got) != int(want):
                    return bad(f"op#{k}: index_of_single({m.tolist()}) = {int(got)} but index_of gives {int(want)} "
                               f"(index_of_single does not go through the overridden index_of)")
            continue
        sol = np.stack([np.arange(tok, tok + n, dtype=np.float64), -np.arange(tok, tok + n, dtype=np.float64)], axis=1)
        tok += n
        obj = r.integers(-8, 9, size=n).astype(np.float64) / 2
        if op["op"] == "add":
            fa, fb = a.add(sol, obj, meas), b.add(sol, obj, mirror(meas))
            fa = [(int(s), float(v)) for s, v in zip(fa["status"], fa["value"])]
            fb = [(int(s), float(v)) for s, v in zip(fb["status"], fb["value"])]
        else:
            fa, fb = [], []
            for j in range(n):
                x, y = a.add_single(sol[j], obj[j], meas[j]), b.add_single(sol[j], obj[j], mirror(meas[j]))
                fa.append((int(x["status"]), float(x["value"])))
                fb.append((int(y["status"]), float(y["value"])))
        if fa != fb:
            return bad(f"op#{k} {op['op']}: feedback {fa} but judged against the cell the hook routes to it is {fb}")
        da, db = a.data(), b.data()
        oa, ob = np.argsort(da["index"]), np.argsort(db["index"])
        for f in ("index", "objective", "threshold", "solution"):
            if not np.array_equal(da[f][oa], db[f][ob]):
                return bad(f"op#{k} {op['op']}: stored {f} {da[f][oa].tolist()} differ from those of the stock archive fed "
                           f"with the mirrored measures {db[f][ob].tolist()}")
        # every stored elite is found through its own measures, singly and in batch
        occ, got = a.retrieve(da["measures"])
        if not np.all(occ) or not np.array_equal(got["index"], da["index"]):
            return bad(f"op#{k}: retrieve on the stored measures finds cells {got['index'].tolist()} (occupied "
                       f"{occ.tolist()}), stored in {da['index'].tolist()}")
        for m, idx, sl in zip(da["measures"], da["index"], da["solution"]):
            o1, e1 = a.retrieve_single(m)
            if not o1 or int(e1["index"]) != int(idx) or not np.array_equal(e1["solution"], sl):
                return bad(f"op#{k}: the elite stored in cell {int(idx)} with measures {m.tolist()} is not found by "
                           f"retrieve_single on its own measures (occupied={bool(o1)}, index={int(e1['index'])})")
    return None

# ---------------------------------------------------------------------------------------------------- scale (oracle only)

def gen_scale(rng):
    """Archives of 10^5 .. 10^6 cells (flat indices beyond 65536 and 2^17) with batches that put several hundred
    candidates into several hundred distinct cells in ONE add (more than any block / fast-path threshold of a few
    hundred), a clear in between, CMA-MAE or elitist: the rules are judged per cell, directly on the specification."""
    side = rng.choice([300, 400, 1000])
    return {"kind": "scale", "side": side, "n": rng.choice([900, 2000, 3000]), "dtype": rng.choice(["f64", "f64", "f32"]),
            "mae": rng.random() < 0.75, "seed": rng.randrange(10**6), "high": rng.random() < 0.7,
            "ops": [{"op": "add"}, {"op": "add"}, {"op": "clear"}, {"op": "add"}]}


def run_scale(case, props):
    """C05: thresholds; C02: status / value against the pre-call archive; C06: statistics against data(); C01-style winner."""
    from ribs.archives import GridArchive
    side, n = case["side"], case["n"]
    r = np.random.default_rng(case["seed"])
    npdt = NP[case["dtype"]]
    tol = 1e-9 if case["dtype"] == "f64" else 2e-4
    lr, tmin = (0.5, 0.0) if case["mae"] else (1.0, -np.inf)
    kw = dict(learning_rate=0.5, threshold_min=0.0) if case["mae"] else {}
    a = GridArchive(solution_dim=1, dims=[side, side], ranges=[(0, side), (0, side)], dtype=npdt, **kw)

    def fail(prop, what):
        lab = next((p for p in (prop, "C05", "C02", "C06", "C01") if p in props), None)
        return Failure("oracle", f"[{lab}] {side}x{side} {case['dtype']} {'CMA-MAE (a=1/2, threshold_min=0)' if case['mae'] else 'elitist'} "
                       f"archive, one add of {n} candidates: {what}") if lab else None

    thr, elite = {}, {}          # cell -> threshold, cell -> (objective, token)
    tok = 0
    for op in case["ops"]:
        if op["op"] == "clear":
            a.clear()
            thr, elite = {}, {}
        else:
            ncell = max(300, n // 3)
            rows = r.integers(side * 4 // 5 if case["high"] else 0, side, size=ncell)
            cols = r.integers(0, side, size=ncell)
            pick = r.integers(0, ncell, size=n)
            obj = r.integers(-8, 160, size=n).astype(np.float64) / 4.0          # dyadic, many exact ties
            meas = np.stack([rows[pick] + 0.5, cols[pick] + 0.5], axis=1)
            sol = (np.arange(n, dtype=np.float64) + tok)[:, None]
            info = a.add(sol, obj, meas)
            cells = rows[pick].astype(np.int64) * side + cols[pick]
            status, value = np.asarray(info["status"]), np.asarray(info["value"], dtype=np.float64)
            by = {}
            for k in range(n):
                by.setdefault(int(cells[k]), []).append(k)
            for c, ks in by.items():
                t0 = thr.get(c)
                pre = tmin if t0 is None else t0
                base = (0.0 if not case["mae"] else tmin) if t0 is None else t0
                acc = [k for k in ks if obj[k] > pre]
                for k in ks:
                    want_s = 0 if obj[k] <= pre else (2 if t0 is None else 1)
                    if int(status[k]) != want_s or abs(value[k] - (obj[k] - base)) > tol * max(1.0, abs(obj[k]) + abs(base)):
                        return fail("C02", f"candidate {tok + k} (objective {obj[k]}, cell {c}, prior threshold "
                                    f"{'none' if t0 is None else t0}): status {int(status[k])} value {value[k]}, expected "
                                    f"{want_s} and {obj[k] - base}")
                if acc:
                    kk = len(acc)
                    m = float(np.mean(obj[acc]))
                    w = (1 - lr)**kk
                    thr[c] = max(obj[acc]) if not case["mae"] else w * pre + (1 - w) * m
                    kbest = max(acc, key=lambda k: (obj[k], -k))
                    if not case["mae"]:
                        cur = elite.get(c)
                        if cur is None or obj[kbest] > cur[0]:
                            elite[c] = (float(obj[kbest]), tok + kbest)
                    else:
                        elite[c] = (float(obj[kbest]), tok + kbest)
            tok += n
        d = a.data()
        got = {int(i): (float(o), int(s[0]), float(t)) for i, o, s, t in zip(d["index"], d["objective"], d["solution"], d["threshold"])}
        if set(got) != set(elite):
            return fail("C05", f"occupied cells differ from the cells that accepted a candidate ({len(got)} vs {len(elite)})")
        for c, (o, t_, th) in got.items():
            if (o, t_) != elite[c]:
                return fail("C05", f"cell {c} holds candidate {t_} (objective {o}) but the highest-objective accepted candidate, "
                            f"earliest first on ties, is {elite[c][1]} (objective {elite[c][0]})")
            if abs(th - thr[c]) > tol * max(1.0, abs(thr[c])):
                return fail("C05", f"cell {c} threshold {th} ≠ (1-a)^k t + (1-(1-a)^k) m = {thr[c]}")
        st = a.stats
        objs = np.array([v[0] for v in got.values()], dtype=np.float64)
        nel = len(got)
        want = {"num_elites": nel, "coverage": nel / side**2, "qd_score": float(objs.sum()) if nel else 0.0,
                "obj_mean": float(objs.mean()) if nel else None}
        for name, w in want.items():
            g = getattr(st, name)
            if (w is None) != (g is None) or (w is not None and abs(float(g) - w) > max(tol, 1e-6 if case["dtype"] == "f32" else 0) * max(1.0, abs(w)) * max(1, nel if name == "qd_score" and case["dtype"] == "f32" else 1)):
                return fail("C06", f"stats.{name} = {g} but the {nel} stored elites give {w}")
        if len(a) != nel or (nel == 0) != bool(a.empty):
            return fail("C06", f"len {len(a)} / empty {a.empty} with {nel} stored elites")
    return None
