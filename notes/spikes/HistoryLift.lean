import Proof
/-! spike: lift the per-cell theorem to whole archives and whole histories -/
abbrev Cells := Nat → Option Cand

def addBatchF (s : Cells) (cs : List Cand) : Cells :=
  fun c => batch (s c) (cs.filter (fun x => x.cell = c))

inductive Op
  | add (cs : List Cand)
  | clear

def stepF (s : Cells) : Op → Cells
  | .add cs => addBatchF s cs
  | .clear => fun _ => none

def runF (ops : List Op) : Cells := ops.foldl stepF (fun _ => none)

/-- candidates routed to cell `c` since the last clear, in submission order -/
def routedStep (c : Nat) (acc : List Cand) : Op → List Cand
  | .add cs => acc ++ cs.filter (fun x => x.cell = c)
  | .clear => []
def routed (ops : List Op) (c : Nat) : List Cand := ops.foldl (routedStep c) []

theorem bestOf_append (inc : Option Cand) (a b : List Cand) :
    bestOf inc (a ++ b) = bestOf (bestOf inc a) b := by
  simp [bestOf, List.foldl_append]

theorem run_inv (ops : List Op) (s : Cells) (acc : Nat → List Cand)
    (h : ∀ c, s c = bestOf none (acc c)) :
    ∀ c, ops.foldl stepF s c = bestOf none (ops.foldl (routedStep c) (acc c)) := by
  induction ops generalizing s acc with
  | nil => simpa using h
  | cons op ops ih =>
    intro c
    simp only [List.foldl_cons]
    cases op with
    | add cs =>
      exact ih (addBatchF s cs) (fun c => acc c ++ cs.filter (fun x => x.cell = c))
        (by intro c'; simp only [addBatchF, batch_eq_bestOf, h c', ← bestOf_append]) c
    | clear =>
      exact ih (fun _ => none) (fun _ => []) (by intro c'; simp [bestOf]) c

/-- T01.1: every cell holds the best candidate routed to it since the last clear, earliest first on ties -/
theorem contents_spec (ops : List Op) (c : Nat) : runF ops c = bestOf none (routed ops c) := by
  simpa [runF, routed] using run_inv ops (fun _ => none) (fun _ => []) (by intro c; simp [bestOf]) c

/-- T01.6: batching invariance -/
theorem batching_invariance (ops ops' : List Op) (h : ∀ c, routed ops c = routed ops' c) :
    runF ops = runF ops' := by
  funext c; rw [contents_spec, contents_spec, h]

/-- T01.2 occupied iff something was routed -/
theorem bestOf_none_isSome (cs : List Cand) : (bestOf none cs).isSome ↔ cs ≠ [] := by
  cases cs with
  | nil => simp [bestOf]
  | cons c cs =>
    have := bestOf_some_eq c cs
    simp only [bestOf, List.foldl_cons, better] at this ⊢
    simp [this]

example : runF [.add [⟨0, 1, 10⟩, ⟨0, 1, 11⟩, ⟨1, 5, 12⟩], .add [⟨0, 1, 13⟩], .clear, .add [⟨1, 2, 14⟩]] 1
    = some ⟨1, 2, 14⟩ := by decide
#print axioms contents_spec
