import PyribsGen.RngSites
import PyribsGen.Formulas
import PyribsGen.Control
