import PyribsModel.Bandit
import PyribsProofs.C04
/-!
# C16 — BanditScheduler keeps num_active emitters and selects them by UCB1

Theorems about `PyribsModel.Bandit` (the model of `_bandit_scheduler.py`), for
every pool size ≥ num_active, both reselect modes, both add modes, every
assignment of restart counters (present or not, moving arbitrarily), all batch
sizes, every score assignment and every history of calls.

* T16.1 `num_active_invariant`, `num_active_run`, `ask_never_index_error`
* T16.2 `asks_only_active`, `tells_only_active`, `tell_slices`, `tell_ok`
* T16.3 `counts_exact`
* T16.4 `selection_order`, `never_selected_first`, `activateTop_admissible`, `model_choice_accepted`
* T16.5 `terminated_keeps`, `all_resets`
* `protocol`
-/
namespace Pyribs.C16
open Pyribs Bandit
open Pyribs.Scheduler (Sol gen slice)

/-- "pool member `k` exists and is active" -/
def activeAt (p : List Em) (k : Nat) : Bool :=
  match p[k]? with
  | some em => em.active
  | none => false

/-! ## stage lemmas: lengths and the active flags -/

theorem markFrom_length (cfg : Cfg) (env : AskEnv) (i : Nat) (p : List Em) :
    (markFrom cfg env i p).length = p.length := by
  induction p generalizing i with
  | nil => rfl
  | cons em ems ih => simp [markFrom, ih]

theorem markFrom_active (cfg : Cfg) (env : AskEnv) (i : Nat) (p : List Em) :
    (markFrom cfg env i p).map (·.1.active) = p.map (·.active) := by
  induction p generalizing i with
  | nil => rfl
  | cons em ems ih => cases h : cfg.resel <;> simp [markFrom, h, ih]

theorem countActive_cons (em : Em) (p : List Em) :
    countActive (em :: p) = countActive p + if em.active then 1 else 0 := by
  simp [countActive, List.countP_cons]

theorem countActive_le (p : List Em) : countActive p ≤ p.length := List.countP_le_length

theorem countActive_congr (p q : List Em) (h : p.map (·.active) = q.map (·.active)) :
    countActive p = countActive q := by
  induction p generalizing q with
  | nil => cases q <;> simp_all [countActive]
  | cons a p ih =>
    cases q with
    | nil => simp at h
    | cons b q =>
      simp only [List.map_cons, List.cons.injEq] at h
      simp [countActive_cons, ih q h.2, h.1]

/-- T16.1 (step 2): the fill loop succeeds when enough emitters are inactive … -/
theorem fill_isSome (k : Nat) (l : List (Em × Bool))
    (h : k + countActive (l.map (·.1)) ≤ l.length) : (fill k l).isSome = true := by
  induction l generalizing k with
  | nil => cases k <;> simp_all [fill, countActive]
  | cons x l ih =>
    cases k with
    | zero => simp [fill]
    | succ k =>
      obtain ⟨em, m⟩ := x
      simp only [fill, Option.isSome_map]
      simp only [List.map_cons, countActive_cons, List.length_cons] at h
      by_cases ha : em.active = true
      · simp only [ha, if_true] at h ⊢; exact ih _ (by omega)
      · simp only [ha] at h ⊢; exact ih _ (by simp at h ⊢; omega)

/-- … keeps the length, and activates exactly `k` more -/
theorem fill_count (k : Nat) (l l' : List (Em × Bool)) (h : fill k l = some l') :
    l'.length = l.length ∧ countActive (l'.map (·.1)) = countActive (l.map (·.1)) + k := by
  induction l generalizing k l' with
  | nil =>
    cases k with
    | zero => simp [fill] at h; subst h; simp
    | succ k => simp [fill] at h
  | cons x l ih =>
    cases k with
    | zero => simp [fill] at h; subst h; simp
    | succ k =>
      obtain ⟨em, m⟩ := x
      simp only [fill, Option.map_eq_some_iff] at h
      obtain ⟨t, ht, rfl⟩ := h
      have := ih _ _ ht
      simp only [List.length_cons, List.map_cons, countActive_cons, this.1, this.2, true_and]
      by_cases ha : em.active = true <;> simp [ha] <;> omega

theorem deactivate_length (l : List (Em × Bool)) : (deactivate l).length = l.length := by
  simp [deactivate]

theorem deactivate_count_le (l : List (Em × Bool)) :
    countActive (deactivate l) ≤ countActive (l.map (·.1)) := by
  induction l with
  | nil => simp [deactivate]
  | cons x l ih =>
    simp only [deactivate, List.map_cons, countActive_cons] at ih ⊢
    cases x.1.active <;> cases x.2 <;> simp <;> omega

theorem deactivate_noMask (l : List (Em × Bool)) (h : l.any (·.2) = false) :
    deactivate l = l.map (·.1) := by
  induction l with
  | nil => rfl
  | cons x l ih =>
    simp only [List.any_cons, Bool.or_eq_false_iff] at h
    simp only [deactivate, List.map_cons, List.cons.injEq] at ih ⊢
    refine ⟨?_, ih h.2⟩
    obtain ⟨em, m⟩ := x
    simp only at h
    cases em; simp [h.1]

/-- T16.1: `ask` never runs off the pool when `pool ≥ num_active` (the constructor's check) -/
theorem ask_never_index_error (cfg : Cfg) (env : AskEnv) (pool : List Em)
    (h : cfg.numActive ≤ pool.length) : (prepare cfg env pool).isSome = true := by
  simp only [prepare, Option.isSome_map]
  apply fill_isSome
  have hc : countActive ((markFrom cfg env 0 pool).map (·.1)) = countActive pool :=
    countActive_congr _ _ (by simpa [List.map_map, Function.comp_def] using markFrom_active cfg env 0 pool)
  have := countActive_le pool
  rw [hc, markFrom_length]; omega

/-- the pool after steps 1–3: same length; at most `num_active` active when at most that many were
    active before; exactly `num_active` when nothing is to be reselected -/
theorem prepare_count (cfg : Cfg) (env : AskEnv) (pool kept : List Em) (maskAny : Bool)
    (h : prepare cfg env pool = some (kept, maskAny)) (hc : countActive pool ≤ cfg.numActive) :
    kept.length = pool.length ∧ countActive kept ≤ cfg.numActive ∧
      (maskAny = false → countActive kept = cfg.numActive) := by
  simp only [prepare, Option.map_eq_some_iff, Prod.mk.injEq] at h
  obtain ⟨l, hl, rfl, rfl⟩ := h
  have hf := fill_count _ _ _ hl
  have hm : countActive ((markFrom cfg env 0 pool).map (·.1)) = countActive pool :=
    countActive_congr _ _ (by simpa [List.map_map, Function.comp_def] using markFrom_active cfg env 0 pool)
  rw [hm, markFrom_length] at hf
  have hd := deactivate_count_le l
  refine ⟨by rw [deactivate_length, hf.1], by omega, ?_⟩
  intro hno
  rw [deactivate_noMask l hno, hf.2]; omega

/-! ## the admissibility check -/

theorem diffFrom_count (i : Nat) (kept : List Em) (a : List Bool) (nw lf : List Nat)
    (h : diffFrom i kept a = some (nw, lf)) :
    a.length = kept.length ∧ a.countP id = countActive kept + nw.length ∧
      kept.length = countActive kept + nw.length + lf.length := by
  induction kept generalizing i a nw lf with
  | nil => cases a <;> simp_all [diffFrom, countActive]
  | cons em ems ih =>
    cases a with
    | nil => simp [diffFrom] at h
    | cons b bs =>
      simp only [diffFrom] at h
      cases hd : diffFrom (i + 1) ems bs with
      | none => simp [hd] at h
      | some r =>
        obtain ⟨nw1, lf1⟩ := r
        have := ih _ _ _ _ hd
        simp only [hd] at h
        simp only [List.length_cons, List.countP_cons, countActive_cons, id]
        by_cases ha : em.active = true <;> by_cases hb : b = true <;> simp [ha, hb] at h ⊢
        all_goals (try obtain ⟨rfl, rfl⟩ := h) <;> simp_all <;> omega

theorem setActive_active (p : List Em) (a : List Bool) (h : a.length = p.length) :
    (setActive p a).map (·.active) = a := by
  induction p generalizing a with
  | nil => cases a <;> simp_all [setActive]
  | cons em ems ih =>
    cases a with
    | nil => simp at h
    | cons b bs => simp only [setActive, List.zipWith_cons_cons, List.map_cons] at ih ⊢; simp [ih bs (by simpa using h)]

theorem setActive_length (p : List Em) (a : List Bool) (h : a.length = p.length) :
    (setActive p a).length = p.length := by simp [setActive, h]

theorem countActive_setActive (p : List Em) (a : List Bool) (h : a.length = p.length) :
    countActive (setActive p a) = a.countP id := by
  have := setActive_active p a h
  have h2 : countActive (setActive p a) = ((setActive p a).map (·.active)).countP id := by
    simp [countActive, List.countP_map, Function.comp_def]
  rw [h2, this]

theorem askLoop_length (batch : Nat → Nat) (i : Nat) (p : List Em) :
    (askLoop batch i p).1.length = p.length := by
  induction p generalizing i with
  | nil => rfl
  | cons em ems ih => simp only [askLoop]; split <;> simp [ih]

theorem askLoop_active (batch : Nat → Nat) (i : Nat) (p : List Em) :
    (askLoop batch i p).1.map (·.active) = p.map (·.active) := by
  induction p generalizing i with
  | nil => rfl
  | cons em ems ih => simp only [askLoop]; split <;> simp [ih]

/-- unfolding of an accepted ask -/
theorem doAsk_asked (cfg : Cfg) (s : St) (env : AskEnv) (sols : List Sol)
    (h : (doAsk cfg s env).2 = .asked sols) :
    ∃ kept maskAny chosen nw lf,
      s.phase ≠ .ask ∧
      prepare cfg env s.pool = some (kept, maskAny) ∧
      chosen = chosenOf env (need cfg kept maskAny) kept ∧
      diffFrom 0 kept chosen = some (nw, lf) ∧
      nw.length = min (need cfg kept maskAny) (nw.length + lf.length) ∧
      (∀ c ∈ nw, ∀ j ∈ lf, (env.score c).ge (env.score j) = true) ∧
      (doAsk cfg s env).1 =
        { phase := .ask, pool := (askLoop env.batch 0 (setActive kept chosen)).1,
          cur := (askLoop env.batch 0 (setActive kept chosen)).2.1.flatten,
          trace := s.trace ++ (askLoop env.batch 0 (setActive kept chosen)).2.2 } ∧
      sols = (askLoop env.batch 0 (setActive kept chosen)).2.1.flatten := by
  unfold doAsk at h ⊢
  by_cases hp : s.phase = .ask
  · simp [hp] at h
  · simp only [hp, if_false] at h ⊢
    cases hprep : prepare cfg env s.pool with
    | none => simp [hprep] at h
    | some r =>
      obtain ⟨kept, maskAny⟩ := r
      simp only [hprep] at h ⊢
      generalize hch : chosenOf env (need cfg kept maskAny) kept = chosen at h ⊢
      by_cases hj : judge env.score (need cfg kept maskAny) kept chosen = true
      · simp only [hj, if_true] at h ⊢
        unfold judge at hj
        cases hd : diffFrom 0 kept chosen with
        | none => simp [hd] at hj
        | some r =>
          obtain ⟨nw, lf⟩ := r
          simp only [hd, Bool.and_eq_true, beq_iff_eq, List.all_eq_true] at hj
          refine ⟨kept, maskAny, chosen, nw, lf, hp, rfl, hch.symm, hd, hj.1, hj.2, rfl, ?_⟩
          simpa using h.symm
      · simp [hj] at h

/-- T16.1 `num_active_invariant`: whenever at most `num_active` emitters are active (initially: none)
    and the pool has at least `num_active` members, an accepted `ask` leaves exactly `num_active`
    active emitters and keeps the pool size. -/
theorem num_active_invariant (cfg : Cfg) (s : St) (env : AskEnv) (sols : List Sol)
    (hpool : cfg.numActive ≤ s.pool.length) (hc : countActive s.pool ≤ cfg.numActive)
    (h : (doAsk cfg s env).2 = .asked sols) :
    countActive (doAsk cfg s env).1.pool = cfg.numActive ∧
      (doAsk cfg s env).1.pool.length = s.pool.length := by
  obtain ⟨kept, maskAny, chosen, nw, lf, _, hprep, _, hd, hn, _, hs, _⟩ := doAsk_asked cfg s env sols h
  have hk := prepare_count cfg env s.pool kept maskAny hprep hc
  have hdc := diffFrom_count 0 kept chosen nw lf hd
  rw [hs]
  simp only
  rw [countActive_congr _ _ (askLoop_active env.batch 0 _), askLoop_length,
    countActive_setActive _ _ hdc.1, setActive_length _ _ hdc.1, hk.1, hdc.2.1]
  refine ⟨?_, rfl⟩
  cases hm : maskAny with
  | false =>
    have := hk.2.2 hm
    simp only [need, hm, Bool.false_eq_true, if_false, Nat.zero_min] at hn
    omega
  | true =>
    simp only [need, hm, if_true] at hn
    have := hk.1
    omega

/-! ## protocol -/

/-- the dispatch loop can only fail with `type` (`_num_emitted[i]` is None) -/
theorem tellLoop_error_type (st : Nat → Nat) (cur : List Sol) (i pos : Nat) (p : List Em) (e : Err)
    (h : tellLoop st cur i pos p = .error e) : e = .type := by
  induction p generalizing i pos with
  | nil => simp [tellLoop] at h
  | cons em ems ih =>
    simp only [tellLoop] at h
    by_cases ha : em.active = true
    · simp only [ha, if_true] at h
      cases hn : em.emitted with
      | none => simp only [hn] at h; injection h with h; exact h.symm
      | some n =>
        simp only [hn] at h
        cases hr : tellLoop st cur (i + 1) (pos + n) ems with
        | error e' => simp only [hr] at h; injection h with h; subst h; exact ih _ _ hr
        | ok r => simp [hr] at h
    · simp only [ha] at h
      cases hr : tellLoop st cur (i + 1) pos ems with
      | error e' => simp only [hr] at h; injection h with h; subst h; exact ih _ _ hr
      | ok r => simp [hr] at h

/-- a call raises RuntimeError exactly when it is an `ask` right after an `ask`, or a `tell` that
    does not follow an `ask`; `ask_dqd` / `tell_dqd` raise NotImplementedError -/
theorem protocol (cfg : Cfg) (s : St) (op : Op) :
    ((step cfg s op).2 = .error .runtime ↔
      ((∃ env, op = .ask env) ∧ s.phase = .ask) ∨ ((∃ st, op = .tell st) ∧ s.phase ≠ .ask)) ∧
    ((step cfg s op).2 = .error .notImplemented ↔ (op = .askDqd ∨ op = .tellDqd)) := by
  cases op with
  | ask env =>
    simp only [step, doAsk]
    by_cases hp : s.phase = .ask
    · simp [hp]
    · simp only [hp, if_false]
      cases prepare cfg env s.pool with
      | none => simp
      | some r => obtain ⟨kept, m⟩ := r; simp only; split <;> simp
  | tell st =>
    simp only [step, doTell]
    by_cases hp : s.phase = .ask
    · simp only [hp, ne_eq, not_true_eq_false, if_false]
      cases h : tellLoop st s.cur 0 0 s.pool with
      | error e =>
        have := tellLoop_error_type _ _ _ _ _ _ h
        subst this
        simp
      | ok r => simp
    · simp [hp]
  | askDqd => simp [step]
  | tellDqd => simp [step]

/-- every rejected call — and an activation the check refuses — leaves the whole state unchanged -/
theorem rejected_unchanged (cfg : Cfg) (s : St) (op : Op)
    (h : (∃ e, (step cfg s op).2 = .error e) ∨ (step cfg s op).2 = .inadmissible) :
    (step cfg s op).1 = s := by
  cases op with
  | ask env =>
    simp only [step, doAsk] at h ⊢
    by_cases hp : s.phase = .ask
    · simp [hp]
    · simp only [hp, if_false] at h ⊢
      cases hprep : prepare cfg env s.pool with
      | none => rfl
      | some r =>
        obtain ⟨kept, m⟩ := r
        simp only [hprep] at h ⊢
        by_cases hj : judge env.score (need cfg kept m) kept (chosenOf env (need cfg kept m) kept) = true
        · simp [hj] at h
        · simp [hj]
  | tell st =>
    simp only [step, doTell] at h ⊢
    by_cases hp : s.phase = .ask
    · simp only [hp, ne_eq, not_true_eq_false, if_false] at h ⊢
      cases hl : tellLoop st s.cur 0 0 s.pool with
      | error e => rfl
      | ok r => simp [hl] at h
    · simp [hp]
  | askDqd => rfl
  | tellDqd => rfl

/-! ## T16.2 only the active emitters are asked and told; slices over the active set -/

/-- spec: one `ask` per active pool member, in pool order (members numbered from `i`) -/
def askSpecFrom (batch : Nat → Nat) : Nat → List Em → List Event
  | _, [] => []
  | i, em :: ems =>
    if em.active then .ask i (batch i) :: askSpecFrom batch (i + 1) ems
    else askSpecFrom batch (i + 1) ems

/-- what the active pool members generated in the current batch, in pool order -/
def gensFrom : Nat → List Em → List (List Sol)
  | _, [] => []
  | i, em :: ems =>
    if em.active then gen i (em.emitted.getD 0) :: gensFrom (i + 1) ems else gensFrom (i + 1) ems

/-- every active pool member has a recorded batch size -/
def AllEmitted (p : List Em) : Prop := ∀ em ∈ p, em.active = true → em.emitted ≠ none

theorem askLoop_spec (batch : Nat → Nat) (i : Nat) (p : List Em) :
    (askLoop batch i p).2.2 = askSpecFrom batch i (askLoop batch i p).1 ∧
    (askLoop batch i p).2.1 = gensFrom i (askLoop batch i p).1 ∧
    AllEmitted (askLoop batch i p).1 := by
  induction p generalizing i with
  | nil => simp [askLoop, askSpecFrom, gensFrom, AllEmitted]
  | cons em ems ih =>
    obtain ⟨h1, h2, h3⟩ := ih (i + 1)
    simp only [askLoop]
    cases ha : em.active with
    | true =>
      simp only [if_true, askSpecFrom, gensFrom, Option.getD_some]
      refine ⟨by rw [← h1], by rw [← h2], ?_⟩
      intro x hx hax
      simp only [List.mem_cons] at hx
      rcases hx with rfl | hx
      · simp
      · exact h3 x hx hax
    | false =>
      simp only [Bool.false_eq_true, if_false, askSpecFrom, gensFrom, ha]
      refine ⟨h1, h2, ?_⟩
      intro x hx hax
      simp only [List.mem_cons] at hx
      rcases hx with rfl | hx
      · rw [ha] at hax; cases hax
      · exact h3 x hx hax

theorem askSpecFrom_length (batch : Nat → Nat) (i : Nat) (p : List Em) :
    (askSpecFrom batch i p).length = countActive p := by
  induction p generalizing i with
  | nil => rfl
  | cons em ems ih =>
    simp only [askSpecFrom, countActive_cons]
    by_cases ha : em.active = true <;> simp [ha, ih]

theorem activeAt_cons_succ (em : Em) (ems : List Em) (k : Nat) :
    activeAt (em :: ems) (k + 1) = activeAt ems k := by simp [activeAt]

/-- an `ask` event is in the spec exactly for the active members, with the size they generated -/
theorem mem_askSpecFrom (batch : Nat → Nat) (i : Nat) (p : List Em) (e n : Nat) :
    Event.ask e n ∈ askSpecFrom batch i p ↔ ∃ k, e = i + k ∧ activeAt p k = true ∧ n = batch e := by
  induction p generalizing i with
  | nil => simp [askSpecFrom, activeAt]
  | cons em ems ih =>
    have step : (∃ k, e = i + 1 + k ∧ activeAt ems k = true ∧ n = batch e) ↔
        (∃ k, e = i + (k + 1) ∧ activeAt (em :: ems) (k + 1) = true ∧ n = batch e) := by
      constructor <;> (rintro ⟨k, h1, h2, h3⟩; exact ⟨k, by omega, by simpa [activeAt_cons_succ] using h2, h3⟩)
    simp only [askSpecFrom]
    cases ha : em.active with
    | true =>
      simp only [if_true, List.mem_cons, Event.ask.injEq, ih, step]
      constructor
      · rintro (⟨rfl, rfl⟩ | ⟨k, h⟩)
        · exact ⟨0, rfl, by simp [activeAt, ha], rfl⟩
        · exact ⟨k + 1, h⟩
      · rintro ⟨k, h1, h2, h3⟩
        cases k with
        | zero => left; exact ⟨by omega, by rw [h3, h1]; rfl⟩
        | succ k => right; exact ⟨k, h1, h2, h3⟩
    | false =>
      simp only [Bool.false_eq_true, if_false, ih, step]
      constructor
      · rintro ⟨k, h⟩; exact ⟨k + 1, h⟩
      · rintro ⟨k, h1, h2, h3⟩
        cases k with
        | zero => simp [activeAt, ha] at h2
        | succ k => exact ⟨k, h1, h2, h3⟩

/-- T16.2 `asks_only_active`: an accepted `ask` calls `ask()` on exactly the members that are active
    after the selection — `num_active` of them (T16.1), in pool order, nobody else —, returns the
    concatenation of what they generated, and records every batch size. -/
theorem asks_only_active (cfg : Cfg) (s : St) (env : AskEnv) (sols : List Sol)
    (h : (doAsk cfg s env).2 = .asked sols) :
    let s' := (doAsk cfg s env).1
    s'.phase = .ask ∧
    s'.trace = s.trace ++ askSpecFrom env.batch 0 s'.pool ∧
    (∀ e n, Event.ask e n ∈ askSpecFrom env.batch 0 s'.pool ↔
      (activeAt s'.pool e = true ∧ n = env.batch e)) ∧
    (askSpecFrom env.batch 0 s'.pool).length = countActive s'.pool ∧
    sols = (gensFrom 0 s'.pool).flatten ∧ s'.cur = sols ∧ AllEmitted s'.pool := by
  obtain ⟨kept, maskAny, chosen, nw, lf, _, _, _, _, _, _, hs, hsol⟩ := doAsk_asked cfg s env sols h
  have hl := askLoop_spec env.batch 0 (setActive kept chosen)
  rw [hs]
  refine ⟨rfl, by simp only; rw [← hl.1], ?_, askSpecFrom_length _ _ _, by simp only; rw [← hl.2.1]; exact hsol,
    by simp only; exact hsol.symm, hl.2.2⟩
  intro e n
  rw [mem_askSpecFrom]
  constructor
  · rintro ⟨k, h1, h2, h3⟩; simp only [Nat.zero_add] at h1; subst h1; exact ⟨h2, h3⟩
  · rintro ⟨h2, h3⟩; exact ⟨e, by simp, h2, h3⟩

/-- spec: one `tell` per active member, in pool order, with the solutions it generated, the rows
    `[pos, pos + n)` — `pos` = number of rows of the active members before it — and their status -/
def tellSpecFrom (status : Nat → Nat) : Nat → Nat → List Em → List Event
  | _, _, [] => []
  | i, pos, em :: ems =>
    if em.active then
      .tell i (gen i (em.emitted.getD 0)) (List.range' pos (em.emitted.getD 0))
          ((List.range' pos (em.emitted.getD 0)).map status) ::
        tellSpecFrom status (i + 1) (pos + em.emitted.getD 0) ems
    else tellSpecFrom status (i + 1) pos ems

/-- spec: the counts after a tell -/
def countedFrom (status : Nat → Nat) : Nat → List Em → List Em
  | _, [] => []
  | pos, em :: ems =>
    if em.active then
      { em with
        selection := em.selection + em.emitted.getD 0
        success := em.success +
          ((List.range' pos (em.emitted.getD 0)).filter (status · ≠ 0)).length } ::
        countedFrom status (pos + em.emitted.getD 0) ems
    else em :: countedFrom status pos ems

theorem tellLoop_spec (status : Nat → Nat) (cur pre : List Sol) (i : Nat) (p : List Em)
    (hall : AllEmitted p) (hcur : cur = pre ++ (gensFrom i p).flatten) :
    tellLoop status cur i pre.length p =
      .ok (countedFrom status pre.length p, tellSpecFrom status i pre.length p) := by
  induction p generalizing i pre with
  | nil => simp [tellLoop, countedFrom, tellSpecFrom]
  | cons em ems ih =>
    have hall' : AllEmitted ems := fun x hx => hall x (by simp [hx])
    simp only [tellLoop, countedFrom, tellSpecFrom]
    by_cases ha : em.active = true
    · simp only [ha, if_true]
      cases hn : em.emitted with
      | none => exact absurd hn (hall em (by simp) ha)
      | some n =>
        simp only [gensFrom, ha, if_true, hn, Option.getD_some, List.flatten_cons] at hcur ⊢
        have hc2 : cur = (pre ++ gen i n) ++ (gensFrom (i + 1) ems).flatten := by
          rw [hcur, List.append_assoc]
        have := ih (pre ++ gen i n) (i + 1) hall' hc2
        simp only [List.length_append, C04.gen_length] at this
        rw [this]
        have h1 : slice cur (pre.length, pre.length + n) = gen i n := by
          have := C04.slice_append_mid pre (gen i n) (gensFrom (i + 1) ems).flatten
          rw [C04.gen_length, ← hc2] at this; exact this
        have h2 : slice (List.range cur.length) (pre.length, pre.length + n) = List.range' pre.length n := by
          rw [C04.slice_range _ _ (by rw [hc2]; simp [C04.gen_length])]
          simp
        simp only [h1, h2]
    · simp only [ha, gensFrom] at hcur ⊢
      rw [ih pre (i + 1) hall' (by simpa using hcur)]
      simp

/-- the scheduler's bookkeeping describes the batch it handed out -/
def Consistent (s : St) : Prop :=
  s.phase = .ask → s.cur = (gensFrom 0 s.pool).flatten ∧ AllEmitted s.pool

/-- T16.2 `tell_slices`: in a consistent state (every state reached by calls is, `consistent_run`) an
    in-order `tell` submits the rows to the archive(s) and then tells exactly the active members, in
    pool order, each with the solutions it generated and the rows of its slice, and counts
    `selection += n`, `success += #non-zero status` on that slice. -/
theorem tell_slices (cfg : Cfg) (s : St) (status : Nat → Nat) (hc : Consistent s) (hp : s.phase = .ask) :
    doTell cfg s status =
      ({ s with phase := .tell, pool := countedFrom status 0 s.pool,
                trace := s.trace ++ addEvents cfg s.cur.length ++ tellSpecFrom status 0 0 s.pool },
       .told) := by
  obtain ⟨h1, h2⟩ := hc hp
  have := tellLoop_spec status s.cur [] 0 s.pool h2 (by simpa using h1)
  simp only [List.length_nil] at this
  simp [doTell, hp, this]

/-- T16.2 `tell_ok`: the `TypeError` branch (`_num_emitted[i]` is None) is unreachable -/
theorem tell_ok (cfg : Cfg) (s : St) (status : Nat → Nat) (hc : Consistent s) (hp : s.phase = .ask) :
    (doTell cfg s status).2 = .told := by rw [tell_slices cfg s status hc hp]

/-- a `tell` event is in the spec only for active members -/
theorem mem_tellSpecFrom (status : Nat → Nat) (i pos : Nat) (p : List Em) (e : Nat)
    (sols : List Sol) (rows st : List Nat) (h : Event.tell e sols rows st ∈ tellSpecFrom status i pos p) :
    ∃ k, e = i + k ∧ activeAt p k = true ∧ sols = gen e sols.length ∧ rows.length = sols.length ∧
      st = rows.map status := by
  induction p generalizing i pos with
  | nil => simp [tellSpecFrom] at h
  | cons em ems ih =>
    simp only [tellSpecFrom] at h
    by_cases ha : em.active = true
    · simp only [ha, if_true, List.mem_cons, Event.tell.injEq] at h
      rcases h with ⟨rfl, rfl, rfl, rfl⟩ | h
      · exact ⟨0, rfl, by simp [activeAt, ha], by simp [C04.gen_length], by simp [C04.gen_length], rfl⟩
      · obtain ⟨k, h1, h2, h3⟩ := ih _ _ h
        exact ⟨k + 1, by omega, by simpa [activeAt_cons_succ] using h2, h3⟩
    · simp only [ha] at h
      obtain ⟨k, h1, h2, h3⟩ := ih _ _ h
      exact ⟨k + 1, by omega, by simpa [activeAt_cons_succ] using h2, h3⟩

theorem tellSpecFrom_length (status : Nat → Nat) (i pos : Nat) (p : List Em) :
    (tellSpecFrom status i pos p).length = countActive p := by
  induction p generalizing i pos with
  | nil => rfl
  | cons em ems ih =>
    simp only [tellSpecFrom, countActive_cons]
    by_cases ha : em.active = true <;> simp [ha, ih]

/-- rows told, concatenated in order -/
def toldRows : List Event → List Nat
  | [] => []
  | .tell _ _ rows _ :: es => rows ++ toldRows es
  | _ :: es => toldRows es

theorem gensFrom_flatten_length (i : Nat) (p : List Em) :
    (gensFrom i p).flatten.length = ((p.filter (·.active)).map (·.emitted.getD 0)).sum := by
  induction p generalizing i with
  | nil => rfl
  | cons em ems ih =>
    simp only [gensFrom]
    by_cases ha : em.active = true
    · simp [ha, C04.gen_length, ih]
    · simp [ha, ih]

/-- slice partition over the active set: the rows told, concatenated in pool order of the active
    members, are `[pos, pos + total)` — every row of the batch goes to exactly one active member -/
theorem tellSpecFrom_partition (status : Nat → Nat) (i pos : Nat) (p : List Em) :
    toldRows (tellSpecFrom status i pos p) = List.range' pos (gensFrom i p).flatten.length := by
  induction p generalizing i pos with
  | nil => simp [tellSpecFrom, toldRows, gensFrom]
  | cons em ems ih =>
    simp only [tellSpecFrom, gensFrom]
    by_cases ha : em.active = true
    · simp only [ha, if_true, toldRows, ih, List.flatten_cons, List.length_append, C04.gen_length]
      rw [List.range'_append_1]
    · simp only [ha]
      exact ih _ _

/-- T16.2 `tells_only_active`: the emitters told are exactly the active ones (`num_active` of them),
    each is told the solutions it generated itself, all of them, in order, and the rows handed out
    partition `[0, len(batch))`. -/
theorem tells_only_active (cfg : Cfg) (s : St) (status : Nat → Nat) (hc : Consistent s)
    (hp : s.phase = .ask) :
    let evs := tellSpecFrom status 0 0 s.pool
    (doTell cfg s status).1.trace = s.trace ++ addEvents cfg s.cur.length ++ evs ∧
    evs.length = countActive s.pool ∧
    (∀ e sols rows st, Event.tell e sols rows st ∈ evs →
      activeAt s.pool e = true ∧ sols = gen e sols.length ∧ rows.length = sols.length ∧
        st = rows.map status) ∧
    toldRows evs = List.range s.cur.length := by
  refine ⟨by rw [tell_slices cfg s status hc hp], tellSpecFrom_length _ _ _ _, ?_, ?_⟩
  · intro e sols rows st h
    obtain ⟨k, h1, h2⟩ := mem_tellSpecFrom _ _ _ _ _ _ _ _ h
    simp only [Nat.zero_add] at h1; subst h1; exact h2
  · rw [tellSpecFrom_partition, (hc hp).1, List.range_eq_range']

/-! ## T16.3 the counts match what actually happened -/

/-- the counts of the pool members numbered from `i` agree with the trace: `selection` = rows the
    member was told about, `success` = those of them with non-zero status, and every row the member
    ever generated has been counted — except, while a batch is out (`asking`), the rows of that
    batch. -/
def CountsOK (asking : Bool) : Nat → List Em → List Event → Prop
  | _, [], _ => True
  | i, em :: ems, tr =>
    em.selection = toldTo i tr ∧ em.success = insertedOf i tr ∧
    emittedBy i tr = em.selection + (if asking && em.active then em.emitted.getD 0 else 0) ∧
    CountsOK asking (i + 1) ems tr

theorem countsOK_get (asking : Bool) (i : Nat) (p : List Em) (tr : List Event)
    (h : CountsOK asking i p tr) (k : Nat) (em : Em) (hk : p[k]? = some em) :
    em.selection = toldTo (i + k) tr ∧ em.success = insertedOf (i + k) tr ∧
      emittedBy (i + k) tr = em.selection + (if asking && em.active then em.emitted.getD 0 else 0) := by
  induction p generalizing i k with
  | nil => simp at hk
  | cons x xs ih =>
    cases k with
    | zero => simp at hk; subst hk; exact ⟨h.1, h.2.1, h.2.2.1⟩
    | succ k =>
      have := ih (i + 1) h.2.2.2 k (by simpa using hk)
      rw [show i + (k + 1) = i + 1 + k by omega]; exact this

theorem toldTo_append (e : Nat) (a b : List Event) : toldTo e (a ++ b) = toldTo e a + toldTo e b := by
  induction a with
  | nil => simp [toldTo]
  | cons x xs ih => cases x <;> simp [toldTo, ih]; omega

theorem insertedOf_append (e : Nat) (a b : List Event) :
    insertedOf e (a ++ b) = insertedOf e a + insertedOf e b := by
  induction a with
  | nil => simp [insertedOf]
  | cons x xs ih => cases x <;> simp [insertedOf, ih]; omega

theorem emittedBy_append (e : Nat) (a b : List Event) :
    emittedBy e (a ++ b) = emittedBy e a + emittedBy e b := by
  induction a with
  | nil => simp [emittedBy]
  | cons x xs ih => cases x <;> simp [emittedBy, ih]; omega

/-- events that do not concern the members numbered `i` and above -/
def Below (i : Nat) (evs : List Event) : Prop :=
  ∀ e, i ≤ e → toldTo e evs = 0 ∧ insertedOf e evs = 0 ∧ emittedBy e evs = 0

theorem below_nil (i : Nat) : Below i [] := by intro e _; simp [toldTo, insertedOf, emittedBy]

theorem below_append (i : Nat) (a b : List Event) (ha : Below i a) (hb : Below i b) : Below i (a ++ b) := by
  intro e he
  simp [toldTo_append, insertedOf_append, emittedBy_append, ha e he, hb e he]

theorem below_mono (i j : Nat) (a : List Event) (h : Below i a) (hij : i ≤ j) : Below j a :=
  fun e he => h e (by omega)

theorem below_addEvents (cfg : Cfg) (total i : Nat) : Below i (addEvents cfg total) := by
  intro e _
  have key : ∀ l : List Event, (∀ x ∈ l, ∃ r rows, x = Event.add r rows) →
      toldTo e l = 0 ∧ insertedOf e l = 0 ∧ emittedBy e l = 0 := by
    intro l hl
    induction l with
    | nil => simp [toldTo, insertedOf, emittedBy]
    | cons x xs ih =>
      obtain ⟨r, rows, rfl⟩ := hl x (by simp)
      simpa [toldTo, insertedOf, emittedBy] using ih (fun y hy => hl y (by simp [hy]))
  apply key
  intro x hx
  cases hm : cfg.mode <;> cases hr : cfg.hasResult <;> simp [addEvents, hm, hr] at hx
  · exact ⟨_, _, hx⟩
  · rcases hx with rfl | rfl <;> exact ⟨_, _, rfl⟩
  · obtain ⟨_, _, rfl⟩ := hx; exact ⟨_, _, rfl⟩
  · obtain ⟨_, _, rfl | rfl⟩ := hx <;> exact ⟨_, _, rfl⟩

theorem askSpecFrom_zero (batch : Nat → Nat) (i : Nat) (p : List Em) (e : Nat) :
    toldTo e (askSpecFrom batch i p) = 0 ∧ insertedOf e (askSpecFrom batch i p) = 0 ∧
      (e < i → emittedBy e (askSpecFrom batch i p) = 0) := by
  induction p generalizing i with
  | nil => simp [askSpecFrom, toldTo, insertedOf, emittedBy]
  | cons em ems ih =>
    have := ih (i + 1)
    simp only [askSpecFrom]
    cases em.active with
    | true =>
      simp only [if_true, toldTo, insertedOf, emittedBy, this.1, this.2.1, true_and]
      intro he
      rw [this.2.2 (by omega)]
      simp; omega
    | false =>
      simp only [Bool.false_eq_true, if_false]
      exact ⟨this.1, this.2.1, fun he => this.2.2 (by omega)⟩

theorem tellSpecFrom_zero (status : Nat → Nat) (i pos : Nat) (p : List Em) (e : Nat) :
    emittedBy e (tellSpecFrom status i pos p) = 0 ∧
      (e < i → toldTo e (tellSpecFrom status i pos p) = 0 ∧
        insertedOf e (tellSpecFrom status i pos p) = 0) := by
  induction p generalizing i pos with
  | nil => simp [tellSpecFrom, toldTo, insertedOf, emittedBy]
  | cons em ems ih =>
    simp only [tellSpecFrom]
    cases em.active with
    | true =>
      have := ih (i + 1) (pos + em.emitted.getD 0)
      simp only [if_true, toldTo, insertedOf, emittedBy, this.1, true_and]
      intro he
      have h2 := this.2 (by omega)
      rw [h2.1, h2.2]
      have : ¬ i = e := by omega
      simp [this]
    | false =>
      have := ih (i + 1) pos
      simp only [Bool.false_eq_true, if_false]
      exact ⟨this.1, fun he => this.2 (by omega)⟩

/-- `CountsOK false` only looks at the two counters -/
theorem countsOK_false_congr (i : Nat) (p q : List Em) (tr : List Event)
    (h : p.map (fun em => (em.selection, em.success)) = q.map (fun em => (em.selection, em.success)))
    (hp : CountsOK false i p tr) : CountsOK false i q tr := by
  induction p generalizing i q with
  | nil => cases q with
    | nil => trivial
    | cons _ _ => simp at h
  | cons a p ih =>
    cases q with
    | nil => simp at h
    | cons b q =>
      simp only [List.map_cons, List.cons.injEq, Prod.mk.injEq] at h
      obtain ⟨h1, h2, h3, h4⟩ := hp
      simp only [Bool.false_and, Bool.false_eq_true, if_false, Nat.add_zero] at h3
      refine ⟨by rw [← h.1.1]; exact h1, by rw [← h.1.2]; exact h2, ?_, ih _ _ h.2 h4⟩
      simp only [Bool.false_and, Bool.false_eq_true, if_false, Nat.add_zero]
      rw [← h.1.1]; exact h3

/-- the counters survive steps 1–3 of `ask` -/
theorem markFrom_cnt (cfg : Cfg) (env : AskEnv) (i : Nat) (p : List Em) :
    (markFrom cfg env i p).map (fun x => (x.1.selection, x.1.success)) =
      p.map (fun em => (em.selection, em.success)) := by
  induction p generalizing i with
  | nil => rfl
  | cons em ems ih => cases h : cfg.resel <;> simp [markFrom, h, ih]

theorem fill_cnt (k : Nat) (l l' : List (Em × Bool)) (h : fill k l = some l') :
    l'.map (fun x => (x.1.selection, x.1.success)) = l.map (fun x => (x.1.selection, x.1.success)) := by
  induction l generalizing k l' with
  | nil =>
    cases k with
    | zero => simp [fill] at h; subst h; rfl
    | succ k => simp [fill] at h
  | cons x l ih =>
    cases k with
    | zero => simp [fill] at h; subst h; rfl
    | succ k =>
      obtain ⟨em, m⟩ := x
      simp only [fill, Option.map_eq_some_iff] at h
      obtain ⟨t, ht, rfl⟩ := h
      simp [ih _ _ ht]

theorem prepare_cnt (cfg : Cfg) (env : AskEnv) (pool kept : List Em) (maskAny : Bool)
    (h : prepare cfg env pool = some (kept, maskAny)) :
    kept.map (fun em => (em.selection, em.success)) = pool.map (fun em => (em.selection, em.success)) := by
  simp only [prepare, Option.map_eq_some_iff, Prod.mk.injEq] at h
  obtain ⟨l, hl, rfl, _⟩ := h
  rw [← markFrom_cnt cfg env 0 pool, ← fill_cnt _ _ _ hl]
  simp [deactivate, List.map_map, Function.comp_def]

theorem setActive_cnt (p : List Em) (a : List Bool) (h : a.length = p.length) :
    (setActive p a).map (fun em => (em.selection, em.success)) =
      p.map (fun em => (em.selection, em.success)) := by
  induction p generalizing a with
  | nil => cases a <;> simp_all [setActive]
  | cons em ems ih =>
    cases a with
    | nil => simp at h
    | cons b bs =>
      simp only [setActive, List.zipWith_cons_cons, List.map_cons] at ih ⊢
      simp [ih bs (by simpa using h)]

/-- ask: the rows generated now are pending -/
theorem countsOK_ask (batch : Nat → Nat) (i : Nat) (p : List Em) (tr extra : List Event)
    (h : CountsOK false i p tr) (hx : Below i extra) :
    CountsOK true i (askLoop batch i p).1 (tr ++ extra ++ askSpecFrom batch i (askLoop batch i p).1) := by
  induction p generalizing i extra with
  | nil => trivial
  | cons em ems ih =>
    obtain ⟨h1, h2, h3, h4⟩ := h
    simp only [Bool.false_and, Bool.false_eq_true, if_false, Nat.add_zero] at h3
    have hxi := hx i (Nat.le_refl i)
    simp only [askLoop]
    cases ha : em.active with
    | true =>
      simp only [if_true, askSpecFrom]
      have hz := askSpecFrom_zero batch (i + 1) (askLoop batch (i + 1) ems).1 i
      refine ⟨?_, ?_, ?_, ?_⟩
      · simp [toldTo_append, toldTo, hxi.1, hz.1, h1]
      · simp [insertedOf_append, insertedOf, hxi.2.1, hz.2.1, h2]
      · simp [emittedBy_append, emittedBy, hxi.2.2, hz.2.2 (by omega), h3]
      · have hb : Below (i + 1) (extra ++ [Event.ask i (batch i)]) := by
          apply below_append _ _ _ (below_mono _ _ _ hx (by omega))
          intro e he
          have : ¬ i = e := by omega
          simp [toldTo, insertedOf, emittedBy, this]
        have := ih (i + 1) (extra ++ [Event.ask i (batch i)]) h4 hb
        simpa [List.append_assoc] using this
    | false =>
      simp only [Bool.false_eq_true, if_false, askSpecFrom, ha]
      have hz := askSpecFrom_zero batch (i + 1) (askLoop batch (i + 1) ems).1 i
      refine ⟨?_, ?_, ?_, ?_⟩
      · simp [toldTo_append, hxi.1, hz.1, h1]
      · simp [insertedOf_append, hxi.2.1, hz.2.1, h2]
      · simp [emittedBy_append, hxi.2.2, hz.2.2 (by omega), h3, ha]
      · exact ih (i + 1) extra h4 (below_mono _ _ _ hx (by omega))

/-- tell: the pending rows are counted, the non-zero statuses among them as successes -/
theorem countsOK_tell (status : Nat → Nat) (i pos : Nat) (p : List Em) (tr extra : List Event)
    (h : CountsOK true i p tr) (hx : Below i extra) :
    CountsOK false i (countedFrom status pos p) (tr ++ extra ++ tellSpecFrom status i pos p) := by
  induction p generalizing i pos extra with
  | nil => trivial
  | cons em ems ih =>
    obtain ⟨h1, h2, h3, h4⟩ := h
    have hxi := hx i (Nat.le_refl i)
    simp only [countedFrom, tellSpecFrom]
    cases ha : em.active with
    | true =>
      simp only [ha, Bool.true_and, if_true] at h3
      simp only [if_true]
      have hz := tellSpecFrom_zero status (i + 1) (pos + em.emitted.getD 0) ems i
      have hz2 := hz.2 (by omega)
      refine ⟨?_, ?_, ?_, ?_⟩
      · simp [toldTo_append, toldTo, hxi.1, hz2.1, h1]
      · simp [insertedOf_append, insertedOf, hxi.2.1, hz2.2, h2, List.filter_map, Function.comp_def]
      · simp [emittedBy_append, emittedBy, hxi.2.2, hz.1, h3]
      · have hb : Below (i + 1) (extra ++ [Event.tell i (gen i (em.emitted.getD 0))
            (List.range' pos (em.emitted.getD 0)) ((List.range' pos (em.emitted.getD 0)).map status)]) := by
          apply below_append _ _ _ (below_mono _ _ _ hx (by omega))
          intro e he
          have : ¬ i = e := by omega
          simp [toldTo, insertedOf, emittedBy, this]
        have := ih (i + 1) (pos + em.emitted.getD 0) _ h4 hb
        simpa [List.append_assoc] using this
    | false =>
      simp only [ha, Bool.and_false, Bool.false_eq_true, if_false, Nat.add_zero] at h3
      simp only [Bool.false_eq_true, if_false]
      have hz := tellSpecFrom_zero status (i + 1) pos ems i
      have hz2 := hz.2 (by omega)
      refine ⟨?_, ?_, ?_, ?_⟩
      · simp [toldTo_append, hxi.1, hz2.1, h1]
      · simp [insertedOf_append, hxi.2.1, hz2.2, h2]
      · simp [emittedBy_append, hxi.2.2, hz.1, h3]
      · exact ih (i + 1) pos extra h4 (below_mono _ _ _ hx (by omega))

theorem countedFrom_active (status : Nat → Nat) (pos : Nat) (p : List Em) :
    (countedFrom status pos p).map (·.active) = p.map (·.active) ∧
      (countedFrom status pos p).length = p.length := by
  induction p generalizing pos with
  | nil => simp [countedFrom]
  | cons em ems ih =>
    simp only [countedFrom]
    cases ha : em.active <;> simp [ha, (ih _).1, (ih _).2]

/-! ## whole histories -/

/-- what holds in every state reached by calls on a fresh scheduler with a pool of `n` -/
structure Good (cfg : Cfg) (n : Nat) (s : St) : Prop where
  len : s.pool.length = n
  le : countActive s.pool ≤ cfg.numActive
  eq : s.phase ≠ .none → countActive s.pool = cfg.numActive
  zero : s.phase = .none → countActive s.pool = 0
  cons : Consistent s
  counts : CountsOK (decide (s.phase = .ask)) 0 s.pool s.trace

theorem countActive_replicate_fresh (n : Nat) : countActive (List.replicate n Em.fresh) = 0 := by
  induction n with
  | zero => rfl
  | succ n ih => rw [List.replicate_succ, countActive_cons, ih]; rfl

theorem good_init (cfg : Cfg) (n : Nat) : Good cfg n (init n) := by
  have hc := countActive_replicate_fresh
  have hk : ∀ n i, CountsOK false i (List.replicate n Em.fresh) [] := by
    intro n; induction n with
    | zero => intro i; trivial
    | succ n ih =>
      intro i
      simp only [List.replicate_succ]
      exact ⟨rfl, rfl, by simp [emittedBy, Em.fresh], ih _⟩
  refine ⟨by simp [init], by simp [init, hc], by simp [init], by simp [init, hc],
    by intro h; simp [init] at h, ?_⟩
  simpa [init] using hk n 0

theorem good_step (cfg : Cfg) (n : Nat) (hn : cfg.numActive ≤ n) (s : St) (op : Op) (hg : Good cfg n s) :
    Good cfg n (step cfg s op).1 := by
  cases op with
  | ask env =>
    cases hout : (step cfg s (.ask env)).2 with
    | error e => rw [rejected_unchanged cfg s _ (Or.inl ⟨e, hout⟩)]; exact hg
    | inadmissible => rw [rejected_unchanged cfg s _ (Or.inr hout)]; exact hg
    | told =>
      exfalso
      simp only [step, doAsk] at hout
      (repeat' split at hout) <;> simp at hout
    | asked sols =>
      simp only [step] at hout ⊢
      have hna := num_active_invariant cfg s env sols (by rw [hg.len]; exact hn) hg.le hout
      have hao := asks_only_active cfg s env sols hout
      obtain ⟨kept, maskAny, chosen, nw, lf, hph, hprep, _, hd, _, _, hs, _⟩ := doAsk_asked cfg s env sols hout
      have hdc := diffFrom_count 0 kept chosen nw lf hd
      refine ⟨by rw [hna.2, hg.len], by omega, fun _ => hna.1, ?_, ?_, ?_⟩
      · intro hnone; rw [hao.1] at hnone; cases hnone
      · intro _; exact ⟨by rw [hao.2.2.2.2.2.1, hao.2.2.2.2.1], hao.2.2.2.2.2.2⟩
      · rw [hao.1, hao.2.1]
        have h0 : CountsOK false 0 s.pool s.trace := by simpa [hph] using hg.counts
        have h1 : CountsOK false 0 (setActive kept chosen) s.trace :=
          countsOK_false_congr 0 _ _ _ (by rw [setActive_cnt _ _ hdc.1, prepare_cnt cfg env _ _ _ hprep]) h0
        have := countsOK_ask env.batch 0 (setActive kept chosen) s.trace [] h1 (below_nil 0)
        rw [hs]
        simpa using this
  | tell st =>
    cases hout : (step cfg s (.tell st)).2 with
    | error e => rw [rejected_unchanged cfg s _ (Or.inl ⟨e, hout⟩)]; exact hg
    | inadmissible => rw [rejected_unchanged cfg s _ (Or.inr hout)]; exact hg
    | asked sols =>
      exfalso
      simp only [step, doTell] at hout
      (repeat' split at hout) <;> simp at hout
    | told =>
      have hp : s.phase = .ask := by
        simp only [step, doTell] at hout
        by_cases hp : s.phase = .ask
        · exact hp
        · simp [hp] at hout
      simp only [step]
      rw [tell_slices cfg s st hg.cons hp]
      have hca := countedFrom_active st 0 s.pool
      have hcount : countActive (countedFrom st 0 s.pool) = countActive s.pool :=
        countActive_congr _ _ hca.1
      refine ⟨by simp only; rw [hca.2, hg.len], by simp only; rw [hcount]; exact hg.le,
        fun _ => by simp only; rw [hcount]; exact hg.eq (by simp [hp]), by intro h; simp at h,
        by intro h; simp at h, ?_⟩
      have h0 : CountsOK true 0 s.pool s.trace := by simpa [hp] using hg.counts
      have := countsOK_tell st 0 0 s.pool s.trace (addEvents cfg s.cur.length) h0 (below_addEvents _ _ _)
      simpa using this
  | askDqd => exact hg
  | tellDqd => exact hg

theorem good_run (cfg : Cfg) (n : Nat) (hn : cfg.numActive ≤ n) (ops : List Op) :
    Good cfg n (run cfg (init n) ops) := by
  suffices ∀ s, Good cfg n s → Good cfg n (run cfg s ops) from this _ (good_init cfg n)
  induction ops with
  | nil => intro s h; exact h
  | cons op ops ih => intro s h; exact ih _ (good_step cfg n hn s op h)

/-- T16.1 for every history: on a scheduler built with `pool ≥ num_active`, after any sequence of
    calls (legal or not) the pool keeps its size, no emitter is active before the first accepted
    `ask`, and from then on exactly `num_active` are. -/
theorem num_active_run (cfg : Cfg) (n : Nat) (hn : cfg.numActive ≤ n) (ops : List Op) :
    let s := run cfg (init n) ops
    s.pool.length = n ∧ (s.phase = .none → countActive s.pool = 0) ∧
      (s.phase ≠ .none → countActive s.pool = cfg.numActive) := by
  have hg := good_run cfg n hn ops
  exact ⟨hg.len, hg.zero, hg.eq⟩

/-- every state reached by calls is consistent (so `tell_slices` / `tells_only_active` / `tell_ok`
    apply to every in-order `tell` of every history) -/
theorem consistent_run (cfg : Cfg) (n : Nat) (hn : cfg.numActive ≤ n) (ops : List Op) :
    Consistent (run cfg (init n) ops) := (good_run cfg n hn ops).cons

/-- T16.3 `counts_exact`: after any history of calls, for every pool member `e`:
    `selection[e]` is the number of rows it was told about, `success[e]` the number of those the
    archive reported as inserted (non-zero status), and every row `e` ever generated is counted in
    `selection[e]` — except the rows of the batch that is still waiting for its `tell`. -/
theorem counts_exact (cfg : Cfg) (n : Nat) (hn : cfg.numActive ≤ n) (ops : List Op) (e : Nat) (em : Em)
    (he : (run cfg (init n) ops).pool[e]? = some em) :
    let s := run cfg (init n) ops
    em.selection = toldTo e s.trace ∧ em.success = insertedOf e s.trace ∧
      emittedBy e s.trace = em.selection +
        (if s.phase = .ask ∧ em.active = true then em.emitted.getD 0 else 0) := by
  have hg := good_run cfg n hn ops
  have := countsOK_get _ 0 _ _ hg.counts e em he
  simp only [Nat.zero_add, Bool.and_eq_true, decide_eq_true_eq] at this
  exact this

/-! ## T16.4 selection order -/

theorem activeAt_eq (p : List Em) (k : Nat) : activeAt p k = ((p.map (·.active))[k]?).getD false := by
  simp only [activeAt, List.getElem?_map]
  cases p[k]? <;> rfl

/-- what the check's index lists contain -/
theorem diffFrom_mem (i : Nat) (kept : List Em) (a : List Bool) (nw lf : List Nat)
    (h : diffFrom i kept a = some (nw, lf)) :
    (∀ k, k < kept.length → activeAt kept k = false → a[k]? = some true → i + k ∈ nw) ∧
    (∀ k, k < kept.length → a[k]? = some false → i + k ∈ lf) ∧
    (∀ k, activeAt kept k = true → a[k]? = some true) := by
  induction kept generalizing i a nw lf with
  | nil => cases a <;> simp_all [diffFrom, activeAt]
  | cons em ems ih =>
    cases a with
    | nil => simp [diffFrom] at h
    | cons b bs =>
      simp only [diffFrom] at h
      cases hd : diffFrom (i + 1) ems bs with
      | none => simp [hd] at h
      | some r =>
        obtain ⟨nw1, lf1⟩ := r
        obtain ⟨i1, i2, i3⟩ := ih _ _ _ _ hd
        simp only [hd] at h
        have hsucc : ∀ k, i + (k + 1) = i + 1 + k := by intro k; omega
        cases ha : em.active <;> cases hb : b <;> simp [ha, hb] at h
        all_goals obtain ⟨rfl, rfl⟩ := h
        · refine ⟨?_, ?_, ?_⟩
          · intro k hk h1 h2
            cases k with
            | zero => simp at h2
            | succ k =>
              rw [hsucc]; exact i1 k (by simpa using hk) (by simpa [activeAt_cons_succ] using h1) (by simpa using h2)
          · intro k hk h2
            cases k with
            | zero => simp
            | succ k => rw [hsucc]; exact List.mem_cons_of_mem _ (i2 k (by simpa using hk) (by simpa using h2))
          · intro k h1
            cases k with
            | zero => simp [activeAt, ha] at h1
            | succ k => simpa using i3 k (by simpa [activeAt_cons_succ] using h1)
        · refine ⟨?_, ?_, ?_⟩
          · intro k hk h1 h2
            cases k with
            | zero => simp
            | succ k =>
              rw [hsucc]
              exact List.mem_cons_of_mem _
                (i1 k (by simpa using hk) (by simpa [activeAt_cons_succ] using h1) (by simpa using h2))
          · intro k hk h2
            cases k with
            | zero => simp at h2
            | succ k => rw [hsucc]; exact i2 k (by simpa using hk) (by simpa using h2)
          · intro k h1
            cases k with
            | zero => simp [activeAt, ha] at h1
            | succ k => simpa using i3 k (by simpa [activeAt_cons_succ] using h1)
        · refine ⟨?_, ?_, ?_⟩
          · intro k hk h1 h2
            cases k with
            | zero => simp [activeAt, ha] at h1
            | succ k =>
              rw [hsucc]; exact i1 k (by simpa using hk) (by simpa [activeAt_cons_succ] using h1) (by simpa using h2)
          · intro k hk h2
            cases k with
            | zero => simp at h2
            | succ k => rw [hsucc]; exact i2 k (by simpa using hk) (by simpa using h2)
          · intro k h1
            cases k with
            | zero => simp
            | succ k => simpa using i3 k (by simpa [activeAt_cons_succ] using h1)

/-- after an accepted ask the active flags are the checked activation vector -/
theorem asked_active (cfg : Cfg) (s : St) (env : AskEnv) (sols : List Sol)
    (h : (doAsk cfg s env).2 = .asked sols) :
    ∃ kept maskAny chosen nw lf,
      prepare cfg env s.pool = some (kept, maskAny) ∧
      chosen = chosenOf env (need cfg kept maskAny) kept ∧
      diffFrom 0 kept chosen = some (nw, lf) ∧
      (∀ c ∈ nw, ∀ j ∈ lf, (env.score c).ge (env.score j) = true) ∧
      kept.length = s.pool.length ∧ chosen.length = kept.length ∧
      (∀ k, activeAt (doAsk cfg s env).1.pool k = (chosen[k]?).getD false) := by
  obtain ⟨kept, maskAny, chosen, nw, lf, _, hprep, hch, hd, _, hord, hs, _⟩ := doAsk_asked cfg s env sols h
  have hdc := diffFrom_count 0 kept chosen nw lf hd
  have hlen : kept.length = s.pool.length := by
    simp only [prepare, Option.map_eq_some_iff, Prod.mk.injEq] at hprep
    obtain ⟨l, hl, rfl, _⟩ := hprep
    rw [deactivate_length, (fill_count _ _ _ hl).1, markFrom_length]
  refine ⟨kept, maskAny, chosen, nw, lf, hprep, hch, hd, hord, hlen, hdc.1, ?_⟩
  intro k
  rw [hs, activeAt_eq]
  simp only
  rw [askLoop_active, setActive_active _ _ hdc.1]

/-- T16.4 `selection_order`: in every accepted `ask`, every emitter that is newly activated
    (inactive after the deactivation step, active afterwards) has a UCB1 score at least as high — up
    to ties, i.e. overlapping brackets — as every emitter left inactive. -/
theorem selection_order (cfg : Cfg) (s : St) (env : AskEnv) (sols : List Sol)
    (h : (doAsk cfg s env).2 = .asked sols) :
    ∃ kept maskAny, prepare cfg env s.pool = some (kept, maskAny) ∧
      ∀ c j, c < s.pool.length → j < s.pool.length →
        activeAt kept c = false → activeAt (doAsk cfg s env).1.pool c = true →
        activeAt (doAsk cfg s env).1.pool j = false →
        (env.score c).ge (env.score j) = true := by
  obtain ⟨kept, maskAny, chosen, nw, lf, hprep, _, hd, hord, hlen, hcl, hact⟩ := asked_active cfg s env sols h
  refine ⟨kept, maskAny, hprep, ?_⟩
  intro c j hc hj hkc hac haj
  obtain ⟨m1, m2, _⟩ := diffFrom_mem 0 kept chosen nw lf hd
  have hc' : chosen[c]? = some true := by
    rw [hact] at hac
    have : c < chosen.length := by omega
    rw [List.getElem?_eq_getElem this] at hac ⊢
    simpa using hac
  have hj' : chosen[j]? = some false := by
    rw [hact] at haj
    have : j < chosen.length := by omega
    rw [List.getElem?_eq_getElem this] at haj ⊢
    simpa using haj
  have h1 := m1 c (by omega) hkc hc'
  have h2 := m2 j (by omega) hj'
  simp only [Nat.zero_add] at h1 h2
  exact hord c h1 j h2

/-- T16.4 `never_selected_first`: no previously selected emitter (finite score) is newly activated
    while a never-selected one (score `top`) is left inactive. -/
theorem never_selected_first (cfg : Cfg) (s : St) (env : AskEnv) (sols : List Sol)
    (h : (doAsk cfg s env).2 = .asked sols) :
    ∃ kept maskAny, prepare cfg env s.pool = some (kept, maskAny) ∧
      ∀ c j, c < s.pool.length → j < s.pool.length →
        activeAt kept c = false → activeAt (doAsk cfg s env).1.pool c = true →
        activeAt (doAsk cfg s env).1.pool j = false →
        env.score j = .top → env.score c = .top := by
  obtain ⟨kept, maskAny, hprep, hord⟩ := selection_order cfg s env sols h
  refine ⟨kept, maskAny, hprep, ?_⟩
  intro c j hc hj h1 h2 h3 htop
  have := hord c j hc hj h1 h2 h3
  rw [htop] at this
  cases hsc : env.score c with
  | top => rfl
  | iv lo hi => rw [hsc] at this; simp [Score.ge] at this

/-! ## T16.5 reselect = 'terminated' keeps, 'all' resets -/

theorem markFrom_get_terminated (cfg : Cfg) (env : AskEnv) (hres : cfg.resel = .terminated)
    (i : Nat) (p : List Em) (k : Nat) :
    (markFrom cfg env i p)[k]? = p[k]?.map fun em =>
      ({ em with restarts := env.restarts (i + k) },
       decide (em.restarts < env.restarts (i + k)) || decide (env.restarts (i + k) < 0)) := by
  induction p generalizing i k with
  | nil => simp [markFrom]
  | cons em ems ih =>
    cases k with
    | zero => simp [markFrom, hres]
    | succ k =>
      simp only [markFrom, List.getElem?_cons_succ, ih]
      rw [show i + 1 + k = i + (k + 1) by omega]

/-- the fill loop never deactivates and never sets a mask bit -/
theorem fill_keeps (n : Nat) (l l' : List (Em × Bool)) (h : fill n l = some l') (k : Nat) (em : Em)
    (hk : l[k]? = some (em, false)) (ha : em.active = true) :
    ∃ em', l'[k]? = some (em', false) ∧ em'.active = true := by
  induction l generalizing n k l' with
  | nil => simp at hk
  | cons x l ih =>
    cases n with
    | zero => simp [fill] at h; subst h; exact ⟨em, hk, ha⟩
    | succ n =>
      obtain ⟨y, m⟩ := x
      simp only [fill, Option.map_eq_some_iff] at h
      obtain ⟨t, ht, rfl⟩ := h
      cases k with
      | zero => exact ⟨{ y with active := true }, by simp, rfl⟩
      | succ k => simpa using ih _ _ ht k (by simpa using hk)

/-- T16.5 `terminated_keeps`: with `reselect = 'terminated'`, an active emitter that has a restart
    counter (`restarts ≥ 0`) which did not increase since the previous `ask` is still active after
    every accepted `ask`. -/
theorem terminated_keeps (cfg : Cfg) (s : St) (env : AskEnv) (sols : List Sol)
    (hres : cfg.resel = .terminated) (h : (doAsk cfg s env).2 = .asked sols)
    (k : Nat) (em : Em) (hk : s.pool[k]? = some em) (ha : em.active = true)
    (h0 : 0 ≤ env.restarts k) (h1 : env.restarts k ≤ em.restarts) :
    activeAt (doAsk cfg s env).1.pool k = true := by
  obtain ⟨kept, maskAny, chosen, nw, lf, hprep, _, hd, _, _, _, hact⟩ := asked_active cfg s env sols h
  obtain ⟨_, _, m3⟩ := diffFrom_mem 0 kept chosen nw lf hd
  simp only [prepare, Option.map_eq_some_iff, Prod.mk.injEq] at hprep
  obtain ⟨l, hl, rfl, _⟩ := hprep
  have hm : (markFrom cfg env 0 s.pool)[k]? = some ({ em with restarts := env.restarts k }, false) := by
    rw [markFrom_get_terminated cfg env hres, hk]
    simp only [Nat.zero_add, Option.map_some, Option.some.injEq, Prod.mk.injEq, true_and,
      Bool.or_eq_false_iff, decide_eq_false_iff_not]
    omega
  obtain ⟨em', he', ha'⟩ := fill_keeps _ _ _ hl k _ hm ha
  have hkept : activeAt (deactivate l) k = true := by
    simp [activeAt, deactivate, he', ha']
  rw [hact, m3 k hkept]; rfl

theorem deactivate_markFrom_all (cfg : Cfg) (env : AskEnv) (hres : cfg.resel = .all) (i : Nat) (p : List Em) :
    ∀ em ∈ deactivate (markFrom cfg env i p), em.active = false := by
  induction p generalizing i with
  | nil => simp [markFrom, deactivate]
  | cons x xs ih =>
    intro em hem
    simp only [markFrom, hres, deactivate, List.map_cons, List.mem_cons] at hem
    rcases hem with rfl | hem
    · cases x.active <;> rfl
    · exact ih (i + 1) em (by simpa [deactivate] using hem)

/-- T16.5 `all_resets`: with `reselect = 'all'` (and `num_active` emitters active, i.e. on every
    `ask` but the first) nobody is kept: every slot is decided afresh, so by `selection_order` every
    emitter active after the `ask` scores at least as high as every inactive one. -/
theorem all_resets (cfg : Cfg) (env : AskEnv) (pool kept : List Em) (maskAny : Bool)
    (hres : cfg.resel = .all) (hfull : cfg.numActive ≤ countActive pool)
    (h : prepare cfg env pool = some (kept, maskAny)) :
    (∀ em ∈ kept, em.active = false) ∧ ∀ k, activeAt kept k = false := by
  simp only [prepare, Option.map_eq_some_iff, Prod.mk.injEq] at h
  obtain ⟨l, hl, rfl, _⟩ := h
  rw [show cfg.numActive - countActive pool = 0 by omega] at hl
  simp only [fill, Option.some.injEq] at hl
  subst hl
  have := deactivate_markFrom_all cfg env hres 0 pool
  refine ⟨this, ?_⟩
  intro k
  simp only [activeAt]
  cases hk : (deactivate (markFrom cfg env 0 pool))[k]? with
  | none => rfl
  | some em => exact this em (List.mem_of_getElem? hk)

/-! ## T16.4 the model's own selection (descending score, until `num_active`) is admissible -/

/-- brackets are intervals -/
def WFScore (score : Nat → Score) : Prop := ∀ i lo hi, score i = .iv lo hi → lo ≤ hi

theorem keyGe_refl (a : Score) : a.keyGe a = true := by
  cases a <;> simp [Score.keyGe]

theorem keyGe_total (a b : Score) : a.keyGe b = true ∨ b.keyGe a = true := by
  cases a <;> cases b <;> simp [Score.keyGe]
  exact Rat.le_total

theorem keyGe_trans (a b c : Score) (h1 : a.keyGe b = true) (h2 : b.keyGe c = true) : a.keyGe c = true := by
  cases a <;> cases b <;> cases c <;> simp_all [Score.keyGe]
  exact Rat.le_trans h2 h1

theorem keyGe_ge (a b : Score) (hb : ∀ lo hi, b = .iv lo hi → lo ≤ hi) (h : a.keyGe b = true) :
    a.ge b = true := by
  cases a <;> cases b <;> simp_all [Score.keyGe, Score.ge]
  rename_i l1 h1 l2 h2
  exact Rat.le_trans hb h

theorem activeAt_zero (em : Em) (ems : List Em) : activeAt (em :: ems) 0 = em.active := by simp [activeAt]

theorem activeAt_lt (p : List Em) (k : Nat) (h : activeAt p k = true) : k < p.length := by
  simp only [activeAt] at h
  cases hk : p[k]? with
  | none => simp [hk] at h
  | some em => exact (List.getElem?_eq_some_iff.mp hk).1

theorem bestFrom_none (score : Nat → Score) (i : Nat) (p : List Em) (h : bestFrom score i p = none) :
    ∀ k, k < p.length → activeAt p k = true := by
  induction p generalizing i with
  | nil => intro k hk; simp at hk
  | cons em ems ih =>
    simp only [bestFrom] at h
    cases hr : bestFrom score (i + 1) ems with
    | none =>
      simp only [hr] at h
      cases ha : em.active with
      | false => simp [ha] at h
      | true =>
        intro k hk
        cases k with
        | zero => simpa [activeAt_zero] using ha
        | succ k => rw [activeAt_cons_succ]; exact ih _ hr k (by simpa using hk)
    | some j =>
      simp only [hr] at h
      cases ha : em.active with
      | true => simp [ha] at h
      | false =>
        simp only [ha, Bool.false_eq_true, if_false] at h
        split at h <;> simp at h

/-- `bestFrom` returns an inactive member whose key is maximal among the inactive ones -/
theorem bestFrom_some (score : Nat → Score) (i : Nat) (p : List Em) (j : Nat)
    (h : bestFrom score i p = some j) :
    ∃ k, j = i + k ∧ k < p.length ∧ activeAt p k = false ∧
      ∀ k', k' < p.length → activeAt p k' = false → (score j).keyGe (score (i + k')) = true := by
  induction p generalizing i j with
  | nil => simp [bestFrom] at h
  | cons em ems ih =>
    simp only [bestFrom] at h
    have hsucc : ∀ k, i + (k + 1) = i + 1 + k := by intro k; omega
    cases hr : bestFrom score (i + 1) ems with
    | none =>
      simp only [hr] at h
      have hall := bestFrom_none score (i + 1) ems hr
      cases ha : em.active with
      | true => simp [ha] at h
      | false =>
        simp only [ha, Bool.false_eq_true, if_false, Option.some.injEq] at h
        subst h
        refine ⟨0, rfl, by simp, by simp [activeAt_zero, ha], ?_⟩
        intro k' hk' hak'
        cases k' with
        | zero => exact keyGe_refl _
        | succ k' =>
          rw [activeAt_cons_succ, hall k' (by simpa using hk')] at hak'
          cases hak'
    | some j1 =>
      simp only [hr] at h
      obtain ⟨k1, hj1, hk1, ha1, hmax⟩ := ih (i + 1) j1 hr
      cases ha : em.active with
      | true =>
        simp only [ha, if_true, Option.some.injEq] at h
        subst h
        refine ⟨k1 + 1, by omega, by simpa using hk1, by simpa [activeAt_cons_succ] using ha1, ?_⟩
        intro k' hk' hak'
        cases k' with
        | zero => simp [activeAt_zero, ha] at hak'
        | succ k' =>
          rw [hsucc]
          exact hmax k' (by simpa using hk') (by simpa [activeAt_cons_succ] using hak')
      | false =>
        simp only [ha, Bool.false_eq_true, if_false] at h
        by_cases hge : (score i).keyGe (score j1) = true
        · simp only [hge, if_true, Option.some.injEq] at h
          subst h
          refine ⟨0, rfl, by simp, by simp [activeAt_zero, ha], ?_⟩
          intro k' hk' hak'
          cases k' with
          | zero => exact keyGe_refl _
          | succ k' =>
            rw [hsucc]
            exact keyGe_trans _ _ _ hge
              (hmax k' (by simpa using hk') (by simpa [activeAt_cons_succ] using hak'))
        · simp only [hge, Bool.false_eq_true, if_false, Option.some.injEq] at h
          subst h
          refine ⟨k1 + 1, by omega, by simpa using hk1, by simpa [activeAt_cons_succ] using ha1, ?_⟩
          intro k' hk' hak'
          cases k' with
          | zero =>
            rcases keyGe_total (score i) (score j1) with h1 | h1
            · exact absurd h1 hge
            · simpa using h1
          | succ k' =>
            rw [hsucc]
            exact hmax k' (by simpa using hk') (by simpa [activeAt_cons_succ] using hak')

theorem activateAt_lt (j i : Nat) (p : List Em) (h : j < i) : activateAt j i p = p := by
  induction p generalizing i with
  | nil => rfl
  | cons em ems ih =>
    simp only [activateAt]
    rw [ih (i + 1) (by omega)]
    have : ¬ i = j := by omega
    simp [this]

theorem activateAt_length (j i : Nat) (p : List Em) : (activateAt j i p).length = p.length := by
  induction p generalizing i with
  | nil => rfl
  | cons em ems ih => simp [activateAt, ih]

/-- `activateAt` only ever activates -/
theorem activateAt_mono (j i : Nat) (p : List Em) (k : Nat) (h : activeAt (activateAt j i p) k = false) :
    activeAt p k = false := by
  induction p generalizing i k with
  | nil => simp [activeAt]
  | cons em ems ih =>
    simp only [activateAt] at h
    cases k with
    | zero =>
      simp only [activeAt_zero] at h ⊢
      by_cases hij : i = j
      · simp [hij] at h
      · simpa [hij] using h
    | succ k =>
      rw [activeAt_cons_succ] at h ⊢
      exact ih _ _ h

theorem diffFrom_self (i : Nat) (p : List Em) :
    ∃ lf, diffFrom i p (p.map (·.active)) = some ([], lf) ∧
      ((∀ k, k < p.length → activeAt p k = true) → lf = []) := by
  induction p generalizing i with
  | nil => exact ⟨[], rfl, fun _ => rfl⟩
  | cons em ems ih =>
    obtain ⟨lf, h1, h2⟩ := ih (i + 1)
    simp only [List.map_cons, diffFrom, h1]
    cases ha : em.active with
    | true =>
      refine ⟨lf, by simp, ?_⟩
      intro hall
      exact h2 fun k hk => by simpa [activeAt_cons_succ] using hall (k + 1) (by simpa using hk)
    | false =>
      refine ⟨i :: lf, by simp, ?_⟩
      intro hall
      have := hall 0 (by simp)
      simp [activeAt_zero, ha] at this

/-- members of the "left inactive" list are inactive members of the kept pool -/
theorem diffFrom_lf_mem (i : Nat) (kept : List Em) (a : List Bool) (nw lf : List Nat)
    (h : diffFrom i kept a = some (nw, lf)) (j : Nat) (hj : j ∈ lf) :
    ∃ k, j = i + k ∧ k < kept.length ∧ activeAt kept k = false := by
  induction kept generalizing i a nw lf with
  | nil => cases a <;> simp_all [diffFrom]
  | cons em ems ih =>
    cases a with
    | nil => simp [diffFrom] at h
    | cons b bs =>
      simp only [diffFrom] at h
      cases hd : diffFrom (i + 1) ems bs with
      | none => simp [hd] at h
      | some r =>
        obtain ⟨nw1, lf1⟩ := r
        simp only [hd] at h
        have lift : j ∈ lf1 → ∃ k, j = i + k ∧ k < (em :: ems).length ∧ activeAt (em :: ems) k = false := by
          intro hm
          obtain ⟨k, h1, h2, h3⟩ := ih _ _ _ _ hd hm
          exact ⟨k + 1, by omega, by simpa using h2, by simpa [activeAt_cons_succ] using h3⟩
        cases ha : em.active <;> cases hb : b <;> simp [ha, hb] at h
        all_goals obtain ⟨rfl, rfl⟩ := h
        · simp only [List.mem_cons] at hj
          rcases hj with rfl | hj
          · exact ⟨0, rfl, by simp, by simp [activeAt_zero, ha]⟩
          · exact lift hj
        · exact lift hj
        · exact lift hj

/-- undoing one activation in the kept pool moves that member into the "newly activated" list -/
theorem diffFrom_activateAt (i j : Nat) (p : List Em) (a : List Bool) (nw1 lf1 : List Nat)
    (hj : ∃ k, j = i + k ∧ k < p.length ∧ activeAt p k = false)
    (h : diffFrom i (activateAt j i p) a = some (nw1, lf1)) :
    ∃ nw, diffFrom i p a = some (nw, lf1) ∧ nw.length = nw1.length + 1 ∧ ∀ c ∈ nw, c = j ∨ c ∈ nw1 := by
  induction p generalizing i a nw1 lf1 with
  | nil => obtain ⟨k, _, hk, _⟩ := hj; simp at hk
  | cons em ems ih =>
    cases a with
    | nil => simp [activateAt, diffFrom] at h
    | cons b bs =>
      obtain ⟨k, hjk, hk, hak⟩ := hj
      cases k with
      | zero =>
        simp only [Nat.add_zero] at hjk
        subst hjk
        have hem : em.active = false := by simpa [activeAt_zero] using hak
        simp only [activateAt, if_true, activateAt_lt j (j + 1) ems (by omega), diffFrom] at h ⊢
        cases hd : diffFrom (j + 1) ems bs with
        | none => simp [hd] at h
        | some r =>
          obtain ⟨nwr, lfr⟩ := r
          simp only [hd] at h ⊢
          cases hb : b with
          | false => simp [hb] at h
          | true =>
            simp only [hb, if_true, Option.some.injEq, Prod.mk.injEq] at h
            obtain ⟨rfl, rfl⟩ := h
            refine ⟨j :: nwr, by simp [hem], by simp, ?_⟩
            intro c hc
            simp only [List.mem_cons] at hc
            exact hc
      | succ k =>
        have hne : ¬ i = j := by omega
        simp only [activateAt, hne, if_false, diffFrom] at h ⊢
        cases hd1 : diffFrom (i + 1) (activateAt j (i + 1) ems) bs with
        | none => simp [hd1] at h
        | some r =>
          obtain ⟨nwr1, lfr1⟩ := r
          obtain ⟨nwr, hdr, hlen, hmem⟩ := ih (i + 1) bs nwr1 lfr1
            ⟨k, by omega, by simpa using hk, by simpa [activeAt_cons_succ] using hak⟩ hd1
          simp only [hd1] at h
          simp only [hdr]
          cases ha : em.active with
          | false =>
            cases hb : b with
            | false =>
              simp only [ha, hb, Bool.false_eq_true, if_false, Option.some.injEq, Prod.mk.injEq] at h ⊢
              obtain ⟨rfl, rfl⟩ := h
              exact ⟨nwr, ⟨rfl, rfl⟩, hlen, hmem⟩
            | true =>
              simp only [ha, hb, Bool.false_eq_true, if_false, if_true, Option.some.injEq,
                Prod.mk.injEq] at h ⊢
              obtain ⟨rfl, rfl⟩ := h
              refine ⟨i :: nwr, ⟨rfl, rfl⟩, by simp [hlen], ?_⟩
              intro c hc
              simp only [List.mem_cons] at hc ⊢
              rcases hc with rfl | hc
              · right; left; rfl
              · rcases hmem c hc with h1 | h1
                · left; exact h1
                · right; right; exact h1
          | true =>
            cases hb : b with
            | false => simp [ha, hb] at h
            | true =>
              simp only [ha, hb, if_true, Option.some.injEq, Prod.mk.injEq] at h ⊢
              obtain ⟨rfl, rfl⟩ := h
              exact ⟨nwr, ⟨rfl, rfl⟩, hlen, hmem⟩

/-- T16.4 (model side): selecting the `need` best inactive emitters, best first — the code's
    `argsort(ucb1)[::-1]` loop with well-defined scores — passes the admissibility check. -/
theorem activateTop_admissible (score : Nat → Score) (hwf : WFScore score) (nd : Nat) (kept : List Em) :
    judge score nd kept ((activateTop score nd kept).map (·.active)) = true := by
  suffices ∀ nd p, ∃ nw lf, diffFrom 0 p ((activateTop score nd p).map (·.active)) = some (nw, lf) ∧
      nw.length = min nd (nw.length + lf.length) ∧
      ∀ c ∈ nw, ∀ j ∈ lf, (score c).ge (score j) = true by
    obtain ⟨nw, lf, h1, h2, h3⟩ := this nd kept
    simp only [judge, h1, Bool.and_eq_true, beq_iff_eq, List.all_eq_true]
    exact ⟨h2, h3⟩
  intro nd
  induction nd with
  | zero =>
    intro p
    obtain ⟨lf, h1, _⟩ := diffFrom_self 0 p
    exact ⟨[], lf, by simpa [activateTop] using h1, by simp, by simp⟩
  | succ nd ih =>
    intro p
    simp only [activateTop]
    cases hb : bestFrom score 0 p with
    | none =>
      obtain ⟨lf, h1, h2⟩ := diffFrom_self 0 p
      have := h2 (bestFrom_none score 0 p hb)
      subst this
      exact ⟨[], [], by simpa using h1, by simp, by simp⟩
    | some j =>
      simp only
      obtain ⟨k, hjk, hk, hak, hmax⟩ := bestFrom_some score 0 p j hb
      obtain ⟨nw1, lf1, hd1, hn1, ho1⟩ := ih (activateAt j 0 p)
      obtain ⟨nw, hd, hlen, hmem⟩ := diffFrom_activateAt 0 j p _ nw1 lf1 ⟨k, hjk, hk, hak⟩ hd1
      refine ⟨nw, lf1, hd, by omega, ?_⟩
      intro c hc jj hjj
      rcases hmem c hc with rfl | hc1
      · obtain ⟨k2, hk2, hlt2, hact2⟩ := diffFrom_lf_mem 0 _ _ _ _ hd1 jj hjj
        rw [activateAt_length] at hlt2
        have := hmax k2 hlt2 (activateAt_mono c 0 p k2 hact2)
        rw [← hk2] at this
        exact keyGe_ge _ _ (hwf jj) this
      · exact ho1 c hc1 jj hjj

/-- T16.4: with well-formed brackets the model's own selection (`choice = none`) is never refused -/
theorem model_choice_accepted (cfg : Cfg) (s : St) (env : AskEnv) (hwf : WFScore env.score)
    (hch : env.choice = none) : (doAsk cfg s env).2 ≠ .inadmissible := by
  simp only [doAsk]
  split
  · simp
  · split
    · simp
    · rename_i kept maskAny _
      have : chosenOf env (need cfg kept maskAny) kept =
          (activateTop env.score (need cfg kept maskAny) kept).map (·.active) := by
        simp [chosenOf, hch]
      simp only [this, activateTop_admissible env.score hwf, if_true]
      simp

/-! ## non-vacuity -/

/-- a concrete history: pool of 5, `num_active = 2`, `reselect = 'terminated'`; emitter 1 has a
    restart counter that never moves, the others have none; unequal batch sizes (one of them 0);
    only the first row of the first batch is inserted.  Second `ask`: emitter 1 is kept, emitter 0 is
    reselected and replaced by a never-selected emitter (score `top`) although its own score is
    finite; third `ask`: emitters 0 and 2 compete with finite scores and never-selected 3 wins.
    An out-of-order `ask`, an out-of-order `tell` and an `ask_dqd` in between change nothing. -/
theorem nonvacuous :
    let cfg : Cfg := ⟨2, .terminated, .batch, false⟩
    let rs : Nat → Int := fun i => if i = 1 then 0 else -1
    let env1 : AskEnv := ⟨rs, fun _ => .top, fun i => [2, 0, 1, 3, 1].getD i 0, none⟩
    let env2 : AskEnv := ⟨rs, fun i => if i = 0 then .iv 1 1 else if i = 1 then .iv 0 0 else .top,
      fun i => [2, 1, 1, 3, 1].getD i 0, none⟩
    let env3 : AskEnv := ⟨rs, fun i => if i = 0 then .iv 1 2 else if i = 2 then .iv 0 1 else
      if i = 1 then .iv 0 0 else .top, fun _ => 1, none⟩
    let st1 : Nat → Nat := fun p => if p = 0 then 2 else 0
    let ops := [Op.tell st1, .ask env1, .ask env2, .askDqd, .tell st1, .ask env2, .tell (fun _ => 0),
                .ask env3]
    let s := run cfg (init 5) ops
    s.pool.map (·.active) = [false, true, false, true, false] ∧
    s.pool.map (·.selection) = [2, 1, 1, 0, 0] ∧
    s.pool.map (·.success) = [1, 0, 0, 0, 0] ∧
    s.phase = .ask ∧
    s.trace = [.ask 0 2, .ask 1 0, .add false [0, 1], .tell 0 [(0, 0), (0, 1)] [0, 1] [2, 0],
               .tell 1 [] [] [], .ask 1 1, .ask 2 1, .add false [0, 1], .tell 1 [(1, 0)] [0] [0],
               .tell 2 [(2, 0)] [1] [0], .ask 1 1, .ask 3 1] ∧
    countActive s.pool = cfg.numActive := by
  decide

end Pyribs.C16
