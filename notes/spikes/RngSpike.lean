/-! spike: provenance semantics of random sites and non-interference (C09), core Lean only -/
inductive Prov
  | seeded (comp : Nat)      -- draws from / constructs the generator owned by component `comp`, derived from its seed
  | global                   -- np.random.* / random.*
  | fresh                    -- default_rng() / library default: OS entropy
deriving DecidableEq, Repr

structure Site where
  file : String
  line : Nat
  prov : Prov
deriving Repr

def Site.seeded (s : Site) : Bool := match s.prov with | .seeded _ => true | _ => false

/-- abstract machine: generator states are naturals, `nxt` is any deterministic generator step -/
structure World where
  comp : Nat → Nat        -- per-component generator state (initially a function of the seeds)
  glob : Nat              -- global generator state
  ent : Nat               -- position in the entropy stream
  out : List Nat          -- everything observable that was drawn so far

def upd (f : Nat → Nat) (k v : Nat) : Nat → Nat := fun i => if i = k then v else f i

def exec (nxt : Nat → Nat) (entropy : Nat → Nat) (w : World) (s : Site) : World :=
  match s.prov with
  | .seeded c => { w with comp := upd w.comp c (nxt (w.comp c)), out := nxt (w.comp c) :: w.out }
  | .global => { w with glob := nxt w.glob, out := nxt w.glob :: w.out }
  | .fresh => { w with ent := w.ent + 1, out := entropy w.ent :: w.out }

def runTrace (nxt : Nat → Nat) (entropy : Nat → Nat) (w : World) (tr : List Site) : World := tr.foldl (exec nxt entropy) w

/-- if every executed site is seeded, outputs and component states do not depend on the global
    state or on entropy, and the global state / entropy position are left untouched -/
theorem noninterference (nxt : Nat → Nat) (e₁ e₂ : Nat → Nat) (w₁ w₂ : World) (tr : List Site)
    (hs : ∀ s ∈ tr, s.seeded = true) (hc : w₁.comp = w₂.comp) (ho : w₁.out = w₂.out) :
    (runTrace nxt e₁ w₁ tr).comp = (runTrace nxt e₂ w₂ tr).comp ∧
    (runTrace nxt e₁ w₁ tr).out = (runTrace nxt e₂ w₂ tr).out ∧
    (runTrace nxt e₁ w₁ tr).glob = w₁.glob ∧ (runTrace nxt e₁ w₁ tr).ent = w₁.ent := by
  induction tr generalizing w₁ w₂ with
  | nil => exact ⟨hc, ho, rfl, rfl⟩
  | cons s tr ih =>
    have hs0 := hs s (by simp)
    have hrest : ∀ s' ∈ tr, s'.seeded = true := fun s' h => hs s' (by simp [h])
    simp only [runTrace, List.foldl_cons] at *
    cases hp : s.prov with
    | seeded c =>
      have := ih (exec nxt e₁ w₁ s) (exec nxt e₂ w₂ s) hrest (by simp [exec, hp, hc]) (by simp [exec, hp, hc, ho])
      simpa [exec, hp] using this
    | global => simp [Site.seeded, hp] at hs0
    | fresh => simp [Site.seeded, hp] at hs0

/-- the generated table (here: two rows as the translator would emit them for the unchanged tree) -/
def sitesUnchanged : List Site :=
  [⟨"ribs/archives/_archive_base.py", 134, .seeded 0⟩, ⟨"ribs/archives/_cvt_archive.py", 226, .fresh⟩]
def sitesRepaired : List Site :=
  [⟨"ribs/archives/_archive_base.py", 134, .seeded 0⟩, ⟨"ribs/archives/_cvt_archive.py", 226, .seeded 0⟩]
theorem repaired_all_seeded : sitesRepaired.all Site.seeded = true := by decide
example : sitesUnchanged.all Site.seeded = false := by decide
#print axioms noninterference
