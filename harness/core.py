"""Core of the pyribs verification harness.

One check run = build the Lean project (models, proofs, driver), audit the
property's theorems (`#print axioms`), then drive the *real* pyribs
implementation and the Lean model in lock step over generated cases, judge every
case with the property oracle, and write the evidence file.

Exit codes: 0 held, 1 violation (a `VIOLATION property=<id> replay=<path>` line
is printed), 2 infrastructure failure (never reported as a violation).
"""
import fcntl
import hashlib
import importlib
import json
import os
import signal
import random
import re
import subprocess
import sys
import time
import traceback
from fractions import Fraction

VERIF = os.path.dirname(os.path.dirname(os.path.abspath(__file__)))
LEAN = os.path.join(VERIF, "lean")
REPO = os.environ.get("VERIF_REPO", "/repo")  # source tree read by translators
DRIVER = os.path.join(LEAN, ".lake", "build", "bin", "driver")
ALLOWED_AXIOMS = {"propext", "Classical.choice", "Quot.sound"}
FORBIDDEN = re.compile(
    r"\b(sorry|admit|native_decide|bv_decide|implemented_by|unsafe)\b|^\s*axiom\s|maxHeartbeats\s+0\b"
)

TRUSTED_BASE = [
    "Lean 4.33 kernel (leanchecker re-check in the thorough tier)",
    "axioms: at most propext, Classical.choice, Quot.sound (measured per theorem by #print axioms on this run)",
    "Lean compiler for the executable driver (theorems are about the definitions; the driver runs their compiled form)",
    "correspondence harness: generators, canonicalisation, exact-rational encoding of floats",
    "NumPy / SciPy / scikit-learn / pycma / matplotlib as libraries (not verified)",
]


class CaseTimeout(BaseException):
    """raised by the per-case watchdog (a BaseException so that no `except Exception` in a check swallows it)"""


_ALARM = {"fired": False}


def _outer_limit(tier):
    """limit for what a check does outside its generated cases (set-up, warm-up calls, summaries)"""
    return float(os.environ.get("VERIF_SETUP_TIMEOUT", "600" if tier == "quick" else "3600"))


def _case_alarm(signum, frame):
    # fires again every second until the case is abandoned: extension code (numba's dispatcher) turns the first
    # exception into a SystemError, and a check may catch what a library call raises and carry on
    _ALARM["fired"] = True
    raise CaseTimeout()


def bounded(fn, seconds, tier="quick"):
    """Run a set-up call (a numba warm-up, say) under its own short limit; False if it did not return in time.  The
    generated cases then meet the same hang under the per-case watchdog and report it with a concrete case."""
    try:
        signal.signal(signal.SIGALRM, _case_alarm)
        signal.setitimer(signal.ITIMER_REAL, seconds, 1.0)
    except ValueError:
        fn()
        return True
    try:
        fn()
        ok = not _ALARM["fired"]
    except CaseTimeout:
        ok = False
    except Exception:   # pylint: disable=broad-except
        if not _ALARM["fired"]:
            raise
        ok = False
    finally:
        signal.setitimer(signal.ITIMER_REAL, _outer_limit(tier), 1.0)
        _ALARM["fired"] = False
    return ok


class Infra(Exception):
    """Infrastructure failure (exit 2)."""


# --------------------------------------------------------------------------
# rationals on the wire


def q(x):
    """Exact value of a float / int / Fraction as `n` or `n/d`."""
    if isinstance(x, str):
        return x
    f = Fraction(x)
    return str(f.numerator) if f.denominator == 1 else f"{f.numerator}/{f.denominator}"


def ql(xs):
    xs = list(xs)
    return ",".join(q(x) for x in xs) if xs else "-"


def nl(xs):
    xs = list(xs)
    return ",".join(str(int(x)) for x in xs) if xs else "-"


def unq(s):
    if s in ("none", "-inf", "inf", "nan"):
        return s
    return Fraction(s)


def unql(s):
    return [] if s in ("-", "") else [unq(t) for t in s.split(",")]


def unnl(s):
    return [] if s in ("-", "") else [int(t) for t in s.split(",")]


def kvs(line):
    """Parse `k=v k=v` response into a dict."""
    out = {}
    for t in line.split():
        if "=" in t:
            k, v = t.split("=", 1)
            out[k] = v
    return out


# --------------------------------------------------------------------------
# Lean driver


class Driver:
    """Lock-step line protocol with the compiled Lean model.

    Fork-aware: a driver object inherited by a forked worker (thorough tier) must not share the parent's pipes,
    so the first request made from another process starts a fresh driver process for that process.
    """

    def __init__(self, machine):
        self.machine = machine
        self.log = []
        self._spawn()

    def _spawn(self):
        for _ in range(240):
            if os.path.exists(DRIVER):
                break
            time.sleep(0.5)  # a concurrent `lake build driver` replaces the binary
        else:
            raise Infra(f"driver not built: {DRIVER}")
        self._pid = os.getpid()
        self.p = subprocess.Popen([DRIVER, self.machine],
                                  stdin=subprocess.PIPE,
                                  stdout=subprocess.PIPE,
                                  text=True,
                                  bufsize=1)

    def ask(self, line):
        assert "\n" not in line
        if os.getpid() != self._pid:
            self._spawn()
        self.p.stdin.write(line + "\n")
        self.p.stdin.flush()
        out = self.p.stdout.readline()
        if not out:
            raise Infra(f"driver {self.machine} died on: {line[:200]}")
        out = out.rstrip("\n")
        if out == "bad-op":
            raise Infra(f"driver {self.machine} rejected request: {line[:300]}")
        return out

    def close(self):
        if os.getpid() != self._pid:
            return  # the parent's process: not ours to close
        try:
            self.p.stdin.close()
            self.p.wait(timeout=5)
        except Exception:  # pylint: disable=broad-except
            self.p.kill()


# --------------------------------------------------------------------------
# build + audit


def _run(cmd, cwd=None, timeout=3600, env=None):
    return subprocess.run(cmd,
                          cwd=cwd,
                          stdout=subprocess.PIPE,
                          stderr=subprocess.STDOUT,
                          text=True,
                          timeout=timeout,
                          env=env,
                          check=False)


class BuildLock:

    def __enter__(self):
        os.makedirs(os.path.join(LEAN, ".lake"), exist_ok=True)
        self.f = open(os.path.join(LEAN, ".lake", "verif.lock"), "w")
        fcntl.flock(self.f, fcntl.LOCK_EX)
        return self

    def __exit__(self, *a):
        fcntl.flock(self.f, fcntl.LOCK_UN)
        self.f.close()


def lake_build(targets):
    """Returns (ok, output)."""
    with BuildLock():
        r = _run(["lake", "build"] + list(targets), cwd=LEAN)
    return r.returncode == 0, r.stdout


def strip_comments(src):
    src = re.sub(r"/-.*?-/", "", src, flags=re.S)
    src = re.sub(r"--.*", "", src)
    return src


def forbidden_tokens():
    """Grep the Lean sources (outside comments) for forbidden constructs."""
    hits = []
    for root, _, files in os.walk(LEAN):
        if ".lake" in root or ".audit" in root:
            continue
        for fn in files:
            if not fn.endswith(".lean"):
                continue
            path = os.path.join(root, fn)
            for i, line in enumerate(strip_comments(open(path).read()).split("\n")):
                if FORBIDDEN.search(line):
                    hits.append(f"{os.path.relpath(path, LEAN)}:{i+1}: {line.strip()[:80]}")
    return hits


def audit(prop_id, modules, theorems):
    """`#print axioms` for every listed theorem. Returns dict name -> (ok, axioms|error).

    The outcome is a function of the Lean sources (hand-written and generated), the module and theorem lists: it is
    kept under lean/.audit/ keyed by their hash and reused when nothing changed (the proof modules have been built
    by `lake build` just before, itself a no-op then).  A fresh checkout has no such file: the first run of every
    check there audits for real.  `VERIF_NO_AUDIT_CACHE=1` switches the reuse off."""
    import hashlib
    os.makedirs(os.path.join(LEAN, ".audit"), exist_ok=True)
    h = hashlib.sha256()
    for root, dirs, files in os.walk(LEAN):
        dirs[:] = sorted(d for d in dirs if not d.startswith("."))
        for fn in sorted(files):
            if fn.endswith(".lean") or fn in ("lakefile.toml", "lake-manifest.json"):
                h.update(fn.encode())
                h.update(open(os.path.join(root, fn), "rb").read())
    h.update(repr((modules, theorems)).encode())
    cache = os.path.join(LEAN, ".audit", f"cache_{prop_id}_{h.hexdigest()[:24]}.json")
    if os.environ.get("VERIF_NO_AUDIT_CACHE") != "1" and os.path.exists(cache):
        try:
            c = json.load(open(cache))
            return {t: (v[0], v[1]) for t, v in c["res"].items()}, c["out"]
        except (OSError, ValueError, KeyError):
            pass
    path = os.path.join(LEAN, ".audit", f"Audit_{prop_id}_{os.getpid()}.lean")
    with open(path, "w") as f:
        for m in modules:
            f.write(f"import {m}\n")
        for t in theorems:
            f.write(f"#print axioms {t}\n")
    try:
        r = _run(["lake", "env", "lean", path], cwd=LEAN)
    finally:
        try:
            os.remove(path)
        except OSError:
            pass
    out = r.stdout
    res = {}
    for t in theorems:
        m = re.search(
            r"'" + re.escape(t) + r"' (does not depend on any axioms|depends on axioms: \[(.*?)\])",
            out, re.S)
        if not m:
            res[t] = (False, "not found / did not compile")
            continue
        axs = set() if m.group(2) is None else {a.strip() for a in m.group(2).split(",") if a.strip()}
        res[t] = (axs <= ALLOWED_AXIOMS, sorted(axs))
    if r.returncode == 0 and all(ok for ok, _ in res.values()):
        # (only a clean audit is kept: anything else is re-done, with its output, on the next run)
        try:
            tmp = cache + f".tmp{os.getpid()}"
            with open(tmp, "w") as f:
                json.dump({"res": {t: [ok, ax] for t, (ok, ax) in res.items()}, "out": out[-4000:]}, f)
            os.replace(tmp, cache)
        except OSError:
            pass
    return res, out


# --------------------------------------------------------------------------
# known findings


def load_findings(prop_id):
    path = os.path.join(VERIF, "known_findings.json")
    if not os.path.exists(path):
        return []
    return [f for f in json.load(open(path)).get("findings", []) if f["property"] == prop_id]


# --------------------------------------------------------------------------
# failures


class Failure:
    """A case on which something did not check.

    kind = 'oracle'  : the property oracle failed on the implementation's own
                       observations -> a concrete failing input.
    kind = 'corr'    : implementation and Lean model disagree on an observable
                       (oracle passed) -> broken correspondence.
    """

    def __init__(self, kind, what, detail=None, key=None):
        self.kind = kind
        self.what = what
        self.detail = detail
        self.key = key  # known-finding key this failure matches, if any

    def to_json(self):
        d = {"kind": self.kind, "what": self.what, "detail": self.detail, "key": self.key}
        if getattr(self, "sig", None) is not None:
            d["sig"] = list(self.sig)
        if getattr(self, "noshrink", False):
            d["noshrink"] = True
        return d


def library_failure(e, props, what="a valid call"):
    """An exception that escaped from the library while the harness was making a *valid* call.

    Every history a check generates consists of valid calls (malformed ones are injected and caught separately), so
    an exception raised inside ribs is a failing input for the property under check, not a harness error.  Returns a
    Failure, or None when no frame of the traceback lies in the library (then it is the harness that is broken).
    """
    import traceback
    if isinstance(e, Infra):
        return None
    tb = traceback.extract_tb(e.__traceback__)
    frames = [fr for fr in tb if "/ribs/" in fr.filename]
    if not frames:
        return None
    fr = frames[-1]
    props = sorted(props)
    label = props[0] if len(props) == 1 else "/".join(props)
    f = Failure("oracle", f"[{label}] {what} raised {type(e).__name__}: {str(e)[:200]} "
                f"(at ribs/{fr.filename.split('/ribs/')[-1]}:{fr.lineno} in {fr.name})")
    # signature used by the shrinker: a smaller case counts only if it fails in the same way (dropping a `resize`
    # can turn a later valid call into an invalid one, which the library is right to reject)
    f.sig = ("library-exception", type(e).__name__, fr.filename.split('/ribs/')[-1], fr.name)
    return f


def jsonable(x):
    import numpy as np
    if isinstance(x, dict):
        return {str(k): jsonable(v) for k, v in x.items()}
    if isinstance(x, (list, tuple)):
        return [jsonable(v) for v in x]
    if isinstance(x, Fraction):
        return q(x)
    if isinstance(x, np.ndarray):
        return jsonable(x.tolist())
    if isinstance(x, (np.integer,)):
        return int(x)
    if isinstance(x, (np.floating,)):
        return float(x)
    if isinstance(x, (np.bool_,)):
        return bool(x)
    if isinstance(x, (str, int, float, bool)) or x is None:
        return x
    return repr(x)


# --------------------------------------------------------------------------
# context


class Ctx:

    def __init__(self, prop_id, tier, seed):
        self.prop_id = prop_id
        self.tier = tier
        self.seed = seed
        self.t0 = time.time()
        self.evaluations = 0
        self.validated = 0
        self.nontrivial = set()
        self.samples = []
        self.dist = {}
        self.failures = []  # (Failure, case)
        self.known_hits = {}
        self.notes = []
        self.extra = {}
        self.findings = load_findings(prop_id)
        self.open_keys = {f["key"] for f in self.findings if f.get("status") == "open"}

    @property
    def quick(self):
        return self.tier == "quick"

    def n(self, quick, thorough):
        scale = float(os.environ.get("VERIF_SCALE", "1"))
        return max(1, int((quick if self.quick else thorough) * scale))

    def rng(self, *salt):
        h = hashlib.sha256(repr((self.seed, self.prop_id) + salt).encode()).digest()
        return random.Random(int.from_bytes(h[:8], "big"))

    def count(self, key, k=1):
        self.dist[key] = self.dist.get(key, 0) + k

    def sample(self, case, limit=3):
        if len(self.samples) < limit:
            self.samples.append(jsonable(case))

    def mark_nontrivial(self, case_repr):
        self.nontrivial.add(hashlib.sha1(repr(case_repr).encode()).hexdigest())

    def elapsed(self):
        return time.time() - self.t0

    # ---- exploration loop -------------------------------------------------

    def explore(self, name, gen, run, n_cases, nontrivial=None, shrink_key="ops", max_fail=2,
                time_budget=None):
        """gen(rng) -> case (json-able dict); run(case) -> None | Failure.

        Failing cases are shrunk (delta debugging over case[shrink_key]) and
        recorded.  Corpus cases for this stratum are replayed first.
        """
        inner_run = run

        def run(case, _inner=inner_run):      # noqa: F811
            """An exception that escapes from the library while a check runs a generated (valid) case is a failing
            input for the property, not a harness error (harness bugs have no frame inside ribs/)."""
            limit = float(os.environ.get("VERIF_CASE_TIMEOUT", "240" if self.tier == "quick" else "900"))
            armed = False
            try:
                signal.signal(signal.SIGALRM, _case_alarm)
                _ALARM["fired"] = False
                signal.setitimer(signal.ITIMER_REAL, limit, 1.0)
                armed = True
            except ValueError:          # not in the main thread: no watchdog
                pass
            def timed_out():
                # a library call that never comes back on a valid case cannot meet any clause of the property
                # (e.g. a resampling loop whose exit condition is gone); one case normally takes well under a second
                f = Failure("oracle", f"[{self.prop_id}] the case did not finish within {limit:.0f} s: a call into the "
                            f"library does not return on a generated valid case (non-termination)")
                f.noshrink = True
                return f

            try:
                res = _inner(case)
                if armed:
                    signal.setitimer(signal.ITIMER_REAL, 0)
                fired, _ALARM["fired"] = _ALARM["fired"], False
                return timed_out() if fired else res
            except Infra:
                raise
            except CaseTimeout:
                signal.setitimer(signal.ITIMER_REAL, 0)
                return timed_out()
            except Exception as e:      # pylint: disable=broad-except
                if armed:
                    signal.setitimer(signal.ITIMER_REAL, 0)
                fired, _ALARM["fired"] = _ALARM["fired"], False
                if fired:
                    return timed_out()
                f = library_failure(e, [self.prop_id], "the library, on a generated valid case,")
                if f is None:
                    # the harness itself tripped over what the implementation returned (a missing key, an array of
                    # another length, an attribute that is gone): the correspondence can no longer be established
                    tb = traceback.extract_tb(e.__traceback__)
                    fr = tb[-1]
                    f = Failure("corr", f"[{self.prop_id}] the harness could not interpret what the implementation "
                                f"returned: {type(e).__name__}: {str(e)[:160]} (at {os.path.basename(fr.filename)}:"
                                f"{fr.lineno} in {fr.name})")
                    f.sig = ("harness-exception", type(e).__name__, os.path.basename(fr.filename), fr.name)
                    return f
                return f
            finally:
                if armed:       # back to the limit for whatever the check does between its cases
                    signal.setitimer(signal.ITIMER_REAL, _outer_limit(self.tier), 1.0)

        nfail = 0
        t_start = time.time()
        corpus = load_corpus(self.prop_id, name)
        workers = int(os.environ.get("VERIF_WORKERS", "14" if self.tier == "thorough" else "1"))
        if workers > 1 and n_cases >= 64:
            return self._explore_parallel(name, gen, run, n_cases, nontrivial, shrink_key, max_fail, time_budget,
                                          corpus, workers)
        for idx in range(-len(corpus), n_cases):
            if time_budget is not None and time.time() - t_start > time_budget and idx >= 0:
                self.count(f"{name}:time-budget-stop")
                break
            if idx < 0:
                case = corpus[idx + len(corpus)]
                self.count(f"{name}:corpus")
            else:
                case = gen(self.rng(name, idx))
                case["stratum"] = name
                case["case_index"] = idx
            try:
                fail = run(case)
            except Infra:
                raise
            self.evaluations += 1
            self.validated += 1
            self.count(name)
            if nontrivial is None or nontrivial(case):
                self.mark_nontrivial(case.get(shrink_key, case))
            if fail is None:
                self.sample(case)
                continue
            if fail.key is not None and fail.key in self.open_keys:
                self.known_hits[fail.key] = self.known_hits.get(fail.key, 0) + 1
                continue
            if getattr(fail, "noshrink", False):
                small, fail2 = case, fail
            else:
                small = shrink(case, run, fail, shrink_key)
                fail2 = run(small) or fail
            self.failures.append((fail2, small))
            nfail += 1
            if nfail >= max_fail or getattr(fail, "noshrink", False):
                break

    def _explore_parallel(self, name, gen, run, n_cases, nontrivial, shrink_key, max_fail, time_budget, corpus,
                          workers):
        """Thorough tier: generated cases are run by forked workers (each opens its own driver per case);
        corpus cases and shrinking stay in the parent."""
        import multiprocessing as mp
        t_start = time.time()
        nfail = 0

        def handle(case, fail):
            nonlocal nfail
            self.evaluations += 1
            self.validated += 1
            self.count(name)
            if nontrivial is None or nontrivial(case):
                self.mark_nontrivial(case.get(shrink_key, case))
            if fail is None:
                self.sample(case)
                return
            if fail.key is not None and fail.key in self.open_keys:
                self.known_hits[fail.key] = self.known_hits.get(fail.key, 0) + 1
                return
            if nfail >= max_fail:
                return
            if "did not finish within" in fail.what:      # a watchdog failure is not shrunk (each try costs the limit)
                self.failures.append((fail, case))
                nfail = max_fail
                return
            small = shrink(case, run, fail, shrink_key)
            self.failures.append((run(small) or fail, small))
            nfail += 1

        for case in corpus:
            self.count(f"{name}:corpus")
            handle(case, run(case))
        _PAR.update(ctx=self, name=name, gen=gen, run=run)
        pool = mp.get_context("fork").Pool(workers, initializer=_par_init)
        try:
            for idx, case, fj in pool.imap_unordered(_par_worker, range(n_cases), chunksize=4):
                try:        # the parent only waits here: every result pushes the outer watchdog on
                    signal.setitimer(signal.ITIMER_REAL, _outer_limit(self.tier), 1.0)
                except ValueError:
                    pass
                if fj == "infra":
                    raise Infra(f"worker failed on case {idx}: {case}")
                fail = None if fj is None else Failure(fj["kind"], fj["what"], fj.get("detail"), fj.get("key"))
                if fj is not None and fj.get("sig"):
                    fail.sig = tuple(fj["sig"])
                delta = case.pop("_ctx_delta", None) or {}
                self.nontrivial.update(delta.get("nontrivial", []))
                for k_, v_ in delta.get("dist", {}).items():
                    self.count(k_, v_)
                handle(case, fail)
                if nfail >= max_fail:
                    break
                if time_budget is not None and time.time() - t_start > time_budget:
                    self.count(f"{name}:time-budget-stop")
                    break
        finally:
            pool.terminate()
            pool.join()

    def fail(self, failure, case):
        if failure.key is not None and failure.key in self.open_keys:
            self.known_hits[failure.key] = self.known_hits.get(failure.key, 0) + 1
            return
        self.failures.append((failure, case))


_PAR = {}


def _par_init():
    """Forked workers must not share the parent's persistent driver processes."""
    for name, mod in list(sys.modules.items()):
        if name.startswith("props.") or name in ("archlib",):
            cache = getattr(mod, "_DRV", None)
            if isinstance(cache, list):
                for i in range(len(cache)):
                    cache[i] = None
            elif isinstance(cache, dict):
                cache.clear()


def _par_worker(idx):
    ctx, name = _PAR["ctx"], _PAR["name"]
    case = _PAR["gen"](ctx.rng(name, idx))
    case["stratum"] = name
    case["case_index"] = idx
    # whatever the runner records on the context (counts, non-trivial marks) travels back to the parent
    ctx.nontrivial, ctx.dist = set(), {}
    try:
        f = _PAR["run"](case)
    except Infra as e:
        return idx, str(e), "infra"
    except Exception as e:  # pylint: disable=broad-except
        return idx, f"{type(e).__name__}: {e}\n{traceback.format_exc()[-1500:]}", "infra"
    case["_ctx_delta"] = {"nontrivial": list(ctx.nontrivial), "dist": ctx.dist}
    return idx, case, (None if f is None else f.to_json())


def load_corpus(prop_id, stratum):
    d = os.path.join(VERIF, "corpus", prop_id)
    out = []
    if os.path.isdir(d):
        for fn in sorted(os.listdir(d)):
            if fn.endswith(".json"):
                c = json.load(open(os.path.join(d, fn)))
                if c.get("stratum") == stratum:
                    out.append(c)
    return out


def shrink(case, run, fail, key, max_runs=400):
    """ddmin over case[key] (a list); keeps the failure kind."""
    if key not in case or not isinstance(case[key], list):
        return case
    runs = [0]

    def still(ops):
        if runs[0] >= max_runs:
            return False
        runs[0] += 1
        c = dict(case)
        c[key] = ops
        try:
            f = run(c)
        except Infra:
            raise
        except Exception:  # pylint: disable=broad-except
            return False
        return f is not None and f.kind == fail.kind and getattr(f, "sig", None) == getattr(fail, "sig", None)

    ops = list(case[key])
    n = 2
    while len(ops) >= 2:
        chunk = max(1, len(ops) // n)
        reduced = False
        for i in range(0, len(ops), chunk):
            cand = ops[:i] + ops[i + chunk:]
            if cand and still(cand):
                ops = cand
                n = max(n - 1, 2)
                reduced = True
                break
        if not reduced:
            if chunk == 1:
                break
            n = min(len(ops), n * 2)
    # shrink batches inside ops when they are lists of rows
    for i, op in enumerate(list(ops)):
        if isinstance(op, dict) and isinstance(op.get("rows"), list) and len(op["rows"]) > 1:
            rows = list(op["rows"])
            j = 0
            while j < len(rows) and len(rows) > 1:
                cand_rows = rows[:j] + rows[j + 1:]
                cand = ops[:i] + [dict(op, rows=cand_rows)] + ops[i + 1:]
                if still(cand):
                    rows = cand_rows
                    ops = cand
                else:
                    j += 1
    out = dict(case)
    out[key] = ops
    out["shrunk_from"] = len(case[key])
    return out


# --------------------------------------------------------------------------
# main


def write_evidence(ctx, mod, audit_res, checker_cmd, violations, extra_notes):
    obligations = len(audit_res)
    discharged = sum(1 for ok, _ in audit_res.values() if ok)
    cov = {
        "obligations": obligations,
        "discharged": discharged,
        "checker_cmd": checker_cmd,
        "trusted_base": TRUSTED_BASE + list(getattr(mod, "TRUSTED_EXTRA", [])) + ([
            "source-to-Lean translators (harness/translate/formulas.py, control.py, rng_sites.py): their reading of "
            "Python / NumPy arithmetic as exact rational arithmetic, of boolean-mask assignments row-wise, of floats as "
            "-inf / finite / other (PyribsModel/ExtRat.lean), and their variable and call tables; what they generated on "
            "this run is listed under coverage.formulas / coverage.control_flow"] if hasattr(mod, "translate") else []),
        "theorems": {t: {"ok": ok, "axioms": ax} for t, (ok, ax) in audit_res.items()},
        "evaluations": ctx.evaluations,
        "traces_validated_against_impl": ctx.validated,
        "distinct_nontrivial": len(ctx.nontrivial),
        "rule": getattr(mod, "RULE", ""),
        "samples": ctx.samples[:3] if ctx.samples else [{"note": "no passing sample recorded"}],
        "distribution": ctx.dist,
        "partial_clauses": list(getattr(mod, "PARTIAL", [])),
        "known_findings_printed": sorted(ctx.known_hits),
        "notes": ctx.notes + extra_notes,
    }
    cov.update(jsonable(ctx.extra))
    ev = {
        "property_id": ctx.prop_id,
        "tier": ctx.tier,
        "seed": ctx.seed,
        "level": "proof",
        "coverage": cov,
        "assumptions": list(getattr(mod, "ASSUMPTIONS", [])),
        "wall_s": round(time.time() - ctx.t0, 2),
        "violations": violations,
    }
    os.makedirs(os.path.join(VERIF, "evidence"), exist_ok=True)
    tmp = os.path.join(VERIF, "evidence", f".{ctx.prop_id}.json.tmp")
    with open(tmp, "w") as f:
        json.dump(ev, f, indent=1, sort_keys=True)
    os.replace(tmp, os.path.join(VERIF, "evidence", f"{ctx.prop_id}.json"))


def write_replay(ctx, kind, failure, case, extra=None):
    d = os.path.join(VERIF, "replays", ctx.prop_id)
    os.makedirs(d, exist_ok=True)
    body = {
        "property": ctx.prop_id,
        "kind": kind,
        "seed": ctx.seed,
        "tier": ctx.tier,
        "failure": failure.to_json() if failure is not None else None,
        "case": jsonable(case),
    }
    if extra:
        body.update(extra)
    h = hashlib.sha1(json.dumps(body, sort_keys=True).encode()).hexdigest()[:10]
    path = os.path.join(d, f"{kind}_{h}.json")
    with open(path, "w") as f:
        json.dump(body, f, indent=1, sort_keys=True)
    return os.path.relpath(path, VERIF)


def load_prop(prop_id):
    sys.path.insert(0, os.path.join(VERIF, "harness"))
    return importlib.import_module(f"props.{prop_id.lower()}")


def main(argv):
    if len(argv) >= 1 and argv[0] == "--setup":
        return setup()
    if len(argv) < 2:
        print("usage: check <id> quick|thorough | check <id> --replay <path> | check <id> --audit | check --setup")
        return 2
    prop_id = argv[0]
    seed = int(os.environ.get("VERIF_SEED", "0"))
    if argv[1] == "--audit":
        return audit_only(prop_id)
    if argv[1] == "--replay":
        tier = "quick"
    else:
        tier = argv[1]
        if os.environ.get("VERIF_TIER") in ("quick", "thorough"):
            tier = os.environ["VERIF_TIER"]
    if tier not in ("quick", "thorough"):
        print(f"unknown tier {tier}")
        return 2
    ctx = Ctx(prop_id, tier, seed)
    try:
        mod = load_prop(prop_id)
        return run_check(ctx, mod, argv)
    except Infra as e:
        print(f"INFRA-ERROR property={prop_id}: {e}")
        return 2
    except subprocess.TimeoutExpired as e:
        print(f"INFRA-ERROR property={prop_id}: timeout {e}")
        return 2


def audit_only(prop_id):
    """`./check <id> --audit`: build the proof modules and print the axioms of every listed theorem."""
    mod = load_prop(prop_id)
    ctx = Ctx(prop_id, "quick", 0)
    if hasattr(mod, "translate"):
        mod.translate(ctx)
    ok, out = lake_build(list(mod.PROOF_MODULES))
    if not ok:
        print(out[-3000:])
        print("proof modules do not build")
        return 1
    hits = forbidden_tokens()
    res, _ = audit(prop_id, list(mod.PROOF_MODULES), list(mod.THEOREMS))
    for t, (good, ax) in res.items():
        print(("ok  " if good else "BAD ") + t + "  axioms=" + str(ax))
    print(f"{sum(1 for g, _ in res.values() if g)}/{len(res)} theorems discharged; forbidden tokens: {hits or 'none'}")
    return 0 if all(g for g, _ in res.values()) and not hits else 1


def setup():
    ok, out = lake_build([])
    print(out[-3000:])
    if not ok:
        print("SETUP FAILED: lake build")
        return 2
    # warm numba / imports
    r = _run(["/venv/bin/python", "-c", "import ribs, ribs.archives, ribs.emitters, ribs.schedulers; "
              "from ribs.archives import GridArchive; a=GridArchive(solution_dim=1,dims=[2],ranges=[(0,1)]); "
              "a.add([[0.0]],[1.0],[[0.5]]); print('warm ok')"])
    print(r.stdout[-500:])
    return 0


def run_check(ctx, mod, argv):
    prop_id = ctx.prop_id
    modules = list(mod.PROOF_MODULES)
    theorems = list(mod.THEOREMS)
    notes = []
    violations = []  # (replay_path, suffix)

    # 0. translators (regenerate model parts from /repo)
    gen_lock = None
    if hasattr(mod, "translate"):
        # the generated Lean files are shared by every check that translates: from regeneration until the proofs that
        # import them are built and audited no other run may rewrite them (two runs on the same tree write the same
        # text; runs on different trees -- seeded changes, mutants -- would otherwise judge each other's formulas)
        import fcntl
        gen_lock = open(os.path.join(LEAN, ".gen.lock"), "w")
        fcntl.flock(gen_lock, fcntl.LOCK_EX)
        mod.translate(ctx)

    # 1. build
    ok_drv, out_drv = lake_build(["PyribsModel", "driver"])
    if not ok_drv:
        print(out_drv[-4000:])
        raise Infra("lake build of the model / driver failed")
    ok_proofs, out_proofs = lake_build(modules)
    broken_obligation = None
    if not ok_proofs:
        broken_obligation = out_proofs[-3000:]
        notes.append("proof module failed to build")

    # 2. audit
    hits = forbidden_tokens()
    if hits:
        print("\n".join(hits))
        raise Infra("forbidden token in Lean sources: " + hits[0])
    if ok_proofs:
        audit_res, audit_out = audit(prop_id, modules, theorems)
    else:
        audit_res, audit_out = {t: (False, "module did not build") for t in theorems}, out_proofs
    bad = [t for t, (ok, _) in audit_res.items() if not ok]
    checker_cmd = (f"./check {prop_id} --audit   # = cd lean && lake build {' '.join(modules)} && lake env lean on a "
                   f"generated file with `#print axioms` for the {len(theorems)} listed theorems")
    if ctx.tier == "thorough" and ok_proofs and os.environ.get("VERIF_NO_LEANCHECKER") != "1":
        r = _run(["lake", "env", "leanchecker"] + modules, cwd=LEAN, timeout=3000)
        notes.append(f"leanchecker {' '.join(modules)}: exit {r.returncode}")
        if r.returncode != 0:
            print(r.stdout[-2000:])
            raise Infra("leanchecker rejected the compiled proof modules")
        checker_cmd += f" && lake env leanchecker {' '.join(modules)}"

    if gen_lock is not None:
        gen_lock.close()

    # 3. correspondence + oracle
    if len(argv) >= 3 and argv[1] == "--replay":
        body = json.load(open(argv[2] if os.path.isabs(argv[2]) else os.path.join(VERIF, argv[2])))
        case = body.get("case") if "case" in body or "kind" in body and body.get("kind") in (
            "history", "correspondence", "obligation") else body   # replay files wrap the case, corpus files are the case
        f = mod.replay(ctx, case) if case is not None else None
        ctx.evaluations += 1
        if f is not None:
            ctx.failures.append((f, case))
        elif body.get("kind") == "obligation":
            print("replay: obligation replays need a full run")
    else:
        def setup_hang():
            ctx.failures.append((Failure("corr", f"[{prop_id}] a call into the library made by the check outside its "
                                         f"generated cases (set-up / warm-up) did not return within "
                                         f"{_outer_limit(ctx.tier):.0f} s"), {"stratum": "setup"}))
        try:
            _ALARM["fired"] = False
            signal.signal(signal.SIGALRM, _case_alarm)
            signal.setitimer(signal.ITIMER_REAL, _outer_limit(ctx.tier), 1.0)
            mod.run(ctx)
            signal.setitimer(signal.ITIMER_REAL, 0)
            if _ALARM["fired"]:
                setup_hang()
        except Infra:
            signal.setitimer(signal.ITIMER_REAL, 0)
            raise
        except CaseTimeout:
            signal.setitimer(signal.ITIMER_REAL, 0)
            setup_hang()
        except Exception:  # pylint: disable=broad-except
            signal.setitimer(signal.ITIMER_REAL, 0)
            if _ALARM["fired"]:
                setup_hang()
            else:
                # outside the generated cases (a probe for a known finding, a summary, set-up): an exception from
                # inside the library, or the harness tripping over what the library returned, means the check can
                # no longer establish the correspondence on this tree -- reported, with the traceback, as such
                traceback.print_exc()
                e = sys.exc_info()[1]
                lf = library_failure(e, [prop_id], "a call made by the check outside its generated cases")
                tb = traceback.extract_tb(e.__traceback__)
                what = lf.what if lf is not None else (
                    f"[{prop_id}] the harness could not interpret what the implementation returned (outside the "
                    f"generated cases): {type(e).__name__}: {str(e)[:160]} (at {os.path.basename(tb[-1].filename)}:"
                    f"{tb[-1].lineno} in {tb[-1].name})")
                ctx.failures.append((Failure("corr", what), {"stratum": "direct"}))

    # 4. classify
    oracle_fails = [(f, c) for f, c in ctx.failures if f.kind == "oracle"]
    corr_fails = [(f, c) for f, c in ctx.failures if f.kind != "oracle"]
    for f, c in oracle_fails:
        path = write_replay(ctx, "history", f, c)
        violations.append((path, "", f.what))
    if not oracle_fails:
        for f, c in corr_fails:
            path = write_replay(ctx, "correspondence", f, c,
                                {"theorem_or_observable": f.what})
            violations.append((path, " no-failing-input-found", f.what))
        if (bad or broken_obligation) and not corr_fails:
            path = write_replay(ctx, "obligation", None, None, {
                "theorem_or_observable": bad,
                "build_output": broken_obligation,
                "audit": {t: audit_res[t][1] for t in bad},
            })
            violations.append((path, " no-failing-input-found", f"obligations not discharged: {bad[:3]}"))

    for key, k in sorted(ctx.known_hits.items()):
        what = next((f["what"] for f in ctx.findings if f["key"] == key), key)
        print(f"KNOWN-FINDING: property={prop_id} {what} (reproduced {k}x, key={key})")

    write_evidence(ctx, mod, audit_res, checker_cmd, len(violations), notes)
    for path, suffix, what in violations:
        print(f"# {what}")
        print(f"VIOLATION property={prop_id} replay={path}{suffix}")
    print(f"[{prop_id} {ctx.tier} seed={ctx.seed}] evaluations={ctx.evaluations} "
          f"nontrivial={len(ctx.nontrivial)} obligations={len(audit_res)} "
          f"discharged={sum(1 for ok, _ in audit_res.values() if ok)} "
          f"violations={len(violations)} wall={time.time()-ctx.t0:.1f}s")
    return 1 if violations else 0


if __name__ == "__main__":
    sys.exit(main(sys.argv[1:]))
