import PyribsModel.EsControl
/-! Line-protocol machine `esctl` for the `EsControl` model.

Ranking values travel as opaque strings (no `,` `:` `|` `=` or blanks inside);
solutions and elites as natural-number tokens.

```
new kind=es|gae sel=<str> rule=<str>|<nat> batch=<nat>      → ok | err value | err zerodiv
telldqd                                                     → ok
ask <tokens>                                                → ok | err runtime
tell sols=<nats> st=<nats> perm=<nats> vals=<strs> stop=0|1 arch=<nats> rnd=<nat>
   → ok np=<n> restart=0|1 itrs=<n> restarts=<n> point=initial|moved|e<tok> acts=<act>|<act>|…
   → err <e> itrs=<n> restarts=<n> point=… acts=…
state                                                       → itrs=<n> restarts=<n> point=…
```
The scripted ranker answer (`perm`, `vals`) and stop bit are turned into the
constant functions the model's `TellIn` expects.
-/
namespace Pyribs.EsControlDrv
open Pyribs EsControl

structure St where
  cfg : Option Cfg
  s   : EsControl.St

def init : St := ⟨none, EsControl.init⟩

def showErr : Err → String
  | .value => "err value"
  | .runtime => "err runtime"
  | .index => "err index"
  | .zeroDiv => "err zerodiv"

def showCenter : Center → String
  | .elite t => s!"e{t}"
  | .zero => "zero"

def showAct : Act String → String
  | .rank sols st => s!"rank:{showNatList sols}:{showNatList st}"
  | .optTell idx vals np => s!"tell:{showNatList idx}:{showList id vals}:{np}"
  | .gradStep => "gstep"
  | .checkStop sorted => s!"stop:{showList id sorted}"
  | .sampleElite => "sample"
  | .gradReset c => s!"greset:{showCenter c}"
  | .optReset c => s!"oreset:{showCenter c}"
  | .rankerReset => "rreset"
  | .incRestarts => "inc"

def showActs (as : List (Act String)) : String :=
  if as.isEmpty then "-" else String.intercalate "|" (as.map showAct)

def parseRuleArg (s : String) : RuleArg :=
  match s.toNat? with
  | some n => .int n
  | none => .name s

def parseKind : String → Option Kind
  | "es" => some .es
  | "gae" => some .gae
  | _ => none

def showPoint : Point → String
  | .initial => "initial"
  | .elite t => s!"e{t}"
  | .moved => "moved"

def counters (s : EsControl.St) : String :=
  s!"itrs={s.itrs} restarts={s.restarts} point={showPoint s.point}"

def step (st : St) (toks : List String) : St × String :=
  match toks with
  | "new" :: args =>
    match (kv args "kind").bind parseKind, kv args "sel", kv args "rule", (kv args "batch").bind String.toNat? with
    | some k, some sel, some rule, some b =>
      match mkCfg k sel (parseRuleArg rule) b with
      | .ok cfg => (⟨some cfg, EsControl.init⟩, "ok")
      | .error e => (⟨none, EsControl.init⟩, showErr e)
    | _, _, _, _ => (st, "bad-op")
  | ["telldqd"] =>
    match st.cfg with
    | some _ => ({ st with s := tellDqd st.s }, "ok")
    | none => (st, "bad-op")
  | ["ask", rows] =>
    match st.cfg, parseNatList rows with
    | some cfg, some rows =>
      let r := ask (ν := String) cfg st.s rows
      ({ st with s := r.1 },
        match r.2 with
        | .err e _ => showErr e
        | _ => "ok")
    | _, _ => (st, "bad-op")
  | "tell" :: args =>
    match st.cfg, (kv args "sols").bind parseNatList, (kv args "st").bind parseNatList,
          (kv args "perm").bind parseNatList, (kv args "vals").bind (parseListWith some),
          kv args "stop", (kv args "arch").bind parseNatList, (kv args "rnd").bind String.toNat? with
    | some cfg, some sols, some sts, some perm, some vals, some stop, some arch, some rnd =>
      let t : TellIn String :=
        { sols := sols, statuses := sts, rank := fun _ _ => (perm, vals), stop := fun _ => stop == "1",
          arch := arch, rnd := rnd }
      let r := tell cfg st.s t
      ({ st with s := r.1 },
        match r.2 with
        | .ok o => s!"ok np={o.numParents} restart={showBool o.restart} {counters r.1} acts={showActs o.acts}"
        | .err e as => s!"{showErr e} {counters r.1} acts={showActs as}"
        | .done => "bad-op")
    | _, _, _, _, _, _, _, _ => (st, "bad-op")
  | ["state"] => (st, counters st.s)
  | _ => (st, "bad-op")

end Pyribs.EsControlDrv
