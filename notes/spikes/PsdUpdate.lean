import Mathlib.LinearAlgebra.Matrix.PosDef
import Mathlib.Data.Real.StarOrdered
open Matrix
example {n : Type} [Fintype n] [DecidableEq n] (C : Matrix n n ℝ) (hC : C.PosSemidef) (a : ℝ) (ha : 0 ≤ a)
   (v : n → ℝ) (b : ℝ) (hb : 0 ≤ b) : (a • C + b • vecMulVec v (star v)).PosSemidef := by
  apply PosSemidef.add
  · exact hC.smul ha
  · exact (posSemidef_vecMulVec_self_star v).smul hb
