import PyribsProofs.Lemmas.Proximity
import Mathlib.Analysis.Real.Sqrt
/-!
# C14 — ProximityArchive admits by novelty, is append-only, replaces only by competition

Property theorems about `PyribsModel.Proximity` (the model of `_proximity_archive.py`), for every
configuration (`k_neighbors`, threshold, local competition on / off, initial capacity ≥ 1), every
state satisfying the invariant `ProxInv` (= every reachable state, `inv_history`), every batch and
every history of `add` / `clear`.

* admission: `sqrtLo_le`, `le_sqrtHi`, `sqrt_bracket_real`, `novelDec_empty`, `novelDec_sound`
  (over ℝ), `novelDec_sound_k1` (exact), `bracket_sound`, `kNearest_spec`, `nearestSet_spec`,
  `assign_respects_decision`, `admission_sound`;
* the `add_indices` block: `assign_flags_length`, `assign_novel_fresh`;
* invariant: `inv_new`, `inv_add`, `inv_clear`, `inv_history`;
* append-only: `novel_fresh`, `append_only`, `append_only_history`;
* local competition: `replace_iff`, `competitors_nearest`;
* capacity: `growCap_spec`, `capacity_ge_len`, `capacity_add`, `capacity_mono_step`;
* bounds: `bounds_none_iff`, `bounds_after_clear`, `bounds_spec`;
* `nonvacuous`.
-/
namespace Pyribs.C14
open Pyribs Pyribs.Prox Pyribs.Arch Pyribs.Store

/-- The invariant of every reachable `ProximityArchive` state: the underlying archive is elitist
(`learning_rate = 1`, `threshold_min = -inf`), every stored threshold is the stored objective, the
store's occupancy bookkeeping is exact (C13), the entries sit at the indices `0 … len-1` and
nowhere else, and the (positive) capacity holds them. -/
structure ProxInv (p : Prox) : Prop where
  cfg_eq  : p.arch.cfg = ⟨1, none, p.cfg.offset⟩
  thr     : C01.ThrObj p.arch
  wf      : C13.WF p.arch.store
  dense   : ∀ i, (p.arch.cellOf i).isSome = true ↔ i < p.len
  len_le  : p.len ≤ p.capacity
  cap_pos : 0 < p.capacity

theorem ProxInv.elitist {p : Prox} (h : ProxInv p) : C01.Elitist p.arch.cfg := by
  rw [h.cfg_eq]; exact ⟨rfl, rfl⟩

/-- the archive with its store grown for `n` new entries (the `resize` of `ProximityArchive.add`) -/
def grown (p : Prox) (n : Nat) : Arch :=
  { p.arch with store := { p.arch.store with cap := growCap p.capacity (p.len + n) (p.len + n) } }

/-- number of candidates flagged novel (`n_novel_enough`) -/
def nNovel (flags : List Bool) : Nat := (flags.filter id).length

theorem add_ok (p : Prox) (hs : List Hinted) (p' : Prox) (fb : Feedback)
    (h : p.add hs = .ok (p', fb)) :
    ∃ rows, p.assign hs p.len = .ok (rows, fb.novel) ∧
      p' = { p with arch := ((grown p (nNovel fb.novel)).addBatch rows).1 } := by
  unfold Prox.add at h
  simp only [bind, Except.bind] at h
  cases hr : p.assign hs p.len with
  | error e => rw [hr] at h; simp at h
  | ok rf =>
    obtain ⟨rows, flags⟩ := rf
    rw [hr] at h
    simp only [pure, Except.pure, Except.ok.injEq, Prod.mk.injEq] at h
    obtain ⟨h1, h2⟩ := h
    subst h2
    exact ⟨rows, rfl, h1.symm⟩

theorem add_cfg (p : Prox) (hs : List Hinted) (p' : Prox) (fb : Feedback)
    (h : p.add hs = .ok (p', fb)) : p'.cfg = p.cfg := by
  obtain ⟨rows, _, rfl⟩ := add_ok p hs p' fb h
  rfl

theorem commit_store (a : Arch) (ws : List (Nat × Elite)) : (a.commit ws).store = a.store.rawAdd ws := by
  unfold commit; split <;> rfl

theorem cell_of_abs (a : Arch) (ht : C01.ThrObj a) (i : Nat) :
    a.cellOf i = (C01.absCell (a.cellOf i)).map (fun c => c.withThr c.obj) := by
  cases hc : a.cellOf i with
  | none => rfl
  | some e =>
    have := ht i e hc
    simp only [C01.absCell, Option.map_some, Option.some.injEq]
    cases e; simp_all [Elite.toCand, Cand.withThr]

theorem elite_eq_of_thr (w : Elite) (h : w.thr = w.obj) : w = w.toCand.withThr w.toCand.obj := by
  cases w; simp_all [Elite.toCand, Cand.withThr]

theorem bestFrom_none_toList (o : Option Cand) : bestFrom none o.toList = o := by
  cases o <;> simp [bestFrom, better]

theorem count_lt (f : Nat → Bool) (N c : Nat) (hf : ∀ i, f i = true ↔ i < N) :
    ((List.range c).filter f).length = min c N := by
  induction c with
  | zero => simp
  | succ c ih =>
    rw [List.range_succ, List.filter_append, List.length_append, ih]
    by_cases h : c < N
    · have : f c = true := (hf c).mpr h
      simp [this]; omega
    · have : f c = false := by
        cases hfc : f c with
        | false => rfl
        | true => exact absurd ((hf c).mp hfc) h
      simp [this]; omega

/-- the facts `add` establishes about the rows it hands to `Arch.addBatch` -/
theorem assign_tb (p : Prox) (hinv : ProxInv p) (hs : List Hinted) (rows : List (Nat × Cand))
    (flags : List Bool) (h : p.assign hs p.len = .ok (rows, flags)) :
    flags.length = hs.length ∧ rows = mkRows p.cfg.lc hs flags p.len ∧ TB p.cfg.lc hs flags p.len := by
  obtain ⟨h1, h2, h3⟩ := assign_spec p hs p.len rows flags h
  refine ⟨h1, h2, ?_⟩
  intro hlc x hx hf j hj
  obtain ⟨j', hj', hmem⟩ := (h3 x hx).2 hf hlc
  rw [hj] at hj'
  cases hj'
  obtain ⟨e, _, he, _⟩ := (nearestSet_spec p _ j).mp hmem
  exact (hinv.dense j).mp (by simp [he])

/-- every cell after `add`, in the abstraction "token, objective, measures" -/
theorem cells_after (p : Prox) (hinv : ProxInv p) (hs : List Hinted) (rows : List (Nat × Cand))
    (flags : List Bool) (h : p.assign hs p.len = .ok (rows, flags)) (i : Nat) :
    C01.absCell (((grown p (nNovel flags)).addBatch rows).1.cellOf i) =
      if i < p.len then bestFrom (C01.absCell (p.arch.cellOf i)) (competitors p.cfg.lc hs flags i)
      else (novels hs flags)[i - p.len]? := by
  obtain ⟨hlen, hrows, htb⟩ := assign_tb p hinv hs rows flags h
  have he : C01.Elitist (grown p (nNovel flags)).cfg := hinv.elitist
  have ht : C01.ThrObj (grown p (nNovel flags)) := hinv.thr
  have hcap : p.len + nNovel flags ≤ (grown p (nNovel flags)).store.cap :=
    growCap_ge _ _ _ hinv.cap_pos (le_refl _)
  have hcell : ∀ j, (grown p (nNovel flags)).cellOf j = p.arch.cellOf j := fun _ => rfl
  have hnone : ∀ j, ¬ j < p.len → p.arch.cellOf j = none := by
    intro j hj
    cases hc : p.arch.cellOf j with
    | none => rfl
    | some e => exact absurd ((hinv.dense j).mp (by simp [hc])) hj
  by_cases hi : i < (grown p (nNovel flags)).store.cap
  · rw [C01.cell_addBatch _ he ht rows i hi, hcell, hrows]
    by_cases hil : i < p.len
    · rw [if_pos hil, rowsTo_mkRows_lt _ _ _ _ _ hil]
    · rw [if_neg hil, rowsTo_mkRows_ge _ _ _ p.len p.len i htb (le_refl _) (by omega), if_neg hil,
        hnone i hil]
      exact bestFrom_none_toList _
  · rw [cellOf_addBatch, if_neg hi, hcell]
    have hil : ¬ i < p.len := by omega
    rw [if_neg hil, hnone i hil]
    have : (novels hs flags).length ≤ i - p.len := by
      have hn : nNovel flags = (flags.filter id).length := rfl
      rw [novels_length hs flags hlen]; omega
    simp [C01.absCell, List.getElem?_eq_none this]

theorem wf_grown (p : Prox) (hinv : ProxInv p) (n : Nat) : C13.WF (grown p n).store :=
  ⟨hinv.wf.nodup, hinv.wf.mem, fun i hi => lt_of_lt_of_le (hinv.wf.bound i hi) (growCap_ge_cap _ _ _)⟩

/-- occupancy and size after `add` -/
theorem dense_after (p : Prox) (hinv : ProxInv p) (hs : List Hinted) (rows : List (Nat × Cand))
    (flags : List Bool) (h : p.assign hs p.len = .ok (rows, flags)) :
    (∀ i, (((grown p (nNovel flags)).addBatch rows).1.cellOf i).isSome = true ↔ i < p.len + nNovel flags) ∧
    ((grown p (nNovel flags)).addBatch rows).1.store.len = p.len + nNovel flags := by
  obtain ⟨hlen, hrows, htb⟩ := assign_tb p hinv hs rows flags h
  have hcap : p.len + nNovel flags ≤ (grown p (nNovel flags)).store.cap :=
    growCap_ge _ _ _ hinv.cap_pos (le_refl _)
  have hd : ∀ i, (((grown p (nNovel flags)).addBatch rows).1.cellOf i).isSome = true ↔
      i < p.len + nNovel flags := by
    intro i
    have := cells_after p hinv hs rows flags h i
    have hiso : (((grown p (nNovel flags)).addBatch rows).1.cellOf i).isSome =
        (C01.absCell (((grown p (nNovel flags)).addBatch rows).1.cellOf i)).isSome := by
      simp [C01.absCell]
    rw [hiso, this]
    by_cases hil : i < p.len
    · rw [if_pos hil, bestFrom_isSome]
      have : (p.arch.cellOf i).isSome = true := (hinv.dense i).mpr hil
      simp [C01.absCell, this]; omega
    · rw [if_neg hil]
      have hnl := novels_length hs flags hlen
      unfold nNovel
      constructor
      · intro h1
        obtain ⟨c, hc⟩ := Option.isSome_iff_exists.mp h1
        have := (List.getElem?_eq_some_iff.mp hc).1
        omega
      · intro h1
        have : i - p.len < (novels hs flags).length := by omega
        simp [List.getElem?_eq_getElem this]
  refine ⟨hd, ?_⟩
  have hwf : C13.WF ((grown p (nNovel flags)).addBatch rows).1.store := by
    unfold addBatch
    simp only
    rw [commit_store]
    exact C13.wf_rawAdd _ _ (wf_grown p hinv _)
  rw [C13.len_eq_count _ hwf,
    count_lt (fun i => ((grown p (nNovel flags)).addBatch rows).1.store.occupied i)
      (p.len + nNovel flags) _ hd, addBatch_cap]
  omega

/-- **T14.0 `inv_add`** : the invariant is preserved by every accepted `add` -/
theorem inv_add (p : Prox) (hinv : ProxInv p) (hs : List Hinted) (p' : Prox) (fb : Feedback)
    (h : p.add hs = .ok (p', fb)) : ProxInv p' := by
  obtain ⟨rows, hr, rfl⟩ := add_ok p hs p' fb h
  obtain ⟨hd, hl⟩ := dense_after p hinv hs rows fb.novel hr
  have hcap : p.len + nNovel fb.novel ≤ (grown p (nNovel fb.novel)).store.cap :=
    growCap_ge _ _ _ hinv.cap_pos (le_refl _)
  refine ⟨?_, ?_, ?_, ?_, ?_, ?_⟩
  · show ((grown p (nNovel fb.novel)).addBatch rows).1.cfg = _
    rw [addBatch_cfg]; exact hinv.cfg_eq
  · exact C01.thrObj_addBatch (grown p (nNovel fb.novel)) hinv.elitist hinv.thr rows
  · show C13.WF ((grown p (nNovel fb.novel)).addBatch rows).1.store
    unfold addBatch
    simp only
    rw [commit_store]
    exact C13.wf_rawAdd _ _ (wf_grown p hinv _)
  · intro i
    show (((grown p (nNovel fb.novel)).addBatch rows).1.cellOf i).isSome = true ↔
      i < ((grown p (nNovel fb.novel)).addBatch rows).1.store.len
    rw [hl]; exact hd i
  · show ((grown p (nNovel fb.novel)).addBatch rows).1.store.len ≤
      ((grown p (nNovel fb.novel)).addBatch rows).1.store.cap
    rw [hl, addBatch_cap]; exact hcap
  · show 0 < ((grown p (nNovel fb.novel)).addBatch rows).1.store.cap
    rw [addBatch_cap]
    exact lt_of_lt_of_le hinv.cap_pos (growCap_ge_cap _ _ _)

theorem inv_new (cfg : PCfg) (cap : Nat) (hc : 0 < cap) : ProxInv (Prox.new cfg cap) :=
  ⟨rfl, by intro i e h; simp [Prox.new, Arch.new, cellOf, Store.empty] at h, C13.wf_empty cap,
   by intro i; simp [Prox.new, Arch.new, cellOf, Store.empty, Prox.len, Store.len],
   by simp [Prox.new, Arch.new, Store.empty, Prox.len, Store.len], hc⟩

theorem inv_clear (p : Prox) (hinv : ProxInv p) : ProxInv p.clear :=
  ⟨hinv.cfg_eq, by intro i e h; simp [Prox.clear, Arch.clear, cellOf, Store.clear] at h,
   C13.wf_clear _,
   by intro i; simp [Prox.clear, Arch.clear, cellOf, Store.clear, Prox.len, Store.len],
   by simp [Prox.clear, Arch.clear, Store.clear, Prox.len, Store.len], hinv.cap_pos⟩


/-! ## histories -/

inductive Op
  | add (hs : List Hinted)
  | clear

/-- a rejected call (the implementation's hints contradict the model) leaves the state unchanged -/
def addOrSkip (p : Prox) (hs : List Hinted) : Prox :=
  match p.add hs with
  | .ok (p', _) => p'
  | .error _ => p

def step (p : Prox) : Op → Prox
  | .add hs => addOrSkip p hs
  | .clear => p.clear

def run (cfg : PCfg) (cap : Nat) (ops : List Op) : Prox := ops.foldl step (Prox.new cfg cap)

theorem inv_step (p : Prox) (hinv : ProxInv p) (op : Op) : ProxInv (step p op) := by
  cases op with
  | add hs =>
    simp only [step, addOrSkip]
    cases h : p.add hs with
    | error e => exact hinv
    | ok r => obtain ⟨p', fb⟩ := r; exact inv_add p hinv hs p' fb h
  | clear => exact inv_clear p hinv

theorem inv_foldl (p : Prox) (hinv : ProxInv p) (ops : List Op) : ProxInv (ops.foldl step p) := by
  induction ops generalizing p with
  | nil => exact hinv
  | cons op ops ih => exact ih _ (inv_step p hinv op)

/-- **T14.0 `inv_history`** : every reachable state satisfies the invariant -/
theorem inv_history (cfg : PCfg) (cap : Nat) (hc : 0 < cap) (ops : List Op) :
    ProxInv (run cfg cap ops) := inv_foldl _ (inv_new cfg cap hc) ops

/-! ## T14.3 append-only -/

/-- novel candidates get the fresh indices `len, len+1, …` in batch order (with or without local
competition), and the size grows by exactly their number -/
theorem novel_fresh (p : Prox) (hinv : ProxInv p) (hs : List Hinted) (p' : Prox) (fb : Feedback)
    (h : p.add hs = .ok (p', fb)) :
    p'.len = p.len + nNovel fb.novel ∧
    (novels hs fb.novel).length = nNovel fb.novel ∧
    ∀ j c, (novels hs fb.novel)[j]? = some c → p'.arch.cellOf (p.len + j) = some (c.withThr c.obj) := by
  have hinv' := inv_add p hinv hs p' fb h
  obtain ⟨rows, hr, rfl⟩ := add_ok p hs p' fb h
  obtain ⟨hlen, _, _⟩ := assign_tb p hinv hs rows fb.novel hr
  refine ⟨(dense_after p hinv hs rows fb.novel hr).2, novels_length hs fb.novel hlen, ?_⟩
  intro j c hj
  have hc := cells_after p hinv hs rows fb.novel hr (p.len + j)
  rw [if_neg (by omega), Nat.add_sub_cancel_left, hj] at hc
  rw [cell_of_abs _ hinv'.thr (p.len + j)]
  show Option.map _ (C01.absCell (((grown p (nNovel fb.novel)).addBatch rows).1.cellOf (p.len + j))) = _
  rw [hc]; rfl

/-- **T14.3 `append_only`** : without local competition an `add` leaves every earlier entry
identical (capacity growth included), grows the archive by the number of novel candidates, and
the `j`-th novel candidate sits at index `len + j`. -/
theorem append_only (p : Prox) (hinv : ProxInv p) (hlc : p.cfg.lc = false) (hs : List Hinted)
    (p' : Prox) (fb : Feedback) (h : p.add hs = .ok (p', fb)) :
    (∀ i, i < p.len → p'.arch.cellOf i = p.arch.cellOf i) ∧
    p'.len = p.len + nNovel fb.novel ∧
    (novels hs fb.novel).length = nNovel fb.novel ∧
    (∀ j c, (novels hs fb.novel)[j]? = some c → p'.arch.cellOf (p.len + j) = some (c.withThr c.obj)) ∧
    (∀ i, p.len + nNovel fb.novel ≤ i → p'.arch.cellOf i = none) := by
  have hinv' := inv_add p hinv hs p' fb h
  obtain ⟨h1, h2, h3⟩ := novel_fresh p hinv hs p' fb h
  refine ⟨?_, h1, h2, h3, ?_⟩
  · obtain ⟨rows, hr, rfl⟩ := add_ok p hs p' fb h
    intro i hi
    have hc := cells_after p hinv hs rows fb.novel hr i
    rw [if_pos hi, hlc] at hc
    simp only [competitors, Bool.false_eq_true, if_false, bestFrom, List.foldl_nil] at hc
    rw [cell_of_abs _ hinv'.thr i, cell_of_abs _ hinv.thr i]
    show Option.map _ (C01.absCell (((grown p (nNovel fb.novel)).addBatch rows).1.cellOf i)) = _
    rw [hc]
  · intro i hi
    cases hc : p'.arch.cellOf i with
    | none => rfl
    | some e =>
      have := (hinv'.dense i).mp (by simp [hc])
      omega

theorem addOrSkip_cfg (p : Prox) (hs : List Hinted) : (addOrSkip p hs).cfg = p.cfg := by
  unfold addOrSkip
  cases h : p.add hs with
  | error e => rfl
  | ok r => obtain ⟨p', fb⟩ := r; exact add_cfg p hs p' fb h

/-- **T14.3 `append_only_history`** : over any history without `clear` (any number of adds, any
growth), an entry once stored at index `i` stays there unchanged for ever. -/
theorem append_only_history (p : Prox) (hinv : ProxInv p) (hlc : p.cfg.lc = false) (ops : List Op)
    (hnc : ∀ op ∈ ops, op ≠ Op.clear) (i : Nat) (e : Elite) (h : p.arch.cellOf i = some e) :
    (ops.foldl step p).arch.cellOf i = some e := by
  induction ops generalizing p with
  | nil => exact h
  | cons op ops ih =>
    simp only [List.foldl_cons]
    have hnc' : ∀ op ∈ ops, op ≠ Op.clear := fun o ho => hnc o (List.mem_cons_of_mem _ ho)
    cases op with
    | clear => exact absurd rfl (hnc Op.clear List.mem_cons_self)
    | add hs =>
      apply ih (step p (.add hs)) (inv_step p hinv _) (by simp only [step]; rw [addOrSkip_cfg]; exact hlc) hnc'
      simp only [step, addOrSkip]
      cases ha : p.add hs with
      | error e' => exact h
      | ok r =>
        obtain ⟨p', fb⟩ := r
        have hi : i < p.len := (hinv.dense i).mp (by simp [h])
        simp only
        rw [(append_only p hinv hlc hs p' fb ha).1 i hi]; exact h

/-! ## T14.4 replacement by local competition -/

theorem bestFrom_some_eq_self (i : Cand) (cs : List Cand) :
    bestFrom (some i) cs = some i ↔ ∀ c ∈ cs, c.obj ≤ i.obj := by
  rw [bestFrom_some_eq]
  cases hm : argmaxFirst cs with
  | none =>
    have : cs = [] := argmaxFirst_none.mp hm
    subst this; simp
  | some m =>
    obtain ⟨hmem, hub⟩ := argmaxFirst_spec hm
    simp only [Option.some.injEq]
    by_cases h : i.obj < m.obj
    · simp only [h, if_true]
      constructor
      · intro heq; subst heq; exact absurd h (lt_irrefl _)
      · intro hall; exact absurd (hall m hmem) (not_le.mpr h)
    · simp only [h, if_false, true_iff]
      intro c hc; exact le_trans (hub c hc) (not_lt.mp h)

/-- **T14.4 `replace_iff`** : with local competition, the stored entry `e` at index `t` becomes
the strict-improvement fold of `e` over the non-novel candidates whose row targets `t` (batch
order): it is kept iff none of them has a strictly higher objective; otherwise it is replaced by
the best of them, the earliest on ties. -/
theorem replace_iff (p : Prox) (hinv : ProxInv p) (hs : List Hinted) (p' : Prox) (fb : Feedback)
    (h : p.add hs = .ok (p', fb)) (t : Nat) (e : Elite) (he : p.arch.cellOf t = some e) :
    C01.absCell (p'.arch.cellOf t) = bestFrom (some e.toCand) (competitors p.cfg.lc hs fb.novel t) ∧
    (p'.arch.cellOf t = some e ↔ ∀ c ∈ competitors p.cfg.lc hs fb.novel t, c.obj ≤ e.obj) ∧
    (∀ w, p'.arch.cellOf t = some w → w ≠ e →
      w.toCand ∈ competitors p.cfg.lc hs fb.novel t ∧ e.obj < w.obj ∧ w.thr = w.obj ∧
      ∃ pre post, competitors p.cfg.lc hs fb.novel t = pre ++ w.toCand :: post ∧
        (∀ c ∈ pre, c.obj < w.obj) ∧ (∀ c ∈ post, c.obj ≤ w.obj)) := by
  have hinv' := inv_add p hinv hs p' fb h
  have ht : t < p.len := (hinv.dense t).mp (by simp [he])
  have habs : C01.absCell (p'.arch.cellOf t) =
      bestFrom (some e.toCand) (competitors p.cfg.lc hs fb.novel t) := by
    obtain ⟨rows, hr, rfl⟩ := add_ok p hs p' fb h
    have hc := cells_after p hinv hs rows fb.novel hr t
    rw [if_pos ht, he] at hc
    exact hc
  have hee : e = e.toCand.withThr e.toCand.obj := elite_eq_of_thr e (hinv.thr t e he)
  refine ⟨habs, ?_, ?_⟩
  · show _ ↔ ∀ c ∈ competitors p.cfg.lc hs fb.novel t, c.obj ≤ e.toCand.obj
    rw [← bestFrom_some_eq_self, ← habs]
    constructor
    · intro h1; rw [h1]; rfl
    · intro h1
      rw [cell_of_abs _ hinv'.thr t, h1]
      simp only [Option.map_some, Option.some.injEq]
      exact hee.symm
  · intro w hw hne
    have hwt := hinv'.thr t w hw
    rw [hw] at habs
    simp only [C01.absCell, Option.map_some] at habs
    have hwne : w.toCand ≠ e.toCand := by
      intro hc
      apply hne
      have hww : w = w.toCand.withThr w.toCand.obj := elite_eq_of_thr w hwt
      rw [hww, hc, ← hee]
    rw [bestFrom_some_eq] at habs
    simp only [Option.some.injEq] at habs
    cases hm : argmaxFirst (competitors p.cfg.lc hs fb.novel t) with
    | none => rw [hm] at habs; exact absurd habs hwne
    | some m =>
      rw [hm] at habs
      simp only at habs
      by_cases h2 : e.toCand.obj < m.obj
      · simp only [h2, if_true] at habs
        subst habs
        obtain ⟨hmem, hub⟩ := argmaxFirst_spec hm
        obtain ⟨pre, post, hcs, hpre⟩ := argmaxFirst_first hm
        refine ⟨hmem, h2, hwt, pre, post, hcs, hpre, ?_⟩
        intro c hc
        exact hub c (by rw [hcs]; simp [hc])
      · simp only [h2, if_false] at habs
        exact absurd habs hwne

/-! ## T14.6 capacity -/

theorem growCap_spec (cap n fuel : Nat) (hc : 0 < cap) (hf : n ≤ fuel) :
    n ≤ growCap cap n fuel ∧ cap ≤ growCap cap n fuel ∧
    (∃ j, growCap cap n fuel = cap * 2 ^ j) ∧
    (n ≤ cap → growCap cap n fuel = cap) ∧
    (cap < n → growCap cap n fuel < 2 * n) :=
  ⟨growCap_ge cap n fuel hc hf, growCap_ge_cap cap n fuel, growCap_pow cap n fuel,
   growCap_of_le cap n fuel, fun h => growCap_lt cap n fuel hc h hf⟩

theorem capacity_ge_len (p : Prox) (hinv : ProxInv p) : p.len ≤ p.capacity := hinv.len_le

/-- the capacity after an `add` is the old one doubled just often enough to hold the new size;
it never shrinks, and `clear` keeps it -/
theorem capacity_add (p : Prox) (hinv : ProxInv p) (hs : List Hinted) (p' : Prox) (fb : Feedback)
    (h : p.add hs = .ok (p', fb)) :
    p'.capacity = growCap p.capacity p'.len p'.len ∧ p.capacity ≤ p'.capacity ∧
    (∃ j, p'.capacity = p.capacity * 2 ^ j) ∧
    (p'.len ≤ p.capacity → p'.capacity = p.capacity) ∧
    (p.capacity < p'.len → p'.capacity < 2 * p'.len) := by
  have hl := (novel_fresh p hinv hs p' fb h).1
  obtain ⟨rows, hr, rfl⟩ := add_ok p hs p' fb h
  have hcap : Prox.capacity { p with arch := ((grown p (nNovel fb.novel)).addBatch rows).1 } =
      growCap p.capacity (p.len + nNovel fb.novel) (p.len + nNovel fb.novel) := by
    show ((grown p (nNovel fb.novel)).addBatch rows).1.store.cap = _
    rw [addBatch_cap]; rfl
  rw [hl, hcap]
  obtain ⟨_, h2, h3, h4, h5⟩ := growCap_spec p.capacity (p.len + nNovel fb.novel)
    (p.len + nNovel fb.novel) hinv.cap_pos (le_refl _)
  exact ⟨rfl, h2, h3, h4, h5⟩

theorem capacity_clear (p : Prox) : p.clear.capacity = p.capacity := rfl

theorem capacity_mono_step (p : Prox) (hinv : ProxInv p) (op : Op) : p.capacity ≤ (step p op).capacity := by
  cases op with
  | clear => exact le_refl _
  | add hs =>
    simp only [step, addOrSkip]
    cases h : p.add hs with
    | error e => exact le_refl _
    | ok r => obtain ⟨p', fb⟩ := r; exact (capacity_add p hinv hs p' fb h).2.1


/-! ## T14.5 bounds -/

theorem bounds_none_iff (p : Prox) (dim : Nat) : p.bounds dim = none ↔ p.len = 0 := by
  unfold Prox.bounds
  split <;> simp [*]

theorem bounds_after_clear (p : Prox) (dim : Nat) : p.clear.bounds dim = none :=
  (bounds_none_iff _ _).mpr rfl

/-- the measure column `k` of the current entries -/
def column (p : Prox) (k : Nat) : List Rat := p.entries.map (fun x => x.2.meas.getD k 0)

theorem mem_column (p : Prox) (hinv : ProxInv p) (k : Nat) (x : Rat) :
    x ∈ column p k ↔ ∃ i e, p.arch.cellOf i = some e ∧ x = e.meas.getD k 0 := by
  unfold column
  simp only [List.mem_map, Prod.exists]
  constructor
  · rintro ⟨i, e, hie, rfl⟩
    exact ⟨i, e, ((mem_entries p i e).mp hie).2, rfl⟩
  · rintro ⟨i, e, he, rfl⟩
    have hi : i < p.len := (hinv.dense i).mp (by simp [he])
    exact ⟨i, e, (mem_entries p i e).mpr ⟨lt_of_lt_of_le hi hinv.len_le, he⟩, rfl⟩

/-- **T14.5 `bounds_spec`** : the reported bounds are, coordinate by coordinate, the minimum and
the maximum over the *current* entries: they bound every stored entry and both are attained. -/
theorem bounds_spec (p : Prox) (hinv : ProxInv p) (dim : Nat) (lo hi : List Rat)
    (h : p.bounds dim = some (lo, hi)) :
    lo.length = dim ∧ hi.length = dim ∧
    ∀ k, k < dim → ∃ l u, lo[k]? = some l ∧ hi[k]? = some u ∧
      (∀ i e, p.arch.cellOf i = some e → l ≤ e.meas.getD k 0 ∧ e.meas.getD k 0 ≤ u) ∧
      (∃ i e, p.arch.cellOf i = some e ∧ l = e.meas.getD k 0) ∧
      (∃ i e, p.arch.cellOf i = some e ∧ u = e.meas.getD k 0) := by
  unfold Prox.bounds at h
  split at h
  · simp at h
  · rename_i hne
    simp only [Option.some.injEq, Prod.mk.injEq] at h
    obtain ⟨rfl, rfl⟩ := h
    refine ⟨by simp, by simp, ?_⟩
    intro k hk
    have hcol : column p k ≠ [] := by
      have h0 : 0 < p.len := Nat.pos_of_ne_zero hne
      obtain ⟨e, he⟩ := Option.isSome_iff_exists.mp ((hinv.dense 0).mpr h0)
      intro hc
      have : e.meas.getD k 0 ∈ column p k := (mem_column p hinv k _).mpr ⟨0, e, he, rfl⟩
      rw [hc] at this; simp at this
    obtain ⟨l, hl, hlm, hlb⟩ := colMin_spec _ hcol
    obtain ⟨u, hu, hum, hub⟩ := colMax_spec _ hcol
    refine ⟨l, u, ?_, ?_, ?_, ?_, ?_⟩
    · simp only [List.map_map, List.getElem?_map, List.getElem?_range hk, Option.map_some,
        Function.comp]
      show some ((colMin (column p k)).getD 0) = some l
      rw [hl]; rfl
    · simp only [List.map_map, List.getElem?_map, List.getElem?_range hk, Option.map_some,
        Function.comp]
      show some ((colMax (column p k)).getD 0) = some u
      rw [hu]; rfl
    · intro i e he
      have : e.meas.getD k 0 ∈ column p k := (mem_column p hinv k _).mpr ⟨i, e, he, rfl⟩
      exact ⟨hlb _ this, hub _ this⟩
    · exact (mem_column p hinv k l).mp hlm
    · exact (mem_column p hinv k u).mp hum

/-! ## T14.1 admission by novelty -/

/-- **`sqrtLo_le`** : `sqrtLo x p` is a non-negative rational lower bound of `√x` -/
theorem sqrtLo_le (x : Rat) (hx : 0 ≤ x) (p : Nat) : 0 ≤ sqrtLo x p ∧ (sqrtLo x p) ^ 2 ≤ x :=
  ⟨sqrtLo_nonneg x p, sqrtLo_sq_le x hx p⟩

/-- **`le_sqrtHi`** : `sqrtHi x p` is a rational upper bound of `√x`, and the bracket is ordered -/
theorem le_sqrtHi (x : Rat) (hx : 0 ≤ x) (p : Nat) :
    0 ≤ sqrtHi x p ∧ x ≤ (sqrtHi x p) ^ 2 ∧ sqrtLo x p ≤ sqrtHi x p :=
  ⟨sqrtHi_nonneg x p, le_sqrtHi_sq x hx p, sqrtLo_le_sqrtHi x p⟩

theorem dist2_nonneg (a b : List Rat) : 0 ≤ dist2 a b := by
  induction a generalizing b with
  | nil => simp [dist2]
  | cons x xs ih =>
    cases b with
    | nil => simp [dist2]
    | cons y ys =>
      simp only [dist2]
      exact add_nonneg (mul_self_nonneg _) (ih ys)

/-- every neighbour carries the exact squared distance of a stored entry -/
theorem mem_kNearest (p : Prox) (m : List Rat) (n : Nb) (h : n ∈ p.kNearest m) :
    ∃ e, n.idx < p.capacity ∧ p.arch.cellOf n.idx = some e ∧ n.d2 = dist2 e.meas m ∧ n.obj = e.obj := by
  have h1 : n ∈ sortNb (p.neighbours m) := List.mem_of_mem_take h
  obtain ⟨i, e, hi, he, rfl⟩ := (mem_neighbours p m n).mp ((sortNb_perm _).mem_iff.mp h1)
  exact ⟨e, hi, he, rfl, rfl⟩

theorem kNearest_d2_nonneg (p : Prox) (m : List Rat) (n : Nb) (h : n ∈ p.kNearest m) : 0 ≤ n.d2 := by
  obtain ⟨e, _, _, hd, _⟩ := mem_kNearest p m n h
  rw [hd]; exact dist2_nonneg _ _

theorem novelDec_empty (p : Prox) (m : List Rat) (h : p.len = 0) : p.novelDec m = some true := by
  simp [novelDec, h]

/-- the bracket sums -/
def loSum (nb : List Nb) : Rat := (nb.map (fun n => sqrtLo n.d2 sqrtPrec)).sum
def hiSum (nb : List Nb) : Rat := (nb.map (fun n => sqrtHi n.d2 sqrtPrec)).sum

theorem novelDec_eq (p : Prox) (m : List Rat) (h : p.len ≠ 0) :
    p.novelDec m =
      if p.cfg.nu ≤ loSum (p.kNearest m) / ((p.kNearest m).length : Rat) then some true
      else if hiSum (p.kNearest m) / ((p.kNearest m).length : Rat) < p.cfg.nu then some false
      else none := by
  simp only [novelDec, h, if_false, noveltyBracket, loSum, hiSum]
  rfl


theorem dec_cases (ν lo hi : Rat) (d : Option Bool)
    (h : d = if ν ≤ lo then some true else if hi < ν then some false else none) :
    (d = some true → ν ≤ lo) ∧ (d = some false → hi < ν) := by
  subst h
  by_cases h1 : ν ≤ lo
  · simp [h1]
  · by_cases h2 : hi < ν
    · simp [h1, h2]
    · simp [h1, h2]

/-- what a decision says about the rational bracket of the novelty -/
theorem novelDec_bracket (p : Prox) (m : List Rat) (hne : p.len ≠ 0) :
    (p.novelDec m = some true → p.cfg.nu ≤ loSum (p.kNearest m) / ((p.kNearest m).length : Rat)) ∧
    (p.novelDec m = some false → hiSum (p.kNearest m) / ((p.kNearest m).length : Rat) < p.cfg.nu) :=
  dec_cases _ _ _ _ (novelDec_eq p m hne)

theorem loSum_single (prec : Nat) (n : Nb) :
    ([n].map (fun n => sqrtLo n.d2 prec)).sum / (([n] : List Nb).length : Rat) = sqrtLo n.d2 prec := by
  simp

theorem hiSum_single (prec : Nat) (n : Nb) :
    ([n].map (fun n => sqrtHi n.d2 prec)).sum / (([n] : List Nb).length : Rat) = sqrtHi n.d2 prec := by
  simp

/-- **`novelDec_sound_k1`** : for one nearest entry `n` (`k_neighbors = 1`, or a one-entry archive)
the decision is exact, by comparing squares: admitted ⇒ `ν² ≤ d²`, rejected ⇒ `d² < ν²`. -/
theorem novelDec_sound_k1 (p : Prox) (m : List Rat) (n : Nb) (hne : p.len ≠ 0) (hnu : 0 ≤ p.cfg.nu)
    (hk : p.kNearest m = [n]) :
    (p.novelDec m = some true → p.cfg.nu ^ 2 ≤ n.d2) ∧
    (p.novelDec m = some false → n.d2 < p.cfg.nu ^ 2) := by
  have hd : 0 ≤ n.d2 := kNearest_d2_nonneg p m n (by rw [hk]; exact List.mem_cons_self)
  obtain ⟨h1, h2⟩ := novelDec_bracket p m hne
  rw [hk] at h1 h2
  have hlo : loSum [n] / (([n] : List Nb).length : Rat) = sqrtLo n.d2 sqrtPrec := loSum_single sqrtPrec n
  have hhi : hiSum [n] / (([n] : List Nb).length : Rat) = sqrtHi n.d2 sqrtPrec := hiSum_single sqrtPrec n
  rw [hlo] at h1
  rw [hhi] at h2
  obtain ⟨hl0, hl⟩ := sqrtLo_le n.d2 hd sqrtPrec
  obtain ⟨hh0, hh, _⟩ := le_sqrtHi n.d2 hd sqrtPrec
  constructor
  · intro h
    calc p.cfg.nu ^ 2 ≤ (sqrtLo n.d2 sqrtPrec) ^ 2 := pow_le_pow_left₀ hnu (h1 h) 2
      _ ≤ n.d2 := hl
  · intro h
    calc n.d2 ≤ (sqrtHi n.d2 sqrtPrec) ^ 2 := hh
      _ < p.cfg.nu ^ 2 := pow_lt_pow_left₀ (h2 h) hh0 (by norm_num)

/-! ## the `add_indices` block -/

/-- one admission flag per candidate -/
theorem assign_flags_length (p : Prox) (hs : List Hinted) (next : Nat) (rows : List (Nat × Cand))
    (flags : List Bool) (h : p.assign hs next = .ok (rows, flags)) : flags.length = hs.length :=
  (assign_spec p hs next rows flags h).1

theorem admitDec_decided (p : Prox) (hd : Hinted) (f : Bool) (h : p.admitDec hd = .ok f) :
    (∀ b, p.novelDec hd.c.meas = some b → f = b) ∧ (p.novelDec hd.c.meas = none → f = hd.novel) := by
  unfold admitDec at h
  cases hn : p.novelDec hd.c.meas with
  | none => rw [hn] at h; simp only [Except.ok.injEq] at h; simp [h]
  | some b =>
    rw [hn] at h
    simp only at h
    split at h
    · simp only [Except.ok.injEq] at h; simp [h]
    · simp at h

/-- **`assign_respects_decision`** : a candidate becomes a new entry iff it is novel: whenever the
model decides (`novelDec = some b`) the candidate's flag is `b`; only inside the bracket is the
implementation's own decision taken. -/
theorem assign_respects_decision (p : Prox) (hs : List Hinted) (next : Nat)
    (rows : List (Nat × Cand)) (flags : List Bool) (h : p.assign hs next = .ok (rows, flags))
    (k : Nat) (hd : Hinted) (hk : hs[k]? = some hd) :
    ∃ f, flags[k]? = some f ∧ (∀ b, p.novelDec hd.c.meas = some b → f = b) ∧
      (p.novelDec hd.c.meas = none → f = hd.novel) := by
  obtain ⟨hlen, _, hch⟩ := assign_spec p hs next rows flags h
  have hk' : k < flags.length := by rw [hlen]; exact (List.getElem?_eq_some_iff.mp hk).1
  refine ⟨flags[k], List.getElem?_eq_getElem hk', ?_⟩
  have hmem : (hd, flags[k]) ∈ hs.zip flags :=
    List.mem_iff_getElem?.mpr ⟨k, List.getElem?_zip_eq_some.mpr ⟨hk, List.getElem?_eq_getElem hk'⟩⟩
  exact admitDec_decided p hd _ (hch _ hmem).1

/-- every candidate of an empty archive is novel -/
theorem assign_empty_all_novel (p : Prox) (hs : List Hinted) (next : Nat)
    (rows : List (Nat × Cand)) (flags : List Bool) (h : p.assign hs next = .ok (rows, flags))
    (he : p.len = 0) : flags = List.replicate hs.length true := by
  apply List.ext_getElem?
  intro k
  by_cases hk : k < hs.length
  · obtain ⟨f, hf, hb, _⟩ := assign_respects_decision p hs next rows flags h k hs[k]
      (List.getElem?_eq_getElem hk)
    rw [hf, hb true (novelDec_empty p _ he)]
    simp [hk]
  · have hl := assign_flags_length p hs next rows flags h
    rw [List.getElem?_eq_none (by omega), List.getElem?_eq_none (by simp; omega)]

theorem mkRows_noLC (hs : List Hinted) (fs : List Bool) (next : Nat) :
    mkRows false hs fs next = (List.range' next (novels hs fs).length).zip (novels hs fs) := by
  induction hs generalizing fs next with
  | nil => simp [mkRows, novels]
  | cons h0 hs ih =>
    cases fs with
    | nil => simp [mkRows, novels]
    | cons f fs =>
      cases f with
      | true =>
        have hnov : novels (h0 :: hs) (true :: fs) = h0.c :: novels hs fs := by simp [novels]
        simp only [mkRows, hnov, List.length_cons, List.range'_succ, List.zip_cons_cons]
        rw [ih fs (next + 1)]
      | false =>
        have hnov : novels (h0 :: hs) (false :: fs) = novels hs fs := by simp [novels]
        simp only [mkRows, hnov, Bool.false_eq_true, if_false]
        exact ih fs next

theorem mkRows_LC (hs : List Hinted) (fs : List Bool) (next : Nat) (hlen : fs.length = hs.length)
    (hnear : ∀ x ∈ hs.zip fs, x.2 = false → ∃ j, x.1.near = some j) :
    (mkRows true hs fs next).map (·.2) = hs.map (·.c) ∧
    (((mkRows true hs fs next).zip fs).filter (fun x => x.2)).map (·.1.1) =
      List.range' next (novels hs fs).length ∧
    ∀ x ∈ (mkRows true hs fs next).zip fs, x.2 = false →
      ∃ hd, (hd, false) ∈ hs.zip fs ∧ hd.c = x.1.2 ∧ hd.near = some x.1.1 := by
  induction hs generalizing fs next with
  | nil => cases fs <;> simp_all [mkRows, novels]
  | cons h0 hs ih =>
    cases fs with
    | nil => simp at hlen
    | cons f fs =>
      have hlen' : fs.length = hs.length := by simpa using hlen
      have hnear' : ∀ x ∈ hs.zip fs, x.2 = false → ∃ j, x.1.near = some j :=
        fun x hx => hnear x (by simp [hx])
      cases f with
      | true =>
        obtain ⟨h1, h2, h3⟩ := ih fs (next + 1) hlen' hnear'
        have hnov : novels (h0 :: hs) (true :: fs) = h0.c :: novels hs fs := by simp [novels]
        refine ⟨by simp [mkRows, h1], ?_, ?_⟩
        · simp only [mkRows, hnov, List.zip_cons_cons, List.filter_cons, if_true, List.map_cons,
            List.length_cons, List.range'_succ]
          rw [h2]
        · intro x hx hf
          simp only [mkRows, List.zip_cons_cons, List.mem_cons] at hx
          rcases hx with rfl | hx
          · simp at hf
          · obtain ⟨hd, hm, hc, hn⟩ := h3 x hx hf
            exact ⟨hd, by simp [hm], hc, hn⟩
      | false =>
        obtain ⟨h1, h2, h3⟩ := ih fs next hlen' hnear'
        have hnov : novels (h0 :: hs) (false :: fs) = novels hs fs := by simp [novels]
        obtain ⟨j, hj⟩ := hnear (h0, false) (by simp) rfl
        have hj : h0.near = some j := hj
        have hmk : mkRows true (h0 :: hs) (false :: fs) next = (j, h0.c) :: mkRows true hs fs next := by
          simp [mkRows, hj]
        rw [hmk]
        refine ⟨by simp [h1], ?_, ?_⟩
        · simp only [hnov, List.zip_cons_cons, List.filter_cons, Bool.false_eq_true, if_false]
          exact h2
        · intro x hx hf
          simp only [List.zip_cons_cons, List.mem_cons] at hx
          rcases hx with rfl | hx
          · exact ⟨h0, by simp, rfl, hj⟩
          · obtain ⟨hd, hm, hc, hn⟩ := h3 x hx hf
            exact ⟨hd, by simp [hm], hc, hn⟩

/-- **`assign_novel_fresh`** : the rows handed to the store.  Without local competition they are
exactly the novel candidates, carrying the fresh indices `next, next+1, …` in batch order; with
local competition there is one row per candidate (in batch order), the rows of the novel ones
carry `next, next+1, …` in batch order and the row of every non-novel candidate targets an
index of its `nearestSet` (a stored entry at minimum distance). -/
theorem assign_novel_fresh (p : Prox) (hs : List Hinted) (next : Nat) (rows : List (Nat × Cand))
    (flags : List Bool) (h : p.assign hs next = .ok (rows, flags)) :
    (novels hs flags).length = nNovel flags ∧
    (p.cfg.lc = false → rows = (List.range' next (nNovel flags)).zip (novels hs flags)) ∧
    (p.cfg.lc = true →
      rows.map (·.2) = hs.map (·.c) ∧
      ((rows.zip flags).filter (fun x => x.2)).map (·.1.1) = List.range' next (nNovel flags) ∧
      ∀ x ∈ rows.zip flags, x.2 = false → x.1.1 ∈ p.nearestSet x.1.2.meas) := by
  obtain ⟨hlen, hrows, hch⟩ := assign_spec p hs next rows flags h
  have hn := novels_length hs flags hlen
  refine ⟨hn, ?_, ?_⟩
  · intro hlc
    rw [hrows, hlc, mkRows_noLC, hn]; rfl
  · intro hlc
    have hnear : ∀ x ∈ hs.zip flags, x.2 = false → ∃ j, x.1.near = some j := by
      intro x hx hf
      obtain ⟨j, hj, _⟩ := (hch x hx).2 hf hlc
      exact ⟨j, hj⟩
    obtain ⟨h1, h2, h3⟩ := mkRows_LC hs flags next hlen hnear
    rw [hrows, hlc]
    refine ⟨h1, by rw [h2, hn]; rfl, ?_⟩
    intro x hx hf
    obtain ⟨hd, hm, hc, hnr⟩ := h3 x hx hf
    obtain ⟨j, hj, hmem⟩ := (hch (hd, false) hm).2 rfl hlc
    rw [hnr] at hj
    cases hj
    rw [← hc]; exact hmem


/-! ## the bracket over ℝ -/

/-- **`sqrt_bracket_real`** : `[sqrtLo x p, sqrtHi x p]` brackets the real square root -/
theorem sqrt_bracket_real (x : Rat) (hx : 0 ≤ x) (p : Nat) :
    ((sqrtLo x p : Rat) : ℝ) ≤ Real.sqrt (x : ℝ) ∧ Real.sqrt (x : ℝ) ≤ ((sqrtHi x p : Rat) : ℝ) := by
  constructor
  · have h : ((sqrtLo x p : Rat) : ℝ) ^ 2 ≤ (x : ℝ) := by exact_mod_cast sqrtLo_sq_le x hx p
    exact (le_abs_self _).trans (Real.abs_le_sqrt h)
  · have h0 : (0 : ℝ) ≤ ((sqrtHi x p : Rat) : ℝ) := by exact_mod_cast sqrtHi_nonneg x p
    have h : (x : ℝ) ≤ ((sqrtHi x p : Rat) : ℝ) ^ 2 := by exact_mod_cast le_sqrtHi_sq x hx p
    exact Real.sqrt_le_iff.mpr ⟨h0, h⟩

theorem cast_sum_le (nb : List Nb) (f : Nb → Rat) (g : Nb → ℝ) (h : ∀ n ∈ nb, ((f n : Rat) : ℝ) ≤ g n) :
    (((nb.map f).sum : Rat) : ℝ) ≤ (nb.map g).sum := by
  induction nb with
  | nil => simp
  | cons n nb ih =>
    simp only [List.map_cons, List.sum_cons, Rat.cast_add]
    exact add_le_add (h n List.mem_cons_self) (ih (fun x hx => h x (List.mem_cons_of_mem _ hx)))

theorem le_cast_sum (nb : List Nb) (f : Nb → Rat) (g : Nb → ℝ) (h : ∀ n ∈ nb, g n ≤ ((f n : Rat) : ℝ)) :
    (nb.map g).sum ≤ (((nb.map f).sum : Rat) : ℝ) := by
  induction nb with
  | nil => simp
  | cons n nb ih =>
    simp only [List.map_cons, List.sum_cons, Rat.cast_add]
    exact add_le_add (h n List.mem_cons_self) (ih (fun x hx => h x (List.mem_cons_of_mem _ hx)))

/-- mean Euclidean distance over a list of neighbours (`d2` = exact squared distance) -/
noncomputable def realMean (nb : List Nb) : ℝ :=
  (nb.map (fun n => Real.sqrt (n.d2 : ℝ))).sum / (nb.length : ℝ)

/-- the rational bracket `[loSum / len, hiSum / len]` contains the real mean distance -/
theorem bracket_real (nb : List Nb) (h : ∀ n ∈ nb, 0 ≤ n.d2) :
    ((loSum nb / (nb.length : Rat) : Rat) : ℝ) ≤ realMean nb ∧
    realMean nb ≤ ((hiSum nb / (nb.length : Rat) : Rat) : ℝ) := by
  have hl : (0 : ℝ) ≤ (nb.length : ℝ) := Nat.cast_nonneg _
  unfold realMean loSum hiSum
  constructor
  · rw [Rat.cast_div, Rat.cast_natCast]
    exact div_le_div_of_nonneg_right
      (cast_sum_le nb _ _ (fun n hn => (sqrt_bracket_real n.d2 (h n hn) sqrtPrec).1)) hl
  · rw [Rat.cast_div, Rat.cast_natCast]
    exact div_le_div_of_nonneg_right
      (le_cast_sum nb _ _ (fun n hn => (sqrt_bracket_real n.d2 (h n hn) sqrtPrec).2)) hl

/-- list-independent form: a threshold below the lower bracket is below the real mean, one above
the upper bracket is above it -/
theorem bracket_sound (nb : List Nb) (h : ∀ n ∈ nb, 0 ≤ n.d2) (ν : Rat) :
    (ν ≤ loSum nb / (nb.length : Rat) → (ν : ℝ) ≤ realMean nb) ∧
    (hiSum nb / (nb.length : Rat) < ν → realMean nb < (ν : ℝ)) := by
  obtain ⟨h1, h2⟩ := bracket_real nb h
  constructor
  · intro hν
    have : (ν : ℝ) ≤ ((loSum nb / (nb.length : Rat) : Rat) : ℝ) := by exact_mod_cast hν
    exact le_trans this h1
  · intro hν
    have : ((hiSum nb / (nb.length : Rat) : Rat) : ℝ) < (ν : ℝ) := by exact_mod_cast hν
    exact lt_of_le_of_lt h2 this

/-- the real-valued novelty: mean Euclidean distance to the `min k n` nearest stored entries -/
noncomputable def realNovelty (p : Prox) (m : List Rat) : ℝ := realMean (p.kNearest m)

/-- **`novelDec_sound`** : soundness of the admission decision against the real-valued novelty
(mean Euclidean distance to the `min k n` nearest stored entries, judged on the archive before
the call): `some true` ⇒ `ν ≤ novelty`, `some false` ⇒ `novelty < ν`. -/
theorem novelDec_sound (p : Prox) (m : List Rat) (hne : p.len ≠ 0) :
    (p.novelDec m = some true → (p.cfg.nu : ℝ) ≤ realNovelty p m) ∧
    (p.novelDec m = some false → realNovelty p m < (p.cfg.nu : ℝ)) := by
  obtain ⟨h1, h2⟩ := novelDec_bracket p m hne
  obtain ⟨h3, h4⟩ := bracket_sound (p.kNearest m) (kNearest_d2_nonneg p m) p.cfg.nu
  exact ⟨fun h => h3 (h1 h), fun h => h4 (h2 h)⟩

/-- **T14.1 `admission_sound`** : for every candidate of an accepted `add`: it is flagged novel
(= becomes a new entry, `novel_fresh`) when the archive is empty; otherwise a candidate flagged
novel has real novelty `≥ ν` and one flagged non-novel has real novelty `< ν`, unless the
threshold lies inside the rational bracket of the novelty (`novelDec = none`). -/
theorem admission_sound (p : Prox) (hs : List Hinted) (p' : Prox) (fb : Feedback)
    (h : p.add hs = .ok (p', fb)) (k : Nat) (hd : Hinted) (hk : hs[k]? = some hd) :
    ∃ f, fb.novel[k]? = some f ∧ (p.len = 0 → f = true) ∧
      (p.len ≠ 0 →
        (f = true → (p.cfg.nu : ℝ) ≤ realNovelty p hd.c.meas ∨ p.novelDec hd.c.meas = none) ∧
        (f = false → realNovelty p hd.c.meas < (p.cfg.nu : ℝ) ∨ p.novelDec hd.c.meas = none)) := by
  obtain ⟨rows, hr, _⟩ := add_ok p hs p' fb h
  obtain ⟨f, hf, hb, _⟩ := assign_respects_decision p hs p.len rows fb.novel hr k hd hk
  refine ⟨f, hf, fun he => hb true (novelDec_empty p _ he), ?_⟩
  intro hne
  obtain ⟨h1, h2⟩ := novelDec_sound p hd.c.meas hne
  constructor
  · intro hft
    cases hn : p.novelDec hd.c.meas with
    | none => exact Or.inr rfl
    | some b =>
      have := hb b hn
      rw [hft] at this; subst this
      exact Or.inl (h1 hn)
  · intro hff
    cases hn : p.novelDec hd.c.meas with
    | none => exact Or.inr rfl
    | some b =>
      have := hb b hn
      rw [hff] at this; subst this
      exact Or.inl (h2 hn)

/-- every competitor for the stored entry `t` is a non-novel candidate of the batch whose
nearest stored entry (minimum exact distance) is `t` -/
theorem competitors_nearest (p : Prox) (hs : List Hinted) (p' : Prox) (fb : Feedback)
    (h : p.add hs = .ok (p', fb)) (t : Nat) (c : Cand)
    (hc : c ∈ competitors p.cfg.lc hs fb.novel t) :
    p.cfg.lc = true ∧ t ∈ p.nearestSet c.meas ∧
      ∃ hd, (hd, false) ∈ hs.zip fb.novel ∧ hd.c = c ∧ hd.near = some t := by
  obtain ⟨rows, hr, _⟩ := add_ok p hs p' fb h
  obtain ⟨_, _, hch⟩ := assign_spec p hs p.len rows fb.novel hr
  unfold competitors at hc
  by_cases hlc : p.cfg.lc = true
  · rw [if_pos hlc] at hc
    simp only [List.mem_map, List.mem_filter, Bool.and_eq_true, Bool.not_eq_true',
      beq_iff_eq] at hc
    obtain ⟨x, ⟨hx, hxf, hxn⟩, rfl⟩ := hc
    obtain ⟨j, hj, hmem⟩ := (hch x hx).2 hxf hlc
    rw [hxn] at hj
    cases hj
    refine ⟨hlc, hmem, x.1, ?_, rfl, hxn⟩
    have : x = (x.1, false) := by rw [← hxf]
    rw [← this]; exact hx
  · rw [if_neg hlc] at hc; simp at hc

/-! ## non-vacuity -/

/-- what is observed of a state: tokens at indices `0..4`, size, capacity -/
def obs (p : Prox) : List (Option Nat) × Nat × Nat :=
  ((List.range 5).map (fun i => (p.arch.cellOf i).map (·.tok)), p.len, p.capacity)

def flagsOf (p : Prox) (hs : List Hinted) : Option (List Bool) :=
  match p.add hs with
  | .ok (_, fb) => some fb.novel
  | .error _ => none

def cfgA : PCfg := ⟨1, 5, false, 0⟩
def cfgB : PCfg := ⟨1, 5, true, 0⟩
def batchA1 : List Hinted := [⟨⟨1, 0, [0, 0]⟩, true, none⟩, ⟨⟨2, 0, [0, 1]⟩, true, none⟩]
def batchA2 : List Hinted := [⟨⟨3, 0, [-3, -4]⟩, true, none⟩, ⟨⟨4, 7, [0, 2]⟩, false, some 1⟩]
def batchB1 : List Hinted := [⟨⟨1, 1, [0, 0]⟩, true, none⟩, ⟨⟨2, 1, [0, 10]⟩, true, none⟩]
def batchB2 : List Hinted :=
  [⟨⟨3, 5, [0, 1]⟩, false, some 0⟩, ⟨⟨4, 1, [0, 9]⟩, false, some 1⟩, ⟨⟨5, 0, [-3, -4]⟩, true, none⟩,
   ⟨⟨6, 4, [1, 0]⟩, false, some 0⟩]

theorem nonvacuous :
    -- no local competition, k = 1, ν = 5, initial capacity 1
    obs (run cfgA 1 [.add batchA1]) = ([some 1, some 2, none, none, none], 2, 2) ∧
    flagsOf (run cfgA 1 []) batchA1 = some [true, true] ∧
    (run cfgA 1 [.add batchA1]).novelDec [-3, -4] = some true ∧
    (run cfgA 1 [.add batchA1]).kNearest [-3, -4] = [⟨25, 0, 0⟩] ∧
    (run cfgA 1 [.add batchA1]).novelDec [0, 2] = some false ∧
    flagsOf (run cfgA 1 [.add batchA1]) batchA2 = some [true, false] ∧
    obs (run cfgA 1 [.add batchA1, .add batchA2]) = ([some 1, some 2, some 3, none, none], 3, 4) ∧
    (run cfgA 1 [.add batchA1, .add batchA2]).bounds 2 = some ([-3, -4], [0, 1]) ∧
    (run cfgA 1 [.add batchA1, .add batchA2, .clear]).bounds 2 = none ∧
    obs (run cfgA 1 [.add batchA1, .add batchA2, .clear]) = ([none, none, none, none, none], 0, 4) ∧
    -- local competition
    flagsOf (run cfgB 1 [.add batchB1]) batchB2 = some [false, false, true, false] ∧
    obs (run cfgB 1 [.add batchB1, .add batchB2]) = ([some 3, some 2, some 5, none, none], 3, 4) ∧
    -- both final states satisfy the hypotheses of the theorems above
    ProxInv (run cfgA 1 [.add batchA1, .add batchA2]) ∧ ProxInv (run cfgB 1 [.add batchB1, .add batchB2]) := by
  refine ⟨?_, ?_, ?_, ?_, ?_, ?_, ?_, ?_, ?_, ?_, ?_, ?_, inv_history _ _ (by decide) _,
    inv_history _ _ (by decide) _⟩ <;> decide +kernel

end Pyribs.C14
