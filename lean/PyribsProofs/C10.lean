import PyribsModel.EsControl
/-!
# C10 — evolution-strategy emitters select parents and restart exactly as configured

Theorems about `PyribsModel.EsControl` (the model of the control block of
`EvolutionStrategyEmitter.tell` / `GradientArborescenceEmitter.tell`), for every
configuration (both emitters, both selection rules, every restart rule including
every integer `N`, every batch size), every ranker and convergence test (they
are arbitrary functions inside `TellIn`), every feedback vector and every
history of `tell_dqd` / `ask` / `tell` calls.  No bound on anything.

* T10.1 `parents_spec` (+ `parents_filter`, `parents_mu`)
* T10.2 `restart_iff` (+ one corollary per rule, `counters_step`, `tell_ok_iff`,
        `tell_err_state`)
* T10.3 `history_counts`, `history_counts_ok`, `every_count`
* T10.4 `tell_acts`, `restart_action`, `restart_recentres`, `restart_block_last`,
        `restart_action_es`, `restart_action_gae`, `no_restart_no_action`, `err_no_reset`
* T10.5 `handoff`, `gather_spec`, `lastAsk_history`, `handoff_history`
* construction: `parseRule_spec`, `mkCfg_ok_iff`
* `nonvacuous`, `nonvacuous_gae`
-/
namespace Pyribs.C10
open Pyribs EsControl

variable {ν : Type}

/-! ## auxiliary facts about the code-shaped pieces -/

theorem newSols_eq_countP (st : List Nat) : newSols st = st.countP (· ≠ 0) := by
  simp [newSols, List.countP_eq_length_filter]

theorem newSols_le (st : List Nat) : newSols st ≤ st.length := by
  simp [newSols, List.length_filter_le]

theorem newSols_eq_zero_iff (st : List Nat) : newSols st = 0 ↔ ∀ x ∈ st, x = 0 := by
  simp [newSols, List.filter_eq_nil_iff]

theorem sampleElite_mem {arch : List Nat} {rnd e : Nat} (h : sampleElite arch rnd = some e) :
    e ∈ arch := by
  unfold sampleElite at h
  split at h
  · simp only [Option.some.injEq] at h
    subst h
    exact List.getElem_mem _
  · cases h

theorem sampleElite_isSome_iff (arch : List Nat) (rnd : Nat) :
    (∃ e, sampleElite arch rnd = some e) ↔ arch ≠ [] := by
  unfold sampleElite
  cases arch with
  | nil => simp
  | cons a as => simp

/-- `ranking_values[indices]` exists exactly when every index is in range … -/
theorem gather_isSome_iff (vals : List ν) (idx : List Nat) :
    (∃ l, gather vals idx = some l) ↔ ∀ i ∈ idx, i < vals.length := by
  induction idx with
  | nil => simp [gather]
  | cons i is ih =>
    simp only [gather, List.mem_cons, forall_eq_or_imp]
    constructor
    · rintro ⟨l, hl⟩
      split at hl
      · rename_i v vs hv hvs
        exact ⟨(List.getElem?_eq_some_iff.mp hv).1, ih.mp ⟨vs, hvs⟩⟩
      · cases hl
    · rintro ⟨hi, his⟩
      obtain ⟨vs, hvs⟩ := ih.mpr his
      exact ⟨vals[i] :: vs, by rw [List.getElem?_eq_getElem hi, hvs]⟩

/-- … and is then the list of values in ranked order: entry `k` is the value of
the row ranked `k`-th (T10.5, the argument of `check_stop`). -/
theorem gather_spec {vals : List ν} {idx : List Nat} {l : List ν} (h : gather vals idx = some l) :
    l.length = idx.length ∧ ∀ k (hk : k < idx.length) (hl : k < l.length), vals[idx[k]]? = some l[k] := by
  induction idx generalizing l with
  | nil =>
    simp only [gather, Option.some.injEq] at h
    subst h
    simp
  | cons i is ih =>
    simp only [gather] at h
    split at h
    · rename_i v vs hv hvs
      simp only [Option.some.injEq] at h
      subst h
      obtain ⟨hlen, hget⟩ := ih hvs
      refine ⟨by simp [hlen], ?_⟩
      intro k hk hl
      cases k with
      | zero => simpa using hv
      | succ k =>
        simp only [List.getElem_cons_succ]
        exact hget k (by simpa using hk) (by simpa using hl)
    · cases h

/-! ## the master description of an accepted `tell` -/

/-- the hand-off calls contain no restart call; the restart block contains nothing else -/
theorem handoffActs_filter (cfg : Cfg) (t : TellIn ν) (np : Nat) (sorted : List ν) :
    (handoffActs cfg t np sorted).filter Act.isRestart = [] := by
  unfold handoffActs stepActs
  split <;> rfl

theorem handoffActs_no_restart (cfg : Cfg) (t : TellIn ν) (np : Nat) (sorted : List ν) :
    ∀ a ∈ handoffActs cfg t np sorted, a.isRestart = false := by
  intro a ha
  cases hb : a.isRestart with
  | false => rfl
  | true =>
    have : a ∈ (handoffActs cfg t np sorted).filter Act.isRestart := List.mem_filter.mpr ⟨ha, hb⟩
    rw [handoffActs_filter] at this
    cases this

theorem restartActs_filter (kind : Kind) (e : Nat) :
    (restartActs (ν := ν) kind e).filter Act.isRestart = restartActs kind e := by
  cases kind <;> rfl

theorem restartActs_all (kind : Kind) (e : Nat) : ∀ a ∈ restartActs (ν := ν) kind e, a.isRestart = true := by
  intro a ha
  have : a ∈ (restartActs (ν := ν) kind e).filter Act.isRestart := by rw [restartActs_filter]; exact ha
  exact (List.mem_filter.mp this).2

/-- Everything an accepted `tell` does, as data: the calls that hand the ranking
over (with the gradient step of the arborescence emitter in between), then —
exactly when the restart decision is positive — the restart block with an elite
drawn from the archive, after which the search sits on that elite. -/
theorem tell_acts {cfg : Cfg} {s s' : St} {t : TellIn ν} {o : Out ν}
    (h : tell cfg s t = (s', .ok o)) :
    t.statuses.length = t.sols.length ∧ (cfg.kind = .gae → s.hasJac = true) ∧
    ∃ sorted, gather (t.rank t.sols t.statuses).2 (t.rank t.sols t.statuses).1 = some sorted ∧
      o.numParents = numParents cfg t.statuses ∧
      o.restart = (t.stop sorted || checkRestart cfg.rule (s.itrs + 1) (newSols t.statuses)) ∧
      s'.itrs = s.itrs + 1 ∧ s'.hasJac = s.hasJac ∧ s'.lastAsk = s.lastAsk ∧
      ((o.restart = false ∧ s'.restarts = s.restarts ∧
          s'.point = pointAfterUpdate cfg o.numParents s.point ∧
          o.acts = handoffActs cfg t o.numParents sorted) ∨
       (o.restart = true ∧ s'.restarts = s.restarts + 1 ∧
          ∃ e, sampleElite t.arch t.rnd = some e ∧ s'.point = .elite e ∧
            o.acts = handoffActs cfg t o.numParents sorted ++ restartActs cfg.kind e)) := by
  unfold tell at h
  split at h
  · cases h
  rename_i hlen
  split at h
  · cases h
  rename_i hjac
  have hlen' : t.statuses.length = t.sols.length := by simpa using hlen
  have hjac' : cfg.kind = .gae → s.hasJac = true := by
    intro hk
    cases hj : s.hasJac with
    | true => rfl
    | false => exact absurd ⟨hk, hj⟩ hjac
  refine ⟨hlen', hjac', ?_⟩
  simp only at h
  split at h
  · cases h
  rename_i sorted hg
  refine ⟨sorted, hg, ?_⟩
  split at h
  · rename_i hdec
    split at h
    · cases h
    rename_i e he
    simp only [Prod.mk.injEq, Res.ok.injEq] at h
    obtain ⟨hs, ho⟩ := h
    subst hs ho
    exact ⟨rfl, hdec.symm, rfl, rfl, rfl, Or.inr ⟨rfl, rfl, e, he, rfl, rfl⟩⟩
  · rename_i hdec
    simp only [Prod.mk.injEq, Res.ok.injEq] at h
    obtain ⟨hs, ho⟩ := h
    subst hs ho
    have hdec' : (t.stop sorted || checkRestart cfg.rule (s.itrs + 1) (newSols t.statuses)) = false := by
      simpa using hdec
    exact ⟨rfl, hdec'.symm, rfl, rfl, rfl, Or.inl ⟨rfl, rfl, rfl, rfl⟩⟩

/-- the convergence bit the model consults is `TellIn.stopped` -/
theorem stopped_eq {t : TellIn ν} {sorted : List ν}
    (hg : gather (t.rank t.sols t.statuses).2 (t.rank t.sols t.statuses).1 = some sorted) :
    t.stopped = t.stop sorted := by
  simp [TellIn.stopped, hg]

theorem checkRestart_iff (rule : Rule) (k : Nat) (st : List Nat) :
    checkRestart rule k (newSols st) = true ↔ ruleDue rule k st := by
  cases rule with
  | basic => simp [checkRestart, ruleDue]
  | noImprovement => simp [checkRestart, ruleDue, newSols_eq_zero_iff]
  | every n => simp [checkRestart, ruleDue, Nat.dvd_iff_mod_eq_zero]

/-! ## T10.1 — number of parents -/

theorem numParents_eq_spec (cfg : Cfg) (st : List Nat) : numParents cfg st = parentsSpec cfg st := by
  unfold numParents parentsSpec
  cases cfg.sel <;> simp [newSols_eq_countP]

/-- T10.1: the optimizer is told the number of inserted solutions ('filter') or
half the batch ('mu'). -/
theorem parents_spec {cfg : Cfg} {s s' : St} {t : TellIn ν} {o : Out ν}
    (h : tell cfg s t = (s', .ok o)) : o.numParents = parentsSpec cfg t.statuses := by
  obtain ⟨_, _, _, _, hnp, _⟩ := tell_acts h
  rw [hnp, numParents_eq_spec]

/-- 'filter': exactly the rows with a non-zero status (1 and 2 alike); never more
than the rows told; zero exactly when nothing was inserted. -/
theorem parents_filter {cfg : Cfg} {s s' : St} {t : TellIn ν} {o : Out ν}
    (hsel : cfg.sel = .filter) (h : tell cfg s t = (s', .ok o)) :
    o.numParents = t.statuses.countP (· ≠ 0) ∧ o.numParents ≤ t.sols.length ∧
    (o.numParents = 0 ↔ ∀ x ∈ t.statuses, x = 0) := by
  obtain ⟨hlen, _, _, _, hnp, _⟩ := tell_acts h
  have e : o.numParents = newSols t.statuses := by rw [hnp]; simp [numParents, hsel]
  refine ⟨by rw [e, newSols_eq_countP], ?_, by rw [e, newSols_eq_zero_iff]⟩
  rw [e, ← hlen]
  exact newSols_le _

/-- 'mu': the integer half of the batch, whatever the feedback. -/
theorem parents_mu {cfg : Cfg} {s s' : St} {t : TellIn ν} {o : Out ν}
    (hsel : cfg.sel = .mu) (h : tell cfg s t = (s', .ok o)) :
    2 * o.numParents ≤ cfg.batch ∧ cfg.batch ≤ 2 * o.numParents + 1 := by
  obtain ⟨_, _, _, _, hnp, _⟩ := tell_acts h
  have e : o.numParents = cfg.batch / 2 := by rw [hnp]; simp [numParents, hsel]
  omega

/-! ## T10.2 — the restart decision -/

/-- T10.2: an accepted `tell` restarts exactly when the optimizer reports
convergence or the configured rule fires for this tell (number `itrs + 1`), and
not otherwise. -/
theorem restart_iff {cfg : Cfg} {s s' : St} {t : TellIn ν} {o : Out ν}
    (h : tell cfg s t = (s', .ok o)) :
    o.restart = true ↔ restartDue cfg.rule (s.itrs + 1) t := by
  obtain ⟨_, _, sorted, hg, _, hr, _⟩ := tell_acts h
  rw [hr, Bool.or_eq_true, checkRestart_iff, restartDue, stopped_eq hg]

theorem restart_iff_basic {cfg : Cfg} {s s' : St} {t : TellIn ν} {o : Out ν}
    (hr : cfg.rule = .basic) (h : tell cfg s t = (s', .ok o)) : o.restart = t.stopped := by
  have := restart_iff h
  simp only [restartDue, hr, ruleDue, or_false] at this
  cases hb : t.stopped <;> cases ho : o.restart <;> simp_all

theorem restart_iff_noImprovement {cfg : Cfg} {s s' : St} {t : TellIn ν} {o : Out ν}
    (hr : cfg.rule = .noImprovement) (h : tell cfg s t = (s', .ok o)) :
    o.restart = true ↔ (t.stopped = true ∨ ∀ x ∈ t.statuses, x = 0) := by
  have := restart_iff h
  simpa only [restartDue, hr, ruleDue] using this

theorem restart_iff_every {cfg : Cfg} {s s' : St} {t : TellIn ν} {o : Out ν} (n : Nat)
    (hr : cfg.rule = .every n) (h : tell cfg s t = (s', .ok o)) :
    o.restart = true ↔ (t.stopped = true ∨ n ∣ s.itrs + 1) := by
  have := restart_iff h
  simpa only [restartDue, hr, ruleDue] using this

/-- one accepted `tell` counts one iteration, and one restart iff it restarted -/
theorem counters_step {cfg : Cfg} {s s' : St} {t : TellIn ν} {o : Out ν}
    (h : tell cfg s t = (s', .ok o)) :
    s'.itrs = s.itrs + 1 ∧ s'.restarts = s.restarts + (if o.restart then 1 else 0) := by
  obtain ⟨_, _, _, _, _, _, hi, _, _, hc⟩ := tell_acts h
  refine ⟨hi, ?_⟩
  rcases hc with ⟨hr, hs, _⟩ | ⟨hr, hs, _⟩ <;> simp [hr, hs]

/-- Exactly which calls are accepted: one status per row, gradients present (for
the arborescence emitter), ranker indices in range, and — the hypothesis of the
property — a non-empty archive whenever a restart is due. -/
theorem tell_ok_iff (cfg : Cfg) (s : St) (t : TellIn ν) :
    (∃ o, (tell cfg s t).2 = .ok o) ↔
      t.statuses.length = t.sols.length ∧ (cfg.kind = .gae → s.hasJac = true) ∧
      (∀ i ∈ (t.rank t.sols t.statuses).1, i < (t.rank t.sols t.statuses).2.length) ∧
      (restartDue cfg.rule (s.itrs + 1) t → t.arch ≠ []) := by
  constructor
  · rintro ⟨o, ho⟩
    have h : tell cfg s t = ((tell cfg s t).1, .ok o) := by rw [← ho]
    obtain ⟨hlen, hjac, sorted, hg, _, _, _, _, _, hc⟩ := tell_acts h
    refine ⟨hlen, hjac, (gather_isSome_iff _ _).mp ⟨sorted, hg⟩, ?_⟩
    intro hdue
    have hr := (restart_iff h).mpr hdue
    rcases hc with ⟨hr', _⟩ | ⟨_, _, e, he, _⟩
    · rw [hr] at hr'; cases hr'
    · exact (sampleElite_isSome_iff _ _).mp ⟨e, he⟩
  · rintro ⟨hlen, hjac, hidx, harch⟩
    obtain ⟨sorted, hg⟩ := (gather_isSome_iff _ _).mpr hidx
    unfold tell
    rw [if_neg (by simpa using hlen)]
    rw [if_neg (by
      rintro ⟨hk, hj⟩
      rw [hjac hk] at hj
      cases hj)]
    simp only [hg]
    split
    · rename_i hdec
      have hdue : restartDue cfg.rule (s.itrs + 1) t := by
        rw [restartDue, stopped_eq hg, ← checkRestart_iff, ← Bool.or_eq_true]
        exact hdec
      obtain ⟨e, he⟩ := (sampleElite_isSome_iff t.arch t.rnd).mpr (harch hdue)
      simp [he]
    · simp

/-- A rejected call leaves both counters alone — except that an IndexError
(ranker indices out of range, or a restart due on an empty archive) is raised
after the iteration was counted; it never counts a restart. -/
theorem tell_err_state {cfg : Cfg} {s s' : St} {t : TellIn ν} {e : Err} {as : List (Act ν)}
    (h : tell cfg s t = (s', .err e as)) :
    s'.restarts = s.restarts ∧ s'.hasJac = s.hasJac ∧ s'.lastAsk = s.lastAsk ∧
    ((e = .index ∧ s'.itrs = s.itrs + 1) ∨ (e ≠ .index ∧ s' = s ∧ as = [])) := by
  unfold tell at h
  split at h
  · simp only [Prod.mk.injEq, Res.err.injEq] at h
    obtain ⟨hs, he, ha⟩ := h
    subst hs he ha
    simp
  split at h
  · simp only [Prod.mk.injEq, Res.err.injEq] at h
    obtain ⟨hs, he, ha⟩ := h
    subst hs he ha
    simp
  simp only at h
  split at h
  · simp only [Prod.mk.injEq, Res.err.injEq] at h
    obtain ⟨hs, he, ha⟩ := h
    subst hs he ha
    simp
  split at h
  · split at h
    · simp only [Prod.mk.injEq, Res.err.injEq] at h
      obtain ⟨hs, he, ha⟩ := h
      subst hs he ha
      simp
    · cases h
  · cases h

/-! ## T10.4 — the restart action, as data -/

/-- T10.4: on restart the emitter performs, after the hand-off, the restart block
for an elite that is in the archive at that moment — and nothing after it — counts
one restart, and its search then sits on that elite; without restart it performs
none of these calls and the restart counter stays. -/
theorem restart_action {cfg : Cfg} {s s' : St} {t : TellIn ν} {o : Out ν}
    (h : tell cfg s t = (s', .ok o)) :
    (o.restart = true →
      ∃ e ∈ t.arch, (∃ sorted, o.acts = handoffActs cfg t o.numParents sorted ++ restartActs cfg.kind e) ∧
        o.acts.filter Act.isRestart = restartActs cfg.kind e ∧ s'.restarts = s.restarts + 1 ∧
        s'.point = .elite e) ∧
    (o.restart = false →
      (∃ sorted, o.acts = handoffActs cfg t o.numParents sorted) ∧
        o.acts.filter Act.isRestart = [] ∧ s'.restarts = s.restarts) := by
  obtain ⟨_, _, sorted, _, _, _, _, _, _, hc⟩ := tell_acts h
  rcases hc with ⟨hr, hs, _, ha⟩ | ⟨hr, hs, e, he, hp, ha⟩
  · refine ⟨fun h' => (by rw [hr] at h'; cases h'), fun _ => ⟨⟨sorted, ha⟩, ?_, hs⟩⟩
    rw [ha, handoffActs_filter]
  · refine ⟨fun _ => ⟨e, sampleElite_mem he, ⟨sorted, ha⟩, ?_, hs, hp⟩, fun h' => (by rw [hr] at h'; cases h')⟩
    rw [ha, List.filter_append, handoffActs_filter, restartActs_filter, List.nil_append]

/-- C10 "re-centring the optimizer on the solution of an elite currently in the
archive", as a statement about the emitter's state after the call: whenever an
accepted `tell` restarts, the search ends up exactly on an elite of the archive
(no update is applied after the re-centring). -/
theorem restart_recentres {cfg : Cfg} {s s' : St} {t : TellIn ν} {o : Out ν}
    (h : tell cfg s t = (s', .ok o)) (hr : o.restart = true) :
    ∃ e ∈ t.arch, s'.point = .elite e := by
  obtain ⟨e, he, _, _, _, hp⟩ := (restart_action h).1 hr
  exact ⟨e, he, hp⟩

/-- the calls of an accepted `tell` split into hand-off calls followed by restart
calls: no ranking, optimizer update, gradient step or convergence test happens
after a reset -/
theorem restart_block_last {cfg : Cfg} {s s' : St} {t : TellIn ν} {o : Out ν}
    (h : tell cfg s t = (s', .ok o)) :
    ∃ pre post, o.acts = pre ++ post ∧ (∀ a ∈ pre, a.isRestart = false) ∧
      (∀ a ∈ post, a.isRestart = true) := by
  obtain ⟨_, _, sorted, _, _, _, _, _, _, hc⟩ := tell_acts h
  rcases hc with ⟨_, _, _, ha⟩ | ⟨_, _, e, _, _, ha⟩
  · exact ⟨_, [], by rw [ha, List.append_nil], handoffActs_no_restart _ _ _ _, by simp⟩
  · exact ⟨_, _, ha, handoffActs_no_restart _ _ _ _, restartActs_all _ _⟩

/-- EvolutionStrategyEmitter: sample an elite, re-centre the optimizer on its
solution, reset the ranker, count the restart — nothing else. -/
theorem restart_action_es {cfg : Cfg} {s s' : St} {t : TellIn ν} {o : Out ν}
    (hk : cfg.kind = .es) (h : tell cfg s t = (s', .ok o)) (hr : o.restart = true) :
    ∃ e ∈ t.arch, o.acts.drop 3 = [.sampleElite, .optReset (.elite e), .rankerReset, .incRestarts] := by
  obtain ⟨e, he, ⟨sorted, ha⟩, _⟩ := (restart_action h).1 hr
  refine ⟨e, he, ?_⟩
  rw [ha]
  simp [handoffActs, stepActs, hk, restartActs]

/-- GradientArborescenceEmitter: after the hand-off (which contains the gradient
step when there are parents), the solution point is re-centred on the elite and
the coefficient distribution on zero. -/
theorem restart_action_gae {cfg : Cfg} {s s' : St} {t : TellIn ν} {o : Out ν}
    (hk : cfg.kind = .gae) (h : tell cfg s t = (s', .ok o)) (hr : o.restart = true) :
    ∃ e ∈ t.arch, ∃ sorted, o.acts = handoffActs cfg t o.numParents sorted ++
      [.sampleElite, .gradReset (.elite e), .optReset .zero, .rankerReset, .incRestarts] := by
  obtain ⟨e, he, ⟨sorted, ha⟩, _⟩ := (restart_action h).1 hr
  exact ⟨e, he, sorted, by rw [ha, hk]; rfl⟩

theorem no_restart_no_action {cfg : Cfg} {s s' : St} {t : TellIn ν} {o : Out ν}
    (h : tell cfg s t = (s', .ok o)) (hr : o.restart = false) :
    ∀ a ∈ o.acts, a.isRestart = false := by
  obtain ⟨⟨sorted, ha⟩, _⟩ := (restart_action h).2 hr
  rw [ha]
  exact handoffActs_no_restart _ _ _ _

/-- a rejected call resets nothing (at most it has tried to sample an elite) -/
theorem err_no_reset {cfg : Cfg} {s s' : St} {t : TellIn ν} {e : Err} {as : List (Act ν)}
    (h : tell cfg s t = (s', .err e as)) :
    ∀ a ∈ as, a.isRestart = true → a = .sampleElite := by
  unfold tell at h
  split at h
  · simp only [Prod.mk.injEq, Res.err.injEq] at h
    obtain ⟨_, _, ha⟩ := h
    subst ha
    simp
  split at h
  · simp only [Prod.mk.injEq, Res.err.injEq] at h
    obtain ⟨_, _, ha⟩ := h
    subst ha
    simp
  simp only at h
  split at h
  · simp only [Prod.mk.injEq, Res.err.injEq] at h
    obtain ⟨_, _, ha⟩ := h
    subst ha
    simp [Act.isRestart]
  split at h
  · split at h
    · simp only [Prod.mk.injEq, Res.err.injEq] at h
      obtain ⟨_, _, ha⟩ := h
      subst ha
      intro a hmem hr
      rcases List.mem_append.mp hmem with hm | hm
      · rw [handoffActs_no_restart _ _ _ _ a hm] at hr; cases hr
      · simpa using hm
    · cases h
  · cases h

/-! ## T10.5 — the hand-off from ranker to optimizer -/

/-- T10.5 (one call): the ranker is consulted once, about exactly the told rows
and their statuses; what it returns is what the optimizer's `tell` receives,
unchanged, together with the number of parents; `check_stop` sees the ranking
values in ranked order. When the caller tells the rows of the last `ask`
(`s.lastAsk`), these are the rows the emitter last emitted. -/
theorem handoff {cfg : Cfg} {s s' : St} {t : TellIn ν} {o : Out ν} {rows : List Nat}
    (hproto : s.lastAsk = some rows) (htold : t.sols = rows)
    (h : tell cfg s t = (s', .ok o)) :
    ∃ sorted rest, gather (t.rank rows t.statuses).2 (t.rank rows t.statuses).1 = some sorted ∧
      o.acts =
        [.rank rows t.statuses,
         .optTell (t.rank rows t.statuses).1 (t.rank rows t.statuses).2 (parentsSpec cfg t.statuses)]
        ++ stepActs cfg (parentsSpec cfg t.statuses) ++ [.checkStop sorted] ++ rest ∧
      (∀ a ∈ rest, a.isRestart = true) ∧ s'.lastAsk = some rows := by
  obtain ⟨_, _, sorted, hg, hnp, _, _, _, hl, hc⟩ := tell_acts h
  subst htold
  rw [← numParents_eq_spec, ← hnp]
  rcases hc with ⟨_, _, _, ha⟩ | ⟨_, _, e, _, _, ha⟩
  · exact ⟨sorted, [], hg, by rw [ha, List.append_nil]; rfl, by simp, by rw [hl, hproto]⟩
  · exact ⟨sorted, _, hg, by rw [ha]; rfl, restartActs_all _ _, by rw [hl, hproto]⟩

/-! ## histories -/

/-- the rows of the most recent `ask` of a history -/
def lastAskOf : Option (List Nat) → List (Op ν) → Option (List Nat)
  | l, [] => l
  | _, .ask rows :: ops => lastAskOf (some rows) ops
  | l, .tellDqd :: ops => lastAskOf l ops
  | l, .tell _ :: ops => lastAskOf l ops

theorem runOps_cons (cfg : Cfg) (s : St) (op : Op ν) (ops : List (Op ν)) :
    runOps cfg s (op :: ops) =
      ((runOps cfg (step cfg s op).1 ops).1, (step cfg s op).2 :: (runOps cfg (step cfg s op).1 ops).2) := rfl

/-- `tell` never answers `done` -/
theorem tell_ne_done (cfg : Cfg) (s : St) (t : TellIn ν) : (tell cfg s t).2 ≠ .done := by
  intro hr
  unfold tell at hr
  split at hr
  · cases hr
  split at hr
  · cases hr
  simp only at hr
  split at hr
  · cases hr
  split at hr
  · split at hr <;> cases hr
  · cases hr

theorem tell_counters {cfg : Cfg} {s s1 : St} {t : TellIn ν} {r : Res ν} (hres : tell cfg s t = (s1, r)) :
    s1.itrs = s.itrs + (if r.advanced then 1 else 0) ∧
    s1.restarts = s.restarts + (if r.restarted then 1 else 0) := by
  have hnd := tell_ne_done cfg s t
  rw [hres] at hnd
  cases r with
  | done => exact absurd rfl hnd
  | ok o =>
    have := counters_step hres
    simp only [Res.advanced, Res.restarted, if_true]
    exact this
  | err e as =>
    obtain ⟨h1, _, _, h2⟩ := tell_err_state hres
    rcases h2 with ⟨he, hi⟩ | ⟨he, hs, _⟩
    · subst he
      simp [Res.advanced, Res.restarted, hi, h1]
    · subst hs
      cases e <;> simp_all [Res.advanced, Res.restarted]

/-- what one step does to the counters, whatever the call and its outcome -/
theorem step_counters (cfg : Cfg) (s : St) (op : Op ν) :
    (step cfg s op).1.itrs = s.itrs + (if (step cfg s op).2.advanced then 1 else 0) ∧
    (step cfg s op).1.restarts = s.restarts + (if (step cfg s op).2.restarted then 1 else 0) := by
  cases op with
  | tellDqd => simp [step, tellDqd, Res.advanced, Res.restarted]
  | ask rows =>
    simp only [step, ask]
    split <;> simp [Res.advanced, Res.restarted]
  | tell t => exact tell_counters (cfg := cfg) (s := s) (t := t) rfl

/-- T10.3 (every history, accepted or not): `itrs` counts the calls that reached
the iteration counter, `restarts` counts the tells that restarted. -/
theorem history_counts (cfg : Cfg) (s : St) (ops : List (Op ν)) :
    (runOps cfg s ops).1.itrs = s.itrs + ((runOps cfg s ops).2.filter Res.advanced).length ∧
    (runOps cfg s ops).1.restarts = s.restarts + ((runOps cfg s ops).2.filter Res.restarted).length := by
  induction ops generalizing s with
  | nil => simp [runOps]
  | cons op ops ih =>
    rw [runOps_cons]
    obtain ⟨i1, i2⟩ := ih (step cfg s op).1
    obtain ⟨c1, c2⟩ := step_counters cfg s op
    simp only [List.filter_cons]
    constructor
    · rw [i1, c1]; split <;> simp <;> omega
    · rw [i2, c2]; split <;> simp <;> omega

/-- T10.3 (histories in which every call is accepted — the property's setting):
`itrs` is the number of tells, and `restarts` is the number of tells at which a
restart was due, where "due" is read off the feedback, the stop signal and the
position of the tell in the history alone. For every rule, every `N`. -/
theorem history_counts_ok (cfg : Cfg) (s : St) (ops : List (Op ν))
    (hok : ∀ r ∈ (runOps cfg s ops).2, r.isErr = false) :
    (runOps cfg s ops).1.itrs = s.itrs + (tellsOf ops).length ∧
    (runOps cfg s ops).1.restarts =
      s.restarts + ((decisions cfg.rule s.itrs (tellsOf ops)).filter id).length := by
  induction ops generalizing s with
  | nil => simp [runOps, tellsOf, decisions]
  | cons op ops ih =>
    rw [runOps_cons] at hok ⊢
    have hok1 : (step cfg s op).2.isErr = false := hok _ (List.mem_cons_self ..)
    obtain ⟨i1, i2⟩ := ih (step cfg s op).1 (fun r hr => hok r (List.mem_cons_of_mem _ hr))
    simp only
    cases op with
    | tellDqd =>
      simp only [tellsOf]
      rw [i1, i2]
      simp [step, tellDqd]
    | ask rows =>
      simp only [tellsOf]
      rw [i1, i2]
      simp only [step, ask]
      split <;> simp
    | tell t =>
      simp only [tellsOf, decisions, List.length_cons, List.filter_cons]
      rw [i1, i2]
      simp only [step] at hok1 ⊢
      have hnd := tell_ne_done cfg s t
      rcases hres : tell cfg s t with ⟨s1, r⟩
      rw [hres] at hnd hok1
      cases r with
      | done => exact absurd rfl hnd
      | err e as => cases hok1
      | ok o =>
        obtain ⟨c1, c2⟩ := counters_step hres
        have hiff := restart_iff hres
        simp only at c1 c2 ⊢
        rw [c1, c2]
        constructor
        · omega
        · by_cases hd : restartDue cfg.rule (s.itrs + 1) t
          · have : o.restart = true := hiff.mpr hd
            simp [hd, this]; omega
          · have : o.restart = false := by
              cases ho : o.restart with
              | false => rfl
              | true => exact absurd (hiff.mp ho) hd
            simp [hd, this]

/-- the integer rule in closed form: with no stop signal the number of decisions
"restart" among tells `k+1 … k+m` is `(k+m)/N − k/N` -/
theorem decisions_every_count (n : Nat) (k : Nat) (ts : List (TellIn ν))
    (hstop : ∀ t ∈ ts, t.stopped = false) :
    ((decisions (.every n) k ts).filter id).length = (k + ts.length) / n - k / n := by
  induction ts generalizing k with
  | nil => simp [decisions]
  | cons t ts ih =>
    have h1 := ih (k + 1) (fun t' ht' => hstop t' (List.mem_cons_of_mem _ ht'))
    have hs : t.stopped = false := hstop t (List.mem_cons_self ..)
    have hsd : (k + 1) / n = k / n + if n ∣ k + 1 then 1 else 0 := Nat.succ_div
    have hmono : (k + 1) / n ≤ (k + 1 + ts.length) / n := Nat.div_le_div_right (by omega)
    have e : k + (t :: ts).length = k + 1 + ts.length := by simp; omega
    rw [e]
    simp only [decisions, List.filter_cons, restartDue, hs, ruleDue]
    by_cases hd : n ∣ k + 1
    · simp [hd] at hsd ⊢
      rw [h1]; omega
    · simp [hd] at hsd ⊢
      rw [h1]; omega

/-- T10.3, integer rule `N ≥ 1`, closed form: a fresh emitter that is told `m`
times without a stop signal has restarted exactly `m / N` times — i.e. at tells
`N, 2N, 3N, …` and at no other. -/
theorem every_count (cfg : Cfg) (n : Nat) (hn : 1 ≤ n) (hr : cfg.rule = .every n) (ops : List (Op ν))
    (hok : ∀ r ∈ (runOps cfg init ops).2, r.isErr = false)
    (hstop : ∀ t ∈ tellsOf ops, t.stopped = false) :
    (runOps cfg init ops).1.itrs = (tellsOf ops).length ∧
    (runOps cfg init ops).1.restarts = (tellsOf ops).length / n := by
  obtain ⟨h1, h2⟩ := history_counts_ok cfg init ops hok
  rw [hr, decisions_every_count n _ _ hstop] at h2
  have e1 : init.itrs = 0 := rfl
  have e2 : init.restarts = 0 := rfl
  rw [e1] at h1 h2
  rw [e2] at h2
  constructor
  · simpa using h1
  · rw [h2]; simp [Nat.div_eq_of_lt hn]

/-- 'basic' never restarts on its own: without stop signals, no restarts at all. -/
theorem basic_count (cfg : Cfg) (hr : cfg.rule = .basic) (ops : List (Op ν))
    (hok : ∀ r ∈ (runOps cfg init ops).2, r.isErr = false)
    (hstop : ∀ t ∈ tellsOf ops, t.stopped = false) :
    (runOps cfg init ops).1.restarts = 0 := by
  obtain ⟨_, h2⟩ := history_counts_ok cfg init ops hok
  rw [h2, hr]
  have : ∀ (k : Nat) (ts : List (TellIn ν)), (∀ t ∈ ts, t.stopped = false) →
      (decisions .basic k ts).filter id = [] := by
    intro k ts
    induction ts generalizing k with
    | nil => simp [decisions]
    | cons t ts ih =>
      intro h
      simp [decisions, restartDue, ruleDue, h t (List.mem_cons_self ..),
        ih (k + 1) (fun t' ht' => h t' (List.mem_cons_of_mem _ ht'))]
  simp [this _ _ hstop, init]

/-- in an accepted history the ghost variable holds the rows of the most recent `ask` -/
theorem lastAsk_history (cfg : Cfg) (s : St) (ops : List (Op ν))
    (hok : ∀ r ∈ (runOps cfg s ops).2, r.isErr = false) :
    (runOps cfg s ops).1.lastAsk = lastAskOf s.lastAsk ops := by
  induction ops generalizing s with
  | nil => simp [runOps, lastAskOf]
  | cons op ops ih =>
    rw [runOps_cons] at hok ⊢
    have hok1 : (step cfg s op).2.isErr = false := hok _ (List.mem_cons_self ..)
    have i1 := ih (step cfg s op).1 (fun r hr => hok r (List.mem_cons_of_mem _ hr))
    simp only
    rw [i1]
    cases op with
    | tellDqd => simp [step, tellDqd, lastAskOf]
    | ask rows =>
      simp only [step, ask, lastAskOf] at hok1 ⊢
      split at hok1
      · cases hok1
      · rename_i hc; rw [if_neg hc]
    | tell t =>
      simp only [step, lastAskOf] at hok1 ⊢
      have hnd := tell_ne_done cfg s t
      rcases hres : tell cfg s t with ⟨s1, r⟩
      rw [hres] at hnd hok1
      cases r with
      | done => exact absurd rfl hnd
      | err e as => cases hok1
      | ok o =>
        obtain ⟨_, _, _, _, _, _, _, _, hl, _⟩ := tell_acts hres
        simp only at hl ⊢
        rw [hl]

/-- T10.5 (histories): after any accepted history, a `tell` of the rows returned
by the most recent `ask` hands the optimizer precisely the ranker's answer for
those rows, with the specified number of parents. -/
theorem handoff_history (cfg : Cfg) (pre : List (Op ν)) (t : TellIn ν) (rows : List Nat)
    (hok : ∀ r ∈ (runOps cfg init pre).2, r.isErr = false)
    (hlast : lastAskOf none pre = some rows) (htold : t.sols = rows)
    {s' : St} {o : Out ν} (h : tell cfg (runOps cfg init pre).1 t = (s', .ok o)) :
    o.acts.take 2 =
      [.rank rows t.statuses,
       .optTell (t.rank rows t.statuses).1 (t.rank rows t.statuses).2 (parentsSpec cfg t.statuses)] := by
  have hl : (runOps cfg init pre).1.lastAsk = some rows := by
    rw [lastAsk_history cfg init pre hok]; exact hlast
  obtain ⟨sorted, rest, _, h3, _⟩ := handoff hl htold h
  rw [h3]; rfl

/-! ## construction -/

/-- every integer `N ≥ 1` is accepted as a restart rule and means "every `N`-th tell";
`0` is rejected (ZeroDivisionError), unknown names are rejected (ValueError) -/
theorem parseRule_spec (r : RuleArg) :
    parseRule r =
      match r with
      | .int n => if n = 0 then .error .zeroDiv else .ok (.every n)
      | .name s => if s = "no_improvement" then .ok .noImprovement
                   else if s = "basic" then .ok .basic else .error .value := by
  cases r with
  | name s => rfl
  | int n => cases n <;> simp [parseRule]

theorem mkCfg_ok_iff (k : Kind) (sel : String) (r : RuleArg) (b : Nat) :
    (∃ c, mkCfg k sel r b = .ok c) ↔
      (sel = "mu" ∨ sel = "filter") ∧
      (match r with
       | .int n => n ≠ 0
       | .name s => s = "no_improvement" ∨ s = "basic") := by
  unfold mkCfg parseSel
  rw [parseRule_spec]
  by_cases h1 : sel = "mu" <;> by_cases h2 : sel = "filter" <;> cases r with
  | int n => by_cases hn : n = 0 <;> simp [h1, h2, hn]
  | name s =>
    by_cases h3 : s = "no_improvement" <;> by_cases h4 : s = "basic" <;> simp [h1, h2, h3, h4]

/-! ## non-vacuity -/

/-- a scripted tell for the examples: constant ranker answer and stop bit -/
def exTell (sols st perm : List Nat) (vals : List Nat) (stop : Bool) (arch : List Nat) (rnd : Nat) :
    TellIn Nat :=
  { sols := sols, statuses := st, rank := fun _ _ => (perm, vals), stop := fun _ => stop,
    arch := arch, rnd := rnd }

def exCfg : Cfg := ⟨.es, .filter, .every 2, 3⟩

/-- ask / tell four times with the integer rule `N = 2` and one stop signal -/
def exOps : List (Op Nat) :=
  [.ask [1, 2, 3], .tell (exTell [1, 2, 3] [0, 1, 2] [2, 0, 1] [10, 11, 12] false [7, 8] 5),
   .ask [4, 5, 6], .tell (exTell [4, 5, 6] [0, 0, 0] [0, 1, 2] [10, 11, 12] false [7, 8] 5),
   .ask [7, 8, 9], .tell (exTell [7, 8, 9] [2, 2, 1] [1, 2, 0] [10, 11, 12] true [8, 9] 4),
   .ask [10, 11, 12], .tell (exTell [10, 11, 12] [1, 0, 0] [1, 0, 2] [10, 11, 12] false [9] 0)]

/-- A concrete history satisfying the hypotheses of the history theorems: every
call accepted; four tells; restarts at tell 2 (rule), 3 (stop signal) and 4
(rule), none at tell 1; parents 2, 0, 3, 1; the elites drawn are in the archive
of the moment; the optimizer receives the ranker's answer. -/
theorem nonvacuous :
    (∀ r ∈ (runOps exCfg init exOps).2, r.isErr = false) ∧
    (runOps exCfg init exOps).1 = ⟨4, 3, false, some [10, 11, 12], .elite 9⟩ ∧
    (runOps exCfg init exOps).2 =
      [.done,
       .ok ⟨2, false, [.rank [1, 2, 3] [0, 1, 2], .optTell [2, 0, 1] [10, 11, 12] 2, .checkStop [12, 10, 11]]⟩,
       .done,
       .ok ⟨0, true, [.rank [4, 5, 6] [0, 0, 0], .optTell [0, 1, 2] [10, 11, 12] 0, .checkStop [10, 11, 12],
                      .sampleElite, .optReset (.elite 8), .rankerReset, .incRestarts]⟩,
       .done,
       .ok ⟨3, true, [.rank [7, 8, 9] [2, 2, 1], .optTell [1, 2, 0] [10, 11, 12] 3, .checkStop [11, 12, 10],
                      .sampleElite, .optReset (.elite 8), .rankerReset, .incRestarts]⟩,
       .done,
       .ok ⟨1, true, [.rank [10, 11, 12] [1, 0, 0], .optTell [1, 0, 2] [10, 11, 12] 1, .checkStop [11, 10, 12],
                      .sampleElite, .optReset (.elite 9), .rankerReset, .incRestarts]⟩] ∧
    decisions exCfg.rule 0 (tellsOf exOps) = [false, true, true, true] := by
  decide

def exCfgGae : Cfg := ⟨.gae, .mu, .noImprovement, 5⟩

def exOpsGae : List (Op Nat) :=
  [.tell (exTell [1, 2] [0, 1] [1, 0] [3, 4] false [7] 0),      -- before tell_dqd: RuntimeError
   .tellDqd, .ask [1, 2],
   .tell (exTell [1, 2] [0] [1, 0] [3, 4] false [7] 0),         -- one status for two rows: ValueError
   .tell (exTell [1, 2] [2, 1] [1, 0] [3, 4] false [] 0),       -- improvement, no stop: no restart
   .tell (exTell [1, 2] [0, 0] [1, 0] [3, 4] false [7, 9] 3)]   -- nothing inserted: restart on elite 9

/-- the arborescence emitter, 'mu' selection, 'no_improvement', with the two rejections -/
theorem nonvacuous_gae :
    (runOps exCfgGae init exOpsGae).1 = ⟨2, 1, true, some [1, 2], .elite 9⟩ ∧
    (runOps exCfgGae init exOpsGae).2 =
      [.err .runtime [], .done, .done, .err .value [],
       .ok ⟨2, false, [.rank [1, 2] [2, 1], .optTell [1, 0] [3, 4] 2, .gradStep, .checkStop [4, 3]]⟩,
       .ok ⟨2, true, [.rank [1, 2] [0, 0], .optTell [1, 0] [3, 4] 2, .gradStep, .checkStop [4, 3],
                      .sampleElite, .gradReset (.elite 9), .optReset .zero, .rankerReset, .incRestarts]⟩] := by
  decide

end Pyribs.C10
