import PyribsModel.Util
import PyribsModel.Emit
/-!
# Dqd — model of the two DQD emitters (property C19)

Core Lean only.  Vectors are functions `Nat → Rat` read on `0 … n-1` (the dimension travels
separately), matrices are functions from the row number; every float is an exact rational.

Code shape (what mirrors what):
* `offset`, `branch`       ↔ `theta + np.sum(jacobian * coeffs[:, None], axis=0)` — one row of
                              `GradientArborescenceEmitter.ask` (`_gradient_arborescence_emitter.py`);
* `linComb`                 ↔ the same, spec-shaped: `Σⱼ cⱼ • Jⱼ` as a sum of scaled vectors;
* `normaliseRow/normalise`  ↔ `jacobian / (np.linalg.norm(jacobian, axis=2, keepdims=True) + epsilon)` in
                              both `tell_dqd`s; the norms are *supplied* (they are square roots) and
                              `normOk` says what makes a supplied value admissible;
* `gopCoeffs`, `gopBranch`, `gopObjOnly` ↔ `GradientOperatorEmitter.ask` (`_gradient_operator_emitter.py`):
                              `noise[:, 0] = |noise[:, 0]|`, resp. `parents + jacobian[:, 0] * sigma_g`
                              (`Gop.askRows / askRowsObj` add the final `np.clip`; `Gop.step .askDqd` stores the
                              rows it returns, i.e. the *clipped* perturbed parents);
* `Gae.step`                ↔ `GradientArborescenceEmitter.ask_dqd / tell_dqd / ask / tell`;
* `Gop.step`                ↔ `GradientOperatorEmitter.ask_dqd / tell_dqd / ask / tell`;
* `newSols`, `numParents`, `ruleFires` ↔ the selection / restart block of `tell`, `_check_restart`;
* `wmean`                   ↔ `np.sum(parents * weights[:, None], axis=0)` (weights supplied: they involve `log`);
* `GradOpt.step`            ↔ `GradientAscentOpt.step` (`opt/_gradient_ascent_opt.py`); any other optimizer is
                              a supplied function;
* `effGrad`, `adamFirstStep`, `adamFirst` ↔ `AdamOpt.step` (`opt/_adam_opt.py`): the L2 term and the closed form
                              of the first step after `reset`.
-/
namespace Pyribs.Dqd

abbrev Vec := Nat → Rat
abbrev Mat := Nat → Vec

def ofList (l : List Rat) : Vec := fun i => l.getD i 0
def toList (n : Nat) (v : Vec) : List Rat := (List.range n).map v
def matOfLists (ls : List (List Rat)) : Mat := fun j => ofList (ls.getD j [])

def vzero : Vec := fun _ => 0
def vadd (a b : Vec) : Vec := fun k => a k + b k
def vsub (a b : Vec) : Vec := fun k => a k - b k
def smul (c : Rat) (v : Vec) : Vec := fun k => c * v k

def sumTo : Nat → (Nat → Rat) → Rat
  | 0, _ => 0
  | n + 1, f => sumTo n f + f n

/-- sum of the vectors `f 0 … f (m-1)` -/
def vsum : Nat → (Nat → Vec) → Vec
  | 0, _ => vzero
  | m + 1, f => vadd (vsum m f) (f m)

def absQ (x : Rat) : Rat := if x < 0 then -x else x

/-! ## gradient arborescence: branching -/

/-- `np.sum(jacobian * coeffs[:, None], axis=0)` coordinate by coordinate (`m` gradients) -/
def offset (m : Nat) (J : Mat) (c : Nat → Rat) : Vec := fun k => sumTo m (fun j => J j k * c j)

/-- one emitted solution: `theta + np.sum(jacobian * coeffs[:, None], axis=0)` -/
def branch (m : Nat) (θ : Vec) (J : Mat) (c : Nat → Rat) : Vec := fun k => θ k + offset m J c k

/-- spec-shaped: the linear combination `Σⱼ cⱼ • Jⱼ` of the gradient vectors -/
def linComb (m : Nat) (J : Mat) (c : Nat → Rat) : Vec := vsum m (fun j => smul (c j) (J j))

/-! ## normalisation (norms supplied) -/

/-- `g / (‖g‖ + ε)`; `none` when the divisor is zero (NumPy would produce non-finite values) -/
def normaliseRow (g : Vec) (nrm ε : Rat) : Option Vec :=
  if nrm + ε = 0 then none else some (fun k => g k / (nrm + ε))

/-- a supplied value is an admissible Euclidean norm of `g` (on `n` coordinates) up to relative `tol`
on the squares: `nrm ≥ 0 ∧ |nrm² − Σ gₖ²| ≤ tol · Σ gₖ²` -/
def normOk (n : Nat) (g : Vec) (nrm tol : Rat) : Bool :=
  let ss := sumTo n (fun k => g k * g k)
  decide (0 ≤ nrm) && decide (absQ (nrm * nrm - ss) ≤ tol * ss)

/-- all `m` rows normalised; `none` if some divisor is zero -/
def normalise : (m : Nat) → Mat → (Nat → Rat) → Rat → Option Mat
  | 0, _, _, _ => some (fun _ => vzero)
  | m + 1, J, norms, ε =>
    match normalise m J norms ε, normaliseRow (J m) (norms m) ε with
    | some M, some r => some (fun j => if j = m then r else M j)
    | _, _ => none

/-! ## GradientOperatorEmitter.ask -/

/-- `noise[:, 0] = np.abs(noise[:, 0])` : the objective coefficient is forced to be non-negative -/
def gopCoeffs (c : Nat → Rat) : Nat → Rat := fun j => if j = 0 then absQ (c 0) else c j

/-- measure gradients on: `parents + np.sum(jacobian * noise[:, :, None], axis=1)` (one row) -/
def gopBranch (m : Nat) (parent : Vec) (J : Mat) (c : Nat → Rat) : Vec := branch m parent J (gopCoeffs c)

/-- measure gradients off: `parents + jacobian[:, 0] * sigma_g` (one row) -/
def gopObjOnly (parent : Vec) (J : Mat) (σg : Rat) : Vec := fun k => parent k + J 0 k * σg

/-! ## selection and restart control (the block shared with EvolutionStrategyEmitter.tell) -/

inductive Rule | basic | noImprovement | every (n : Nat)
deriving DecidableEq, Repr
inductive Sel | mu | filter
deriving DecidableEq, Repr

/-- `add_info["status"].astype(bool).sum()` -/
def newSols (status : List Nat) : Nat := (status.filter (· ≠ 0)).length

/-- `new_sols if selection_rule == "filter" else batch_size // 2` -/
def numParents (sel : Sel) (batch : Nat) (status : List Nat) : Nat :=
  match sel with
  | .filter => newSols status
  | .mu => batch / 2

/-- `_check_restart(new_sols)` evaluated after `itrs` has been incremented to `itrs'` -/
def ruleFires (r : Rule) (itrs' : Nat) (status : List Nat) : Bool :=
  match r with
  | .basic => false
  | .noImprovement => newSols status == 0
  | .every n => itrs' % n == 0

/-- `np.sum(parents * weights[:, None], axis=0)` with `parents[r] = solution[indices][r]` -/
def wmean (np : Nat) (w : Nat → Rat) (P : Nat → Vec) : Vec := fun k => sumTo np (fun r => P r k * w r)

/-! ## gradient optimizers -/

inductive GradOpt
  | ascent (lr : Rat)                   -- GradientAscentOpt: theta += lr * gradient
  | other (step : Vec → Vec → Vec)      -- any other GradientOptBase (Adam, a spy): supplied

def GradOpt.step : GradOpt → Vec → Vec → Vec
  | .ascent lr, θ, g => fun k => θ k + lr * g k
  | .other f, θ, g => f θ g

/-- the gradient Adam really ascends when `l2_coeff = c` (`AdamOpt.step`, `opt/_adam_opt.py`: the ascent
gradient is negated, `l2_coeff * theta` is **added** to that descent gradient, i.e. the objective is
`f(θ) − c/2·‖θ‖²` and its ascent gradient is `g − c·θ`: the L2 term pulls θ towards the origin) -/
def effGrad (g θ : Vec) (c : Rat) : Vec := fun k => g k - c * θ k

/-- Adam's **first** step after a reset in closed form: with `m = (1−β₁)d`, `v = (1−β₂)d²`,
`a = lr·√(1−β₂)/(1−β₁)` the update `−a·m/(√v + ε)` is `lr · e / (|e| + ε')` with `e` the ascent gradient and
`ε' = ε/√(1−β₂)` (supplied: a square root) -/
def adamFirstStep (lr ε' : Rat) (θ e : Vec) : Vec := fun k => θ k + lr * e k / (absQ (e k) + ε')

/-- `GradientOptBase` instance used by the correspondence for the first Adam step after a reset -/
def adamFirst (lr c ε' : Rat) : GradOpt := .other (fun θ g => adamFirstStep lr ε' θ (effGrad g θ c))

/-! ## GradientArborescenceEmitter -/

inductive Err | runtime | value | index
deriving DecidableEq, Repr

namespace Gae

structure Cfg where
  n     : Nat          -- solution_dim
  m     : Nat          -- number of coefficients = measure_dim + 1
  batch : Nat
  sel   : Sel
  rule  : Rule
  norm  : Bool         -- normalize_grad
  ε     : Rat
  opt   : GradOpt

structure St where
  θ        : Vec
  jac      : Option Mat        -- `_jacobian_batch` (None until tell_dqd)
  itrs     : Nat
  restarts : Nat
  esResets : Nat               -- how often the coefficient distribution was reset to mean 0

/-- what `tell` receives besides the state -/
structure TellIn where
  sols    : List Vec     -- data["solution"]
  status  : List Nat     -- add_info["status"]
  ranking : List Nat     -- the ranker's indices, best first
  weights : Nat → Rat    -- recombination weights of the selected parents (supplied)
  stop    : Bool         -- `opt.check_stop(...)`
  elite   : Option Vec   -- `archive.sample_elites(1)` — `none`: the archive is empty

inductive Op
  | askDqd
  | tellDqd (rows : List (List Rat)) (norms : Nat → Rat)
  | ask (coeffs : List (Nat → Rat))
  | tell (t : TellIn)

inductive Out
  | theta (θ : Vec)
  | rows (rs : List Vec)
  | done (restarted : Bool) (numParents : Nat)
  | error (e : Err)

def init (x0 : Vec) : St := ⟨x0, none, 0, 0, 1⟩   -- the constructor resets the ES once

/-- `validate_batch(..., jacobian)` : shape `(1, m, n)` -/
def shapeOk (c : Cfg) (rows : List (List Rat)) : Bool :=
  rows.length == c.m && rows.all (fun r => r.length == c.n)

/-- the parents selected by `tell`: `data["solution"][indices][:num_parents]` -/
def parent (t : TellIn) (r : Nat) : Vec := t.sols.getD (t.ranking.getD r 0) vzero

/-- are the first `np` ranking entries valid row numbers? (NumPy: IndexError otherwise) -/
def rankingOk (t : TellIn) (np : Nat) : Bool :=
  decide (np ≤ t.ranking.length) && (t.ranking.take np).all (fun i => decide (i < t.sols.length))

/-- `gradient_step = new_mean - self._grad_opt.theta` -/
def tellGrad (θ : Vec) (t : TellIn) (np : Nat) : Vec := vsub (wmean np t.weights (parent t)) θ

/-- θ after the gradient step of `tell` — **repaired**: no step when no solution is selected -/
def stepTheta (c : Cfg) (θ : Vec) (t : TellIn) (np : Nat) : Vec :=
  if np = 0 then θ else c.opt.step θ (tellGrad θ t np)

/-- the same on the unchanged tree (D11): the mean of zero parents is the zero vector and the
optimizer steps towards it -/
def stepThetaCurrent (c : Cfg) (θ : Vec) (t : TellIn) (np : Nat) : Vec :=
  c.opt.step θ (tellGrad θ t np)

def step (c : Cfg) (s : St) : Op → St × Out
  | .askDqd => (s, .theta s.θ)
  | .tellDqd rows norms =>
    if !shapeOk c rows then (s, .error .value) else
    let J := matOfLists rows
    if c.norm then
      match normalise c.m J norms c.ε with
      | some Jn => ({ s with jac := some Jn }, .done false 0)
      | none => (s, .error .value)
    else ({ s with jac := some J }, .done false 0)
  | .ask coeffs =>
    match s.jac with
    | none => (s, .error .runtime)
    | some J => (s, .rows (coeffs.map (branch c.m s.θ J)))
  | .tell t =>
    match s.jac with
    | none => (s, .error .runtime)
    | some _ =>
      let np := numParents c.sel c.batch t.status
      if !rankingOk t np then (s, .error .index) else
      let θ₁ := stepTheta c s.θ t np
      let restart := t.stop || ruleFires c.rule (s.itrs + 1) t.status
      if restart then
        match t.elite with
        -- `sample_elites(1)` on an empty archive raises IndexError *after* the counter and θ moved
        | none => ({ s with θ := θ₁, itrs := s.itrs + 1 }, .error .index)
        | some e =>
          ({ s with θ := e, itrs := s.itrs + 1, restarts := s.restarts + 1, esResets := s.esResets + 1 },
            .done true np)
      else ({ s with θ := θ₁, itrs := s.itrs + 1 }, .done false np)

def run (c : Cfg) : St → List Op → St
  | s, [] => s
  | s, op :: ops => run c (step c s op).1 ops

end Gae

/-! ## GradientOperatorEmitter -/

namespace Gop

structure Cfg where
  n  : Nat
  m  : Nat            -- measure_dim + 1
  mg : Bool           -- measure_gradients
  σg : Rat
  norm : Bool
  ε  : Rat
  lo : Nat → Option Rat     -- lower_bounds (`none` = −∞)
  hi : Nat → Option Rat     -- upper_bounds (`none` = +∞)
  init : Option (List Vec)  -- initial_solutions (exactly one of x0 / initial_solutions is configured)

/-- `np.clip(v, lower_bounds, upper_bounds)` -/
def clipV (c : Cfg) (v : Vec) : Vec := fun k => Emit.clip1 (c.lo k) (c.hi k) (v k)

structure St where
  parents : List Vec                 -- `self._parents`: what ask_dqd **returned** last
  jac     : Option (List Mat)        -- one Jacobian per parent (None until tell_dqd)
  empty   : Bool                     -- `self.archive.empty` as the next call will see it (environment, see `observe`)

/-- the start-up condition both `ask_dqd` and `ask` evaluate **at the time of the call**:
`self.archive.empty and self._initial_solutions is not None` -/
def startup (c : Cfg) (s : St) : Bool := s.empty && c.init.isSome

inductive Op
  /-- `raw` = sampled parents + perturbation before the clip (which parents, which noise: C08's business);
  ask_dqd clips them, **stores the clipped rows** and returns those same rows -/
  | askDqd (raw : List Vec)
  | tellDqd (jacs : List (List (List Rat))) (norms : List (Nat → Rat))
  | ask (noise : List (Nat → Rat))              -- the coefficient draws (ignored when measure gradients are off)
  | tell
  /-- not a call of the emitter: the archive changed; `empty` is what `archive.empty` now is -/
  | observe (empty : Bool)

inductive Out
  | rows (rs : List Vec)
  | done
  | error (e : Err)

def init : St := ⟨[], none, true⟩

def shapeOk (c : Cfg) (s : St) (jacs : List (List (List Rat))) : Bool :=
  jacs.length == s.parents.length &&
    jacs.all (fun rows => rows.length == c.m && rows.all (fun r => r.length == c.n))

def normAll (c : Cfg) : List Mat → List (Nat → Rat) → Option (List Mat)
  | [], _ => some []
  | J :: Js, ns =>
    match normalise c.m J (ns.headD (fun _ => 0)) c.ε, normAll c Js ns.tail with
    | some Jn, some rest => some (Jn :: rest)
    | _, _ => none

/-- measure gradients on: `np.clip(parents + Σ jacobian·noise, lo, hi)`, row by row -/
def askRows (c : Cfg) : List Vec → List Mat → List (Nat → Rat) → List Vec
  | p :: ps, J :: Js, z :: zs => clipV c (gopBranch c.m p J z) :: askRows c ps Js zs
  | _, _, _ => []

/-- measure gradients off: `np.clip(parents + jacobian[:, 0] * sigma_g, lo, hi)`, row by row -/
def askRowsObj (c : Cfg) : List Vec → List Mat → List Vec
  | p :: ps, J :: Js => clipV c (gopObjOnly p J c.σg) :: askRowsObj c ps Js
  | _, _ => []

def step (c : Cfg) (s : St) : Op → St × Out
  | .askDqd raw =>
    -- start-up: "returns no solutions"; nothing is stored
    if startup c s then (s, .rows []) else
    let ps := raw.map (clipV c)
    ({ s with parents := ps }, .rows ps)
  | .tellDqd jacs norms =>
    if !shapeOk c s jacs then (s, .error .value) else
    let Js := jacs.map matOfLists
    if c.norm then
      match normAll c Js norms with
      | some Jn => ({ s with jac := some Jn }, .done)
      | none => (s, .error .value)
    else ({ s with jac := some Js }, .done)
  | .ask noise =>
    -- start-up (empty archive and initial_solutions configured): the initial solutions, clipped -- whether or not
    -- gradients were supplied.  On a non-empty archive this branch is never taken.
    if startup c s then (s, .rows ((c.init.getD []).map (clipV c))) else
    match s.jac with
    | none => (s, .error .runtime)
    | some Js =>
      if c.mg then
        if noise.length ≠ s.parents.length then (s, .error .value)
        else (s, .rows (askRows c s.parents Js noise))
      else (s, .rows (askRowsObj c s.parents Js))
  | .tell => (s, .done)      -- GradientOperatorEmitter defines no `tell`: the inherited no-op
  | .observe b => ({ s with empty := b }, .done)

def run (c : Cfg) : St → List Op → St
  | s, [] => s
  | s, op :: ops => run c (step c s op).1 ops

end Gop

end Pyribs.Dqd
