"""C18 — optimizers keep a valid search distribution and apply their update rules.

Correspondence: the real optimizers of `ribs.emitters.opt` and the Lean model
`PyribsModel/Opt.lean` (machine `opt`) are driven in lock step.  The model works
over exact rationals; every float the implementation exposes is sent as its
exact value, and wherever the Python code calls `log` / `sqrt` / `exp` the
harness supplies the float result for the argument the model asks for (the model
checks the supplied value against a bracket and reports `supok`).  Continuous
relations are compared within 2^-40 (float64) / 2^-18 (float32) of the largest
magnitude involved; discrete ones (counters, which draw belongs to which row,
bit-identity under a change of ranking values, dyadic gradient ascent) exactly.

Oracle: the property read directly on the implementation — bounds, dtype, σ > 0
and finite, covariance symmetric with no negative eigenvalue, eigensystem
consistent with the symmetrised covariance when a refresh is due, every
returned row equals `mean + σ·T·z` for the draw recorded for *that* row
(replayed from the seed with the generator construction and call sequence of
each `ask`, and read from what the optimizer itself recorded: `es.noise`,
`_solution_z`), new mean = log-rank-weighted average of the selected parents
inside their coordinate hull, zero parents change nothing, same permutation
with other ranking values gives a bit-identical state, `reset` equals a fresh
instance on every public attribute (the fresh instance is built from an
independent copy of the reset point, while the optimizer under test receives
the very array object it was given before; that object must never change),
gradient ascent / Adam follow a float reference of the published rules.
"""
import copy
import math
import os
import time
import warnings
from fractions import Fraction

import numpy as np

import core  # noqa: E402
from core import Driver, Failure, kvs, nl, unq, unql

ID = "C18"
from genf import translate  # noqa: E402,F401  (regenerates lean/PyribsGen/Formulas.lean from the tree under check)
PROOF_MODULES = ["PyribsProofs.C18", "PyribsGen.Formulas", "PyribsProofs.GenFOpt"]
THEOREMS = [
    # update rules of the gradient optimizers, regenerated from the source (harness/translate/formulas.py)
    "Pyribs.GenFProofs.ascent_matches",
    "Pyribs.GenFProofs.adam_matches",
    "Pyribs.GenFProofs.cma_params_match",
    "Pyribs.GenFProofs.cma_tell_steps_match",
    "Pyribs.GenFProofs.sep_tell_steps_match",
    "Pyribs.GenFProofs.cov_updates_match",
    "Pyribs.GenFProofs.sep_params_match",
    "Pyribs.GenFProofs.lm_matches",
    "Pyribs.GenFProofs.openai_norm_rank_matches",
    "Pyribs.GenFProofs.openai_norm_rank_ends",
    # T18.1
    "Pyribs.C18.weights_of_values",
    "Pyribs.C18.weights_pos_decreasing_sum_one",
    "Pyribs.C18.weights_real_log",
    "Pyribs.C18.weights_model",
    # T18.2
    "Pyribs.C18.mean_is_weighted_average",
    "Pyribs.C18.mean_convex",
    "Pyribs.C18.mean_in_halfspace",
    "Pyribs.C18.cma_mean_update",
    "Pyribs.C18.sep_mean_update",
    "Pyribs.C18.lm_mean_update",
    # T18.3
    "Pyribs.C18.cma_zero_parents",
    "Pyribs.C18.sep_zero_parents",
    "Pyribs.C18.lm_zero_parents",
    # T18.4
    "Pyribs.C18.order_only",
    "Pyribs.C18.order_only_sep",
    "Pyribs.C18.order_only_lm",
    "Pyribs.C18.order_only_openai",
    # T18.5
    "Pyribs.C18.cov_psd_preserved_real",
    "Pyribs.C18.cov_psd_preserved_rat",
    "Pyribs.C18.cma_coefficients",
    "Pyribs.C18.cma_cov_psd",
    "Pyribs.C18.cma_tell_valid",
    "Pyribs.C18.cma_history_valid",
    "Pyribs.C18.sep_cov_nonneg",
    "Pyribs.C18.sep_cov_pos",
    "Pyribs.C18.sep_core_cov_nonneg",
    "Pyribs.C18.cma_cmu_clamped",
    "Pyribs.C18.sep_cmu_clamped",
    # T18.6
    "Pyribs.C18.sigma_pos_real",
    "Pyribs.C18.sigma_pos",
    "Pyribs.C18.sigma_update_shape",
    "Pyribs.C18.sep_tell_valid",
    "Pyribs.C18.lm_tell_sigma_pos",
    # T18.7
    "Pyribs.C18.reset_initial",
    "Pyribs.C18.reset_forgets",
    # T18.8
    "Pyribs.C18.resample_record",
    "Pyribs.C18.openai_noise_matches",
    # T18.9
    "Pyribs.C18.ascent_closed_form",
    # T18.10
    "Pyribs.C18.adam_moments",
    "Pyribs.C18.adam_moments_no_l2",
    "Pyribs.C18.adam_step_formula",
    "Pyribs.C18.adam_first_step_sign",
    # T18.11
    "Pyribs.C18.openai_gradient",
    "Pyribs.C18.assignRanks_eq_rankAt",
    "Pyribs.C18.best_rank_half",
    "Pyribs.C18.worst_rank_half",
    "Pyribs.C18.normRank_strictMono",
    # non-vacuity
    "Pyribs.C18.nonvacuous_weights",
    "Pyribs.C18.nonvacuous_resample",
    "Pyribs.C18.nonvacuous_tell",
    "Pyribs.C18.nonvacuous_adam",
    "Pyribs.C18.nonvacuous_clamp",
]
RULE = ("one stratum per native strategy (CMA-ES, sep-CMA-ES, LM-MA-ES, OpenAI-ES non-mirror, OpenAI-ES mirror): "
        "random dimension 2..6 (thorough ..8), batch, dtype, bounds layout (none / box / one-sided mix; scalar bounds in "
        "the thorough tier), then a history of ask/tell iterations with a uniformly random ranking permutation and a "
        "parent count drawn from 0..batch (0, 1, batch//2 and batch over-weighted), 30 % of the histories ranked by a "
        "fixed linear objective instead (drives the paths one way: hsig = 0, growing sigma, check_stop), interleaved "
        "resets. sigma0 is passed as a python float, np.float64, 0-d float64 ndarray (any dtype) or np.float32 / 0-d "
        "float32 ndarray (float32 optimizers), the caller keeps the object: it must stay bit-identical and es.sigma0 "
        "must keep the configured value after every reset, ask/tell and check_stop, and after reset the step size is "
        "the configured sigma0 again. Every case keeps ONE caller-side x0 / theta0 object (70 % an ndarray of exactly the optimizer's dtype, "
        "else a strided view, list, tuple or wider float array): it is handed to the constructor (gradient optimizers: "
        "in 30 % of the cases to two optimizers) and to 70-75 % of the later resets as the identical object, it is "
        "checksummed around every call, and after each reset all public state must equal a fresh instance built from an "
        "independent copy of the original values before stepping continues; plus gradient-"
        "optimizer histories (dyadic exact stream and rounded stream, L2 coefficient 0 .. 10 with theta away from the "
        "origin, with resets), CMA-ES / sep-CMA-ES in dimension 1..3 with batches and parent counts up to 124 under the "
        "true ranks of a quadratic centred at the start point (the region where cmu reaches its clamp 1 - c1; learning "
        "rates compared with the model, stored covariance checked for symmetry / PSD), pycma wrapper histories and "
        "pycma convergence runs with ranking values of every documented layout; gradients of the gradient optimizers "
        "arrive as float arrays, lists of floats, lists of ints, int32 / int64 arrays mixed in one history; LM-MA-ES at "
        "dimension 40..56 with 33..44 direction vectors for 36..48 generations without reset (learning rates against the "
        "model, iterations on the implementation-side oracles); float32 LM-MA-ES / OpenAI-ES in boxes that reject rows "
        "(the per-row record of the draws); non-mirror OpenAI-ES with bounds accepting < 1 % of the draws (hundreds of "
        "resampling rounds, beyond BOUNDS_SAMPLING_THRESHOLD); LM-MA-ES with n_vectors from 1 to 2*batch_size and "
        "histories longer than both; one deterministic LM-MA-ES run with batch_size == solution_dim (open "
        "finding D50). REJECTED CALLS (45 % of the histories of the five strategy strata and of the gradient-optimizer "
        "stratum, 40 % of the float32 recorded-draws stratum; 1..3 per history at random positions incl. first and "
        "last): a call the optimizer rejects by raising -- tell() with malformed ranking_indices (an index == "
        "batch_size + k or < -batch_size, float or string index arrays), ask(batch_size=negative / fractional), for "
        "OpenAI-ES step() on its public adam_opt with a wrong-length / 2-D / non-numeric gradient; for AdamOpt / "
        "GradientAscentOpt step() with a longer / shorter / (1,n) / (k,n) / (n,1) / ragged / non-numeric / None / dict / "
        "non-finite gradient -- after which the SAME object is used for the rest of the history and must be "
        "indistinguishable from a twin (deep copy taken before the first rejected call) that never makes these calls "
        "and receives every other call: equal public attributes straight after the rejection, after every later "
        "ask / tell / step / reset, bit-identical batches from every later ask(), equal check_stop verdicts, and an "
        "identical next iteration (ask, tell, ask / two valid steps) run on copies of both right after the rejection; "
        "a call that the library accepts instead ends the case without a verdict (counted). A strategy case is non-trivial when some iteration selects >= 2 parents under a non-identity "
        "permutation; a gradient case when >= 2 non-zero gradients are stepped; counted once per distinct op list")
PARTIAL = [
    "rejected calls: the malformed calls drawn are malformed ranking_indices / batch_size for the evolution strategies "
    "and malformed gradients for the gradient optimizers (and for OpenAI-ES's adam_opt); a malformed num_parents "
    "(None, fractional, > batch size) is outside the quantifier ('parent counts from 0 to batch size') and is not "
    "drawn -- CMA-ES / sep-CMA-ES advance current_eval before such a tell raises; the pycma wrapper is not given "
    "rejected calls",
    "sampling distribution: only the deterministic identity 'row i = mean + sigma*T*z_i for the recorded/replayed "
    "standard-normal draw z_i' is checked; that the generator's draws are standard normal is NumPy's contract",
    "convergence on a convex quadratic: run as labelled tests in the thorough tier (coverage.tests), no theorem",
    "finiteness of sigma: sigma*exp(x) is a positive real for every history (T18.6); that it stays inside the float "
    "range under adversarial unbounded histories is not proved (checked on every driven iteration)",
    "pycma wrapper: bounds, finiteness, dtype, reset and convergence on a convex quadratic under every layout of the "
    "ranking values ((n,), (n,1), several columns) are checked on the implementation; pycma's internal update is not "
    "modelled",
    "'zero parents change nothing': for LM-MA-ES and sep-CMA-ES the batch after a zero-parent tell is compared "
    "bit for bit with the batch of an identical optimizer that was not told (the whole state including LM-MA-ES's "
    "generation counter is unchanged, T18.3 lm_zero_parents: st' = st; D57); CMA-ES advances current_eval, which "
    "only decides when the lazily refreshed eigensystem is recomputed -- the batches are compared when no refresh "
    "separates the two copies",
    "CMA-ES C^(-1/2) and the eigensystem are taken from the implementation's public state as parameters of the "
    "update; their consistency with the symmetrised covariance is checked numerically whenever a refresh is due",
]
ASSUMPTIONS = [
    "log is strictly increasing on the positive reals (discharged for Real.log in weights_real_log); sqrt and exp "
    "enter the model as supplied values: sqrt values are checked against |s^2 - a| <= 2^-44 a by the model on every "
    "request, exp values only for positivity and exp(x) >= 1 + x",
    "np.random.Generator.normal(0, s, size) equals s * standard_normal(size) elementwise (checked by every replay)",
    "rounded stream: |impl - model| <= tol * scale with tol = 2^-40 (float64) / 2^-18 (float32); iterations whose "
    "hsig test or bound test falls inside the tie zone around the discontinuity are skipped and counted",
    "between iterations the model is re-synchronised on the implementation's public state (moments of Adam, which "
    "are private, are threaded through the model instead, rounded to float64 each step)",
    "LM-MA-ES convergence is claimed only inside the method's design range: batch_size == solution_dim is the open "
    "finding D50 (csigma = 2: ps stays exactly 0, sigma shrinks by exp(-1) per tell whatever the ranking); measured on "
    "the sphere from 100*ones(n), sigma0 = 1, true ranks, n in {10, 20, 30, 40}: convergence to 1e-6 of the start "
    "distance for every batch_size <= 0.6*solution_dim (csigma <= 1.2..1.3), premature collapse of sigma below 1e-12 "
    "with the mean still at 55-99 % of the start distance for batch_size >= 0.7*solution_dim (csigma >= 1.4); the "
    "labelled convergence test uses dim 30, batch 8",
    "gradient optimizers are driven with float start points (emitters always pass float arrays); AdamOpt with an "
    "integer theta0 raises UFuncTypeError at step() (in-place float update of an integer array) - recorded, not "
    "claimed as a violation",
    "histories follow the documented protocol: check_stop() is consulted after every tell and the optimizer is reset "
    "when it says stop (a CMA-ES driven on past condition number 1e14 reaches a zero eigenvalue and NaN paths); "
    "bounded histories end when the estimated acceptance rate of a row falls below 3 % (resampling would not return)",
]
TRUSTED_EXTRA = [
    "harness float reference of the resample loop / weights / Adam rule used by the oracle (NumPy float64)",
]
TECHNIQUE = "Lean 4 proofs about an exact-rational model + lock-step correspondence with supplied log/sqrt/exp values"
LEVEL_TEXT = "proof (model) + bounded correspondence; partial clauses listed"

F64, F32 = "f64", "f32"
TOL = {F64: 2.0**-40, F32: 2.0**-18}
NPDT = {F64: np.float64, F32: np.float32}
MAX_ROUNDS = 120

CTX = None  # set in run(); used for counters only
STATS = {}


def count(key, k=1):
    if CTX is not None:
        CTX.count(key, k)


def stat(name, ratio):
    STATS[name] = max(STATS.get(name, 0.0), float(ratio))


# --------------------------------------------------------------------------
# wire helpers


def fq(x):
    f = Fraction(float(x))
    return str(f.numerator) if f.denominator == 1 else f"{f.numerator}/{f.denominator}"


def qv(xs):
    xs = list(np.asarray(xs).ravel())
    return ",".join(fq(x) for x in xs) if xs else "-"


def qrows(m):
    m = np.asarray(m)
    if m.ndim != 2 or m.shape[0] == 0:
        return "-"
    return ";".join(qv(r) for r in m)


def qbounds(b, lower):
    out = []
    for x in np.asarray(b, dtype=np.float64).ravel():
        if math.isinf(x):
            out.append("-inf" if lower else "inf")
        else:
            out.append(fq(x))
    return ",".join(out)


def pv(s):
    return np.array([float(x) for x in unql(s)], dtype=np.float64)


def pvq(s):
    return unql(s)


def prows(s, dim):
    if s in ("-", ""):
        return np.zeros((0, dim))
    return np.array([[float(Fraction(t)) for t in r.split(",")] for r in s.split(";")], dtype=np.float64)


_DRV = [None]


def drv():
    d = _DRV[0]
    if d is None or d.p.poll() is not None:
        d = Driver("opt")
        _DRV[0] = d
    return d


def ask_model(line):
    out = drv().ask(line)
    if out.startswith("err"):
        return {"err": out.split()[1], **kvs(out)}
    return kvs(out)


# --------------------------------------------------------------------------
# numba: cache the compiled helpers of the classes under test (same code, compiled once per source
# file version; the cache key contains the source file's path, size and mtime)


_CACHING = [False]


def enable_numba_cache():
    if _CACHING[0]:
        return
    _CACHING[0] = True
    try:
        import ribs.emitters.opt as opt
        for cls in vars(opt).values():
            if not isinstance(cls, type):
                continue
            for v in vars(cls).values():
                f = v.__func__ if isinstance(v, staticmethod) else v
                if hasattr(f, "enable_caching") and hasattr(f, "py_func"):
                    f.enable_caching()
    except Exception:  # pylint: disable=broad-except
        pass


# --------------------------------------------------------------------------
# public state


def canon_val(v, depth=0):
    if isinstance(v, np.ndarray):
        return ("arr", str(v.dtype), v.shape, v.tobytes())
    if isinstance(v, (np.floating, float)):
        return ("f", float(v).hex())
    if isinstance(v, (np.integer, int, bool, np.bool_)):
        return ("i", int(v))
    if v is None or isinstance(v, str):
        return ("o", v)
    if isinstance(v, type):
        return ("t", v.__name__)
    if isinstance(v, np.dtype):
        return ("t", str(v))
    if hasattr(v, "__dict__") and type(v).__module__.startswith("ribs") and depth < 3:
        return ("obj", type(v).__name__, tuple(sorted(public_state(v, depth + 1).items())))
    return ("r", repr(v))


def public_state(obj, depth=0):
    out = {}
    for k, v in vars(obj).items():
        if not k.startswith("_"):
            out[k] = canon_val(v, depth)
    for k in dir(type(obj)):
        if k.startswith("_"):
            continue
        if isinstance(getattr(type(obj), k, None), property):
            try:
                out[k] = canon_val(getattr(obj, k), depth)
            except Exception as e:  # pylint: disable=broad-except
                out[k] = ("exc", type(e).__name__)
    return out


def diff_public(a, b):
    sa, sb = public_state(a), public_state(b)
    return sorted(k for k in set(sa) | set(sb) if sa.get(k) != sb.get(k))


# --------------------------------------------------------------------------
# comparisons


def close(name, impl, model, scale, tol):
    """None if |impl - model| <= tol*scale everywhere, else a description."""
    impl = np.asarray(impl, dtype=np.float64)
    model = np.asarray(model, dtype=np.float64)
    if impl.shape != model.shape:
        return f"{name}: shape impl={impl.shape} model={model.shape}"
    if impl.size == 0:
        return None
    if not (np.all(np.isfinite(impl)) and np.all(np.isfinite(model))):
        return f"{name}: non-finite impl={impl.tolist()} model={model.tolist()}"
    err = float(np.max(np.abs(impl - model)))
    ratio = err / (tol * scale)
    stat(name, ratio)
    if ratio > 1.0:
        return (f"{name}: |impl-model|={err:.3e} > tol*scale={tol*scale:.3e} "
                f"impl={impl.ravel()[:6].tolist()} model={model.ravel()[:6].tolist()}")
    return None


def amax(*xs):
    m = 0.0
    for x in xs:
        x = np.asarray(x, dtype=np.float64)
        if x.size:
            m = max(m, float(np.max(np.abs(x))))
    return m


def in_bounds(sols, lb, ub):
    return bool(np.all(sols >= lb) and np.all(sols <= ub))


def bounds_arrays(case, dt):
    dim = case["dim"]
    lb = np.array([-np.inf if x is None else x for x in case["lb"]], dtype=dt)
    ub = np.array([np.inf if x is None else x for x in case["ub"]], dtype=dt)
    assert lb.shape == (dim,) and ub.shape == (dim,)
    return lb, ub


def ctor_bounds(case, dt):
    lb, ub = bounds_arrays(case, dt)
    if case.get("scalar_bounds"):
        return dt(lb[0]), dt(ub[0])
    return lb, ub


# --------------------------------------------------------------------------
# float reference of the resample loop (oracle side; independent of the Lean model)


def replay_loop(batch, dim, draw, transform, lb, ub, max_rounds=None):
    """Returns (rounds, rows, rec, margin) or None when more than MAX_ROUNDS rounds are needed."""
    remaining = np.arange(batch)
    rows = np.full((batch, dim), np.nan)
    rec = np.full((batch, dim), np.nan)
    rounds = []
    margin = np.inf
    lbf, ubf = np.asarray(lb, dtype=np.float64), np.asarray(ub, dtype=np.float64)
    while len(remaining) > 0:
        if len(rounds) >= (max_rounds or MAX_ROUNDS):
            return None
        d = draw(len(remaining))
        x = transform(d)
        rounds.append(np.array(d, dtype=np.float64))
        rows[remaining] = x
        rec[remaining] = d
        with np.errstate(invalid="ignore"):
            dist = np.concatenate([np.abs(x - lbf[None])[:, np.isfinite(lbf)].ravel(),
                                   np.abs(x - ubf[None])[:, np.isfinite(ubf)].ravel()])
        if dist.size:
            margin = min(margin, float(dist.min()))
        oob = np.any((x < lbf[None]) | (x > ubf[None]), axis=1)
        remaining = remaining[oob]
    return rounds, rows, rec, margin


def stream_str(rounds):
    return "|".join(qrows(r) for r in rounds) if rounds else "-"


# --------------------------------------------------------------------------
# supplied values


def fsqrt(a):
    a = Fraction(a)
    if a < 0:
        return None
    return Fraction(math.sqrt(a)) if a.denominator.bit_length() < 900 and a.numerator.bit_length() < 900 \
        else Fraction(math.sqrt(float(a)))


def fexp(x):
    try:
        return Fraction(math.exp(float(Fraction(x))))
    except OverflowError:
        return None


def with_supplied(base, sup_tokens):
    """Fixpoint loop: send, read the arguments the model needs roots / exp of, supply them, resend.

    sup_tokens(sqrts, e) -> string of supplied tokens; returns (response, sqrts, e) or ("overflow", ...)."""
    sqrts = None
    e = Fraction(1)
    last = None
    for _ in range(5):
        resp = ask_model(base + " " + sup_tokens(sqrts, e))
        if "err" in resp:
            return resp
        args = pvq(resp["sqrtargs"])
        new_sqrts = [fsqrt(a) for a in args]
        if any(s is None for s in new_sqrts):
            resp["supfail"] = "negative sqrt argument"
            return resp
        new_e = fexp(resp["exparg"])
        if new_e is None or new_e == 0:
            resp["overflow"] = "1"
            return resp
        cur = (new_sqrts, new_e)
        if last == cur and sqrts is not None:
            return resp
        last = cur
        sqrts, e = new_sqrts, new_e
    resp["supfail"] = "no fixpoint"
    return resp


# --------------------------------------------------------------------------
# strategies


SIGMA0_FORMS = ("float", "f64", "f32", "arr64", "arr32")


def sigma0_form(case):
    """form in which the caller passes sigma0; derived from the case's seed when the case does not name one (the
    float32 forms only for float32 optimizers, so that the step size keeps the precision the tolerance assumes)"""
    form = case.get("sigma0_form")
    if form is None:
        if "seed" not in case or case.get("kind") in ("lm-degenerate", "pycma-converge"):
            return "float"
        k = (int(case["seed"]) * 2654435761 >> 7) % 20
        form = "float" if k < 7 else "f64" if k < 10 else "arr64" if k < 16 else "arr32" if k < 18 else "f32"
    if form in ("f32", "arr32") and case.get("dtype") != F32:
        form = "arr64" if form == "arr32" else "f64"
    return form


def make_sigma0(case):
    """a new caller-side sigma0 object of the case's form"""
    v, form = case["sigma0"], sigma0_form(case)
    return {"float": float, "f64": np.float64, "f32": np.float32, "arr64": lambda x: np.array(x, dtype=np.float64),
            "arr32": lambda x: np.array(x, dtype=np.float32)}[form](v)


def sigma0_value(case):
    """the configured step size as a float (the float32 forms round the nominal value once)"""
    return float(make_sigma0(case))


def scalar_fingerprint(obj):
    if isinstance(obj, np.ndarray):
        return ("arr", str(obj.dtype), obj.shape, obj.tobytes())
    return (type(obj).__name__, float(obj).hex())


class CallerSigma0:
    """the caller's sigma0 object: it must stay bit-identical to what was passed, and the optimizer's own
    `sigma0` must keep the configured value, whatever is told"""

    def __init__(self, case):
        self.obj = make_sigma0(case)
        self.form = sigma0_form(case)
        self.fp = scalar_fingerprint(self.obj)
        self.value = sigma0_value(case)

    def changed(self, es, where, what):
        if scalar_fingerprint(self.obj) != self.fp:
            return Failure("oracle", f"{where}: the caller's sigma0 object (passed as {self.form}: "
                           f"{type(self.obj).__name__} of value {self.value!r}) was modified by {what}: it is now "
                           f"{float(self.obj)!r}", key="alias-sigma0")
        cur = getattr(es, "sigma0", None)
        if cur is not None and float(cur) != self.value:
            return Failure("oracle", f"{where}: es.sigma0 = {float(cur)!r} after {what}, configured {self.value!r} "
                           f"(sigma0 passed as {self.form})", key="alias-sigma0")
        return None


def make_es(case, sigma0_obj=None):
    from ribs.emitters.opt import (CMAEvolutionStrategy, LMMAEvolutionStrategy, OpenAIEvolutionStrategy,
                                   SeparableCMAEvolutionStrategy)
    kind = case["kind"]
    dt = NPDT[case["dtype"]]
    lb, ub = ctor_bounds(case, dt)
    common = dict(sigma0=make_sigma0(case) if sigma0_obj is None else sigma0_obj, solution_dim=case["dim"], batch_size=case["batch"], seed=case["seed"],
                  dtype=dt, lower_bounds=lb, upper_bounds=ub)
    if kind == "cma":
        return CMAEvolutionStrategy(**common)
    if kind == "sep":
        return SeparableCMAEvolutionStrategy(**common)
    if kind == "lm":
        return LMMAEvolutionStrategy(**common, n_vectors=case.get("nvec"))
    if kind == "openai":
        if case["mirror"]:
            common.pop("lower_bounds")
            common.pop("upper_bounds")
        return OpenAIEvolutionStrategy(**common, mirror_sampling=case["mirror"], **case["adam"])
    raise ValueError(kind)


def log_weights(mu):
    w = np.log(mu + 0.5) - np.log(np.arange(1, mu + 1))
    return w / np.sum(w)


def perm_vals(case, op, batch, which):
    """ranking values: arbitrary numbers (the update must not read them); two different sets A / B"""
    r = np.random.default_rng([case["seed"], op.get("vseed", 0), which])
    if which == 0:
        return r.standard_normal(batch)
    return r.standard_normal((batch, 2)) * 1e3


def es_mean(es, kind):
    return es.adam_opt.theta if kind == "openai" else es.mean


def width_guard(case, es, kind, lb, ub):
    """stop a bounded history before resampling becomes practically endless (generator limit)"""
    fin = np.isfinite(lb) | np.isfinite(ub)
    if not fin.any():
        return False
    m = np.asarray(es_mean(es, kind), dtype=np.float64)
    if not (np.all(m >= lb) and np.all(m <= ub)):
        return True
    if kind == "openai":
        s = float(es.sigma0)
    elif kind == "cma":
        s = float(es.sigma) * math.sqrt(float(np.max(es.cov.eigenvalues)))
    elif kind == "sep":
        s = float(es.sigma) * math.sqrt(float(np.max(es.cov.cov)))
    else:
        s = float(es.sigma) * (1.0 + amax(es.m))**2
    if not (math.isfinite(s) and s > 0):
        return True
    # acceptance estimate of one row with an isotropic upper estimate s of the spread
    cdf = lambda x: 0.5 * (1 + math.erf(x / math.sqrt(2)))
    p = 1.0
    for j in range(len(m)):
        hi = cdf((ub[j] - m[j]) / s) if math.isfinite(ub[j]) else 1.0
        lo = cdf((lb[j] - m[j]) / s) if math.isfinite(lb[j]) else 0.0
        p *= max(hi - lo, 0.0)
    return p < 0.03


class Stop(Exception):
    """end the case early without a verdict (generator limit / tie zone)"""


def fail(kind, where, what):
    return Failure(kind, f"{where}: {what}")


def run_es_case(case):
    kind = case["kind"]
    dtn = case["dtype"]
    dt = NPDT[dtn]
    tol = TOL[dtn]
    dim, batch = case["dim"], case["batch"]
    enable_numba_cache()
    warnings.simplefilter("ignore")
    sig0 = CallerSigma0(case)  # the caller keeps its sigma0 object, in the form the case says
    es = make_es(case, sig0.obj)
    count(f"sigma0-form:{sig0.form}")
    # ONE caller-side x0 object per case: it goes to the first reset and to every later reset marked `same`
    # (and to the resets that follow a check_stop); it is checksummed around every call
    layout = case.get("x0_layout", "exact")
    start = CallerArray(case["x0"], layout, dt)
    x0 = start.fresh_copy(dt)  # independent copy of the original values (never handed to the optimizer under test)
    es.reset(start.obj)
    f = start.changed("reset#0", "reset") or sig0.changed(es, "reset#0", "reset")
    if f:
        return f
    shadow = np.random.default_rng(case["seed"])  # same construction as in every __init__
    lb, ub = bounds_arrays(case, dt)
    lb64, ub64 = lb.astype(np.float64), ub.astype(np.float64)
    if kind == "openai" and case["mirror"]:
        lb64[:] = -np.inf
        ub64[:] = np.inf
    adam_ref = None
    if kind == "openai":
        adam_ref = {"m": np.zeros(dim), "v": np.zeros(dim), "t": 0,  # float reference (oracle)
                    "mm": ["0"] * dim, "mv": ["0"] * dim, "mt": 0}  # model-threaded moments

    def after_reset(where, obj_layout_values, values):
        """public state equals a fresh instance reset to an independent copy of the values; model's reset state"""
        fresh = make_es(case)
        fresh.reset(make_start(obj_layout_values, layout, dt))
        f0 = sig0.changed(es, where, "the history before this reset")
        if f0:
            return f0
        d = diff_public(es, fresh)
        if d:
            return fail("oracle", where, f"after reset public attributes differ from a fresh instance built from an "
                        f"independent copy of the reset point (and an independent sigma0 object): {d}")
        if hasattr(es, "sigma") and float(es.sigma) != sig0.value:
            return fail("oracle", where, f"after reset the step size is {float(es.sigma)!r}, configured sigma0 = "
                        f"{sig0.value!r}")
        f2 = check_reset_model(case, es, values, where)
        if f2:
            return f2
        if adam_ref is not None:
            adam_ref.update(m=np.zeros(dim), v=np.zeros(dim), t=0, mm=["0"] * dim, mv=["0"] * dim, mt=0)
        return None
    f = after_reset("reset#0", case["x0"], x0)
    if f:
        return f
    # from the first REJECTED call on: a deep copy taken before that call, which never makes such calls and receives
    # every other call of the history; the optimizer under test must stay indistinguishable from it
    tw = {"es": None}

    def twin_reset(where, values):
        if tw["es"] is None:
            return None
        tw["es"].reset(make_start(values, layout, dt))  # an equal, independent object of the same layout
        return twin_state(es, tw, where, "reset")
    try:
        for step, op in enumerate(case["ops"]):
            where = f"op#{step} {op['op']}"
            if op["op"] == "reset":
                if op.get("same", False):
                    es.reset(start.obj)  # the identical array object, after a history
                    f = start.changed(where, "reset") or after_reset(where, case["x0"], x0) or twin_reset(where, case["x0"])
                    count(f"{kind}:reset-same-object")
                else:
                    x1 = np.array(op["x0"], dtype=dt)
                    es.reset(make_start(op["x0"], layout, dt))
                    f = start.changed(where, "reset") or after_reset(where, op["x0"], x1) or twin_reset(where, op["x0"])
                if f:
                    return f
                count(f"{kind}:reset")
                continue
            if not case.get("tight") and width_guard(case, es, kind, lb64, ub64):
                count(f"{kind}:stop-width-guard")
                return None
            if op["op"] == "rejected":
                f = es_rejected(case, es, op, f"{where} [{op['how']}]", kind, dim, batch, tw)
                f = f or start.changed(where, "a rejected call") or sig0.changed(es, where, "a rejected call")
                if f:
                    return f
                continue
            f = es_iteration(case, es, shadow, op, where, kind, dt, tol, dim, batch, lb, ub, lb64, ub64, adam_ref, tw)
            f = start.changed(where, "ask/tell") or sig0.changed(es, where, "ask/tell") or f
            if f:
                return f
            # documented protocol: after tell, check_stop(); when it says stop the optimizer is reset
            # (histories that keep going past a stop condition are outside the usage the classes document)
            stop = es.check_stop(np.sort(perm_vals(case, op, batch, 0))[::-1])
            f = start.changed(where, "check_stop") or sig0.changed(es, where, "check_stop")
            if f:
                return f
            if tw["es"] is not None and bool(tw["es"].check_stop(np.sort(perm_vals(case, op, batch, 0))[::-1])) != bool(stop):
                return fail("oracle", where, f"check_stop says {bool(stop)} after a rejected call earlier in the history; "
                            f"on a copy of the optimizer that never made the rejected call it says {not bool(stop)}")
            if stop:
                count(f"{kind}:check_stop-reset")
                es.reset(start.obj)
                f = start.changed(where, "reset") or after_reset(where, case["x0"], x0) or twin_reset(where, case["x0"])
                if f:
                    return f
    except Stop as s:
        count(f"{kind}:stop-{s}")
        return None
    return None


def check_reset_model(case, es, x0, where):
    kind, dim = case["kind"], case["dim"]
    if kind == "cma":
        r = ask_model(f"reset kind=cma n={dim} sigma0={fq(sigma0_value(case))} x0={qv(x0)}")
        obs = [("mean", es.mean, pv(r["mean"])), ("sigma", [es.sigma], pv(r["sigma"])),
               ("pc", es.pc, pv(r["pc"])), ("ps", es.ps, pv(r["ps"])),
               ("cov", es.cov.cov, prows(r["cov"], dim)), ("evals", [es.current_eval], [int(r["evals"])])]
    elif kind == "sep":
        r = ask_model(f"reset kind=sep n={dim} sigma0={fq(sigma0_value(case))} x0={qv(x0)}")
        obs = [("mean", es.mean, pv(r["mean"])), ("sigma", [es.sigma], pv(r["sigma"])),
               ("pc", es.pc, pv(r["pc"])), ("ps", es.ps, pv(r["ps"])),
               ("cov", es.cov.cov, pv(r["cov"])), ("evals", [es.current_eval], [int(r["evals"])])]
    elif kind == "lm":
        r = ask_model(f"reset kind=lm n={dim} batch={case['batch']} nvec={es.n_vectors} "
                      f"sigma0={fq(sigma0_value(case))} x0={qv(x0)}")
        obs = [("mean", es.mean, pv(r["mean"])), ("sigma", [es.sigma], pv(r["sigma"])),
               ("ps", es.ps, pv(r["ps"])), ("m", es.m, prows(r["m"], dim)),
               ("gens", [es.current_gens], [int(r["gens"])])]
        # learning rates are public attributes; every one of them must be a usable rate (finite, in (0, 1]) ...
        for name, arr in (("cd", es.cd), ("cc", es.cc)):
            a = np.asarray(arr, dtype=np.float64)
            if a.shape != (es.n_vectors,) or not np.all(np.isfinite(a)) or np.any(a <= 0) or np.any(a > 1):
                bad = [int(i) for i in np.nonzero(~(np.isfinite(a) & (a > 0) & (a <= 1)))[0]][:6]
                return fail("oracle", where, f"LM-MA-ES learning rates {name}[i] must lie in (0, 1]: entries {bad} are "
                            f"{a[bad].tolist()} (n_vectors = {es.n_vectors}, batch_size = {case['batch']}, "
                            f"solution_dim = {dim})")
        # ... and they are continuous functions of the configuration
        for name, impl, mod in [("csigma", [es.csigma], pv(r["csigma"])), ("cd", es.cd, pv(r["cd"])),
                                ("cc", es.cc, pv(r["cc"]))]:
            msg = close(f"lm.{name}", impl, mod, 1.0, TOL[F64])
            if msg:
                return fail("corr", where, msg)
    else:
        r = ask_model(f"reset kind=adam n={dim} sigma0=1 x0={qv(x0)}")
        obs = [("theta", es.adam_opt.theta, pv(r["theta"]))]
        if es.noise is not None:
            return fail("oracle", where, "noise not cleared by reset")
    for name, impl, mod in obs:
        impl = np.asarray(impl, dtype=np.float64)
        if impl.shape != np.asarray(mod).shape or not np.array_equal(impl, np.asarray(mod, dtype=np.float64)):
            return fail("oracle", where, f"state after reset: {name} = {impl.tolist()} expected {np.asarray(mod).tolist()}")
    return None


def snapshot(es, kind):
    if kind == "cma":
        return dict(evals=int(es.current_eval), mean=np.array(es.mean), sigma=float(es.sigma), pc=np.array(es.pc),
                    ps=np.array(es.ps), cov=np.array(es.cov.cov), invsqrt=np.array(es.cov.invsqrt),
                    eigvals=np.array(es.cov.eigenvalues), eigbasis=np.array(es.cov.eigenbasis),
                    updated=es.cov.updated_eval)
    if kind == "sep":
        return dict(evals=int(es.current_eval), mean=np.array(es.mean), sigma=float(es.sigma), pc=np.array(es.pc),
                    ps=np.array(es.ps), cov=np.array(es.cov.cov))
    if kind == "lm":
        return dict(gens=int(es.current_gens), mean=np.array(es.mean), sigma=float(es.sigma), ps=np.array(es.ps),
                    m=np.array(es.m))
    return dict(theta=np.array(es.adam_opt.theta))


def es_iteration(case, es, shadow, op, where, kind, dt, tol, dim, batch, lb, ub, lb64, ub64, adam_ref, tw=None):
    mirror = kind == "openai" and case["mirror"]
    pre = snapshot(es, kind)
    due = None
    if kind == "cma":
        due = es.current_eval > es.cov.updated_eval + es.lazy_gap_evals
    sols = es.ask()
    sols = np.array(sols)
    if tw is not None and tw["es"] is not None:
        tsols = np.array(tw["es"].ask())
        count(f"{kind}:asks-compared-with-twin-after-rejected-call")
        if tsols.shape != sols.shape or not np.array_equal(sols, tsols):
            return fail("oracle", where, f"ask() after a rejected call earlier in the history returns another batch than "
                        f"a copy of the optimizer that never made the rejected call (first rows "
                        f"{sols[0].tolist()[:4]} vs {tsols[0].tolist()[:4]})")
        f = twin_state(es, tw, where, "ask")
        if f:
            return f
    before = snapshot(es, kind)  # ask may refresh the eigensystem (and symmetrise the covariance)
    # ---- invariants on what was returned
    if sols.shape != (batch, dim):
        return fail("oracle", where, f"ask returned shape {sols.shape}")
    if sols.dtype != dt:
        return fail("oracle", where, f"ask returned dtype {sols.dtype}, configured {np.dtype(dt)}")
    if not np.all(np.isfinite(sols)):
        return fail("oracle", where, "non-finite solution")
    if not mirror and not in_bounds(sols, lb, ub):
        return fail("oracle", where, f"solution out of bounds: {sols.tolist()} lb={lb.tolist()} ub={ub.tolist()}")
    # ---- the distribution parameters used by this ask (public state)
    mean = np.asarray(es_mean(es, kind), dtype=np.float64)
    if kind == "cma":
        f = check_eigensystem(es, pre, due, where, tol, dim)
        if f:
            return f
        T = es.cov.eigenbasis * np.sqrt(es.cov.eigenvalues)
        T64 = T.astype(np.float64)
        sig = float(before["sigma"])
        draw = lambda k: (sig * shadow.standard_normal((k, dim))).astype(dt).astype(np.float64)
        tf = lambda u: (T64 @ u.T).T + mean[None]
        scale = amax(mean) + dim * amax(T64) * 6 * sig + 1e-300
        req = f"ask kind=cma n={dim} b={batch} lb={qbounds(lb64, True)} ub={qbounds(ub64, False)} " \
              f"mean={qv(mean)} T={qrows(T64)}"
    elif kind == "sep":
        tv = np.sqrt(es.cov.eigenvalues).astype(np.float64)
        sig = float(before["sigma"])
        draw = lambda k: (sig * shadow.standard_normal((k, dim))).astype(dt).astype(np.float64)
        tf = lambda u: tv[None] * u + mean[None]
        scale = amax(mean) + amax(tv) * 6 * sig + 1e-300
        req = f"ask kind=sep n={dim} b={batch} lb={qbounds(lb64, True)} ub={qbounds(ub64, False)} " \
              f"mean={qv(mean)} tvec={qv(tv)}"
    elif kind == "lm":
        sig = float(before["sigma"])
        m = np.asarray(before["m"], dtype=np.float64)
        cd = np.asarray(es.cd, dtype=np.float64)
        itrs = min(before["gens"], es.n_vectors)

        def tf(z):
            d = z
            for j in range(itrs):
                d = (1 - cd[j]) * d + cd[j] * m[j][None] * (d @ m[j])[:, None]
            return mean[None] + sig * d
        draw = lambda k: shadow.standard_normal((k, dim))
        scale = amax(mean) + sig * 6 * (1 + amax(m))**2 * dim + 1e-300
        req = f"ask kind=lm n={dim} batch={batch} nvec={es.n_vectors} b={batch} lb={qbounds(lb64, True)} " \
              f"ub={qbounds(ub64, False)} gens={before['gens']} mean={qv(mean)} sigma={fq(sig)} " \
              f"ps={qv(before['ps'])} m={qrows(m)}"
    else:
        sig = float(es.sigma0)
        if mirror:
            def draw(k):
                assert k == batch
                return shadow.standard_normal((batch // 2, dim), dtype=dt).astype(np.float64)
            tf = lambda z: mean[None] + sig * np.concatenate((z, -z))
        else:
            draw = lambda k: shadow.standard_normal((k, dim), dtype=dt).astype(np.float64)
            tf = lambda z: mean[None] + sig * z
        scale = amax(mean) + 6 * sig + 1e-300
        req = f"ask kind=openai n={dim} b={batch} lb={qbounds(lb64, True)} ub={qbounds(ub64, False)} " \
              f"theta={qv(mean)} sigma0={fq(sig)} mirror={int(mirror)}"
    # ---- replay of the draws (same generator construction and call sequence as ask())
    if mirror:
        half = draw(batch)
        rounds, rec = [half], np.concatenate((half, -half))
        ref, margin = tf(half), np.inf
    else:
        rp = replay_loop(batch, dim, draw, tf, lb64, ub64, case.get("max_rounds"))
        if rp is None:
            raise Stop("too-many-rounds")
        rounds, ref, rec, margin = rp
        if len(rounds) > 100:
            count(f"{kind}:asks-with-more-than-100-rounds")  # beyond BOUNDS_SAMPLING_THRESHOLD: still resampling
    if margin < 4 * tol * scale:
        raise Stop("bounds-tie-zone")
    if len(rounds) > 1:
        count(f"{kind}:asks-with-resampling")
    msg = close(f"{kind}.sample-identity", sols, ref, scale, tol)
    if msg:
        return fail("oracle", where, "returned rows are not mean + sigma*T*z of the replayed draws: " + msg)
    # ---- what the optimizer itself recorded about the samples
    if kind == "openai":
        noise = es.noise
        if noise is None or np.shape(noise) != (batch, dim):
            return Failure("oracle", f"{where}: recorded noise has shape {np.shape(noise)} but {batch} solutions "
                           f"were returned (rounds of resampling: {len(rounds)})", key="D14")
        back = mean[None] + sig * np.asarray(noise, dtype=np.float64)
        msg = close("openai.noise-record", sols, back, scale, tol)
        if msg:
            return Failure("oracle", f"{where}: solutions != theta + sigma0*es.noise (recorded noise does not belong "
                           f"to the returned rows; rounds: {len(rounds)}): {msg}", key="D14")
        recorded = np.asarray(noise, dtype=np.float64)
    elif kind == "lm" and getattr(es, "_solution_z", None) is not None:
        recorded = np.asarray(es._solution_z, dtype=np.float64)  # pylint: disable=protected-access
        if recorded.shape != (batch, dim):
            return fail("oracle", where, f"recorded z has shape {recorded.shape}")
        msg = close("lm.z-record", sols, tf(recorded), scale, tol)
        if msg:
            return fail("oracle", where, "solutions are not the transform of the recorded z: " + msg)
    else:
        recorded = rec
    # ---- model: the resample loop over the same stream (large configurations are driven on the
    # implementation-side oracles only: exact rationals through dozens of LM-MA-ES direction vectors are too slow)
    if case.get("no_model"):
        return tell_part(case, es, op, where, kind, sols, recorded, before, tol, dim, batch, adam_ref, mirror, tw)
    r = ask_model(req + " rounds=" + stream_str(rounds))
    if "err" in r:
        return fail("corr", where, f"model ask failed ({r['err']}) on a stream the implementation consumed "
                    f"({len(rounds)} rounds)")
    if int(r["used"]) != len(rounds):
        return fail("corr", where, f"model used {r['used']} rounds, implementation {len(rounds)}")
    msg = close(f"{kind}.ask-rows", sols, prows(r["rows"], dim), scale, tol)
    if msg:
        return fail("corr", where, msg)
    msg = close(f"{kind}.ask-record", recorded, prows(r["draws"], dim), max(1.0, amax(recorded)), tol)
    if msg:
        return fail("corr", where, "recorded draws: " + msg)
    return tell_part(case, es, op, where, kind, sols, recorded, before, tol, dim, batch, adam_ref, mirror, tw)


def twin_state(es, tw, where, after_what):
    """public state of the optimizer == public state of its twin that never made the rejected call(s)"""
    d = diff_public(es, tw["es"])
    if d:
        return fail("oracle", where, f"after {after_what}, following a rejected call earlier in the history, the public "
                    f"attributes {d} differ from those of a copy of the optimizer that never made the rejected call")
    return None


def outcome(fn):
    try:
        return None, fn()
    except Exception as e:  # pylint: disable=broad-except
        return type(e).__name__, None


def es_rejected(case, es, op, where, kind, dim, batch, tw):
    """a call the optimizer REJECTS (raises), after which it is used again: it must be indistinguishable from a
    twin (deep copy taken before the first such call) that never made the call -- same public state now, same
    batches and same state for the rest of the history (the twin is carried along by the caller)"""
    how = op["how"]
    if tw["es"] is None:
        tw["es"] = copy.deepcopy(es)
    twin = tw["es"]
    perm = list(range(batch))
    __import__("random").Random(op.get("vseed", 0)).shuffle(perm)
    vals = perm_vals(case, op, batch, 0)
    mu = max(1, batch // 2)
    pos, k = op.get("pos", 0) % batch, int(op.get("k", 0))
    if how == "tell-index-out-of-range":
        perm[pos] = batch + k
        call = lambda: es.tell(np.array(perm), vals, mu)
    elif how == "tell-index-negative-out-of-range":
        perm[pos] = -batch - 1 - k
        call = lambda: es.tell(np.array(perm), vals, mu)
    elif how == "tell-float-indices":
        call = lambda: es.tell(np.array(perm, dtype=np.float64), vals, mu)
    elif how == "tell-string-indices":
        call = lambda: es.tell(np.array([str(i) for i in perm]), vals, mu)
    elif how == "ask-negative-batch":
        call = lambda: es.ask(batch_size=-1 - k)
    elif how == "ask-fraction-batch":
        call = lambda: es.ask(batch_size=batch + 0.5)
    elif how == "adam-step-wrong-length" and kind == "openai":
        call = lambda: es.adam_opt.step(np.ones(dim + 1 + k))
    elif how == "adam-step-2d" and kind == "openai":
        call = lambda: es.adam_opt.step(np.ones((2 + k, dim)))
    elif how == "adam-step-non-numeric" and kind == "openai":
        call = lambda: es.adam_opt.step(["x"] * dim)
    else:
        raise Stop("malformed-op")
    err, _ = outcome(call)
    if err is None:
        # not rejected: what the call did is not judged (the property does not demand rejections), the case ends
        count(f"{kind}:rejected-call-was-accepted:{how}")
        raise Stop("rejected-call-accepted")
    count(f"{kind}:rejected-calls-then-used-again")
    count(f"{kind}:rejected-call:{how}")
    f = twin_state(es, tw, f"{where} raised {err}", "the rejected call itself")
    if f:
        return f
    # the next iteration on copies of both (so that a rejected call at the end of a history is observed as well)
    a, b = copy.deepcopy(es), copy.deepcopy(twin)
    pperm = np.arange(batch)[::-1].copy()
    for name, fa, fb in (("ask()", a.ask, b.ask),
                         ("tell()", lambda: a.tell(pperm, vals, mu), lambda: b.tell(pperm, vals, mu)),
                         ("the ask() after the next tell()", a.ask, b.ask)):
        (ea, ra), (eb, rb) = outcome(fa), outcome(fb)
        same = ea == eb and (ra is None) == (rb is None) and (ra is None or np.array_equal(np.asarray(ra), np.asarray(rb)))
        if same and not diff_public(a, b):
            continue
        what = f"raises {ea}" if ea else "returns" if ra is None else f"returns first row {np.asarray(ra)[0].tolist()[:4]}"
        whatb = f"raises {eb}" if eb else "returns" if rb is None else f"returns first row {np.asarray(rb)[0].tolist()[:4]}"
        return fail("oracle", where, f"raised {err}; afterwards {name} {what} (public attributes differing: "
                    f"{diff_public(a, b)}), on a copy of the optimizer that never made the rejected call it {whatb}")
    count(f"{kind}:next-iteration-compared-with-twin-after-rejected-call")
    return None


def tell_part(case, es, op, where, kind, sols, recorded, before, tol, dim, batch, adam_ref, mirror, tw=None):
    # ---- tell
    if op.get("perm") is not None:
        perm = [int(i) for i in op["perm"]]
    elif op.get("quad") is not None:
        # true ranks of a convex quadratic centred at `quad` (a contracting history when the centre is the mean)
        d2 = np.sum((sols.astype(np.float64) - np.array(op["quad"], dtype=np.float64)[None])**2, axis=1)
        perm = [int(i) for i in np.argsort(d2, kind="stable")]
        count(f"{kind}:quadratic-rankings")
    else:
        # ranking by a linear objective along a fixed direction (drives the evolution paths one way)
        perm = [int(i) for i in np.argsort(-(sols.astype(np.float64) @ np.array(op["dir"], dtype=np.float64)),
                                           kind="stable")]
        count(f"{kind}:directional-rankings")
    mu = int(op["mu"])
    if sorted(perm) != list(range(batch)) or mu > batch:
        raise Stop("malformed-op")
    twin = copy.deepcopy(es)
    untold = copy.deepcopy(es) if mu == 0 and kind in ("cma", "sep", "lm") else None
    valsA, valsB = perm_vals(case, op, batch, 0), perm_vals(case, op, batch, 1)
    es.tell(np.array(perm), valsA, mu)
    if tw is not None and tw["es"] is not None:
        tw["es"].tell(np.array(perm), valsA, mu)
        count(f"{kind}:tells-compared-with-twin-after-rejected-call")
        f = twin_state(es, tw, where, "tell")
        if f:
            return f
    if untold is not None:
        # "zero parents change nothing": the next batch is the batch of a copy that was never told (tell draws
        # nothing, so both copies sample with the same generator state).
        told_copy = copy.deepcopy(es)
        nxt_told = np.asarray(told_copy.ask(), dtype=np.float64)
        nxt_untold = np.asarray(untold.ask(), dtype=np.float64)
        if kind == "cma" and told_copy.cov.updated_eval != untold.cov.updated_eval:
            # the told copy refreshed its (lazily updated, possibly stale) eigensystem and the other did not: both
            # sample from an admissible decomposition of the same covariance, the batches are not comparable
            count("cma:zero-parent-next-batch-skipped-lazy-refresh")
            same = True
        else:
            count(f"{kind}:zero-parent-next-batch-compared")
            same = np.array_equal(nxt_told, nxt_untold)
        if not same:
            dev = amax(nxt_told - nxt_untold) if nxt_told.shape == nxt_untold.shape else float("nan")
            return fail("oracle", where, f"zero parents changed the search distribution: the batch after a zero-parent "
                        f"tell differs from the batch of an identical optimizer that was not told (max deviation "
                        f"{dev:.6g}; e.g. first sample {nxt_told[0].tolist()[:4]} vs {nxt_untold[0].tolist()[:4]})")
    twin.tell(np.array(perm), valsB, mu)
    d = diff_public(es, twin)
    if d:
        return fail("oracle", where, f"same ranking permutation, different ranking values: public state differs in {d}")
    if kind == "openai":
        return openai_tell(case, es, before, recorded, perm, where, tol, dim, batch, adam_ref, mirror)
    return cma_like_tell(case, es, kind, before, sols, recorded, perm, mu, where, tol, dim, batch)


def check_eigensystem(es, before, due, where, tol, dim):
    c = es.cov
    if due:
        count("cma:refresh-due")
        if c.updated_eval != es.current_eval:
            return fail("oracle", where, "eigensystem refresh was due but updated_eval did not move")
        C = np.asarray(c.cov, dtype=np.float64)
        if not np.array_equal(C, C.T):
            return fail("oracle", where, "covariance not symmetric after a due refresh")
        lam = np.asarray(c.eigenvalues, dtype=np.float64)
        B = np.asarray(c.eigenbasis, dtype=np.float64)
        if np.any(lam < 0) or not np.all(np.isfinite(lam)):
            return fail("oracle", where, f"eigenvalues {lam.tolist()}")
        sc = max(amax(C), 1e-300) * dim
        msg = close("cma.eig-reconstruct", (B * lam) @ B.T, C, sc, tol)
        if msg:
            return fail("oracle", where, "B diag(l) B^T does not reconstruct the symmetrised covariance: " + msg)
        msg = close("cma.eig-orthonormal", B @ B.T, np.eye(dim), float(dim), tol)
        if msg:
            return fail("oracle", where, "eigenbasis not orthonormal: " + msg)
        if np.all(lam > 0):
            inv = (B * (1 / np.sqrt(lam))) @ B.T
            msg = close("cma.invsqrt", np.asarray(c.invsqrt, dtype=np.float64), inv, max(amax(inv), 1e-300) * dim, tol)
            if msg:
                return fail("oracle", where, "invsqrt inconsistent with the eigensystem: " + msg)
        # symmetrisation must not move the matrix beyond rounding
        msg = close("cma.symmetrise", C, np.asarray(before["cov"], dtype=np.float64), max(amax(C), 1e-300), tol)
        if msg:
            return fail("oracle", where, "covariance changed by the refresh: " + msg)
    else:
        count("cma:refresh-not-due")
        same = (np.array_equal(c.eigenvalues, before["eigvals"]) and np.array_equal(c.eigenbasis, before["eigbasis"])
                and np.array_equal(c.invsqrt, before["invsqrt"]) and c.updated_eval == before["updated"])
        if not same:
            return fail("oracle", where, "eigensystem changed although no refresh was due")
    return None


def cma_like_tell(case, es, kind, before, sols, recorded, perm, mu, where, tol, dim, batch):
    after = snapshot(es, kind)
    S = max(1.0, amax(sols), amax(before["mean"]))
    sols64 = sols.astype(np.float64)
    # ---- oracle: invariants
    if not (math.isfinite(after["sigma"]) and after["sigma"] > 0):
        return fail("oracle", where, f"sigma = {after['sigma']}")
    for name in ("mean", "ps") + (("pc",) if kind != "lm" else ()):
        if not np.all(np.isfinite(after[name])):
            return fail("oracle", where, f"{name} not finite")
    if kind == "cma":
        C = np.asarray(after["cov"], dtype=np.float64)
        sc = max(amax(C), 1e-300)
        if not np.all(np.isfinite(C)):
            return fail("oracle", where, "covariance not finite")
        asym = amax(C - C.T)
        stat("cma.cov-asymmetry", asym / (tol * sc))
        if asym > tol * sc:
            return fail("oracle", where, f"covariance asymmetric by {asym:.3e}")
        lmin = float(np.min(np.linalg.eigvalsh(np.maximum(C, C.T))))
        stat("cma.cov-min-eig-neg", max(0.0, -lmin) / (tol * sc * dim))
        if lmin < -tol * sc * dim:
            return fail("oracle", where, f"covariance has eigenvalue {lmin:.3e}")
    if kind == "sep":
        C = np.asarray(after["cov"], dtype=np.float64)
        if not (np.all(np.isfinite(C)) and np.all(C > 0)):
            return fail("oracle", where, f"diagonal covariance not positive: {C.tolist()}")
    # ---- oracle: zero parents change nothing / mean is the weighted average
    cnt = "gens" if kind == "lm" else "evals"
    # LM-MA-ES: the generation counter is part of the sampling distribution (min(current_gens, n_vectors) direction
    # vectors are applied by ask), so a zero-parent tell must leave it alone
    want_cnt = before[cnt] + ((0 if mu == 0 else 1) if kind == "lm" else len(perm))
    if after[cnt] != want_cnt:
        return fail("oracle", where, f"counter {cnt} = {after[cnt]}, expected {want_cnt}")
    if mu == 0:
        count(f"{kind}:zero-parent-tells")
        for name in before:
            if name == "updated" or (name == cnt and kind != "lm"):
                continue
            if not np.array_equal(np.asarray(before[name]), np.asarray(after[name])):
                return fail("oracle", where, f"zero parents changed {name}")
    else:
        parents = sols64[perm][:mu]
        w = log_weights(mu)
        want = np.sum(parents * w[:, None], axis=0)
        msg = close(f"{kind}.mean-oracle", after["mean"], want, S * 4, tol)
        if msg:
            return fail("oracle", where, "new mean is not the log-rank-weighted average of the selected parents: " + msg)
        lo, hi = parents.min(axis=0), parents.max(axis=0)
        m = np.asarray(after["mean"], dtype=np.float64)
        if np.any(m < lo - tol * S * 4) or np.any(m > hi + tol * S * 4):
            return fail("oracle", where, "new mean outside the coordinate hull of the parents")
    # ---- model
    if case.get("no_model"):
        return None
    if mu > 0:
        lh, ls = float(np.log(mu + 0.5)), np.log(np.arange(1, mu + 1))
    else:
        lh, ls = 0.0, np.zeros(0)
    common = f"perm={nl(perm)} mu={mu} lh={fq(lh)} ls={qv(ls)} sols={qrows(sols64)}"
    sig = before["sigma"]
    if kind == "cma":
        base = (f"cma-tell n={dim} batch={batch} evals={before['evals']} mean={qv(before['mean'])} sigma={fq(sig)} "
                f"pc={qv(before['pc'])} ps={qv(before['ps'])} cov={qrows(np.asarray(before['cov'], dtype=np.float64))} "
                f"invsqrt={qrows(np.asarray(before['invsqrt'], dtype=np.float64))} " + common)

        def sup(sq, e):
            sq = sq or [Fraction(1)] * 3
            return f"sdamp={fq_(sq[0])} sps={fq_(sq[1])} spc={fq_(sq[2])} exp={fq_(e)}"
    elif kind == "sep":
        base = (f"sep-tell n={dim} batch={batch} evals={before['evals']} mean={qv(before['mean'])} sigma={fq(sig)} "
                f"pc={qv(before['pc'])} ps={qv(before['ps'])} cov={qv(before['cov'])} " + common)

        def sup(sq, e):
            sq = sq or [Fraction(1)] * (4 + dim)
            return (f"sn={fq_(sq[0])} sdamp={fq_(sq[1])} sps={fq_(sq[2])} spc={fq_(sq[3])} "
                    f"scov={','.join(fq_(s) for s in sq[4:4 + dim])} exp={fq_(e)}")
    else:
        nvec = es.n_vectors
        base = (f"lm-tell n={dim} batch={batch} nvec={nvec} gens={before['gens']} mean={qv(before['mean'])} "
                f"sigma={fq(sig)} ps={qv(before['ps'])} m={qrows(np.asarray(before['m'], dtype=np.float64))} "
                f"zs={qrows(recorded)} " + common)

        def sup(sq, e):
            sq = sq or [Fraction(1)] * (1 + nvec)
            return f"sps={fq_(sq[0])} sm={','.join(fq_(s) for s in sq[1:1 + nvec]) or '-'} exp={fq_(e)}"
    r = with_supplied(base, sup)
    if "err" in r:
        return fail("corr", where, f"model rejected the tell: {r['err']}")
    if "overflow" in r:
        raise Stop("exp-overflow")
    if "supfail" in r or (mu > 0 and r.get("supok") != "1"):
        return fail("corr", where, f"supplied sqrt/exp values rejected by the model's brackets: {r.get('supfail')} "
                    f"sqrtargs={r.get('sqrtargs')}")
    if int(r[cnt]) != after[cnt]:
        return fail("corr", where, f"{cnt} impl={after[cnt]} model={r[cnt]}")
    if mu == 0:
        return None
    # coefficient hypotheses of T18.5, checked numerically on every update
    decay, cmu = Fraction(r["decay"]), Fraction(r["cmu"])
    if kind in ("cma", "sep"):
        f = check_strat_params(es, kind, dim, mu, r, where)
        if f:
            return f
        if decay < 0 or cmu < 0:
            return fail("corr", where, f"covariance coefficients negative in the model: decay={float(decay)} cmu={float(cmu)}")
        if kind == "sep" and decay <= 0:
            count("sep:decay-zero")
        stat(f"{kind}.min-decay-inv", 1.0 / max(float(decay), 1e-300))
    msg = close(f"{kind}.mean", after["mean"], pv(r["mean"]), S * 4, tol)
    if msg:
        return fail("corr", where, msg)
    sqrtargs = [float(a) for a in pvq(r["sqrtargs"])]
    if kind in ("cma", "sep"):
        hm = float(Fraction(r["hmargin"]))
        right = 2 + 4.0 / (dim + 1)
        if abs(hm) <= math.sqrt(tol) * max(1.0, right + hm):
            raise Stop("hsig-tie-zone")
        count(f"{kind}:hsig={'1' if hm < 0 else '0'}")
        off = 1 if kind == "sep" else 0
        sPs, sPc = math.sqrt(sqrtargs[off + 1]), math.sqrt(sqrtargs[off + 2])
        if kind == "cma":
            inv_norm = dim * amax(before["invsqrt"])
        else:
            inv_norm = 1.0 / math.sqrt(float(np.min(before["cov"])))
        sc_ps = max(1.0, amax(before["ps"], after["ps"]), sPs / sig * inv_norm * S)
        sc_pc = max(1.0, amax(before["pc"], after["pc"]), sPc * S)
        ysmax = amax(sols64[perm][:mu] - np.asarray(before["mean"], dtype=np.float64)[None])
        sc_cov = max(1.0, amax(before["cov"], after["cov"]), (float(Fraction(r["c1"])) * sc_pc)**2 + 0.0,
                     float(cmu) / sig**2 * 2 * S * max(ysmax, S * 2.0**-30) * mu)
        msg = close(f"{kind}.ps", after["ps"], pv(r["ps"]), sc_ps, tol)
        if msg:
            return fail("corr", where, msg)
        msg = close(f"{kind}.pc", after["pc"], pv(r["pc"]), sc_pc, tol)
        if msg:
            return fail("corr", where, msg)
        mcov = prows(r["cov"], dim) if kind == "cma" else pv(r["cov"])
        msg = close(f"{kind}.cov", after["cov"], mcov, sc_cov, tol)
        if msg:
            return fail("corr", where, msg)
        rel = 1.0 + 2 * amax(after["ps"]) * sc_ps
    else:
        zmax = max(1.0, amax(recorded))
        sc_ps = max(1.0, amax(before["ps"], after["ps"]), math.sqrt(sqrtargs[0]) * zmax)
        msg = close("lm.ps", after["ps"], pv(r["ps"]), sc_ps, tol)
        if msg:
            return fail("corr", where, msg)
        sc_m = max(1.0, amax(before["m"], after["m"]), max(math.sqrt(a) for a in sqrtargs[1:] or [0.0]) * zmax)
        msg = close("lm.m", after["m"], prows(r["m"], dim), sc_m, tol)
        if msg:
            return fail("corr", where, msg)
        rel = 1.0 + 2 * float(es.csigma) * amax(after["ps"]) * sc_ps
    msg = close(f"{kind}.sigma", [after["sigma"]], pv(r["sigma"]), after["sigma"] * rel, tol)
    if msg:
        return fail("corr", where, msg)
    return None


def check_strat_params(es, kind, dim, mu, r, where):
    """learning rates of the covariance update, read from the implementation's own `_calc_strat_params` when it
    exists with the known signature: the old covariance must keep a non-negative coefficient (1 - c1 - cmu >= 0,
    the hypothesis of T18.5) and c1 / cmu must be the model's"""
    fn = getattr(es, "_calc_strat_params", None)
    if fn is None:
        return None
    try:
        out = fn(mu) if kind == "cma" else fn(dim, mu)
        c1, cmu = float(out[4]), float(out[5])
    except Exception:  # pylint: disable=broad-except
        count(f"{kind}:strat-params-not-readable")
        return None
    count(f"{kind}:strat-params-compared")
    if cmu >= 1 - c1:
        count(f"{kind}:cmu-clamp-active")
    if 1 - c1 - cmu < -TOL[F64] or cmu < 0 or c1 < 0:
        return fail("oracle", where, f"learning rates c1={c1}, cmu={cmu} (dim {dim}, {mu} parents): the coefficient of the "
                    f"old covariance 1 - c1 - cmu = {1 - c1 - cmu} is negative, the update cannot stay positive "
                    f"semi-definite")
    for name, impl, mod in (("c1", c1, r["c1"]), ("cmu", cmu, r["cmu"])):
        msg = close(f"{kind}.{name}", [impl], [float(Fraction(mod))], 1.0, TOL[F64])
        if msg:
            return fail("corr", where, "learning rate " + msg)
    return None


def fq_(x):
    x = Fraction(x)
    return str(x.numerator) if x.denominator == 1 else f"{x.numerator}/{x.denominator}"


def adam_float(cfg, theta, m, v, t, g):
    """float64 reference of Kingma & Ba with the ascent sign and the L2 term (oracle side)"""
    gr = -np.asarray(g, dtype=np.float64) + cfg["l2_coeff"] * theta
    t = t + 1
    a = cfg["lr"] * math.sqrt(1 - cfg["beta2"]**t) / (1 - cfg["beta1"]**t)
    m = cfg["beta1"] * m + (1 - cfg["beta1"]) * gr
    v = cfg["beta2"] * v + (1 - cfg["beta2"]) * gr * gr
    return theta - a * m / (np.sqrt(v) + cfg["epsilon"]), m, v, t


def adam_tokens(cfg):
    return (f"lr={fq(cfg['lr'])} b1={fq(cfg['beta1'])} b2={fq(cfg['beta2'])} eps={fq(cfg['epsilon'])} "
            f"l2={fq(cfg['l2_coeff'])}")


def adam_model(req_head, dim):
    """one Adam step of the model with the fixpoint over supplied roots; returns response dict"""
    def sup(sq, e):
        sq = sq or [Fraction(1)] * (1 + dim)
        return f"sb2={fq_(sq[0])} sv={','.join(fq_(s) for s in sq[1:1 + dim])}"
    return with_supplied(req_head, sup)


def openai_tell(case, es, before, noise, perm, where, tol, dim, batch, ref, mirror):
    cfg = case["adam"]
    theta_b = np.asarray(before["theta"], dtype=np.float64)
    theta_a = np.asarray(es.adam_opt.theta, dtype=np.float64)
    if not np.all(np.isfinite(theta_a)):
        return fail("oracle", where, "theta not finite")
    sig = float(es.sigma0)
    # ---- oracle: float reference of the published rule on the recorded noise
    ranks = np.empty(batch)
    ranks[np.array(perm)[::-1]] = np.arange(batch)
    if ranks[perm[0]] != batch - 1:
        raise Stop("malformed-op")
    nr = ranks / (batch - 1) - 0.5
    if mirror:
        h = batch // 2
        g = np.sum(noise[:h] * (nr[:h] - nr[h:])[:, None], axis=0) / (h * sig)
    else:
        g = np.sum(noise * nr[:, None], axis=0) / (batch * sig)
    want, ref["m"], ref["v"], ref["t"] = adam_float(cfg, theta_b, ref["m"], ref["v"], ref["t"], g)
    sc = max(1.0, amax(theta_b, theta_a))
    msg = close("openai.theta-oracle", theta_a, want, sc, tol)
    if msg:
        return fail("oracle", where, "theta is not the Adam ascent step along the rank-normalised gradient estimate "
                    "(best rank +1/2): " + msg)
    # ---- model
    if case.get("no_model"):
        return None
    head = (f"openai-tell n={dim} batch={batch} sigma0={fq(sig)} mirror={int(mirror)} {adam_tokens(cfg)} "
            f"theta={qv(theta_b)} m={','.join(ref['mm'])} v={','.join(ref['mv'])} t={ref['mt']} "
            f"noise={qrows(noise)} perm={nl(perm)}")
    r = adam_model(head, dim)
    if "err" in r:
        return fail("corr", where, f"model rejected the tell: {r['err']}")
    if "supfail" in r or r.get("supok") != "1":
        return fail("corr", where, f"supplied sqrt values rejected by the model: {r.get('supfail')}")
    msg = close("openai.grad", g, pv(r["grad"]), max(1.0, amax(noise)) / sig, tol)
    if msg:
        return fail("corr", where, "gradient estimate (float reference vs model): " + msg)
    msg = close("openai.theta", theta_a, pv(r["theta"]), sc, tol)
    if msg:
        return fail("corr", where, msg)
    ref["mm"] = [fq(float(x)) for x in pvq(r["m"])]
    ref["mv"] = [fq(float(x)) for x in pvq(r["v"])]
    ref["mt"] = int(r["t"])
    return None


# --------------------------------------------------------------------------
# gradient optimizers


# ---- the caller's start point: ONE object per case, handed to the constructor and to every reset


def make_start(values, layout, dt):
    """the caller-side object holding x0 / theta0 (layout 'exact' = ndarray of exactly the optimizer's dtype, so
    that no implicit conversion copy can hide an alias)"""
    vals = [float(v) for v in values]
    if layout == "list":
        return vals
    if layout == "tuple":
        return tuple(vals)
    if layout == "noncontig":
        big = np.zeros(2 * len(vals), dtype=dt)
        big[::2] = vals
        return big[::2]
    if layout == "wider":  # float64 array for a float32 optimizer
        return np.array(vals, dtype=np.float64)
    return np.array(vals, dtype=dt)


def fingerprint(obj):
    if isinstance(obj, np.ndarray):
        return ("arr", str(obj.dtype), obj.shape, obj.strides, obj.tobytes())
    return ("seq", type(obj).__name__, tuple(obj))


class CallerArray:
    """checksums the caller's start object around every call into the optimizer: it must never change"""

    def __init__(self, values, layout, dt):
        self.obj = make_start(values, layout, dt)
        self.fp = fingerprint(self.obj)
        self.values = np.array(values, dtype=np.float64)  # independent copy of the original values

    def changed(self, where, what):
        if fingerprint(self.obj) != self.fp:
            now = np.asarray(self.obj, dtype=np.float64).tolist()
            return Failure("oracle", f"{where}: the caller's start array (passed to the constructor / reset) was "
                           f"modified by {what}: now {now}, originally {self.values.tolist()}", key="alias-start")
        return None

    def fresh_copy(self, dt):
        return np.array(self.values, dtype=dt)


class GradTrack:
    """one gradient optimizer under test with its float reference and its model-threaded state"""

    def __init__(self, case, start_obj, values):
        from ribs.emitters.opt import AdamOpt, GradientAscentOpt
        self.case = case
        self.kind = case["kind"]
        self.dim = case["dim"]
        self.make = (lambda th: GradientAscentOpt(th, case["lr"])) if self.kind == "ascent" else \
            (lambda th: AdamOpt(th, **case["adam"]))
        self.opt = self.make(start_obj)
        self.last = np.array(self.opt.theta)
        self.twin = None  # deep copy taken before the first REJECTED step(); it receives every other call
        self.restart(values)

    def restart(self, values):
        """reference / model state of a fresh optimizer at `values`"""
        dim = self.dim
        self.base = [Fraction(float(x)) for x in values]
        self.mth = list(self.base)
        self.gsum = [Fraction(0)] * dim
        self.nsteps = 0
        self.m, self.v, self.t = np.zeros(dim), np.zeros(dim), 0
        self.mm, self.mv, self.mt = ["0"] * dim, ["0"] * dim, 0

    def check_fresh(self, where, values):
        """public state (and the behaviour of the next step) equals a fresh instance built from an
        independent copy of the original values"""
        vals = np.array(values, dtype=np.float64)
        th = np.asarray(self.opt.theta)
        if th.shape != vals.shape or not np.array_equal(th.astype(np.float64), vals):
            return fail("oracle", where, f"after reset theta = {th.tolist()}, the reset point is {vals.tolist()}")
        fresh = self.make(np.array(vals))
        d = diff_public(self.opt, fresh)
        if d:
            return fail("oracle", where, f"after reset public attributes differ from a fresh instance: {d}")
        a = copy.deepcopy(self.opt)
        g0 = np.ones(self.dim)
        a.step(g0)
        fresh.step(g0)
        if not np.array_equal(a.theta, fresh.theta):
            return fail("oracle", where, "after reset the next step differs from a fresh optimizer's")
        return None

    def twin_same(self, where, after_what):
        if self.twin is None:
            return None
        a, b = np.asarray(self.opt.theta), np.asarray(self.twin.theta)
        d = diff_public(self.opt, self.twin)
        if d or a.shape != b.shape or a.dtype != b.dtype or not np.array_equal(a, b):
            return fail("oracle", where, f"after {after_what}, following a rejected step() earlier in the history, theta = "
                        f"{a.tolist()}; a copy of the optimizer that never made the rejected call has theta = "
                        f"{b.tolist()} (public attributes differing: {d})")
        return None

    def rejected(self, where, op):
        """a step() the optimizer REJECTS (raises), after which it is used again: it must be indistinguishable
        from a twin (deep copy taken before the first such call) that never made the call -- same public state
        now, same theta after every later step of the history and after two probe steps on copies of both"""
        dim, how, k = self.dim, op["how"], int(op.get("k", 0))
        vals = [float(x) for x in op["g"]]
        if how == "longer":
            bad = np.array((vals * (k + 2))[:dim + 1 + k])
        elif how == "shorter":
            bad = np.array(vals[:dim - 1 - k % max(dim - 2, 1)])
        elif how == "2d-row":
            bad = np.array([vals])
        elif how == "2d-rows":
            bad = np.array([vals] * (2 + k))
        elif how == "2d-column":
            bad = np.array(vals)[:, None]
        elif how == "longer-list":
            bad = vals + [1.0] * (1 + k)
        elif how == "non-numeric":
            bad = ["x"] * dim
        elif how == "none":
            bad = None
        elif how == "ragged":
            bad = [vals, vals[:-1] + [1.0, 2.0]]
        elif how == "dict":
            bad = {"gradient": vals}
        elif how == "non-finite":
            bad = np.array(vals)
            bad[k % dim] = [np.nan, np.inf, -np.inf][k % 3]
        else:
            return "stop"
        if self.twin is None:
            self.twin = copy.deepcopy(self.opt)
        err, _ = outcome(lambda: self.opt.step(bad))
        if err is None:
            # not rejected (it broadcasts / is taken as is): what the call did is not judged, the case ends
            count(f"gradopt:rejected-call-was-accepted:{how}")
            return "stop"
        count("gradopt:rejected-calls-then-used-again")
        count(f"gradopt:{self.kind}:rejected-call:{how}")
        f = self.twin_same(f"{where} raised {err}", "the rejected call itself")
        if f:
            return f
        a, b = copy.deepcopy(self.opt), copy.deepcopy(self.twin)
        for n, g in enumerate(op["probe"]):
            g = np.array(g, dtype=np.float64)
            (ea, _), (eb, _) = outcome(lambda: a.step(g.copy())), outcome(lambda: b.step(g.copy()))
            ta, tb = np.asarray(a.theta), np.asarray(b.theta)
            if ea != eb or ta.shape != tb.shape or not np.array_equal(ta, tb):
                return fail("oracle", where, f"raised {err}; valid step #{n + 1} afterwards (gradient {g.tolist()}) "
                            f"{'raises ' + ea if ea else 'gives theta = ' + str(ta.tolist())}; on a copy of the optimizer "
                            f"that never made the rejected call it {'raises ' + eb if eb else 'gives theta = ' + str(tb.tolist())}")
        count("gradopt:next-steps-compared-with-twin-after-rejected-call")
        return None

    def step(self, where, g, g_obj=None):
        """`g_obj` is what the caller passes (list of ints, int32 / int64 / float array); `g` its float64 values"""
        case, dim, tol = self.case, self.dim, TOL[F64]
        opt = self.opt
        prev = np.array(opt.theta, dtype=np.float64)
        g_obj = g if g_obj is None else g_obj
        g_fp = fingerprint(g_obj) if isinstance(g_obj, (np.ndarray, list, tuple)) else None
        try:
            opt.step(g_obj)
        except Exception as e:  # pylint: disable=broad-except
            kind_ = type(g_obj).__name__ + (f"[{g_obj.dtype}]" if isinstance(g_obj, np.ndarray) else
                                            f"[{type(g_obj[0]).__name__}]" if len(g_obj) else "")
            return Failure("oracle", f"{where}: step() raised {type(e).__name__} for a gradient passed as {kind_} "
                           f"{np.asarray(g_obj).tolist()} ('every gradient sequence'): {str(e)[:160]}",
                           key="D45-adam-integer-gradient" if "int" in kind_ else None)
        if g_fp is not None and fingerprint(g_obj) != g_fp:
            return fail("oracle", where, "step() modified the caller's gradient object")
        if self.twin is not None:
            self.twin.step(copy.deepcopy(g_obj))
            count("gradopt:steps-compared-with-twin-after-rejected-call")
            f = self.twin_same(where, "step()")
            if f:
                return f
        th = np.asarray(opt.theta, dtype=np.float64)
        if not np.all(np.isfinite(th)):
            return fail("oracle", where, "theta not finite")
        self.nsteps += 1
        if self.kind == "ascent":
            lr = Fraction(float(case["lr"]))
            want = [Fraction(float(prev[j])) + lr * Fraction(float(g[j])) for j in range(dim)]
            self.gsum = [self.gsum[j] + Fraction(float(g[j])) for j in range(dim)]
            closed = [self.base[j] + lr * self.gsum[j] for j in range(dim)]
            r = ask_model(f"ascent-step n={dim} lr={fq(case['lr'])} theta={','.join(fq_(x) for x in self.mth)} "
                          f"g={qv(g)}")
            self.mth = pvq(r["theta"])
            if case.get("exact", False):
                got = [Fraction(float(x)) for x in th]
                if got != want:
                    return fail("oracle", where, f"theta' != theta + lr*g exactly: {th.tolist()}")
                if got != closed:
                    return fail("oracle", where, f"theta_n != theta_0 + lr*sum(g) exactly (theta_0 = the reset point): "
                                f"{th.tolist()} expected {[float(x) for x in closed]}")
                if got != self.mth:
                    return fail("corr", where, f"theta impl={th.tolist()} model={[float(x) for x in self.mth]}")
            else:
                sc = max(1.0, amax(th), amax(prev), abs(case["lr"]) * amax(g))
                msg = close("ascent.theta-oracle", th, [float(x) for x in want], sc, tol)
                if msg:
                    return fail("oracle", where, "theta' != theta + lr*g: " + msg)
                msg = close("ascent.closed-form", th, [float(x) for x in closed], sc * self.nsteps, tol)
                if msg:
                    return fail("oracle", where, "theta_n != theta_0 + lr*sum(g) (theta_0 = the reset point): " + msg)
                msg = close("ascent.theta", th, [float(x) for x in self.mth], sc * self.nsteps, tol)
                if msg:
                    return fail("corr", where, msg)
            return None
        cfg = case["adam"]
        want, self.m, self.v, self.t = adam_float(cfg, prev, self.m, self.v, self.t, g)
        sc = max(1.0, amax(prev, th))
        msg = close("adam.theta-oracle", th, want, sc, tol)
        if msg:
            return fail("oracle", where, "theta is not the Adam ascent step (Kingma & Ba with bias correction, sign "
                        "flipped for ascent, L2 term): " + msg)
        if self.t == 1 and cfg["l2_coeff"] == 0:
            mv_ = th - prev
            if np.any(np.sign(mv_) != np.sign(g)):
                return fail("oracle", where, f"first step does not have the sign of the gradient: g={g.tolist()} "
                            f"step={mv_.tolist()}")
        head = (f"adam-step n={dim} {adam_tokens(cfg)} theta={qv(prev)} m={','.join(self.mm)} "
                f"v={','.join(self.mv)} t={self.mt} g={qv(g)}")
        r = adam_model(head, dim)
        if "err" in r:
            return fail("corr", where, f"model rejected the step: {r['err']}")
        if "supfail" in r or r.get("supok") != "1":
            return fail("corr", where, f"supplied sqrt values rejected by the model: {r.get('supfail')}")
        msg = close("adam.theta", th, pv(r["theta"]), sc, tol)
        if msg:
            return fail("corr", where, msg)
        self.mm = [fq(float(x)) for x in pvq(r["m"])]
        self.mv = [fq(float(x)) for x in pvq(r["v"])]
        self.mt = int(r["t"])
        return None


def run_grad_case(case):
    """One caller-side theta0 object per case: it goes to the constructor of every optimizer of the case and to
    every `reset` marked `same`; it is checksummed around every call; after each reset the optimizer must equal a
    fresh one built from an independent copy of the original values, and stepping continues from there."""
    start = CallerArray(case["theta0"], case.get("start_layout", "exact"), np.float64)
    tracks = [GradTrack(case, start.obj, start.values)]
    f = start.changed("constructor", "the constructor")
    if f:
        return f
    if case.get("twin"):
        tracks.append(GradTrack(case, start.obj, start.values))
        count("gradopt:two-optimizers-one-start-array")
    for k, tr in enumerate(tracks):
        f = tr.check_fresh(f"constructor#{k}", start.values)
        if f:
            return f
    for step, op in enumerate(case["ops"]):
        where = f"op#{step} {op['op']}"
        tr = tracks[op.get("who", 0) % len(tracks)]
        if op["op"] == "reset":
            if op.get("same", False):
                tr.opt.reset(start.obj)
                vals = start.values
                count("gradopt:reset-same-object")
            else:
                vals = np.array(op["theta0"], dtype=np.float64)
                tr.opt.reset(np.array(vals))
            f = start.changed(where, "reset") or tr.check_fresh(where, vals)
            if f:
                return f
            if tr.twin is not None:
                tr.twin.reset(np.array(vals))
                f = tr.twin_same(where, "reset()")
                if f:
                    return f
            tr.restart(vals)
            tr.last = np.array(tr.opt.theta)
            for other in tracks:
                if other is not tr and not np.array_equal(np.asarray(other.opt.theta), other.last):
                    return fail("oracle", where, "a reset of one optimizer moved another optimizer built from the "
                                "same theta0 array")
            continue
        if op["op"] == "rejected":
            f = tr.rejected(f"{where} [{op['how']}]", op) or start.changed(where, "a rejected step")
            if f == "stop":
                return None
            if f:
                return f
            for other in tracks:
                if other is not tr and not np.array_equal(np.asarray(other.opt.theta), other.last):
                    return fail("oracle", where, "a rejected call on one optimizer moved another optimizer built from "
                                "the same theta0 array")
            continue
        g = np.array(op["g"], dtype=np.float64)
        gt = op.get("gtype", "f64")
        if gt == "intlist":
            g_obj = [int(x) for x in op["g"]]
        elif gt in ("int32", "int64"):
            g_obj = np.array([int(x) for x in op["g"]], dtype=gt)
        elif gt == "floatlist":
            g_obj = [float(x) for x in op["g"]]
        else:
            g_obj = g
        if gt != "f64":
            count(f"gradopt:gradient-as-{gt}")
        f = tr.step(where, g, g_obj) or start.changed(where, "step")
        if f:
            return f
        # a call on one optimizer must not move another optimizer built from the same start array
        tr.last = np.array(tr.opt.theta)
        for other in tracks:
            if other is not tr and not np.array_equal(np.asarray(other.opt.theta), other.last):
                return fail("oracle", where, "a call on one optimizer moved another optimizer built from the same "
                            "theta0 array")
    return None


# --------------------------------------------------------------------------
# pycma wrapper: bounds, finiteness, dtype, reset


def run_pycma_case(case):
    from ribs.emitters.opt import PyCMAEvolutionStrategy
    warnings.simplefilter("ignore")
    dt = NPDT[case["dtype"]]
    dim, batch = case["dim"], case["batch"]
    lb, ub = bounds_arrays(case, dt)
    bounded = np.isfinite(lb).any() or np.isfinite(ub).any()

    sig0 = CallerSigma0(case)
    count(f"sigma0-form:{sig0.form}")

    def make():
        return PyCMAEvolutionStrategy(sigma0=sig0.obj, solution_dim=dim, batch_size=batch, seed=case["seed"],
                                      dtype=dt, lower_bounds=[None if math.isinf(x) else float(x) for x in lb] if bounded else None,
                                      upper_bounds=[None if math.isinf(x) else float(x) for x in ub] if bounded else None)
    es = make()
    start = CallerArray(case["x0"], case.get("x0_layout", "exact"), np.float64)  # one caller-side x0 object
    x0 = start.fresh_copy(np.float64)
    es.reset(start.obj)
    f = start.changed("reset#0", "reset") or sig0.changed(es, "reset#0", "reset")
    if f:
        return f
    center = np.array(case["x0"], dtype=np.float64)

    def check_fresh(where, x):
        inner = getattr(es, "_es", None)
        if inner is None:
            return None
        if getattr(inner, "countiter", 0) != 0:
            return fail("oracle", where, "iteration counter not zero after reset")
        if float(inner.sigma) != sig0.value:
            return fail("oracle", where, f"sigma after reset {inner.sigma} != configured sigma0 {sig0.value!r}")
        if es.batch_size != batch:
            return fail("oracle", where, f"batch_size {es.batch_size} != {batch}")
        mean = getattr(inner, "mean", None)
        if mean is not None and not bounded:
            if not np.array_equal(np.asarray(mean, dtype=np.float64), np.asarray(x, dtype=np.float64)):
                return fail("oracle", where, f"mean after reset {np.asarray(mean).tolist()} != x0 {np.asarray(x).tolist()}")
        return None
    f = check_fresh("reset#0", x0)
    if f:
        return f
    for step, op in enumerate(case["ops"]):
        where = f"op#{step} {op['op']}"
        if op["op"] == "reset":
            es.reset(start.obj)  # the identical array object, after a history
            center = x0
            f = start.changed(where, "reset") or sig0.changed(es, where, "reset") or check_fresh(where, x0)
            if f:
                return f
            continue
        sols = np.array(es.ask())
        f = start.changed(where, "ask") or sig0.changed(es, where, "ask")
        if f:
            return f
        if sols.shape != (batch, dim):
            return fail("oracle", where, f"ask returned shape {sols.shape}")
        if sols.dtype != dt:
            return fail("oracle", where, f"ask returned dtype {sols.dtype}")
        if not np.all(np.isfinite(sols)):
            return fail("oracle", where, "non-finite solution")
        if not in_bounds(sols, lb, ub):
            return fail("oracle", where, f"solution out of bounds: {sols.tolist()}")
        vals = -np.sum((sols.astype(np.float64) - center[None] - 0.25)**2, axis=1)
        if op.get("vdim", 1) == 2:
            vals2 = np.stack([vals, vals], axis=1)
            es.tell(np.argsort(-vals), vals2, int(op["mu"]))
        elif op.get("vdim", 1) == 3:
            es.tell(np.argsort(-vals), vals[:, None], int(op["mu"]))
        else:
            es.tell(np.argsort(-vals), vals, int(op["mu"]))
        f = start.changed(where, "tell") or sig0.changed(es, where, "tell")
        if f:
            return f
        inner = getattr(es, "_es", None)
        if inner is not None and not (math.isfinite(float(inner.sigma)) and float(inner.sigma) > 0):
            return fail("oracle", where, f"sigma = {inner.sigma}")
    return None


# --------------------------------------------------------------------------
# generators


def dyadic(rng, lo, hi, den):
    return rng.randint(int(lo * den), int(hi * den)) / den


def gen_bounds(rng, dim, x0, sigma0, layout):
    lb, ub = [None] * dim, [None] * dim
    if layout == "none":
        return lb, ub
    for j in range(dim):
        w_lo = rng.choice([1.0, 1.5, 2.0, 3.0]) * sigma0
        w_hi = rng.choice([1.0, 1.5, 2.0, 3.0]) * sigma0
        lo = math.floor((x0[j] - w_lo) * 16) / 16
        hi = math.ceil((x0[j] + w_hi) * 16) / 16
        if layout == "box":
            lb[j], ub[j] = lo, hi
        else:  # mixed
            r = rng.random()
            if r < 0.35:
                lb[j], ub[j] = lo, hi
            elif r < 0.55:
                lb[j] = lo
            elif r < 0.75:
                ub[j] = hi
    return lb, ub


def gen_perm_ops(rng, batch, n_iter, dim, x0_mag, mu_max=None, reset_p=0.1, directional=False):
    ops = []
    direction = [rng.choice([-1.0, -0.5, 0.0, 0.5, 1.0, 2.0]) for _ in range(dim)]
    if not any(direction):
        direction[0] = 1.0
    for _ in range(n_iter):
        if ops and rng.random() < reset_p:
            ops.append({"op": "reset", "same": rng.random() < 0.7,
                        "x0": [dyadic(rng, -x0_mag, x0_mag, 8) for _ in range(dim)]})
            continue
        perm = list(range(batch))
        rng.shuffle(perm)
        r = rng.random()
        top = batch if mu_max is None else mu_max
        if r < 0.12:
            mu = 0
        elif r < 0.22:
            mu = 1
        elif r < 0.45:
            mu = batch // 2
        elif r < 0.55:
            mu = top
        else:
            mu = rng.randint(0, top)
        if directional and rng.random() < 0.85:
            ops.append({"op": "iter", "perm": None, "dir": direction, "mu": max(mu, 1),
                        "vseed": rng.randrange(1 << 30)})
        else:
            ops.append({"op": "iter", "perm": perm, "mu": mu, "vseed": rng.randrange(1 << 30)})
    return ops


ES_REJECTIONS = ["tell-index-out-of-range", "tell-index-out-of-range", "tell-index-negative-out-of-range",
                 "tell-float-indices", "tell-string-indices", "ask-negative-batch", "ask-fraction-batch"]
OPENAI_REJECTIONS = ["adam-step-wrong-length", "adam-step-wrong-length", "adam-step-2d", "adam-step-non-numeric"]
GRAD_REJECTIONS = ["longer", "longer", "longer", "shorter", "2d-row", "2d-rows", "2d-column", "longer-list",
                   "non-numeric", "none", "ragged", "dict", "non-finite"]


def sprinkle_rejected(rng, ops, make, p, follow=None):
    """with probability p: 1..3 calls that are to be REJECTED at random positions of the history (first and last
    included); `follow()` gives ops to append when nothing would come after the last of them"""
    if rng.random() >= p:
        return ops
    for _ in range(rng.choice([1, 1, 2, 3])):
        ops.insert(rng.randint(0, len(ops)), make())
    if ops[-1]["op"] == "rejected" and follow is not None:
        ops.extend(follow())
    return ops


def es_rejected_op(rng, kind, batch):
    # (a malformed num_parents is NOT drawn: the property quantifies over parent counts from 0 to batch size)
    hows = ES_REJECTIONS + (OPENAI_REJECTIONS * 2 if kind == "openai" else [])
    return {"op": "rejected", "how": rng.choice(hows), "pos": rng.randrange(batch), "k": rng.randint(0, 3),
            "vseed": rng.randrange(1 << 30)}


def gen_es(kind, mirror=False, quick=True):
    def gen(rng):
        maxdim = 6 if quick else 8
        dim = rng.randint(2, maxdim)
        dtype = F32 if rng.random() < (0.15 if quick else 0.35) else F64
        if kind == "lm":
            batch = rng.randint(2, dim)
        elif kind == "openai":
            batch = rng.choice([2, 4, 6, 8]) if mirror else rng.randint(2, 8)
        else:
            batch = rng.randint(2, 8)
        sigma0 = rng.choice([0.125, 0.25, 0.5, 1.0, 2.0, 0.3, 0.7])
        x0 = [dyadic(rng, -2, 2, 8) for _ in range(dim)]
        layout = "none" if mirror else rng.choice(["none", "box", "box", "mixed"])
        if kind == "openai" and not mirror and rng.random() < 0.5:
            layout = "box"
        lb, ub = gen_bounds(rng, dim, x0, sigma0, layout)
        n_iter = rng.randint(3, 15) if quick else rng.randint(5, 60)
        case = {"kind": kind, "dim": dim, "batch": batch, "dtype": dtype, "seed": rng.randrange(1 << 31),
                "sigma0": sigma0, "x0": x0, "lb": lb, "ub": ub, "layout": layout,
                "x0_layout": rng.choice(["exact"] * 13 + ["noncontig", "noncontig", "list", "list", "tuple"] +
                                        (["wider", "wider"] if dtype == F32 else ["exact", "exact"])),
                "ops": gen_perm_ops(rng, batch, n_iter, dim, 2, directional=rng.random() < 0.3)}
        if not quick and layout == "box" and rng.random() < 0.15:
            # scalar bounds (0-d arrays inside the optimizer)
            case["scalar_bounds"] = True
            lo = math.floor((min(x0) - 2 * sigma0) * 16) / 16
            hi = math.ceil((max(x0) + 2 * sigma0) * 16) / 16
            case["lb"], case["ub"] = [lo] * dim, [hi] * dim
        if kind == "lm" and rng.random() < 0.4:
            # n_vectors different from batch_size (smaller and larger), with a history longer than both, so that
            # the number of active direction vectors min(current_gens, n_vectors) is told apart from every other count
            case["nvec"] = rng.randint(1, 2 * batch)
            need = max(batch, case["nvec"]) + 3
            if case["nvec"] != batch and len(case["ops"]) < need:
                extra = __import__("random").Random(case["seed"] ^ 0x9E3779B1)
                case["ops"] += gen_perm_ops(extra, batch, need - len(case["ops"]), dim, 2, reset_p=0.0)
        if kind == "openai":
            case["mirror"] = mirror
            case["adam"] = {"lr": rng.choice([0.001, 0.01, 0.05, 0.125]), "beta1": rng.choice([0.9, 0.5, 0.0, 0.75]),
                            "beta2": rng.choice([0.999, 0.9, 0.5]), "epsilon": rng.choice([1e-8, 1e-3, 0.125]),
                            "l2_coeff": rng.choice([0.0, 0.0, 0.005, 0.1, 1.0])}
        sprinkle_rejected(rng, case["ops"], lambda: es_rejected_op(rng, kind, batch), 0.45,
                          lambda: gen_perm_ops(rng, batch, rng.randint(1, 3), dim, 2, reset_p=0.0))
        return case
    return gen


def gen_grad(quick=True):
    def gen(rng):
        dim = rng.randint(1, 6)
        n = rng.randint(2, 20) if quick else rng.randint(5, 80)
        kind = rng.choice(["ascent", "ascent", "adam", "adam", "adam"])
        exact = kind == "ascent" and rng.random() < 0.6
        twin = rng.random() < 0.3
        ops = []
        for _ in range(n):
            who = rng.randint(0, 1) if twin else 0
            if ops and rng.random() < 0.15:
                # most resets hand back the very object the optimizer was constructed from
                if rng.random() < 0.75:
                    ops.append({"op": "reset", "same": True, "who": who})
                else:
                    ops.append({"op": "reset", "same": False, "who": who,
                                "theta0": [dyadic(rng, -4, 4, 16) for _ in range(dim)]})
            elif rng.random() < 0.2:
                # integer-typed gradient (list of ints, int32 / int64 array) or a plain list of floats
                gt = rng.choice(["intlist", "int32", "int64", "floatlist"])
                if gt == "floatlist" and not exact:
                    ops.append({"op": "step", "who": who, "gtype": gt, "g": [rng.gauss(0, 1) for _ in range(dim)]})
                else:
                    ops.append({"op": "step", "who": who, "gtype": gt,
                                "g": [float(rng.randint(-4, 4)) for _ in range(dim)]})
            elif exact:
                ops.append({"op": "step", "who": who, "g": [dyadic(rng, -4, 4, 16) for _ in range(dim)]})
            else:
                sc = rng.choice([1e-3, 1.0, 1.0, 30.0])
                ops.append({"op": "step", "who": who,
                            "g": [rng.choice([0.0, rng.gauss(0, sc)]) if rng.random() < 0.1 else
                                  rng.gauss(0, sc) for _ in range(dim)]})
        def grad():
            return [dyadic(rng, -4, 4, 16) for _ in range(dim)] if exact else [rng.gauss(0, 1) for _ in range(dim)]

        sprinkle_rejected(rng, ops, lambda: {"op": "rejected", "who": rng.randint(0, 1) if twin else 0,
                                             "how": rng.choice(GRAD_REJECTIONS), "k": rng.randint(0, 3), "g": grad(),
                                             "probe": [grad(), grad()]}, 0.45,
                          lambda: [{"op": "step", "who": 0, "g": grad()}, {"op": "step", "who": 0, "g": grad()}])
        case = {"kind": kind, "dim": dim, "ops": ops, "exact": exact, "twin": twin,
                "start_layout": rng.choice(["exact"] * 7 + ["noncontig", "list", "tuple"])}
        if exact:
            case["theta0"] = [dyadic(rng, -4, 4, 16) for _ in range(dim)]
            case["lr"] = rng.choice([0.125, 0.25, 0.5, 1.0, 2.0, 0.75])
        else:
            case["theta0"] = [rng.gauss(0, 2) for _ in range(dim)]
            case["lr"] = rng.choice([0.001, 0.01, 0.1, 0.3, 1.0])
        if kind == "adam":
            case["adam"] = {"lr": case["lr"], "beta1": rng.choice([0.9, 0.5, 0.0, 0.99]),
                            "beta2": rng.choice([0.999, 0.9, 0.5, 0.0]), "epsilon": rng.choice([1e-8, 1e-3, 0.5]),
                            "l2_coeff": rng.choice([0.0, 0.01, 0.5, 2.0, 10.0])}
        return case
    return gen


def gen_pycma(quick=True):
    def gen(rng):
        dim = rng.randint(2, 5)
        batch = rng.randint(3, 8)
        sigma0 = rng.choice([0.25, 0.5, 1.0])
        x0 = [dyadic(rng, -2, 2, 8) for _ in range(dim)]
        layout = rng.choice(["none", "box", "mixed"])
        lb, ub = gen_bounds(rng, dim, x0, sigma0, layout)
        n_iter = rng.randint(2, 8) if quick else rng.randint(4, 30)
        ops = gen_perm_ops(rng, batch, n_iter, dim, 1, reset_p=0.12)
        for op in ops:
            if op["op"] == "iter":
                op["vdim"] = rng.choice([1, 2, 2, 3])
            else:
                # keep the new mean inside the box
                op["x0"] = list(x0)
        return {"kind": "pycma", "dim": dim, "batch": batch, "dtype": rng.choice([F64, F64, F32]),
                "x0_layout": rng.choice(["exact", "exact", "exact", "list"]),
                "seed": rng.randrange(1 << 31), "sigma0": sigma0, "x0": x0, "lb": lb, "ub": ub, "layout": layout,
                "ops": ops}
    return gen


def gen_lowdim(quick=True):
    """CMA-ES / sep-CMA-ES in dimension 1..3 with batches and parent counts up to ~120: the region where the
    rank-mu learning rate reaches its clamp 1 - c1 (>= 19 parents in dim 1, 32 in dim 2, 50 in dim 3); rankings are
    the true ranks of a quadratic centred at the start point (contracting), mixed with random permutations"""
    def gen(rng):
        dim = rng.choice([1, 1, 2, 2, 3])
        need = {1: 19, 2: 32, 3: 50}[dim]
        batch = rng.randint(2 * need, 124) if rng.random() < 0.8 else rng.randint(need, 124)
        kind = rng.choice(["cma", "cma", "sep"])
        sigma0 = rng.choice([0.25, 0.5, 1.0, 2.0])
        x0 = [dyadic(rng, -2, 2, 8) for _ in range(dim)]
        n_iter = rng.randint(1, 3) if quick else rng.randint(2, 10)
        ops = []
        for _ in range(n_iter):
            r = rng.random()
            mu = batch // 2 if r < 0.5 else (batch if r < 0.6 else rng.randint(need, batch))
            if rng.random() < 0.8:
                ops.append({"op": "iter", "perm": None, "quad": x0, "mu": mu, "vseed": rng.randrange(1 << 30)})
            else:
                perm = list(range(batch))
                rng.shuffle(perm)
                ops.append({"op": "iter", "perm": perm, "mu": mu, "vseed": rng.randrange(1 << 30)})
        return {"kind": kind, "dim": dim, "batch": batch, "dtype": F64 if rng.random() < 0.85 else F32,
                "seed": rng.randrange(1 << 31), "sigma0": sigma0, "x0": x0, "lb": [None] * dim, "ub": [None] * dim,
                "layout": "none", "x0_layout": "exact", "ops": ops}
    return gen


def gen_pycma_converge(quick=True):
    """pycma wrapper on a convex quadratic, fed the true order with ranking values in every documented layout"""
    def gen(rng):
        dim = rng.randint(3, 6)
        batch = rng.randint(8, 14)
        opt = [dyadic(rng, -3, 3, 4) for _ in range(dim)]
        x0 = [dyadic(rng, -4, 4, 4) for _ in range(dim)]
        if all(abs(a - b) < 1 for a, b in zip(opt, x0)):
            x0[0] = opt[0] + 3.0 if opt[0] < 0 else opt[0] - 3.0
        bounded = rng.random() < 0.5
        return {"kind": "pycma-converge", "dim": dim, "batch": batch, "seed": rng.randrange(1 << 31), "sigma0": 1.0,
                "x0": x0, "opt": opt, "coef": [rng.choice([1.0, 2.0, 4.0]) for _ in range(dim)],
                "bounds": 5.0 if bounded else None, "values": rng.choice(["1d", "col", "2col", "2col", "3col"]),
                "parents": rng.choice(["half", "half", "all", "few"]), "ops": [{"op": "run", "gens": 150}]}
    return gen


def run_pycma_converge(case):
    """The wrapper is held to convergence: with the true order of a convex quadratic (whatever the layout of the
    ranking values: (n,), (n,1), or several columns as the two-stage rankers produce) the mean must approach the
    optimum."""
    from ribs.emitters.opt import PyCMAEvolutionStrategy
    warnings.simplefilter("ignore")
    dim, batch = case["dim"], case["batch"]
    opt = np.array(case["opt"], dtype=np.float64)
    coef = np.array(case["coef"], dtype=np.float64)
    b = case.get("bounds")
    es = PyCMAEvolutionStrategy(sigma0=case["sigma0"], solution_dim=dim, batch_size=batch, seed=case["seed"],
                                lower_bounds=None if b is None else [-b] * dim,
                                upper_bounds=None if b is None else [b] * dim)
    x0 = np.array(case["x0"], dtype=np.float64)
    es.reset(x0)
    d0 = float(np.linalg.norm(x0 - opt))
    gens = int(case["ops"][0]["gens"]) if case["ops"] else 150
    dist = d0
    for g in range(gens):
        X = np.array(es.ask(), dtype=np.float64)
        if X.shape != (batch, dim) or not np.all(np.isfinite(X)):
            return fail("oracle", f"generation {g}", f"ask returned shape {X.shape} / non-finite values")
        if b is not None and not in_bounds(X, -b, b):
            return fail("oracle", f"generation {g}", "solution out of bounds")
        f = -np.sum(coef[None] * (X - opt[None])**2, axis=1)  # objective (higher is better)
        idx = np.argsort(-f, kind="stable")
        layout = case["values"]
        if layout == "1d":
            vals = f
        elif layout == "col":
            vals = f[:, None]
        elif layout == "2col":
            vals = np.stack([np.ones(batch), f], axis=1)  # e.g. [status, objective] of a two-stage ranker
        else:
            vals = np.stack([np.ones(batch), f, -f], axis=1)
        mu = {"half": batch // 2, "all": batch, "few": 2}[case["parents"]]
        es.tell(idx, vals, mu)
        dist = float(np.linalg.norm(X[idx[0]] - opt))
        if dist < 1e-4 * d0:
            break
    count(f"pycma-converge:values-{case['values']}")
    stat("pycma-converge.distance-ratio-over-threshold", (dist / d0) / 0.02)
    if dist >= 0.02 * d0:
        return fail("oracle", f"after {gens} generations", f"pycma wrapper fed the true order of a convex quadratic with "
                    f"ranking values of layout '{case['values']}' did not approach the optimum: best solution at "
                    f"distance {dist:.3g} (start {d0:.3g})")
    return None


def gen_lm_large(quick=True):
    """LM-MA-ES at the scale it is meant for: dimension 40..56, batch (= number of direction vectors) 33..44, run
    for 36..48 generations without a reset, so that every learning rate cd[i], cc[i] up to i = n_vectors - 1 is used
    (4**i, 1.5**i beyond the int64 / float32 comfort zone).  The learning rates are compared with the model at
    reset; the iterations run on the implementation-side oracles only (`no_model`)."""
    def gen(rng):
        dim = rng.randint(40, 56)
        batch = rng.randint(33, min(44, dim))
        sigma0 = rng.choice([0.5, 1.0])
        x0 = [dyadic(rng, -2, 2, 8) for _ in range(dim)]
        bounded = rng.random() < 0.3
        lb = [x - 6 * sigma0 for x in x0] if bounded else [None] * dim
        ub = [x + 6 * sigma0 for x in x0] if bounded else [None] * dim
        n_iter = rng.randint(36, 48)
        ops = []
        quad = [x + 1.0 for x in x0]
        for _ in range(n_iter):
            mu = rng.choice([batch // 2, batch // 2, batch // 4, batch])
            if rng.random() < 0.7:
                ops.append({"op": "iter", "perm": None, "quad": quad, "mu": mu, "vseed": rng.randrange(1 << 30)})
            else:
                perm = list(range(batch))
                rng.shuffle(perm)
                ops.append({"op": "iter", "perm": perm, "mu": mu, "vseed": rng.randrange(1 << 30)})
        return {"kind": "lm", "dim": dim, "batch": batch, "dtype": F64 if rng.random() < 0.7 else F32,
                "seed": rng.randrange(1 << 31), "sigma0": sigma0, "x0": x0, "lb": lb, "ub": ub,
                "layout": "box" if bounded else "none", "x0_layout": "exact", "no_model": True, "ops": ops}
    return gen


def gen_recorded_f32(quick=True):
    """the strategies that keep a per-row record of their draws (LM-MA-ES `_solution_z`, OpenAI-ES `noise`), in
    float32 with a box tight enough that rows are rejected and resampled"""
    def gen(rng):
        kind = rng.choice(["lm", "openai"])
        dim = rng.randint(2, 5)
        batch = rng.randint(2, dim) if kind == "lm" else rng.randint(3, 8)
        sigma0 = rng.choice([0.5, 1.0, 2.0])
        x0 = [dyadic(rng, -2, 2, 8) for _ in range(dim)]
        lb = [math.floor((x - rng.choice([0.75, 1.0, 1.5]) * sigma0) * 16) / 16 for x in x0]
        ub = [math.ceil((x + rng.choice([0.75, 1.0, 1.5]) * sigma0) * 16) / 16 for x in x0]
        case = {"kind": kind, "dim": dim, "batch": batch, "dtype": F32, "seed": rng.randrange(1 << 31),
                "sigma0": sigma0, "x0": x0, "lb": lb, "ub": ub, "layout": "box",
                "x0_layout": rng.choice(["exact", "exact", "wider"]),
                "ops": gen_perm_ops(rng, batch, rng.randint(2, 6) if quick else rng.randint(4, 20), dim, 2,
                                    reset_p=0.0)}
        for op in case["ops"]:
            op["mu"] = max(op["mu"], 1)
        if kind == "openai":
            case["mirror"] = False
            case["adam"] = {"lr": 0.01, "beta1": 0.9, "beta2": 0.999, "epsilon": 1e-8, "l2_coeff": 0.0}
        sprinkle_rejected(rng, case["ops"], lambda: es_rejected_op(rng, kind, batch), 0.4)
        return case
    return gen


def gen_openai_tight(quick=True):
    """non-mirror OpenAI-ES whose bounds accept well under 1 % of the draws (a slab of width ~sigma0/100 around
    theta, or a half-line starting 2.6 sigma0 away from it): hundreds of resampling rounds, far beyond
    BOUNDS_SAMPLING_THRESHOLD = 100.  The resampling loop must keep going, every returned row must be in bounds and
    equal theta + sigma0 * noise[i] for the recorded noise (`no_model`: implementation-side oracles only)."""
    def gen(rng):
        dim = rng.randint(1, 3)
        batch = rng.randint(2, 4)
        sigma0 = rng.choice([0.5, 1.0, 2.0])
        x0 = [dyadic(rng, -2, 2, 8) for _ in range(dim)]
        lb, ub = [None] * dim, [None] * dim
        j = rng.randrange(dim)
        r = rng.random()
        if r < 0.4:      # slab around theta: acceptance ~ 0.4 %
            lb[j], ub[j] = x0[j] - sigma0 / 256, x0[j] + sigma0 / 256
        elif r < 0.7:    # half-line beyond theta: acceptance ~ 0.47 %
            lb[j] = x0[j] + 2.625 * sigma0
        else:
            ub[j] = x0[j] - 2.625 * sigma0
        n_iter = rng.randint(1, 2) if quick else rng.randint(1, 4)
        case = {"kind": "openai", "mirror": False, "dim": dim, "batch": batch,
                "dtype": F64 if rng.random() < 0.8 else F32, "seed": rng.randrange(1 << 31), "sigma0": sigma0,
                "x0": x0, "lb": lb, "ub": ub, "layout": "tight", "x0_layout": "exact", "tight": True,
                "no_model": True, "max_rounds": 20000,
                "adam": {"lr": 0.001, "beta1": 0.9, "beta2": 0.999, "epsilon": 1e-8, "l2_coeff": 0.0},
                "ops": gen_perm_ops(rng, batch, n_iter, dim, 2, reset_p=0.0)}
        for op in case["ops"]:
            op["mu"] = max(op["mu"], 1)
        return case
    return gen


D50_KEY = "D50-lm-ma-es-batch-equals-dim"


def gen_lm_degenerate(quick=True):
    def gen(rng):  # one deterministic case (the emitter's default batch size at solution_dim = 10)
        return {"kind": "lm-degenerate", "dim": 10, "batch": 10, "seed": 1, "sigma0": 1.0, "x0": [100.0] * 10,
                "ops": [{"op": "run", "gens": 60}]}
    return gen


def run_lm_degenerate(case):
    """LM-MA-ES fed the true ranks of the sphere must approach the optimum and keep a usable step size.  With
    batch_size == solution_dim, csigma = 2*batch/dim = 2: the factor sqrt(mueff*cs*(2-cs)) of the path update is 0,
    ps stays exactly 0 and sigma is multiplied by exp(-1) on every tell whatever the ranking (open finding D50)."""
    from ribs.emitters.opt import LMMAEvolutionStrategy
    warnings.simplefilter("ignore")
    dim, batch = case["dim"], case["batch"]
    gens = int(case["ops"][0]["gens"]) if case["ops"] else 60
    x0 = np.array(case["x0"], dtype=np.float64)
    d0 = float(np.linalg.norm(x0))

    def drive(order):
        es = LMMAEvolutionStrategy(case["sigma0"], dim, batch, seed=case["seed"])
        es.reset(np.array(x0))
        ps_zero = True
        for _ in range(gens):
            X = np.array(es.ask(), dtype=np.float64)
            f = -np.sum(X**2, axis=1)
            idx = np.argsort(-f, kind="stable")
            es.tell(idx if order == "true" else idx[::-1], f, batch // 2)
            ps_zero = ps_zero and not np.any(es.ps)
        return es, ps_zero
    es, ps_zero = drive("true")
    sigma, dist = float(es.sigma), float(np.linalg.norm(es.mean))
    if dist < 0.5 * d0 and sigma > 0:
        return None  # moved at least half way within the budget: not the degenerate behaviour
    es2, _ = drive("reversed")
    same = float(es2.sigma) == sigma
    return Failure("oracle", f"LMMAEvolutionStrategy(sigma0={case['sigma0']}, solution_dim={dim}, batch_size={batch}) "
                   f"(csigma = {float(es.csigma)}): true ranks of the sphere from x0 = {case['x0'][0]}*ones({dim}): after "
                   f"{gens} generations sigma = {sigma:.3g} and |mean| = {dist:.4g} (start {d0:.4g}): no convergence; "
                   f"ps stayed exactly 0: {ps_zero}; sigma identical under the reversed ranking: {same}",
                   key=D50_KEY if batch == dim else None)


def nontrivial_any(case):
    return True


def nontrivial_es(case):
    for op in case["ops"]:
        if op["op"] == "iter" and op["mu"] >= 2 and (op.get("perm") is None or op["perm"] != sorted(op["perm"])):  # noqa
            return True
    return False


def nontrivial_grad(case):
    return sum(1 for op in case["ops"] if op["op"] == "step" and any(x != 0 for x in op["g"])) >= 2


# --------------------------------------------------------------------------
# convergence (labelled tests, thorough tier; never an obligation)


def convergence_tests():
    from ribs.emitters.opt import (CMAEvolutionStrategy, LMMAEvolutionStrategy, OpenAIEvolutionStrategy,
                                   PyCMAEvolutionStrategy, SeparableCMAEvolutionStrategy)
    warnings.simplefilter("ignore")
    out = []
    # (name, dimension, constructor, iteration cap, how to read the mean); LM-MA-ES is a large-scale method
    # (csigma = 2*batch/dim must be well below 2), hence the larger dimension
    specs = [
        ("CMAEvolutionStrategy", 6, lambda d: CMAEvolutionStrategy(0.5, d, 12, seed=11), 400, lambda e: e.mean),
        ("SeparableCMAEvolutionStrategy", 6, lambda d: SeparableCMAEvolutionStrategy(0.5, d, 12, seed=12), 600,
         lambda e: e.mean),
        ("LMMAEvolutionStrategy", 30, lambda d: LMMAEvolutionStrategy(0.5, d, 8, seed=13), 3000, lambda e: e.mean),
        ("OpenAIEvolutionStrategy(mirror)", 6, lambda d: OpenAIEvolutionStrategy(0.05, d, 20, seed=14, lr=0.05), 1500,
         lambda e: e.adam_opt.theta),
        ("OpenAIEvolutionStrategy(non-mirror)", 6,
         lambda d: OpenAIEvolutionStrategy(0.05, d, 20, seed=15, mirror_sampling=False, lr=0.05), 1500,
         lambda e: e.adam_opt.theta),
        ("PyCMAEvolutionStrategy", 6, lambda d: PyCMAEvolutionStrategy(0.5, d, 12, seed=16), 400,
         lambda e: e._es.mean),  # pylint: disable=protected-access
    ]
    for name, dim, mk, iters, get_mean, vlayout in [sp + (vl,) for sp in specs for vl in ("1-D", "2-column")]:
        t0 = time.time()
        opt = np.linspace(-1.0, 1.5, dim)
        coef = np.linspace(1.0, 4.0, dim)
        x0 = np.zeros(dim)
        obj = lambda X, c=coef, o=opt: -np.sum(c[None] * (X - o[None])**2, axis=1)  # concave objective = convex loss
        d0 = float(np.linalg.norm(x0 - opt))
        label = (f"convergence on a convex quadratic (dim {dim}, true ranks, batch//2 parents, {vlayout} ranking "
                 f"values): {name}")
        try:
            es = mk(dim)
            es.reset(x0)
            best, used = d0, 0
            for used in range(1, iters + 1):
                X = np.array(es.ask())
                v = obj(X.astype(np.float64))
                idx = np.argsort(-v)
                es.tell(idx, v if vlayout == "1-D" else np.stack([np.ones(len(v)), v], axis=1), len(idx) // 2)
                best = float(np.linalg.norm(np.asarray(get_mean(es), dtype=np.float64) - opt))
                if best < 1e-3 * d0:
                    break
                if es.check_stop(v[idx] if vlayout == "1-D" else np.stack([np.ones(len(v)), v[idx]], axis=1)):
                    break
            out.append({"test": label, "passed": bool(best < 0.05 * d0), "distance_ratio": best / d0,
                        "iterations": used, "wall_s": round(time.time() - t0, 2)})
        except Exception as e:  # pylint: disable=broad-except
            out.append({"test": label, "passed": False, "error": f"{type(e).__name__}: {e}"})
    return out


# --------------------------------------------------------------------------
# entry points


def run_case(case):
    kind = case["kind"]
    if kind in ("cma", "sep", "lm", "openai"):
        return run_es_case(case)
    if kind in ("ascent", "adam"):
        return run_grad_case(case)
    if kind == "pycma":
        return run_pycma_case(case)
    if kind == "pycma-converge":
        return run_pycma_converge(case)
    if kind == "lm-degenerate":
        return run_lm_degenerate(case)
    raise ValueError(kind)


def strata(quick):
    """(name, generator, non-triviality rule, quick cases, thorough cases, weight in the time split)"""
    return [
        ("openai-nomirror", gen_es("openai", False, quick), nontrivial_es, 40, 1000, 1.0),
        ("openai-mirror", gen_es("openai", True, quick), nontrivial_es, 40, 1000, 1.0),
        ("gradopt", gen_grad(quick), nontrivial_grad, 120, 6000, 0.7),
        ("lmma", gen_es("lm", False, quick), nontrivial_es, 40, 1000, 1.0),
        ("sepcma", gen_es("sep", False, quick), nontrivial_es, 40, 1000, 1.2),
        ("cma", gen_es("cma", False, quick), nontrivial_es, 40, 1000, 1.6),
        ("lowdim-many-parents", gen_lowdim(quick), nontrivial_es, 10, 400, 0.8),
        ("lmma-large", gen_lm_large(quick), nontrivial_es, 3, 60, 0.5),
        ("recorded-f32-bounded", gen_recorded_f32(quick), nontrivial_es, 8, 300, 0.4),
        ("openai-tight-bounds", gen_openai_tight(quick), nontrivial_any, 4, 80, 0.3),
        ("lmma-batch-equals-dim", gen_lm_degenerate(quick), nontrivial_any, 1, 1, 0.1),
        ("pycma", gen_pycma(quick), nontrivial_es, 12, 400, 0.5),
        ("pycma-converge", gen_pycma_converge(quick), nontrivial_any, 6, 120, 0.6),
    ]


def warm_up():
    """compile (or load from the cache) the numba helpers before any time budget is split"""
    enable_numba_cache()
    warnings.simplefilter("ignore")
    for kind in ("lm", "sep", "cma"):
        for dtype in (F64, F32):
            case = {"kind": kind, "dim": 3, "batch": 3, "dtype": dtype, "seed": 1, "sigma0": 0.5,
                    "x0": [0.0, 0.0, 0.0], "lb": [-2.0] * 3, "ub": [2.0] * 3}
            def go(case=case, dtype=dtype):
                try:
                    es = make_es(case)
                    es.reset(np.zeros(3, dtype=NPDT[dtype]))
                    for _ in range(2):
                        es.ask()
                        es.tell(np.array([2, 0, 1]), np.zeros(3), 2)
                except Exception:  # pylint: disable=broad-except
                    pass  # a broken optimizer is reported by the cases, not here
            # (a call that never returns is abandoned here as well: the cases meet it under the per-case watchdog)
            if not core.bounded(go, 60):
                return


MIN_CASES = 8  # per stratum, whatever the clock says (a cold numba cache must not starve a stratum)


def shifted(gen):
    return lambda rng: gen(__import__("random").Random(rng.getrandbits(64) ^ 0x5BD1E995))


def run(ctx):
    global CTX  # pylint: disable=global-statement
    CTX = ctx
    quick = ctx.quick
    warm_up()
    ctx.extra["tests"] = [{"test": "convergence on a convex quadratic", "skipped": "thorough tier only"}]
    if quick:
        deadline = ctx.t0 + 45.0 - 3.0
        todo = strata(True)
        for i, (name, gen, nt, nq, _, weight) in enumerate(todo):
            n_cases = ctx.n(nq, nq)
            nmin = min(MIN_CASES, n_cases)
            nf = len(ctx.failures)
            ctx.explore(name, gen, run_case, nmin, nontrivial=nt)
            if len(ctx.failures) > nf:
                continue  # this stratum already produced its (shrunk) failing cases
            remaining = deadline - time.time()
            wsum = sum(s[5] for s in todo[i:])
            budget = max(0.5, remaining * weight / wsum)
            if n_cases > nmin:
                ctx.explore(name + "+", shifted(gen), run_case, n_cases - nmin, nontrivial=nt, time_budget=budget)
    else:
        run_thorough(ctx)
        ctx.extra["tests"] = convergence_tests()
    ctx.extra["tolerance_statistics"] = {
        "meaning": "largest observed |impl - model or reference| / (tol * scale) per observable (must stay <= 1)",
        "tol": {"float64": "2^-40", "float32": "2^-18"}, "max_ratio": dict(sorted(STATS.items()))}
    if _DRV[0] is not None:
        _DRV[0].close()
        _DRV[0] = None


# ---- thorough tier: worker processes over disjoint index ranges, each with its own driver


def _worker(args):
    prop_id, tier, seed, name, start, n, deadline = args
    import core
    global CTX  # pylint: disable=global-statement
    wctx = core.Ctx(prop_id, tier, seed)
    CTX = wctx
    STATS.clear()
    table = {s[0]: s for s in strata(False)}
    _, gen, nt, _, _, _ = table[name]
    out = []
    for idx in range(start, start + n):
        if time.time() > deadline:
            break
        case = gen(wctx.rng(name, idx))
        case["stratum"] = name
        case["case_index"] = idx
        try:
            f = run_case(case)
        except core.Infra as e:
            return {"infra": str(e)}
        except Exception as e:  # pylint: disable=broad-except
            import traceback
            return {"infra": f"worker crashed on {name}#{idx}: {type(e).__name__}: {e}\n{traceback.format_exc()[-1500:]}"}
        out.append((idx, None if f is None else f.to_json(), bool(nt(case)),
                    __import__("hashlib").sha1(repr(case.get("ops", case)).encode()).hexdigest()))
    if _DRV[0] is not None:
        _DRV[0].close()
        _DRV[0] = None
    return {"name": name, "cases": out, "dist": dict(wctx.dist), "stats": dict(STATS)}


def run_thorough(ctx):
    import multiprocessing as mp
    from concurrent.futures import ProcessPoolExecutor
    import core
    total = 470.0
    deadline = ctx.t0 + total - 75.0  # convergence tests, shrinking and evidence come after
    todo = strata(False)
    # corpus first (sequential, in this process)
    for name, gen, nt, _, _, _ in todo:
        ctx.explore(name, gen, run_case, 0, nontrivial=nt)
    chunk = 10
    tasks = []
    maxchunks = max((ctx.n(s[3], s[4]) + chunk - 1) // chunk for s in todo)
    for c in range(maxchunks):
        for name, _, _, nq, nth, _ in todo:
            n_cases = ctx.n(nq, nth)
            if c * chunk < n_cases:
                tasks.append((ctx.prop_id, ctx.tier, ctx.seed, name, c * chunk, min(chunk, n_cases - c * chunk), deadline))
    workers = int(os.environ.get("VERIF_WORKERS", "0")) or max(2, min(12, (os.cpu_count() or 4) - 4))
    failing = []
    with ProcessPoolExecutor(max_workers=workers, mp_context=mp.get_context("spawn")) as ex:
        for res in ex.map(_worker, tasks):
            if "infra" in res:
                raise core.Infra(res["infra"])
            name = res["name"]
            for idx, fj, nt_flag, digest in res["cases"]:
                ctx.evaluations += 1
                ctx.validated += 1
                ctx.count(name)
                if nt_flag:
                    ctx.nontrivial.add(digest)
                if fj is not None:
                    failing.append((name, idx, fj))
            for k, v in res["dist"].items():
                ctx.count(k, v)
            for k, v in res["stats"].items():
                stat(k, v)
    ctx.extra["workers"] = workers
    # failing cases are re-run, shrunk and classified in this process (at most two per stratum)
    table = {s[0]: s for s in todo}
    seen = {}
    for name, idx, fj in sorted(failing, key=lambda t: (t[0], t[1])):
        if fj.get("key") is not None and fj["key"] in ctx.open_keys:
            ctx.known_hits[fj["key"]] = ctx.known_hits.get(fj["key"], 0) + 1  # open known finding: reported as such
            continue
        if seen.get(name, 0) >= 2:
            continue
        seen[name] = seen.get(name, 0) + 1
        gen = table[name][1]
        case = gen(ctx.rng(name, idx))
        case["stratum"] = name
        case["case_index"] = idx
        f = run_case(case)
        if f is None:
            f = Failure(fj["kind"], fj["what"] + " (did not reproduce in the main process)", key=fj.get("key"))
            ctx.fail(f, case)
            continue
        small = core.shrink(case, run_case, f, "ops")
        ctx.fail(run_case(small) or f, small)
    # samples: the first generated case of three strata (they were run by the workers above)
    for name, gen, _, _, _, _ in (todo[0], todo[3], todo[5]):
        if not any(fn == name and fi == 0 for fn, fi, _ in failing):
            c = gen(ctx.rng(name, 0))
            c["stratum"] = name
            ctx.sample(c)


def replay(ctx, case):
    global CTX  # pylint: disable=global-statement
    CTX = ctx
    try:
        return run_case(case)
    finally:
        if _DRV[0] is not None:
            _DRV[0].close()
            _DRV[0] = None
