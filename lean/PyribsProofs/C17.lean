import PyribsModel.Ranker
/-!
# C17 — rankers return a best-first permutation by their documented key

Theorems about `PyribsModel.Ranker` (the model of `ribs/emitters/rankers.py`),
for every ranker class, every batch (any size, any statuses and values, ties,
negative values, equal projections) and every history of `rank` / `reset` /
direction-setter calls.

* T17.1 `rank_perm`       the returned indices are a permutation of `0 … n-1`;
* T17.2 `rank_sorted`     the keys are non-increasing (best first) along them —
                          the lexicographic order on `ℕ × ℚ` is shown total,
                          transitive and antisymmetric once (`KeyGE_*`);
* T17.3 `values_aligned`  the ranking values are the documented keys at their
                          original positions (`specKey`), `vals_shape` their shape;
* T17.4 `rank_pure`, `reset_dir`, `dir_after_reset`, `rank_after_reset`
                          ranking does not change the ranker; `reset` replaces the
                          direction by `z ⊙ (upper − lower)` and it stays until
                          the next `reset` / setter call;
* `topk_dominates`        every one of the first `m` ranked positions is at least
                          as good as every position left out (parent selection);
* `keyseq_unique`         any best-first permutation (NumPy's, with whatever tie
                          order) has the same key sequence as the model's — this
                          is what the correspondence check compares;
* `mergeSort_keyseq`      in particular `List.mergeSort` of the positions.
-/
namespace Pyribs.C17
open Pyribs Ranker

/-! ## the lexicographic order on `ℕ × ℚ` (proved once) -/

theorem keyGe_iff (a b : Nat × Rat) : keyGe a b = true ↔ KeyGE a b := by
  simp [keyGe, KeyGE]

theorem KeyGE_refl (a : Nat × Rat) : KeyGE a a := Or.inr ⟨rfl, Rat.le_refl⟩

theorem KeyGE_total (a b : Nat × Rat) : KeyGE a b ∨ KeyGE b a := by
  unfold KeyGE
  rcases Nat.lt_trichotomy a.1 b.1 with h | h | h
  · exact Or.inr (Or.inl h)
  · rcases Rat.le_total (a := a.2) (b := b.2) with h2 | h2
    · exact Or.inr (Or.inr ⟨h.symm, h2⟩)
    · exact Or.inl (Or.inr ⟨h, h2⟩)
  · exact Or.inl (Or.inl h)

theorem KeyGE_trans {a b c : Nat × Rat} (h1 : KeyGE a b) (h2 : KeyGE b c) : KeyGE a c := by
  unfold KeyGE at *
  rcases h1 with h1 | ⟨e1, v1⟩ <;> rcases h2 with h2 | ⟨e2, v2⟩
  · exact Or.inl (Nat.lt_trans h2 h1)
  · exact Or.inl (e2 ▸ h1)
  · exact Or.inl (e1 ▸ h2)
  · exact Or.inr ⟨e1.trans e2, Rat.le_trans v2 v1⟩

theorem KeyGE_antisymm {a b : Nat × Rat} (h1 : KeyGE a b) (h2 : KeyGE b a) : a = b := by
  unfold KeyGE at *
  rcases h1 with h1 | ⟨e1, v1⟩ <;> rcases h2 with h2 | ⟨e2, v2⟩
  · exact absurd (Nat.lt_trans h1 h2) (Nat.lt_irrefl _)
  · exact absurd (e2 ▸ h1) (Nat.lt_irrefl _)
  · exact absurd (e1 ▸ h2) (Nat.lt_irrefl _)
  · exact Prod.ext e1 (Rat.le_antisymm v2 v1)

theorem ord_iff (k : Kind) (a b : Nat × Rat) : k.ord a b = true ↔ Better k a b := by
  cases k <;> simp only [Kind.ord, Better, keyLe, keyGe_iff]

theorem Better_refl (k : Kind) (a : Nat × Rat) : Better k a a := by
  cases k <;> exact KeyGE_refl a

theorem Better_total (k : Kind) (a b : Nat × Rat) : Better k a b ∨ Better k b a := by
  cases k <;> simp only [Better]
  all_goals first | exact KeyGE_total a b | exact KeyGE_total b a

theorem Better_trans (k : Kind) {a b c : Nat × Rat} (h1 : Better k a b) (h2 : Better k b c) :
    Better k a c := by
  cases k <;> simp only [Better] at *
  all_goals first | exact KeyGE_trans h1 h2 | exact KeyGE_trans h2 h1

theorem Better_antisymm (k : Kind) {a b : Nat × Rat} (h1 : Better k a b) (h2 : Better k b a) :
    a = b := by
  cases k <;> simp only [Better] at *
  all_goals first | exact KeyGE_antisymm h1 h2 | exact KeyGE_antisymm h2 h1

theorem ord_total (k : Kind) (a b : Nat × Rat) : (k.ord a b || k.ord b a) = true := by
  simp only [Bool.or_eq_true, ord_iff]; exact Better_total k a b

theorem ord_trans (k : Kind) (a b c : Nat × Rat) (h1 : k.ord a b = true) (h2 : k.ord b c = true) :
    k.ord a c = true := by
  rw [ord_iff] at *; exact Better_trans k h1 h2

/-! ## the stable insertion sort -/

section SortLemmas
variable {α : Type} (le : α → α → Bool)

theorem insertBy_perm (x : α) (l : List α) : (insertBy le x l).Perm (x :: l) := by
  induction l with
  | nil => exact List.Perm.refl _
  | cons y ys ih =>
    unfold insertBy
    split
    · exact List.Perm.refl _
    · exact ((List.Perm.cons y ih).trans (List.Perm.swap x y ys))

theorem sortBy_perm (l : List α) : (sortBy le l).Perm l := by
  induction l with
  | nil => exact List.Perm.refl _
  | cons x xs ih =>
    unfold sortBy
    exact (insertBy_perm le x _).trans (List.Perm.cons x ih)

theorem insertBy_pairwise
    (tr : ∀ a b c, le a b = true → le b c = true → le a c = true)
    (tot : ∀ a b, (le a b || le b a) = true)
    (x : α) (l : List α) (h : l.Pairwise (fun a b => le a b = true)) :
    (insertBy le x l).Pairwise (fun a b => le a b = true) := by
  induction l with
  | nil => simp [insertBy]
  | cons y ys ih =>
    have hy := List.pairwise_cons.mp h
    unfold insertBy
    split
    · rename_i hxy
      refine List.pairwise_cons.mpr ⟨?_, h⟩
      intro z hz
      rcases List.mem_cons.mp hz with rfl | hz
      · exact hxy
      · exact tr _ _ _ hxy (hy.1 z hz)
    · rename_i hxy
      refine List.pairwise_cons.mpr ⟨?_, ih hy.2⟩
      intro z hz
      have hz' := (insertBy_perm le x ys).subset hz
      rcases List.mem_cons.mp hz' with rfl | hz'
      · have := tot z y
        simp only [Bool.or_eq_true] at this
        rcases this with h1 | h1
        · exact absurd h1 hxy
        · exact h1
      · exact hy.1 z hz'

theorem sortBy_pairwise
    (tr : ∀ a b c, le a b = true → le b c = true → le a c = true)
    (tot : ∀ a b, (le a b || le b a) = true) (l : List α) :
    (sortBy le l).Pairwise (fun a b => le a b = true) := by
  induction l with
  | nil => simp [sortBy]
  | cons x xs ih =>
    unfold sortBy
    exact insertBy_pairwise le tr tot x _ ih

end SortLemmas

/-! ## `argsortBy`: a sorted permutation of the positions -/

/-- "best first" for a list of positions `idx` into the key table `ks` -/
def SortedBy (R : Nat × Rat → Nat × Rat → Prop) (ks : List (Nat × Rat)) (idx : List Nat) : Prop :=
  idx.Pairwise (fun i j => ∀ a b, ks[i]? = some a → ks[j]? = some b → R a b)

theorem argsortBy_perm (le : Nat × Rat → Nat × Rat → Bool) (ks : List (Nat × Rat)) :
    (argsortBy le ks).Perm (List.range ks.length) := by
  unfold argsortBy
  have h := (sortBy_perm (fun a b : (Nat × Rat) × Nat => le a.1 b.1) ks.zipIdx).map (·.2)
  have e : List.map (fun x : (Nat × Rat) × Nat => x.2) ks.zipIdx = List.range ks.length := by
    rw [List.range_eq_range']
    exact List.zipIdx_map_snd 0 ks
  rw [e] at h
  exact h

theorem argsortBy_sorted (le : Nat × Rat → Nat × Rat → Bool)
    (tr : ∀ a b c, le a b = true → le b c = true → le a c = true)
    (tot : ∀ a b, (le a b || le b a) = true) (ks : List (Nat × Rat)) :
    SortedBy (fun a b => le a b = true) ks (argsortBy le ks) := by
  unfold SortedBy argsortBy
  rw [List.pairwise_map]
  have hs := sortBy_pairwise (fun a b : (Nat × Rat) × Nat => le a.1 b.1)
    (fun a b c => tr a.1 b.1 c.1) (fun a b => tot a.1 b.1) ks.zipIdx
  have hp := sortBy_perm (fun a b : (Nat × Rat) × Nat => le a.1 b.1) ks.zipIdx
  refine List.Pairwise.imp_of_mem ?_ hs
  intro p q hp' hq' hpq a b ha hb
  have h1 := List.mem_zipIdx_iff_getElem?.mp (hp.subset hp')
  have h2 := List.mem_zipIdx_iff_getElem?.mp (hp.subset hq')
  rw [h1] at ha; rw [h2] at hb
  cases ha; cases hb
  exact hpq

/-- two best-first permutations of the same positions have the same key sequence -/
theorem keyseq_unique_gen (R : Nat × Rat → Nat × Rat → Prop)
    (anti : ∀ a b, R a b → R b a → a = b)
    (ks : List (Nat × Rat)) (l₁ l₂ : List Nat)
    (p₁ : l₁.Perm (List.range ks.length)) (p₂ : l₂.Perm (List.range ks.length))
    (s₁ : SortedBy R ks l₁) (s₂ : SortedBy R ks l₂) :
    l₁.map (fun i => ks[i]?) = l₂.map (fun i => ks[i]?) := by
  let RO : Option (Nat × Rat) → Option (Nat × Rat) → Prop :=
    fun x y => ∀ a b, x = some a → y = some b → R a b
  have hsome : ∀ l : List Nat, l.Perm (List.range ks.length) →
      ∀ x ∈ l.map (fun i => ks[i]?), ∃ a, x = some a := by
    intro l hl x hx
    obtain ⟨i, hi, rfl⟩ := List.mem_map.mp hx
    have hi' : i < ks.length := List.mem_range.mp (hl.subset hi)
    exact ⟨ks[i], List.getElem?_eq_getElem hi'⟩
  refine List.Perm.eq_of_pairwise (le := RO) ?_ ?_ ?_ ?_
  · intro x y hx hy hxy hyx
    obtain ⟨a, rfl⟩ := hsome l₁ p₁ x hx
    obtain ⟨b, rfl⟩ := hsome l₂ p₂ y hy
    rw [anti a b (hxy a b rfl rfl) (hyx b a rfl rfl)]
  · rw [List.pairwise_map]; exact s₁
  · rw [List.pairwise_map]; exact s₂
  · exact (p₁.trans p₂.symm).map _

/-! ## the eight rankers -/

/-- every successful `rank` returns the stable argsort of the keys of its ranking values -/
theorem rank_ok_idx {k : Kind} {st : St} {b : Batch} {idx : List Nat} {vals : Vals}
    (h : rank k st b = .ok (idx, vals)) : idx = argsortBy k.ord vals.keys := by
  cases k <;>
    simp only [rank, ImprovementRanker.rank, TwoStageImprovementRanker.rank,
      RandomDirectionRanker.rank, TwoStageRandomDirectionRanker.rank, ObjectiveRanker.rank,
      TwoStageObjectiveRanker.rank, NoveltyRanker.rank, DensityRanker.rank, descending, ascending,
      stack, dot, bind, Except.bind, Kind.ord] at h ⊢
  all_goals (repeat' split at h) <;> simp_all <;> (try (obtain ⟨h1, h2⟩ := h; subst h2; exact h1.symm))

/-- T17.1: the returned indices are a permutation of the batch positions `0 … n-1` -/
theorem rank_perm {k : Kind} {st : St} {b : Batch} {idx : List Nat} {vals : Vals}
    (h : rank k st b = .ok (idx, vals)) : idx.Perm (List.range vals.size) := by
  rw [rank_ok_idx h]; exact argsortBy_perm _ _

/-- T17.2: best first — along the returned indices the keys never get better -/
theorem rank_sorted {k : Kind} {st : St} {b : Batch} {idx : List Nat} {vals : Vals}
    (h : rank k st b = .ok (idx, vals)) : SortedBy (Better k) vals.keys idx := by
  rw [rank_ok_idx h]
  have := argsortBy_sorted k.ord (ord_trans k) (ord_total k) vals.keys
  unfold SortedBy at *
  refine this.imp ?_
  intro i j hij a c ha hc
  exact (ord_iff k a c).mp (hij a c ha hc)

/-- `topk`: every one of the first `m` ranked positions is at least as good as every
    position left out (this is what parent selection relies on) -/
theorem topk_dominates {k : Kind} {st : St} {b : Batch} {idx : List Nat} {vals : Vals}
    (h : rank k st b = .ok (idx, vals)) (m : Nat) :
    ∀ i ∈ idx.take m, ∀ j ∈ idx.drop m, ∀ a c,
      vals.keys[i]? = some a → vals.keys[j]? = some c → Better k a c := by
  have hs := rank_sorted h
  unfold SortedBy at hs
  rw [← List.take_append_drop m idx] at hs
  intro i hi j hj
  exact (List.pairwise_append.mp hs).2.2 i hi j hj

/-- the best-ranked position is at least as good as every position of the batch -/
theorem head_is_best {k : Kind} {st : St} {b : Batch} {i : Nat} {rest : List Nat} {vals : Vals}
    (h : rank k st b = .ok (i :: rest, vals)) :
    ∀ j, j < vals.size → ∀ a c, vals.keys[i]? = some a → vals.keys[j]? = some c → Better k a c := by
  intro j hj a c ha hc
  have hp := rank_perm h
  have hjm : j ∈ i :: rest := hp.symm.subset (List.mem_range.mpr hj)
  rcases List.mem_cons.mp hjm with rfl | hjm
  · rw [ha] at hc; cases hc; exact Better_refl k a
  · have := topk_dominates h 1 i (by simp) j (by simpa using hjm)
    exact this a c ha hc

/-- Any best-first permutation of the positions (for instance the one NumPy returns,
    whatever its tie order) carries the same key sequence as the model's ranking.
    This is the comparison the correspondence check makes. -/
theorem keyseq_unique {k : Kind} {st : St} {b : Batch} {idx : List Nat} {vals : Vals}
    (h : rank k st b = .ok (idx, vals)) (idx' : List Nat)
    (hp : idx'.Perm (List.range vals.size)) (hs : SortedBy (Better k) vals.keys idx') :
    idx'.map (fun i => vals.keys[i]?) = idx.map (fun i => vals.keys[i]?) :=
  keyseq_unique_gen (Better k) (fun _ _ => Better_antisymm k) vals.keys idx' idx hp (rank_perm h) hs
    (rank_sorted h)

/-- position order induced by a key table (positions outside the table last) -/
def idxOrd (le : Nat × Rat → Nat × Rat → Bool) (ks : List (Nat × Rat)) (i j : Nat) : Bool :=
  match ks[i]?, ks[j]? with
  | some a, some c => le a c
  | _, none => true
  | none, some _ => false

/-- the design's formulation `(List.range n).mergeSort (key i ≥ key j)` yields the same
    key sequence as the model's insertion sort -/
theorem mergeSort_keyseq {k : Kind} {st : St} {b : Batch} {idx : List Nat} {vals : Vals}
    (h : rank k st b = .ok (idx, vals)) :
    ((List.range vals.size).mergeSort (idxOrd k.ord vals.keys)).map (fun i => vals.keys[i]?)
      = idx.map (fun i => vals.keys[i]?) := by
  apply keyseq_unique h
  · exact List.mergeSort_perm _ _
  · have tr : ∀ a b c : Nat, idxOrd k.ord vals.keys a b = true → idxOrd k.ord vals.keys b c = true →
        idxOrd k.ord vals.keys a c = true := by
      intro a b c
      unfold idxOrd
      cases vals.keys[a]? <;> cases vals.keys[b]? <;> cases vals.keys[c]? <;> simp
      exact ord_trans k _ _ _
    have tot : ∀ a b : Nat, (idxOrd k.ord vals.keys a b || idxOrd k.ord vals.keys b a) = true := by
      intro a b
      unfold idxOrd
      cases vals.keys[a]? <;> cases vals.keys[b]? <;> simp
      exact Better_total k _ _ |>.imp (ord_iff k _ _).mpr (ord_iff k _ _).mpr
    have := List.pairwise_mergeSort tr tot (List.range vals.size)
    unfold SortedBy
    refine this.imp ?_
    intro i j hij a c ha hc
    simp only [idxOrd, ha, hc] at hij
    exact (ord_iff k a c).mp hij

/-! ## T17.3: the ranking values are the documented keys, aligned with the original positions -/

theorem getElem?_map_key (v : List Rat) (i : Nat) :
    (v.map (fun x => ((0 : Nat), x)))[i]? = v[i]?.map (fun x => (0, x)) := by
  simp

theorem getElem?_stack {s : List Nat} {v : List Rat} {rv : List (Nat × Rat)}
    (h : stack s v = .ok rv) (i : Nat) :
    rv[i]? = (do let a ← s[i]?; let c ← v[i]?; pure (a, c)) := by
  unfold stack at h
  split at h
  · rename_i hl
    cases h
    rw [List.zip_eq_zipWith, List.getElem?_zipWith]
    cases s[i]? <;> cases v[i]? <;> rfl
  · cases h

theorem getElem?_dot {ms : List (List Rat)} {d p : List Rat} (h : dot ms d = .ok p) (i : Nat) :
    p[i]? = ms[i]?.map (fun m => dot1 m d) := by
  unfold dot at h
  split at h
  · cases h; simp
  · cases h

/-- T17.3: the second return value holds, at every original position `i`, the documented
    key of solution `i` (and nothing beyond the batch) -/
theorem values_aligned {k : Kind} {st : St} {b : Batch} {idx : List Nat} {vals : Vals}
    (h : rank k st b = .ok (idx, vals)) (i : Nat) : vals.keys[i]? = specKey k st b i := by
  cases k <;>
    simp only [rank, ImprovementRanker.rank, TwoStageImprovementRanker.rank,
      RandomDirectionRanker.rank, TwoStageRandomDirectionRanker.rank, ObjectiveRanker.rank,
      TwoStageObjectiveRanker.rank, NoveltyRanker.rank, DensityRanker.rank, descending, ascending,
      bind, Except.bind] at h
  case imp => cases h; simp [Vals.keys, specKey]
  case obj => cases h; simp [Vals.keys, specKey]
  case imp2 =>
    split at h
    · cases h
    · rename_i rv hrv; cases h
      simpa [Vals.keys, specKey] using getElem?_stack hrv i
  case obj2 =>
    split at h
    · cases h
    · rename_i rv hrv; cases h
      simpa [Vals.keys, specKey] using getElem?_stack hrv i
  case nov =>
    split at h
    · cases h
    · rename_i nv hnv; cases h
      simp [Vals.keys, specKey, hnv]
  case density =>
    split at h
    · cases h
    · rename_i dn hdn; cases h
      simp [Vals.keys, specKey, hdn]
  case rd =>
    split at h
    · cases h
    · rename_i d hd
      split at h
      · cases h
      · rename_i p hp; cases h
        simp only [Vals.keys, specKey, proj, hd, getElem?_map_key, getElem?_dot hp i]
        cases b.measures[i]? <;> rfl
  case rd2 =>
    split at h
    · cases h
    · rename_i d hd
      split at h
      · cases h
      · rename_i p hp
        split at h
        · cases h
        · rename_i rv hrv; cases h
          simp only [Vals.keys, specKey, proj, hd, getElem?_stack hrv i, getElem?_dot hp i]
          cases b.status[i]? <;> cases b.measures[i]? <;> rfl

/-- the shape of the ranking values: `(n, 2)` exactly for the two-stage rankers -/
theorem vals_shape {k : Kind} {st : St} {b : Batch} {idx : List Nat} {vals : Vals}
    (h : rank k st b = .ok (idx, vals)) :
    (∃ v, vals = .two v) ↔ k.twoStage = true := by
  cases k <;>
    simp only [rank, ImprovementRanker.rank, TwoStageImprovementRanker.rank,
      RandomDirectionRanker.rank, TwoStageRandomDirectionRanker.rank, ObjectiveRanker.rank,
      TwoStageObjectiveRanker.rank, NoveltyRanker.rank, DensityRanker.rank, descending, ascending,
      bind, Except.bind] at h
  all_goals (repeat' split at h) <;> simp_all [Kind.twoStage] <;>
    (try (obtain ⟨_, h2⟩ := h; subst h2; simp))

/-- number of rows of the input the ranker class reads its keys from -/
def batchSize (k : Kind) (b : Batch) : Nat :=
  match k with
  | .imp | .imp2 => b.value.length
  | .rd | .rd2 => b.measures.length
  | .obj | .obj2 => b.objective.length
  | .nov => match b.novelty with | some nv => nv.length | none => 0
  | .density => match b.density with | some dn => dn.length | none => 0

theorem length_stack {s : List Nat} {v : List Rat} {rv : List (Nat × Rat)}
    (h : stack s v = .ok rv) : rv.length = v.length := by
  unfold stack at h
  split at h
  · cases h; simp only [List.length_zip]; omega
  · cases h

theorem length_dot {ms : List (List Rat)} {d p : List Rat} (h : dot ms d = .ok p) :
    p.length = ms.length := by
  unfold dot at h
  split at h
  · cases h; simp
  · cases h

/-- `n`: there is one ranking value per solution of the batch -/
theorem vals_size {k : Kind} {st : St} {b : Batch} {idx : List Nat} {vals : Vals}
    (h : rank k st b = .ok (idx, vals)) : vals.size = batchSize k b := by
  cases k <;>
    simp only [rank, ImprovementRanker.rank, TwoStageImprovementRanker.rank,
      RandomDirectionRanker.rank, TwoStageRandomDirectionRanker.rank, ObjectiveRanker.rank,
      TwoStageObjectiveRanker.rank, NoveltyRanker.rank, DensityRanker.rank, descending, ascending,
      bind, Except.bind] at h
  case imp => cases h; simp [Vals.size, Vals.keys, batchSize]
  case obj => cases h; simp [Vals.size, Vals.keys, batchSize]
  case imp2 =>
    split at h
    · cases h
    · rename_i rv hrv; cases h
      simpa [Vals.size, Vals.keys, batchSize] using length_stack hrv
  case obj2 =>
    split at h
    · cases h
    · rename_i rv hrv; cases h
      simpa [Vals.size, Vals.keys, batchSize] using length_stack hrv
  case nov =>
    split at h
    · cases h
    · rename_i nv hnv; cases h
      simp [Vals.size, Vals.keys, batchSize, hnv]
  case density =>
    split at h
    · cases h
    · rename_i dn hdn; cases h
      simp [Vals.size, Vals.keys, batchSize, hdn]
  case rd =>
    split at h
    · cases h
    · split at h
      · cases h
      · rename_i p hp; cases h
        simpa [Vals.size, Vals.keys, batchSize] using length_dot hp
  case rd2 =>
    split at h
    · cases h
    · split at h
      · cases h
      · rename_i p hp
        split at h
        · cases h
        · rename_i rv hrv; cases h
          simp only [Vals.size, Vals.keys, batchSize, length_stack hrv, length_dot hp]

/-- for `DensityRanker` the densities themselves are non-decreasing along the ranking -/
theorem density_ascending {st : St} {b : Batch} {idx : List Nat} {vals : Vals}
    (h : rank .density st b = .ok (idx, vals)) :
    idx.Pairwise (fun i j => ∀ a c, vals.keys[i]? = some a → vals.keys[j]? = some c → a.2 ≤ c.2) := by
  have hs := rank_sorted h
  unfold SortedBy at hs
  refine hs.imp ?_
  intro i j hij a c ha hc
  have := hij a c ha hc
  simp only [Better, KeyGE] at this
  have ha0 := values_aligned h i
  have hc0 := values_aligned h j
  rw [ha] at ha0; rw [hc] at hc0
  simp only [specKey] at ha0 hc0
  have e1 : a.1 = 0 := by
    cases hb : b.density with
    | none => simp [hb] at ha0
    | some dn =>
      simp only [hb, bind, Option.bind] at ha0
      cases hd : dn[i]? with
      | none => simp [hd] at ha0
      | some x => simp [hd] at ha0; rw [ha0]
  have e2 : c.1 = 0 := by
    cases hb : b.density with
    | none => simp [hb] at hc0
    | some dn =>
      simp only [hb, bind, Option.bind] at hc0
      cases hd : dn[j]? with
      | none => simp [hd] at hc0
      | some x => simp [hd] at hc0; rw [hc0]
  rcases this with h1 | ⟨_, h2⟩
  · omega
  · exact h2

/-! ## T17.4: purity and the direction state -/

/-- ranking never changes the ranker (the only state is the direction) -/
theorem rank_pure (k : Kind) (st : St) (b : Batch) : (step k st (.rank b)).1 = st := rfl

/-- `reset` on a random-direction ranker replaces the direction by `z ⊙ (upper − lower)` -/
theorem reset_dir {k : Kind} (hk : k.hasDir = true) (st : St) (z lo hi : List Rat) :
    (step k st (.reset z lo hi)).1.dir = some (scaleDir z lo hi) := by
  simp [step, reset, hk]

/-- … componentwise `z_j * (upper_j − lower_j)`, one component per measure dimension -/
theorem scaleDir_get (z lo hi : List Rat) (j : Nat) :
    (scaleDir z lo hi)[j]? =
      (do let zj ← z[j]?; let h ← hi[j]?; let l ← lo[j]?; pure (zj * (h - l))) := by
  unfold scaleDir
  rw [List.getElem?_zipWith, List.getElem?_zipWith]
  cases z[j]? <;> cases hi[j]? <;> cases lo[j]? <;> rfl

theorem scaleDir_length {z lo hi : List Rat} (h1 : z.length = lo.length) (h2 : lo.length = hi.length) :
    (scaleDir z lo hi).length = lo.length := by
  unfold scaleDir
  simp only [List.length_zipWith]
  omega

/-- the other six rankers have no state: `reset` (`RankerBase.reset`) does nothing -/
theorem reset_noDir {k : Kind} (hk : k.hasDir = false) (st : St) (z lo hi : List Rat) :
    (step k st (.reset z lo hi)).1 = st := by
  simp [step, reset, hk]

/-- any number of `rank` calls leaves the ranker as it was -/
theorem run_ranks (k : Kind) (st : St) (rs : List Op) (hrs : ∀ op ∈ rs, ∃ b, op = .rank b) :
    run k st rs = st := by
  induction rs generalizing st with
  | nil => rfl
  | cons op rs ih =>
    obtain ⟨b, rfl⟩ := hrs _ (List.mem_cons_self)
    simp only [run, step]
    exact ih st (fun op h => hrs op (List.mem_cons_of_mem _ h))

theorem run_append (k : Kind) (st : St) (xs ys : List Op) :
    run k st (xs ++ ys) = run k (run k st xs) ys := by
  induction xs generalizing st with
  | nil => rfl
  | cons x xs ih => simp only [List.cons_append, run]; exact ih _

/-- the direction in force after any history is the one installed by the last `reset`,
    however many `rank` calls followed it -/
theorem dir_after_reset {k : Kind} (hk : k.hasDir = true) (st : St) (pre : List Op)
    (z lo hi : List Rat) (rs : List Op) (hrs : ∀ op ∈ rs, ∃ b, op = .rank b) :
    (run k st (pre ++ .reset z lo hi :: rs)).dir = some (scaleDir z lo hi) := by
  rw [run_append]
  simp only [run]
  rw [run_ranks k _ rs hrs]
  exact reset_dir hk _ z lo hi

/-- … and that is the direction every later `rank` projects onto -/
theorem rank_after_reset {k : Kind} (hk : k.hasDir = true) (st : St) (pre : List Op)
    (z lo hi : List Rat) (rs : List Op) (hrs : ∀ op ∈ rs, ∃ b, op = .rank b) (b : Batch) :
    (step k (run k st (pre ++ .reset z lo hi :: rs)) (.rank b)).2
      = some (rank k ⟨some (scaleDir z lo hi)⟩ b) := by
  have h := dir_after_reset hk st pre z lo hi rs hrs
  generalize run k st (pre ++ .reset z lo hi :: rs) = s at h
  cases s with
  | mk d => simp only at h; subst h; rfl

/-- a `rank` before any `reset` / setter call is rejected (RuntimeError), not guessed -/
theorem rank_unset {k : Kind} (hk : k.hasDir = true) (b : Batch) :
    rank k init b = .error .runtime := by
  cases k <;> simp [Kind.hasDir] at hk <;> rfl

/-! ## non-vacuity -/

instance : DecidableEq Result := fun x y =>
  match x, y with
  | .ok a, .ok c =>
    if h : a = c then isTrue (by rw [h]) else isFalse (by intro e; cases e; exact h rfl)
  | .error a, .error c =>
    if h : a = c then isTrue (by rw [h]) else isFalse (by intro e; cases e; exact h rfl)
  | .ok _, .error _ => isFalse (by intro e; cases e)
  | .error _, .ok _ => isFalse (by intro e; cases e)

/-- a batch with ties, negative values, all three statuses and equal projections of
    different measure rows -/
def exBatch : Batch where
  objective := [1, -2, 1, 3, -2]
  measures := [[1, 0], [0, 2], [1/2, 1], [0, 0], [-1, 1]]
  status := [1, 2, 1, 0, 2]
  value := [1/2, -3, 3/4, 5, -3]
  novelty := some [2, 2, 0, 5/2, 1]
  density := some [3, 1/4, 3, 0, 1/4]

theorem nonvacuous :
    rank .imp init exBatch = .ok ([3, 2, 0, 1, 4], .one [1/2, -3, 3/4, 5, -3]) ∧
    rank .imp2 init exBatch
      = .ok ([1, 4, 2, 0, 3], .two [(1, 1/2), (2, -3), (1, 3/4), (0, 5), (2, -3)]) ∧
    rank .obj2 init exBatch
      = .ok ([1, 4, 0, 2, 3], .two [(1, 1), (2, -2), (1, 1), (0, 3), (2, -2)]) ∧
    rank .nov init exBatch = .ok ([3, 0, 1, 4, 2], .one [2, 2, 0, 5/2, 1]) ∧
    rank .density init exBatch = .ok ([3, 1, 4, 0, 2], .one [3, 1/4, 3, 0, 1/4]) ∧
    rank .rd init exBatch = .error .runtime ∧
    rank .density init { exBatch with density := none } = .error .attribute ∧
    rank .imp2 init { exBatch with status := [1, 2] } = .error .value := by
  decide +kernel

/-- a history: rank before reset is rejected; reset installs `z ⊙ (upper − lower)`; two
    rows with different measures project equally; the direction survives `rank` calls and
    is replaced by the next reset -/
def exS1 : St := run .rd2 init [.rank exBatch, .reset [1, -1/2] [0, -1] [2, 1]]
def exS2 : St := run .rd2 exS1 [.rank exBatch, .rank exBatch]
def exS3 : St := run .rd2 exS2 [.reset [3, 1] [0, -1] [2, 1]]

theorem nonvacuous_history :
    exS1.dir = some [2, -1] ∧ exS2 = exS1 ∧ exS3.dir = some [6, 2] ∧
    rank .rd2 exS1 exBatch
      = .ok ([1, 4, 0, 2, 3], .two [(1, 2), (2, -2), (1, 0), (0, 0), (2, -3)]) ∧
    rank .rd exS1 exBatch = .ok ([0, 2, 3, 1, 4], .one [2, -2, 0, 0, -3]) := by
  decide +kernel

end Pyribs.C17
