import numpy as np, random, warnings, copy
from ribs.archives import GridArchive, CVTArchive, SlidingBoundariesArchive, ProximityArchive
from ribs.emitters import *
from ribs.schedulers import Scheduler, BanditScheduler
warnings.simplefilter("ignore")
bad=0
def snap(a):
    d=a.data(); return {k:(v.copy() if v.dtype!=object else list(v)) for k,v in d.items()}
def same(x,y): return x.keys()==y.keys() and all(np.array_equal(np.asarray(x[k]),np.asarray(y[k])) for k in x)
def archives(dt):
    yield "grid",GridArchive(solution_dim=2,dims=[3,3],ranges=[(0,3),(0,3)],dtype=dt,extra_fields={"ex":((2,),dt)})
    yield "grid_mae",GridArchive(solution_dim=2,dims=[3,3],ranges=[(0,3),(0,3)],dtype=dt,learning_rate=0.5,threshold_min=-10.,extra_fields={"ex":((2,),dt)})
    yield "cvt",CVTArchive(solution_dim=2,cells=5,ranges=[(0,3),(0,3)],dtype=dt,samples=200,seed=1,extra_fields={"ex":((2,),dt)})
    yield "sba",SlidingBoundariesArchive(solution_dim=2,dims=[3,3],ranges=[(0,3),(0,3)],dtype=dt,remap_frequency=3,buffer_capacity=4,extra_fields={"ex":((2,),dt)})
    yield "prox",ProximityArchive(solution_dim=2,measure_dim=2,k_neighbors=2,novelty_threshold=0.5,dtype=dt,extra_fields={"ex":((2,),dt)})
    yield "prox_lc",ProximityArchive(solution_dim=2,measure_dim=2,k_neighbors=2,novelty_threshold=0.5,local_competition=True,dtype=dt,extra_fields={"ex":((2,),dt)})
for dt in (np.float64,np.float32):
  for name,a in archives(dt):
    rng=np.random.default_rng(0)
    for it in range(8):
        n=3
        for layout in ("contig","view","noncontig"):
            base=rng.uniform(0,3,(2*n,4)).astype(dt)
            if layout=="contig": sol=np.ascontiguousarray(base[:n,:2]); meas=np.ascontiguousarray(base[:n,2:]); ex=np.ascontiguousarray(base[n:,:2])
            elif layout=="view": sol=base[:n,:2]; meas=base[:n,2:]; ex=base[n:,:2]
            else: sol=base[::2,:2]; meas=base[::2,2:]; ex=base[1::2,:2]
            obj=rng.integers(-3,3,n).astype(dt)
            ins=[sol,obj,meas,ex]; cp=[x.copy() for x in ins]
            info=a.add(sol,obj,meas,ex=ex)
            if not all(np.array_equal(x,y) for x,y in zip(ins,cp)): print("INPUT MUTATED add",name,layout); bad+=1
            s0=snap(a)
            base[...]=777; obj[...]=777
            if not same(s0,snap(a)): print("RETAINED add",name,layout,dt.__name__); bad+=1
            for v in info.values(): v[...]=5
            if not same(s0,snap(a)): print("INFO alias",name); bad+=1
            # single
            sol1=rng.uniform(0,3,2).astype(dt); m1=rng.uniform(0,3,2).astype(dt); ex1=rng.uniform(0,3,2).astype(dt)
            a.add_single(sol1,dt(1.0),m1,ex=ex1); s0=snap(a)
            sol1[...]=888; m1[...]=888; ex1[...]=888
            if not same(s0,snap(a)): print("RETAINED add_single",name,dt.__name__); bad+=1
        # later behaviour (SBA remap re-inserts buffer): do extra adds and compare with a twin that got copies
    # outputs
    if len(a):
        s0=snap(a); be0=copy.deepcopy(a.best_elite); st0=copy.deepcopy(a.stats)
        d=a.data(); [v.__setitem__(Ellipsis,0) for v in d.values() if v.dtype!=object]
        occ,r=a.retrieve(s0["measures"][:2]); [v.__setitem__(Ellipsis,0) for v in r.values() if v.dtype!=object]; occ[...]=False
        occ1,r1=a.retrieve_single(s0["measures"][0]); 
        for v in r1.values():
            if isinstance(v,np.ndarray): v[...]=0
        se=a.sample_elites(3); [v.__setitem__(Ellipsis,0) for v in se.values() if v.dtype!=object]
        for e in a:
            for v in e.values():
                if isinstance(v,np.ndarray):
                    try: v[...]=0
                    except ValueError: pass
        be=a.best_elite
        for k,v in be.items():
            if isinstance(v,np.ndarray):
                try: v[...]=0
                except ValueError: pass
        be["objective"]=-999
        df=a.data(return_type="pandas"); df.iloc[:,:]=0
        if not same(s0,snap(a)): print("OUTPUT alias",name,dt.__name__); bad+=1
        be1=a.best_elite
        if not all(np.array_equal(np.asarray(be1[k]),np.asarray(be0[k])) for k in be0): print("BEST alias",name); bad+=1
print("bad",bad)
