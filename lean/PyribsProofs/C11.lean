import PyribsModel.Validated
import PyribsProofs.C13
/-!
# C11 — rejected calls leave archives untouched (failure atomicity)
-/
namespace Pyribs.C11
open Pyribs

/-! ## generic: if rejection implies "state unchanged", rejected calls can be erased -/

/-- **T11.2 (generic)** : erasing the rejected operations of any history changes neither the
final state nor the outputs of the remaining operations. -/
theorem erase_run {σ Op O : Type} (step : σ → Op → σ × O) (isErr : O → Bool)
    (h : ∀ s o, isErr (step s o).2 = true → (step s o).1 = s) (s : σ) (ops : List Op) :
    (runAll step s (eraseRejected step isErr s ops)).1 = (runAll step s ops).1 ∧
    (runAll step s (eraseRejected step isErr s ops)).2 = (runAll step s ops).2.filter (fun o => !isErr o) := by
  induction ops generalizing s with
  | nil => simp [runAll, eraseRejected]
  | cons o os ih =>
    have e2 : runAll step s (o :: os) =
        ((runAll step (step s o).1 os).1, (step s o).2 :: (runAll step (step s o).1 os).2) := rfl
    by_cases he : isErr (step s o).2 = true
    · have hs := h s o he
      have e1 : eraseRejected step isErr s (o :: os) = eraseRejected step isErr s os := by
        simp [eraseRejected, he]
      rw [e1, e2]
      obtain ⟨h1, h2⟩ := ih s
      rw [hs] at *
      refine ⟨h1, ?_⟩
      rw [h2]
      simp [List.filter_cons, he]
    · have e1 : eraseRejected step isErr s (o :: os) = o :: eraseRejected step isErr (step s o).1 os := by
        simp [eraseRejected, he]
      have e3 : runAll step s (o :: eraseRejected step isErr (step s o).1 os) =
          ((runAll step (step s o).1 (eraseRejected step isErr (step s o).1 os)).1,
           (step s o).2 :: (runAll step (step s o).1 (eraseRejected step isErr (step s o).1 os)).2) := rfl
      rw [e1, e2, e3]
      obtain ⟨h1, h2⟩ := ih (step s o).1
      refine ⟨h1, ?_⟩
      have hne : (!isErr (step s o).2) = true := by simpa using he
      simp [List.filter_cons, hne, h2]

theorem mapM_none_iff {α β : Type} (f : α → Option β) (l : List α) :
    l.mapM f = none ↔ ∃ x ∈ l, f x = none := by
  induction l with
  | nil => simp
  | cons x xs ih =>
    simp only [List.mapM_cons, List.mem_cons, exists_eq_or_imp]
    cases hx : f x with
    | none => simp
    | some y =>
      cases hxs : xs.mapM f with
      | none =>
        have := ih.mp hxs
        simp [this]
      | some ys =>
        have : ¬ ∃ x ∈ xs, f x = none := fun hex => by
          have := ih.mpr hex
          rw [hxs] at this
          simp at this
        simp [this]

/-! ## fixed-cell archives -/

/-- **T11.1 `reject_unchanged`** : for every state and every call, a rejected call leaves the
archive (contents, thresholds, statistics, best elite, occupancy order — the whole state) equal. -/
theorem reject_unchanged (v : VArch) (c : Call) (h : (v.step c).2.isErr = true) : (v.step c).1 = v := by
  cases c with
  | add b =>
    simp only [VArch.step] at h ⊢
    cases hv : validate v.nd b with
    | none => rfl
    | some cs => rw [hv] at h; simp [Out.isErr] at h
  | addSingle b =>
    simp only [VArch.step] at h ⊢
    cases hv : validate v.nd b with
    | none => rfl
    | some cs =>
      rw [hv] at h
      match cs, h with
      | [], _ => rfl
      | [c], h => simp [Out.isErr] at h
      | _ :: _ :: _, _ => rfl
  | retrieve b =>
    simp only [VArch.step] at h ⊢
    cases hv : validateQueries v.nd b <;> rfl
  | indexOf b =>
    simp only [VArch.step] at h ⊢
    cases hv : validateQueries v.nd b <;> rfl
  | clear => simp [VArch.step, Out.isErr] at h

/-- a batch is rejected exactly when it carries a shape fault or any row has a non-finite
objective / measure or the wrong number of measures — whatever its position in the batch
(malformed rows after valid rows included) -/
theorem reject_iff (v : VArch) (b : RawBatch) :
    (v.step (.add b)).2.isErr = true ↔
      (b.shape ≠ .ok ∨ ∃ r ∈ b.rows, validRow v.nd r = none) := by
  simp only [VArch.step]
  unfold validate
  by_cases hs : b.shape = .ok
  · simp only [hs, if_true, ne_eq, not_true_eq_false, false_or]
    rw [← mapM_none_iff]
    cases hm : b.rows.mapM (validRow v.nd) <;> simp [Out.isErr]
  · simp [hs, Out.isErr]

/-- an accepted `add` is exactly the archive's `addBatch` of the validated, routed candidates -/
theorem accepted_is_add (v : VArch) (b : RawBatch) (cs : List Cand) (h : validate v.nd b = some cs) :
    (v.step (.add b)).1.a = (v.a.addBatch (cs.map (fun c => (v.route c.meas, c)))).1 := by
  simp [VArch.step, h]

/-- **T11.2 `as_if_never_happened`** : for any history, deleting the rejected calls changes
neither the final archive nor the outputs of the remaining calls (so a subsequent valid add
behaves as if the rejected call had never happened). -/
theorem as_if_never_happened (v : VArch) (calls : List Call) :
    (runAll VArch.step v (eraseRejected VArch.step Out.isErr v calls)).1 = (runAll VArch.step v calls).1 :=
  (erase_run VArch.step Out.isErr reject_unchanged v calls).1

theorem outputs_as_if_never_happened (v : VArch) (calls : List Call) :
    (runAll VArch.step v (eraseRejected VArch.step Out.isErr v calls)).2 =
      (runAll VArch.step v calls).2.filter (fun o => !o.isErr) :=
  (erase_run VArch.step Out.isErr reject_unchanged v calls).2

/-- **T11.3 `queries_readonly`** : `retrieve` and `index_of` never change the archive, accepted or not -/
theorem queries_readonly (v : VArch) (b : RawBatch) :
    (v.step (.retrieve b)).1 = v ∧ (v.step (.indexOf b)).1 = v := by
  simp only [VArch.step]
  constructor <;> cases validateQueries v.nd b <;> rfl

/-! ## SlidingBoundariesArchive: buffer and insertion counter included -/

theorem sliding_reject_unchanged (nd : Nat) (s : Sliding) (c : Call)
    (h : (VSliding.step nd s c).2.isErr = true) : (VSliding.step nd s c).1 = s := by
  cases c with
  | add b =>
    simp only [VSliding.step] at h ⊢
    cases hv : validate nd b with
    | none => rfl
    | some cs => rw [hv] at h; simp [Out.isErr] at h
  | addSingle b =>
    simp only [VSliding.step] at h ⊢
    cases hv : validate nd b with
    | none => rfl
    | some cs =>
      rw [hv] at h
      match cs, h with
      | [], _ => rfl
      | [c], h => simp [Out.isErr] at h
      | _ :: _ :: _, _ => rfl
  | retrieve b =>
    simp only [VSliding.step] at h ⊢
    cases hv : validateQueries nd b <;> rfl
  | indexOf b =>
    simp only [VSliding.step] at h ⊢
    cases hv : validateQueries nd b <;> rfl
  | clear => simp [VSliding.step, Out.isErr] at h

theorem sliding_as_if_never_happened (nd : Nat) (s : Sliding) (calls : List Call) :
    (runAll (VSliding.step nd) s (eraseRejected (VSliding.step nd) Out.isErr s calls)).1 =
      (runAll (VSliding.step nd) s calls).1 ∧
    (runAll (VSliding.step nd) s (eraseRejected (VSliding.step nd) Out.isErr s calls)).2 =
      (runAll (VSliding.step nd) s calls).2.filter (fun o => !o.isErr) :=
  erase_run (VSliding.step nd) Out.isErr (sliding_reject_unchanged nd) s calls

/-! ## ArrayStore: a rejected add only moves the update counter -/

theorem store_reject_unchanged {ρ : Type} (s : Store ρ) (xs : List Store.Xf) (ws : List (Nat × ρ))
    (h : Store.addErr s xs ws ≠ none) :
    (Store.addWith s xs ws).cells = s.cells ∧ (Store.addWith s xs ws).olist = s.olist ∧
    (Store.addWith s xs ws).cap = s.cap := by
  unfold Store.addErr at h
  have hr : Store.inRange s (Store.chain s xs ws) = false := by
    cases hc : Store.inRange s (Store.chain s xs ws) with
    | true => simp [hc] at h
    | false => rfl
  have := C13.rawAdd_error_unchanged s _ hr
  exact ⟨this.1, this.2.1, this.2.2.1⟩

/-! ## non-vacuity -/

/-! ## every archive type at once: validate-then-mutate (`Behind`), ProximityArchive as an instance -/

/-- **T11.5 `behind_reject_unchanged`** : whatever object sits behind the validation layer —
fixed-cell archive, SlidingBoundariesArchive with its buffer, ProximityArchive with its k-D tree —
a call that is rejected (by the validation, or atomically by the object itself) leaves its whole
state equal: the validation completes before the first mutation. -/
theorem behind_reject_unchanged {σ : Type} (B : Behind σ) (hB : B.Atomic) (s : σ) (c : Call)
    (h : (B.step s c).2.isErr = true) : (B.step s c).1 = s := by
  cases c with
  | add b =>
    simp only [Behind.step] at h ⊢
    cases hv : validate B.nd b with
    | none => simp [hv]
    | some cs =>
      simp only [hv] at h ⊢
      exact hB.1 s cs h
  | addSingle b =>
    simp only [Behind.step] at h ⊢
    cases hv : validate B.nd b with
    | none => simp [hv]
    | some cs =>
      match cs, hv with
      | [], hv => simp [hv]
      | [c], hv =>
        simp only [hv] at h ⊢
        exact hB.2 s c h
      | _ :: _ :: _, hv => simp [hv]
  | retrieve b =>
    simp only [Behind.step]
    cases validateQueries B.nd b <;> rfl
  | indexOf b =>
    simp only [Behind.step]
    cases validateQueries B.nd b <;> rfl
  | clear => simp [Behind.step, Out.isErr] at h

/-- **T11.6 `behind_as_if_never_happened`** : over any history, for any archive type -/
theorem behind_as_if_never_happened {σ : Type} (B : Behind σ) (hB : B.Atomic) (s : σ) (calls : List Call) :
    (runAll B.step s (eraseRejected B.step Out.isErr s calls)).1 = (runAll B.step s calls).1 ∧
    (runAll B.step s (eraseRejected B.step Out.isErr s calls)).2 =
      (runAll B.step s calls).2.filter (fun o => !o.isErr) :=
  erase_run B.step Out.isErr (behind_reject_unchanged B hB) s calls

/-- the ProximityArchive instance is atomic for every hint function -/
theorem prox_atomic (nd : Nat) (hint : Prox → List Cand → List Prox.Hinted) : (proxBehind nd hint).Atomic := by
  constructor
  · intro p cs h
    simp only [proxBehind] at h ⊢
    cases hp : p.add (hint p cs) with
    | ok r => simp [hp, Out.isErr] at h
    | error e => simp [hp]
  · intro p c h
    simp only [proxBehind] at h ⊢
    cases hp : p.add (hint p [c]) with
    | ok r => simp [hp, Out.isErr] at h
    | error e => simp [hp]

/-- **T11.7 `prox_as_if_never_happened`** : C11 for ProximityArchive — contents, capacity, k-D tree
(the model has no cache besides its state) and statistics after any history equal those of the
history without its rejected calls, for every hint function. -/
theorem prox_as_if_never_happened (nd : Nat) (hint : Prox → List Cand → List Prox.Hinted) (p : Prox)
    (calls : List Call) :
    (runAll (proxBehind nd hint).step p (eraseRejected (proxBehind nd hint).step Out.isErr p calls)).1 =
      (runAll (proxBehind nd hint).step p calls).1 :=
  (behind_as_if_never_happened _ (prox_atomic nd hint) p calls).1

/-- a 2-cell archive: a batch whose *second* row has a NaN objective is rejected after a valid
add; the archive is unchanged and the next valid add behaves as if it had never happened -/
theorem nonvacuous :
    let v : VArch := ⟨1, fun m => (m.headD 0).floor.toNat, Arch.new ⟨1, none, 0⟩ 2⟩
    let good1 : Call := .add ⟨[⟨1, some 3, [some (1/2)]⟩], .ok⟩
    let bad : Call := .add ⟨[⟨2, some 9, [some (1/2)]⟩, ⟨3, none, [some (3/2)]⟩], .ok⟩
    let good2 : Call := .addSingle ⟨[⟨4, some 5, [some (3/2)]⟩], .ok⟩
    ((runAll VArch.step v [good1, bad, good2]).2.map Out.isErr) = [false, true, false] ∧
    (eraseRejected VArch.step Out.isErr v [good1, bad, good2]).length = 2 ∧
    ((runAll VArch.step v [good1, bad, good2]).1.a.cellOf 0).map (·.tok) = some 1 ∧
    ((runAll VArch.step v [good1, bad, good2]).1.a.cellOf 1).map (·.tok) = some 4 := by
  refine ⟨by decide +kernel, by decide +kernel, by decide +kernel, by decide +kernel⟩

end Pyribs.C11
