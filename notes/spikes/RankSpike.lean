/-! spike: rankers (C17) and bandit top-k selection (C16) via core mergeSort lemmas -/
/-- lexicographic key: (status, value) with value as Int stand-in for any total order -/
def keyLe (k : Nat → Nat × Int) (i j : Nat) : Bool :=
  -- "i ranks at least as high as j": descending by status, then by value
  decide ((k j).1 < (k i).1) || ((k i).1 == (k j).1 && decide ((k j).2 ≤ (k i).2))

def rank (k : Nat → Nat × Int) (n : Nat) : List Nat := (List.range n).mergeSort (keyLe k)

theorem keyLe_total (k) (a b : Nat) : (keyLe k a b || keyLe k b a) = true := by
  simp only [keyLe, Bool.or_eq_true, Bool.and_eq_true, decide_eq_true_eq, beq_iff_eq]
  rcases Nat.lt_trichotomy (k a).1 (k b).1 with h | h | h
  · exact Or.inr (Or.inl h)
  · rcases Int.le_total (k a).2 (k b).2 with h2 | h2
    · exact Or.inr (Or.inr ⟨h.symm, h2⟩)
    · exact Or.inl (Or.inr ⟨h, h2⟩)
  · exact Or.inl (Or.inl h)

theorem keyLe_trans (k) (a b c : Nat) (h1 : keyLe k a b = true) (h2 : keyLe k b c = true) : keyLe k a c = true := by
  simp only [keyLe, Bool.or_eq_true, Bool.and_eq_true, decide_eq_true_eq, beq_iff_eq] at *
  rcases h1 with h1 | ⟨e1, v1⟩ <;> rcases h2 with h2 | ⟨e2, v2⟩
  · exact Or.inl (Nat.lt_trans h2 h1)
  · exact Or.inl (e2 ▸ h1)
  · exact Or.inl (e1 ▸ h2)
  · exact Or.inr ⟨e1.trans e2, Int.le_trans v2 v1⟩

/-- T17.1: the ranking is a permutation of the batch positions -/
theorem rank_perm (k) (n : Nat) : (rank k n).Perm (List.range n) := List.mergeSort_perm _ _
/-- T17.2: best first — keys are non-increasing along the ranking -/
theorem rank_sorted (k) (n : Nat) : (rank k n).Pairwise (fun i j => keyLe k i j = true) :=
  List.pairwise_mergeSort (keyLe_trans k) (keyLe_total k) _

/-- C16: activating the first `m` of the candidates ranked by score: every activated one scores
    at least as high as every candidate left out -/
theorem topk_dominates (k) (n m : Nat) (i j : Nat) (hi : i ∈ (rank k n).take m) (hj : j ∈ (rank k n).drop m) :
    keyLe k i j = true := by
  have hs := rank_sorted k n
  rw [← List.take_append_drop m (rank k n)] at hs
  exact (List.pairwise_append.mp hs).2.2 i hi j hj

#print axioms topk_dominates
