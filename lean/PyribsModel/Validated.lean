import PyribsModel.Archive
import PyribsModel.Sliding
import PyribsModel.Proximity
/-!
# Validated — the validate-then-mutate layer of the archives (C11)

`validate_batch` / `validate_single` (`ribs/_utils.py`), the store's key / length / shape
checks and the extra-field checks of `SlidingBoundariesArchive.add_single` are modelled as
one total function from what the caller submitted to either a rejection or the validated
candidates; every mutating entry point runs it **first**.

A submitted value that is not finite (NaN, ±inf, or `None` where not allowed) is `none`.
A batch carries at most one shape-level malformation of one argument.
-/
namespace Pyribs

inductive ShapeFault
  | ok
  | wrongRank      -- an argument with the wrong number of dimensions
  | wrongInner     -- wrong inner shape (solution_dim / measure_dim / extra-field shape)
  | wrongLength    -- batch dimension differs from the solution batch
  | missingField   -- an extra field of the archive was not passed
  | unknownField   -- a field the archive does not have was passed
  | unconvertible  -- a value the field's dtype cannot hold (text in a numeric field; D28 / D33)
  | objectSequence -- a sequence where an object field of shape () expects one object (D33)
  | notScalar      -- `add_single(objective=[x])`: a sequence where a scalar is expected (D34)
deriving DecidableEq, Repr

structure RawRow where
  tok  : Nat
  obj  : Option Rat
  meas : List (Option Rat)
deriving Repr

structure RawBatch where
  rows  : List RawRow
  shape : ShapeFault
deriving Repr

inductive Reject | value
deriving DecidableEq, Repr

def validRow (nd : Nat) (r : RawRow) : Option Cand := do
  let obj ← r.obj
  let meas ← r.meas.mapM id
  if meas.length = nd then some ⟨r.tok, obj, meas⟩ else none

/-- `validate_batch` (+ the store's checks): all-or-nothing -/
def validate (nd : Nat) (b : RawBatch) : Option (List Cand) :=
  if b.shape = .ok then b.rows.mapM (validRow nd) else none

/-- query arguments of `retrieve` / `index_of` -/
def validateQueries (nd : Nat) (b : RawBatch) : Option (List (List Rat)) :=
  (validate nd b).map (fun cs => cs.map (·.meas))

/-! ### a fixed-cell archive behind its validation -/

structure VArch where
  nd    : Nat
  route : List Rat → Nat
  a     : Arch

inductive Call
  | add (b : RawBatch)
  | addSingle (b : RawBatch)        -- a batch of exactly one row
  | retrieve (b : RawBatch)
  | indexOf (b : RawBatch)
  | clear

inductive Out
  | rejected
  | feedback (fb : List (Nat × Rat))
  | elites (es : List (Option Elite))
  | indices (is : List Nat)
  | done

def Out.isErr : Out → Bool
  | .rejected => true
  | _ => false

def VArch.step (v : VArch) : Call → VArch × Out
  | .add b =>
    match validate v.nd b with
    | none => (v, .rejected)
    | some cs =>
      let (a', fb) := v.a.addBatch (cs.map (fun c => (v.route c.meas, c)))
      ({ v with a := a' }, .feedback fb)
  | .addSingle b =>
    match validate v.nd b with
    | some [c] =>
      let (a', fb) := v.a.addSingle (v.route c.meas, c)
      ({ v with a := a' }, .feedback [fb])
    | _ => (v, .rejected)
  | .retrieve b =>
    match validateQueries v.nd b with
    | none => (v, .rejected)
    | some qs => (v, .elites (v.a.retrieve (qs.map v.route)))
  | .indexOf b =>
    match validateQueries v.nd b with
    | none => (v, .rejected)
    | some qs => (v, .indices (qs.map v.route))
  | .clear => ({ v with a := v.a.clear }, .done)

/-! ### SlidingBoundariesArchive behind its validation (buffer and counter included) -/

def VSliding.step (nd : Nat) (s : Sliding) : Call → Sliding × Out
  | .add b =>
    match validate nd b with
    | none => (s, .rejected)
    | some cs => let (s', fb) := s.addBatch cs; (s', .feedback fb)
  | .addSingle b =>
    match validate nd b with
    | some [c] => let (s', fb) := s.addSingle c; (s', .feedback [fb])
    | _ => (s, .rejected)
  | .retrieve b =>
    match validateQueries nd b with
    | none => (s, .rejected)
    | some qs => (s, .elites (s.arch.retrieve (qs.map (sbIdx s.geom))))
  | .indexOf b =>
    match validateQueries nd b with
    | none => (s, .rejected)
    | some qs => (s, .indices (qs.map (sbIdx s.geom)))
  | .clear => (s.clear, .done)

/-! ### any archive behind the same validation (ProximityArchive included)

The validation layer is the same function for every archive type (`validate_batch` /
`validate_single`); what sits behind it differs.  `Behind σ` is an arbitrary mutable object with
the five entry points; `Behind.step` is the validate-then-mutate composition. -/

structure Behind (σ : Type) where
  nd    : Nat
  addB  : σ → List Cand → σ × Out
  add1  : σ → Cand → σ × Out
  retr  : σ → List (List Rat) → Out
  idx   : σ → List (List Rat) → Out
  clr   : σ → σ

def Behind.step {σ : Type} (B : Behind σ) (s : σ) : Call → σ × Out
  | .add b =>
    match validate B.nd b with
    | none => (s, .rejected)
    | some cs => B.addB s cs
  | .addSingle b =>
    match validate B.nd b with
    | some [c] => B.add1 s c
    | _ => (s, .rejected)
  | .retrieve b =>
    match validateQueries B.nd b with
    | none => (s, .rejected)
    | some qs => (s, B.retr s qs)
  | .indexOf b =>
    match validateQueries B.nd b with
    | none => (s, .rejected)
    | some qs => (s, B.idx s qs)
  | .clear => (B.clr s, .done)

/-- the entry points themselves reject only without changing anything (e.g. a hint the model
refuses, or the documented RuntimeError of an empty ProximityArchive) -/
def Behind.Atomic {σ : Type} (B : Behind σ) : Prop :=
  (∀ s cs, (B.addB s cs).2.isErr = true → (B.addB s cs).1 = s) ∧
  (∀ s c, (B.add1 s c).2.isErr = true → (B.add1 s c).1 = s)

/-- `ProximityArchive` behind the validation: `hint` supplies the implementation's angelic
choices (admission inside the square-root bracket, nearest entry among ties) for a validated
batch; a hint the model refuses leaves the archive as it was. -/
def proxBehind (nd : Nat) (hint : Prox → List Cand → List Prox.Hinted) : Behind Prox :=
  { nd := nd
    addB := fun p cs =>
      match p.add (hint p cs) with
      | .ok (p', fb) => (p', .feedback (fb.status.zip fb.novLo))
      | .error _ => (p, .rejected)
    add1 := fun p c =>
      match p.add (hint p [c]) with
      | .ok (p', fb) => (p', .feedback (fb.status.zip fb.novLo))
      | .error _ => (p, .rejected)
    retr := fun p qs => if p.len = 0 then .rejected else
      .elites (p.arch.retrieve (qs.map (fun q => ((p.nearestSet q).head?).getD 0)))
    idx := fun p qs => if p.len = 0 then .rejected else
      .indices (qs.map (fun q => ((p.nearestSet q).head?).getD 0))
    clr := Prox.clear }

/-! ### generic histories -/

def runAll {σ Op O : Type} (step : σ → Op → σ × O) (s : σ) : List Op → σ × List O
  | [] => (s, [])
  | o :: os =>
    let r := step s o
    let rest := runAll step r.1 os
    (rest.1, r.2 :: rest.2)

/-- the operations that were accepted when their turn came -/
def eraseRejected {σ Op O : Type} (step : σ → Op → σ × O) (isErr : O → Bool) (s : σ) : List Op → List Op
  | [] => []
  | o :: os =>
    if isErr (step s o).2 then eraseRejected step isErr s os
    else o :: eraseRejected step isErr (step s o).1 os

end Pyribs
