import numpy as np, random, warnings
from ribs.archives import GridArchive
from ribs.emitters import EvolutionStrategyEmitter, GradientArborescenceEmitter
from ribs.emitters.opt import EvolutionStrategyBase, GradientOptBase
from ribs.emitters.rankers import RankerBase
warnings.simplefilter("ignore")
bad=0
class SpyES(EvolutionStrategyBase):
    def __init__(self, sigma0, solution_dim, batch_size=None, seed=None, dtype=np.float64, lower_bounds=-np.inf, upper_bounds=np.inf, script=None):
        self.batch_size=batch_size; self.solution_dim=solution_dim; self.log=[]; self.script=script; self.k=0; self.dtype=dtype
    def reset(self,x0): self.log.append(("reset",np.array(x0).copy()))
    def check_stop(self,rv): self.log.append(("check_stop",np.array(rv).copy())); return self.script["stop"]()
    def ask(self,batch_size=None):
        self.k+=1; self.last=np.arange(self.batch_size*self.solution_dim,dtype=self.dtype).reshape(self.batch_size,self.solution_dim)/8+self.k; return self.last
    def tell(self,idx,vals,npar): self.log.append(("tell",np.array(idx).copy(),np.array(vals).copy(),int(npar)))
class SpyRanker(RankerBase):
    def __init__(self,seed=None): super().__init__(seed); self.log=[]
    def rank(self,emitter,archive,data,add_info):
        n=len(data["solution"]); perm=np.random.default_rng(n+len(self.log)).permutation(n); vals=np.arange(n,dtype=float)*1.5
        self.log.append(("rank",data["solution"].copy(),add_info["status"].copy(),perm.copy(),vals.copy())); return perm,vals
    def reset(self,emitter,archive): self.log.append(("reset",))
for seed in range(800):
    rnd=random.Random(seed)
    arch=GridArchive(solution_dim=3,dims=[4,4],ranges=[(0,4),(0,4)],seed=seed)
    arch.add_single([9.,9.,9.],100.0,[0.5,0.5])   # non-empty so restarts can sample
    bs=rnd.randint(1,6); sel=rnd.choice(["mu","filter"]); rr=rnd.choice(["basic","no_improvement",1,2,3,5])
    stopflag=[False]
    spy_holder={}
    def mk(**kw):
        e=SpyES(script={"stop":lambda: stopflag[0]},**kw); spy_holder["es"]=e; return e
    rk_holder={}
    def mkr(seed=None):
        r=SpyRanker(seed); rk_holder["r"]=r; return r
    cls=rnd.choice(["es","gae"])
    if cls=="es":
        em=EvolutionStrategyEmitter(arch,x0=np.zeros(3),sigma0=1.0,ranker=mkr,es=mk,selection_rule=sel,restart_rule=rr,batch_size=bs,seed=1)
    else:
        em=GradientArborescenceEmitter(arch,x0=np.zeros(3),sigma0=1.0,lr=0.1,ranker=mkr,es=mk,selection_rule=sel,restart_rule=rr,batch_size=bs,seed=1,grad_opt="gradient_ascent")
        em.ask_dqd(); em.tell_dqd(np.zeros((1,3)),np.zeros(1),np.zeros((1,2)),np.ones((1,3,3)),{"status":np.zeros(1),"value":np.zeros(1)})
    es=spy_holder["es"]; rk=rk_holder["r"]
    exp_itrs=0; exp_restarts=0
    for it in range(rnd.randint(1,8)):
        sols=em.ask()
        status=np.array([rnd.choice([0,0,1,2]) for _ in range(bs)]); 
        if rnd.random()<0.3: status[:]=0
        stopflag[0]=rnd.random()<0.2
        nlog=len(es.log); nr=len(rk.log)
        em.tell(sols,np.zeros(bs),np.zeros((bs,2)),{"status":status,"value":np.zeros(bs)})
        exp_itrs+=1
        new=int((status!=0).sum()); npar=new if sel=="filter" else bs//2
        tl=[l for l in es.log[nlog:] if l[0]=="tell"]; rl=[l for l in rk.log[nr:] if l[0]=="rank"]
        if len(tl)!=1 or len(rl)!=1: print("CALLS",seed); bad+=1; continue
        if not (np.array_equal(tl[0][1],rl[0][3]) and np.array_equal(tl[0][2],rl[0][4]) and tl[0][3]==npar): print("HANDOFF",seed,tl[0],npar); bad+=1
        if cls=="es" and not np.array_equal(rl[0][1],sols): print("RANKED SOLS",seed); bad+=1
        cs=[l for l in es.log[nlog:] if l[0]=="check_stop"]
        if len(cs)!=1 or not np.array_equal(cs[0][1],rl[0][4][rl[0][3]]): print("CHECKSTOP ARG",seed); bad+=1
        rule = (exp_itrs%rr==0) if isinstance(rr,int) else (new==0 if rr=="no_improvement" else False)
        should=stopflag[0] or rule
        resets=[l for l in es.log[nlog:] if l[0]=="reset"]; rresets=[l for l in rk.log[nr:] if l[0]=="reset"]
        if should: exp_restarts+=1
        if (len(resets)==1)!=should or (len(rresets)==1)!=should: print("RESTART",seed,it,rr,should,len(resets)); bad+=1
        if should and cls=="es":
            cur=arch.data("solution")
            if not any(np.array_equal(resets[0][1],c) for c in cur): print("RECENTRE",seed); bad+=1
        if em.itrs!=exp_itrs or em.restarts!=exp_restarts: print("COUNTERS",seed,em.itrs,exp_itrs,em.restarts,exp_restarts); bad+=1
print("bad",bad)
