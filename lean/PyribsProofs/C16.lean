import PyribsModel.Bandit
import PyribsProofs.C04
/-!
# C16 — BanditScheduler keeps num_active emitters and selects them by UCB1

Theorems about `PyribsModel.Bandit` (the model of `_bandit_scheduler.py`), for
every pool size ≥ num_active, both reselect modes, both add modes, every
assignment of restart counters (present or not, moving arbitrarily), all batch
sizes, every score assignment and every history of calls.

* T16.1 `num_active_invariant`, `num_active_run`, `ask_never_index_error`
* T16.2 `asks_only_active`, `tells_only_active`, `tell_slices`, `tell_ok`
* T16.3 `counts_exact`
* T16.4 `selection_order`, `never_selected_first`, `activateTop_admissible`, `model_choice_accepted`
* T16.5 `terminated_keeps`, `all_resets`
* `protocol`
-/
namespace Pyribs.C16
open Pyribs Bandit
open Pyribs.Scheduler (Sol gen slice)

/-- "pool member `k` exists and is active" -/
def activeAt (p : List Em) (k : Nat) : Bool :=
  match p[k]? with
  | some em => em.active
  | none => false

/-! ## stage lemmas: lengths and the active flags -/

theorem markFrom_length (cfg : Cfg) (env : AskEnv) (i : Nat) (p : List Em) :
    (markFrom cfg env i p).length = p.length := by
  induction p generalizing i with
  | nil => rfl
  | cons em ems ih => simp [markFrom, ih]

theorem markFrom_active (cfg : Cfg) (env : AskEnv) (i : Nat) (p : List Em) :
    (markFrom cfg env i p).map (·.1.active) = p.map (·.active) := by
  induction p generalizing i with
  | nil => rfl
  | cons em ems ih => cases h : cfg.resel <;> simp [markFrom, h, ih]

theorem countActive_cons (em : Em) (p : List Em) :
    countActive (em :: p) = countActive p + if em.active then 1 else 0 := by
  simp [countActive, List.countP_cons]

theorem countActive_le (p : List Em) : countActive p ≤ p.length := List.countP_le_length

theorem countActive_congr (p q : List Em) (h : p.map (·.active) = q.map (·.active)) :
    countActive p = countActive q := by
  induction p generalizing q with
  | nil => cases q <;> simp_all [countActive]
  | cons a p ih =>
    cases q with
    | nil => simp at h
    | cons b q =>
      simp only [List.map_cons, List.cons.injEq] at h
      simp [countActive_cons, ih q h.2, h.1]

/-- T16.1 (step 2): the fill loop succeeds when enough emitters are inactive … -/
theorem fill_isSome (k : Nat) (l : List (Em × Bool))
    (h : k + countActive (l.map (·.1)) ≤ l.length) : (fill k l).isSome = true := by
  induction l generalizing k with
  | nil => cases k <;> simp_all [fill, countActive]
  | cons x l ih =>
    cases k with
    | zero => simp [fill]
    | succ k =>
      obtain ⟨em, m⟩ := x
      simp only [fill, Option.isSome_map]
      simp only [List.map_cons, countActive_cons, List.length_cons] at h
      by_cases ha : em.active = true
      · simp only [ha, if_true] at h ⊢; exact ih _ (by omega)
      · simp only [ha] at h ⊢; exact ih _ (by simp at h ⊢; omega)

/-- … keeps the length, and activates exactly `k` more -/
theorem fill_count (k : Nat) (l l' : List (Em × Bool)) (h : fill k l = some l') :
    l'.length = l.length ∧ countActive (l'.map (·.1)) = countActive (l.map (·.1)) + k := by
  induction l generalizing k l' with
  | nil =>
    cases k with
    | zero => simp [fill] at h; subst h; simp
    | succ k => simp [fill] at h
  | cons x l ih =>
    cases k with
    | zero => simp [fill] at h; subst h; simp
    | succ k =>
      obtain ⟨em, m⟩ := x
      simp only [fill, Option.map_eq_some_iff] at h
      obtain ⟨t, ht, rfl⟩ := h
      have := ih _ _ ht
      simp only [List.length_cons, List.map_cons, countActive_cons, this.1, this.2, true_and]
      by_cases ha : em.active = true <;> simp [ha] <;> omega

theorem deactivate_length (l : List (Em × Bool)) : (deactivate l).length = l.length := by
  simp [deactivate]

theorem deactivate_count_le (l : List (Em × Bool)) :
    countActive (deactivate l) ≤ countActive (l.map (·.1)) := by
  induction l with
  | nil => simp [deactivate]
  | cons x l ih =>
    simp only [deactivate, List.map_cons, countActive_cons] at ih ⊢
    cases x.1.active <;> cases x.2 <;> simp <;> omega

theorem deactivate_noMask (l : List (Em × Bool)) (h : l.any (·.2) = false) :
    deactivate l = l.map (·.1) := by
  induction l with
  | nil => rfl
  | cons x l ih =>
    simp only [List.any_cons, Bool.or_eq_false_iff] at h
    simp only [deactivate, List.map_cons, List.cons.injEq] at ih ⊢
    refine ⟨?_, ih h.2⟩
    obtain ⟨em, m⟩ := x
    simp only at h
    cases em; simp [h.1]

/-- T16.1: `ask` never runs off the pool when `pool ≥ num_active` (the constructor's check) -/
theorem ask_never_index_error (cfg : Cfg) (env : AskEnv) (pool : List Em)
    (h : cfg.numActive ≤ pool.length) : (prepare cfg env pool).isSome = true := by
  simp only [prepare, Option.isSome_map]
  apply fill_isSome
  have hc : countActive ((markFrom cfg env 0 pool).map (·.1)) = countActive pool :=
    countActive_congr _ _ (by simpa [List.map_map, Function.comp_def] using markFrom_active cfg env 0 pool)
  have := countActive_le pool
  rw [hc, markFrom_length]; omega

/-- the pool after steps 1–3: same length; at most `num_active` active when at most that many were
    active before; exactly `num_active` when nothing is to be reselected -/
theorem prepare_count (cfg : Cfg) (env : AskEnv) (pool kept : List Em) (maskAny : Bool)
    (h : prepare cfg env pool = some (kept, maskAny)) (hc : countActive pool ≤ cfg.numActive) :
    kept.length = pool.length ∧ countActive kept ≤ cfg.numActive ∧
      (maskAny = false → countActive kept = cfg.numActive) := by
  simp only [prepare, Option.map_eq_some_iff, Prod.mk.injEq] at h
  obtain ⟨l, hl, rfl, rfl⟩ := h
  have hf := fill_count _ _ _ hl
  have hm : countActive ((markFrom cfg env 0 pool).map (·.1)) = countActive pool :=
    countActive_congr _ _ (by simpa [List.map_map, Function.comp_def] using markFrom_active cfg env 0 pool)
  rw [hm, markFrom_length] at hf
  have hd := deactivate_count_le l
  refine ⟨by rw [deactivate_length, hf.1], by omega, ?_⟩
  intro hno
  rw [deactivate_noMask l hno, hf.2]; omega

/-! ## the admissibility check -/

theorem diffFrom_count (i : Nat) (kept : List Em) (a : List Bool) (nw lf : List Nat)
    (h : diffFrom i kept a = some (nw, lf)) :
    a.length = kept.length ∧ a.countP id = countActive kept + nw.length ∧
      kept.length = countActive kept + nw.length + lf.length := by
  induction kept generalizing i a nw lf with
  | nil => cases a <;> simp_all [diffFrom, countActive]
  | cons em ems ih =>
    cases a with
    | nil => simp [diffFrom] at h
    | cons b bs =>
      simp only [diffFrom] at h
      cases hd : diffFrom (i + 1) ems bs with
      | none => simp [hd] at h
      | some r =>
        obtain ⟨nw1, lf1⟩ := r
        have := ih _ _ _ _ hd
        simp only [hd] at h
        simp only [List.length_cons, List.countP_cons, countActive_cons, id]
        by_cases ha : em.active = true <;> by_cases hb : b = true <;> simp [ha, hb] at h ⊢
        all_goals (try obtain ⟨rfl, rfl⟩ := h) <;> simp_all <;> omega

theorem setActive_active (p : List Em) (a : List Bool) (h : a.length = p.length) :
    (setActive p a).map (·.active) = a := by
  induction p generalizing a with
  | nil => cases a <;> simp_all [setActive]
  | cons em ems ih =>
    cases a with
    | nil => simp at h
    | cons b bs => simp only [setActive, List.zipWith_cons_cons, List.map_cons] at ih ⊢; simp [ih bs (by simpa using h)]

theorem setActive_length (p : List Em) (a : List Bool) (h : a.length = p.length) :
    (setActive p a).length = p.length := by simp [setActive, h]

theorem countActive_setActive (p : List Em) (a : List Bool) (h : a.length = p.length) :
    countActive (setActive p a) = a.countP id := by
  have := setActive_active p a h
  have h2 : countActive (setActive p a) = ((setActive p a).map (·.active)).countP id := by
    simp [countActive, List.countP_map, Function.comp_def]
  rw [h2, this]

theorem askLoop_length (batch : Nat → Nat) (i : Nat) (p : List Em) :
    (askLoop batch i p).1.length = p.length := by
  induction p generalizing i with
  | nil => rfl
  | cons em ems ih => simp only [askLoop]; split <;> simp [ih]

theorem askLoop_active (batch : Nat → Nat) (i : Nat) (p : List Em) :
    (askLoop batch i p).1.map (·.active) = p.map (·.active) := by
  induction p generalizing i with
  | nil => rfl
  | cons em ems ih => simp only [askLoop]; split <;> simp [ih]

/-- unfolding of an accepted ask -/
theorem doAsk_asked (cfg : Cfg) (s : St) (env : AskEnv) (sols : List Sol)
    (h : (doAsk cfg s env).2 = .asked sols) :
    ∃ kept maskAny chosen nw lf,
      s.phase ≠ .ask ∧
      prepare cfg env s.pool = some (kept, maskAny) ∧
      chosen = chosenOf env (need cfg kept maskAny) kept ∧
      diffFrom 0 kept chosen = some (nw, lf) ∧
      nw.length = min (need cfg kept maskAny) (nw.length + lf.length) ∧
      (∀ c ∈ nw, ∀ j ∈ lf, (env.score c).ge (env.score j) = true) ∧
      (doAsk cfg s env).1 =
        { phase := .ask, pool := (askLoop env.batch 0 (setActive kept chosen)).1,
          cur := (askLoop env.batch 0 (setActive kept chosen)).2.1.flatten,
          trace := s.trace ++ (askLoop env.batch 0 (setActive kept chosen)).2.2 } ∧
      sols = (askLoop env.batch 0 (setActive kept chosen)).2.1.flatten := by
  unfold doAsk at h ⊢
  by_cases hp : s.phase = .ask
  · simp [hp] at h
  · simp only [hp, if_false] at h ⊢
    cases hprep : prepare cfg env s.pool with
    | none => simp [hprep] at h
    | some r =>
      obtain ⟨kept, maskAny⟩ := r
      simp only [hprep] at h ⊢
      generalize hch : chosenOf env (need cfg kept maskAny) kept = chosen at h ⊢
      by_cases hj : judge env.score (need cfg kept maskAny) kept chosen = true
      · simp only [hj, if_true] at h ⊢
        unfold judge at hj
        cases hd : diffFrom 0 kept chosen with
        | none => simp [hd] at hj
        | some r =>
          obtain ⟨nw, lf⟩ := r
          simp only [hd, Bool.and_eq_true, beq_iff_eq, List.all_eq_true] at hj
          refine ⟨kept, maskAny, chosen, nw, lf, hp, rfl, hch.symm, hd, hj.1, hj.2, rfl, ?_⟩
          simpa using h.symm
      · simp [hj] at h

/-- T16.1 `num_active_invariant`: whenever at most `num_active` emitters are active (initially: none)
    and the pool has at least `num_active` members, an accepted `ask` leaves exactly `num_active`
    active emitters and keeps the pool size. -/
theorem num_active_invariant (cfg : Cfg) (s : St) (env : AskEnv) (sols : List Sol)
    (hpool : cfg.numActive ≤ s.pool.length) (hc : countActive s.pool ≤ cfg.numActive)
    (h : (doAsk cfg s env).2 = .asked sols) :
    countActive (doAsk cfg s env).1.pool = cfg.numActive ∧
      (doAsk cfg s env).1.pool.length = s.pool.length := by
  obtain ⟨kept, maskAny, chosen, nw, lf, _, hprep, _, hd, hn, _, hs, _⟩ := doAsk_asked cfg s env sols h
  have hk := prepare_count cfg env s.pool kept maskAny hprep hc
  have hdc := diffFrom_count 0 kept chosen nw lf hd
  rw [hs]
  simp only
  rw [countActive_congr _ _ (askLoop_active env.batch 0 _), askLoop_length,
    countActive_setActive _ _ hdc.1, setActive_length _ _ hdc.1, hk.1, hdc.2.1]
  refine ⟨?_, rfl⟩
  cases hm : maskAny with
  | false =>
    have := hk.2.2 hm
    simp only [need, hm, Bool.false_eq_true, if_false, Nat.zero_min] at hn
    omega
  | true =>
    simp only [need, hm, if_true] at hn
    have := hk.1
    omega

/-! ## protocol -/

/-- the dispatch loop can only fail with `type` (`_num_emitted[i]` is None) -/
theorem tellLoop_error_type (st : Nat → Nat) (cur : List Sol) (i pos : Nat) (p : List Em) (e : Err)
    (h : tellLoop st cur i pos p = .error e) : e = .type := by
  induction p generalizing i pos with
  | nil => simp [tellLoop] at h
  | cons em ems ih =>
    simp only [tellLoop] at h
    by_cases ha : em.active = true
    · simp only [ha, if_true] at h
      cases hn : em.emitted with
      | none => simp only [hn] at h; injection h with h; exact h.symm
      | some n =>
        simp only [hn] at h
        cases hr : tellLoop st cur (i + 1) (pos + n) ems with
        | error e' => simp only [hr] at h; injection h with h; subst h; exact ih _ _ hr
        | ok r => simp [hr] at h
    · simp only [ha] at h
      cases hr : tellLoop st cur (i + 1) pos ems with
      | error e' => simp only [hr] at h; injection h with h; subst h; exact ih _ _ hr
      | ok r => simp [hr] at h

/-- a call raises RuntimeError exactly when it is an `ask` right after an `ask`, or a `tell` that
    does not follow an `ask`; `ask_dqd` / `tell_dqd` raise NotImplementedError -/
theorem protocol (cfg : Cfg) (s : St) (op : Op) :
    ((step cfg s op).2 = .error .runtime ↔
      ((∃ env, op = .ask env) ∧ s.phase = .ask) ∨ ((∃ st, op = .tell st) ∧ s.phase ≠ .ask)) ∧
    ((step cfg s op).2 = .error .notImplemented ↔ (op = .askDqd ∨ op = .tellDqd)) := by
  cases op with
  | ask env =>
    simp only [step, doAsk]
    by_cases hp : s.phase = .ask
    · simp [hp]
    · simp only [hp, if_false]
      cases prepare cfg env s.pool with
      | none => simp
      | some r => obtain ⟨kept, m⟩ := r; simp only; split <;> simp
  | tell st =>
    simp only [step, doTell]
    by_cases hp : s.phase = .ask
    · simp only [hp, ne_eq, not_true_eq_false, if_false]
      cases h : tellLoop st s.cur 0 0 s.pool with
      | error e =>
        have := tellLoop_error_type _ _ _ _ _ _ h
        subst this
        simp
      | ok r => simp
    · simp [hp]
  | askDqd => simp [step]
  | tellDqd => simp [step]

/-- every rejected call — and an activation the check refuses — leaves the whole state unchanged -/
theorem rejected_unchanged (cfg : Cfg) (s : St) (op : Op)
    (h : (∃ e, (step cfg s op).2 = .error e) ∨ (step cfg s op).2 = .inadmissible) :
    (step cfg s op).1 = s := by
  cases op with
  | ask env =>
    simp only [step, doAsk] at h ⊢
    by_cases hp : s.phase = .ask
    · simp [hp]
    · simp only [hp, if_false] at h ⊢
      cases hprep : prepare cfg env s.pool with
      | none => rfl
      | some r =>
        obtain ⟨kept, m⟩ := r
        simp only [hprep] at h ⊢
        by_cases hj : judge env.score (need cfg kept m) kept (chosenOf env (need cfg kept m) kept) = true
        · simp [hj] at h
        · simp [hj]
  | tell st =>
    simp only [step, doTell] at h ⊢
    by_cases hp : s.phase = .ask
    · simp only [hp, ne_eq, not_true_eq_false, if_false] at h ⊢
      cases hl : tellLoop st s.cur 0 0 s.pool with
      | error e => rfl
      | ok r => simp [hl] at h
    · simp [hp]
  | askDqd => rfl
  | tellDqd => rfl

/-! ## T16.2 only the active emitters are asked and told; slices over the active set -/

/-- spec: one `ask` per active pool member, in pool order (members numbered from `i`) -/
def askSpecFrom (batch : Nat → Nat) : Nat → List Em → List Event
  | _, [] => []
  | i, em :: ems =>
    if em.active then .ask i (batch i) :: askSpecFrom batch (i + 1) ems
    else askSpecFrom batch (i + 1) ems

/-- what the active pool members generated in the current batch, in pool order -/
def gensFrom : Nat → List Em → List (List Sol)
  | _, [] => []
  | i, em :: ems =>
    if em.active then gen i (em.emitted.getD 0) :: gensFrom (i + 1) ems else gensFrom (i + 1) ems

/-- every active pool member has a recorded batch size -/
def AllEmitted (p : List Em) : Prop := ∀ em ∈ p, em.active = true → em.emitted ≠ none

theorem askLoop_spec (batch : Nat → Nat) (i : Nat) (p : List Em) :
    (askLoop batch i p).2.2 = askSpecFrom batch i (askLoop batch i p).1 ∧
    (askLoop batch i p).2.1 = gensFrom i (askLoop batch i p).1 ∧
    AllEmitted (askLoop batch i p).1 := by
  induction p generalizing i with
  | nil => simp [askLoop, askSpecFrom, gensFrom, AllEmitted]
  | cons em ems ih =>
    obtain ⟨h1, h2, h3⟩ := ih (i + 1)
    simp only [askLoop]
    cases ha : em.active with
    | true =>
      simp only [if_true, askSpecFrom, gensFrom, Option.getD_some]
      refine ⟨by rw [← h1], by rw [← h2], ?_⟩
      intro x hx hax
      simp only [List.mem_cons] at hx
      rcases hx with rfl | hx
      · simp
      · exact h3 x hx hax
    | false =>
      simp only [Bool.false_eq_true, if_false, askSpecFrom, gensFrom, ha]
      refine ⟨h1, h2, ?_⟩
      intro x hx hax
      simp only [List.mem_cons] at hx
      rcases hx with rfl | hx
      · rw [ha] at hax; cases hax
      · exact h3 x hx hax

theorem askSpecFrom_length (batch : Nat → Nat) (i : Nat) (p : List Em) :
    (askSpecFrom batch i p).length = countActive p := by
  induction p generalizing i with
  | nil => rfl
  | cons em ems ih =>
    simp only [askSpecFrom, countActive_cons]
    by_cases ha : em.active = true <;> simp [ha, ih]

theorem activeAt_cons_succ (em : Em) (ems : List Em) (k : Nat) :
    activeAt (em :: ems) (k + 1) = activeAt ems k := by simp [activeAt]

/-- an `ask` event is in the spec exactly for the active members, with the size they generated -/
theorem mem_askSpecFrom (batch : Nat → Nat) (i : Nat) (p : List Em) (e n : Nat) :
    Event.ask e n ∈ askSpecFrom batch i p ↔ ∃ k, e = i + k ∧ activeAt p k = true ∧ n = batch e := by
  induction p generalizing i with
  | nil => simp [askSpecFrom, activeAt]
  | cons em ems ih =>
    have step : (∃ k, e = i + 1 + k ∧ activeAt ems k = true ∧ n = batch e) ↔
        (∃ k, e = i + (k + 1) ∧ activeAt (em :: ems) (k + 1) = true ∧ n = batch e) := by
      constructor <;> (rintro ⟨k, h1, h2, h3⟩; exact ⟨k, by omega, by simpa [activeAt_cons_succ] using h2, h3⟩)
    simp only [askSpecFrom]
    cases ha : em.active with
    | true =>
      simp only [if_true, List.mem_cons, Event.ask.injEq, ih, step]
      constructor
      · rintro (⟨rfl, rfl⟩ | ⟨k, h⟩)
        · exact ⟨0, rfl, by simp [activeAt, ha], rfl⟩
        · exact ⟨k + 1, h⟩
      · rintro ⟨k, h1, h2, h3⟩
        cases k with
        | zero => left; exact ⟨by omega, by rw [h3, h1]; rfl⟩
        | succ k => right; exact ⟨k, h1, h2, h3⟩
    | false =>
      simp only [Bool.false_eq_true, if_false, ih, step]
      constructor
      · rintro ⟨k, h⟩; exact ⟨k + 1, h⟩
      · rintro ⟨k, h1, h2, h3⟩
        cases k with
        | zero => simp [activeAt, ha] at h2
        | succ k => exact ⟨k, h1, h2, h3⟩

/-- T16.2 `asks_only_active`: an accepted `ask` calls `ask()` on exactly the members that are active
    after the selection — `num_active` of them (T16.1), in pool order, nobody else —, returns the
    concatenation of what they generated, and records every batch size. -/
theorem asks_only_active (cfg : Cfg) (s : St) (env : AskEnv) (sols : List Sol)
    (h : (doAsk cfg s env).2 = .asked sols) :
    let s' := (doAsk cfg s env).1
    s'.phase = .ask ∧
    s'.trace = s.trace ++ askSpecFrom env.batch 0 s'.pool ∧
    (∀ e n, Event.ask e n ∈ askSpecFrom env.batch 0 s'.pool ↔
      (activeAt s'.pool e = true ∧ n = env.batch e)) ∧
    (askSpecFrom env.batch 0 s'.pool).length = countActive s'.pool ∧
    sols = (gensFrom 0 s'.pool).flatten ∧ s'.cur = sols ∧ AllEmitted s'.pool := by
  obtain ⟨kept, maskAny, chosen, nw, lf, _, _, _, _, _, _, hs, hsol⟩ := doAsk_asked cfg s env sols h
  have hl := askLoop_spec env.batch 0 (setActive kept chosen)
  rw [hs]
  refine ⟨rfl, by simp only; rw [← hl.1], ?_, askSpecFrom_length _ _ _, by simp only; rw [← hl.2.1]; exact hsol,
    by simp only; exact hsol.symm, hl.2.2⟩
  intro e n
  rw [mem_askSpecFrom]
  constructor
  · rintro ⟨k, h1, h2, h3⟩; simp only [Nat.zero_add] at h1; subst h1; exact ⟨h2, h3⟩
  · rintro ⟨h2, h3⟩; exact ⟨e, by simp, h2, h3⟩

/-- spec: one `tell` per active member, in pool order, with the solutions it generated, the rows
    `[pos, pos + n)` — `pos` = number of rows of the active members before it — and their status -/
def tellSpecFrom (status : Nat → Nat) : Nat → Nat → List Em → List Event
  | _, _, [] => []
  | i, pos, em :: ems =>
    if em.active then
      .tell i (gen i (em.emitted.getD 0)) (List.range' pos (em.emitted.getD 0))
          ((List.range' pos (em.emitted.getD 0)).map status) ::
        tellSpecFrom status (i + 1) (pos + em.emitted.getD 0) ems
    else tellSpecFrom status (i + 1) pos ems

/-- spec: the counts after a tell -/
def countedFrom (status : Nat → Nat) : Nat → List Em → List Em
  | _, [] => []
  | pos, em :: ems =>
    if em.active then
      { em with
        selection := em.selection + em.emitted.getD 0
        success := em.success +
          ((List.range' pos (em.emitted.getD 0)).filter (status · ≠ 0)).length } ::
        countedFrom status (pos + em.emitted.getD 0) ems
    else em :: countedFrom status pos ems

theorem tellLoop_spec (status : Nat → Nat) (cur pre : List Sol) (i : Nat) (p : List Em)
    (hall : AllEmitted p) (hcur : cur = pre ++ (gensFrom i p).flatten) :
    tellLoop status cur i pre.length p =
      .ok (countedFrom status pre.length p, tellSpecFrom status i pre.length p) := by
  induction p generalizing i pre with
  | nil => simp [tellLoop, countedFrom, tellSpecFrom]
  | cons em ems ih =>
    have hall' : AllEmitted ems := fun x hx => hall x (by simp [hx])
    simp only [tellLoop, countedFrom, tellSpecFrom]
    by_cases ha : em.active = true
    · simp only [ha, if_true]
      cases hn : em.emitted with
      | none => exact absurd hn (hall em (by simp) ha)
      | some n =>
        simp only [gensFrom, ha, if_true, hn, Option.getD_some, List.flatten_cons] at hcur ⊢
        have hc2 : cur = (pre ++ gen i n) ++ (gensFrom (i + 1) ems).flatten := by
          rw [hcur, List.append_assoc]
        have := ih (pre ++ gen i n) (i + 1) hall' hc2
        simp only [List.length_append, C04.gen_length] at this
        rw [this]
        have h1 : slice cur (pre.length, pre.length + n) = gen i n := by
          have := C04.slice_append_mid pre (gen i n) (gensFrom (i + 1) ems).flatten
          rw [C04.gen_length, ← hc2] at this; exact this
        have h2 : slice (List.range cur.length) (pre.length, pre.length + n) = List.range' pre.length n := by
          rw [C04.slice_range _ _ (by rw [hc2]; simp [C04.gen_length])]
          simp
        simp only [h1, h2]
    · simp only [ha, gensFrom] at hcur ⊢
      rw [ih pre (i + 1) hall' (by simpa using hcur)]
      simp

/-- the scheduler's bookkeeping describes the batch it handed out -/
def Consistent (s : St) : Prop :=
  s.phase = .ask → s.cur = (gensFrom 0 s.pool).flatten ∧ AllEmitted s.pool

/-- T16.2 `tell_slices`: in a consistent state (every state reached by calls is, `consistent_run`) an
    in-order `tell` submits the rows to the archive(s) and then tells exactly the active members, in
    pool order, each with the solutions it generated and the rows of its slice, and counts
    `selection += n`, `success += #non-zero status` on that slice. -/
theorem tell_slices (cfg : Cfg) (s : St) (status : Nat → Nat) (hc : Consistent s) (hp : s.phase = .ask) :
    doTell cfg s status =
      ({ s with phase := .tell, pool := countedFrom status 0 s.pool,
                trace := s.trace ++ addEvents cfg s.cur.length ++ tellSpecFrom status 0 0 s.pool },
       .told) := by
  obtain ⟨h1, h2⟩ := hc hp
  have := tellLoop_spec status s.cur [] 0 s.pool h2 (by simpa using h1)
  simp only [List.length_nil] at this
  simp [doTell, hp, this]

/-- T16.2 `tell_ok`: the `TypeError` branch (`_num_emitted[i]` is None) is unreachable -/
theorem tell_ok (cfg : Cfg) (s : St) (status : Nat → Nat) (hc : Consistent s) (hp : s.phase = .ask) :
    (doTell cfg s status).2 = .told := by rw [tell_slices cfg s status hc hp]

/-- a `tell` event is in the spec only for active members -/
theorem mem_tellSpecFrom (status : Nat → Nat) (i pos : Nat) (p : List Em) (e : Nat)
    (sols : List Sol) (rows st : List Nat) (h : Event.tell e sols rows st ∈ tellSpecFrom status i pos p) :
    ∃ k, e = i + k ∧ activeAt p k = true ∧ sols = gen e sols.length ∧ rows.length = sols.length ∧
      st = rows.map status := by
  induction p generalizing i pos with
  | nil => simp [tellSpecFrom] at h
  | cons em ems ih =>
    simp only [tellSpecFrom] at h
    by_cases ha : em.active = true
    · simp only [ha, if_true, List.mem_cons, Event.tell.injEq] at h
      rcases h with ⟨rfl, rfl, rfl, rfl⟩ | h
      · exact ⟨0, rfl, by simp [activeAt, ha], by simp [C04.gen_length], by simp [C04.gen_length], rfl⟩
      · obtain ⟨k, h1, h2, h3⟩ := ih _ _ h
        exact ⟨k + 1, by omega, by simpa [activeAt_cons_succ] using h2, h3⟩
    · simp only [ha] at h
      obtain ⟨k, h1, h2, h3⟩ := ih _ _ h
      exact ⟨k + 1, by omega, by simpa [activeAt_cons_succ] using h2, h3⟩

theorem tellSpecFrom_length (status : Nat → Nat) (i pos : Nat) (p : List Em) :
    (tellSpecFrom status i pos p).length = countActive p := by
  induction p generalizing i pos with
  | nil => rfl
  | cons em ems ih =>
    simp only [tellSpecFrom, countActive_cons]
    by_cases ha : em.active = true <;> simp [ha, ih]

/-- rows told, concatenated in order -/
def toldRows : List Event → List Nat
  | [] => []
  | .tell _ _ rows _ :: es => rows ++ toldRows es
  | _ :: es => toldRows es

theorem gensFrom_flatten_length (i : Nat) (p : List Em) :
    (gensFrom i p).flatten.length = ((p.filter (·.active)).map (·.emitted.getD 0)).sum := by
  induction p generalizing i with
  | nil => rfl
  | cons em ems ih =>
    simp only [gensFrom]
    by_cases ha : em.active = true
    · simp [ha, C04.gen_length, ih]
    · simp [ha, ih]

/-- slice partition over the active set: the rows told, concatenated in pool order of the active
    members, are `[pos, pos + total)` — every row of the batch goes to exactly one active member -/
theorem tellSpecFrom_partition (status : Nat → Nat) (i pos : Nat) (p : List Em) :
    toldRows (tellSpecFrom status i pos p) = List.range' pos (gensFrom i p).flatten.length := by
  induction p generalizing i pos with
  | nil => simp [tellSpecFrom, toldRows, gensFrom]
  | cons em ems ih =>
    simp only [tellSpecFrom, gensFrom]
    by_cases ha : em.active = true
    · simp only [ha, if_true, toldRows, ih, List.flatten_cons, List.length_append, C04.gen_length]
      rw [List.range'_append_1]
    · simp only [ha]
      exact ih _ _

/-- T16.2 `tells_only_active`: the emitters told are exactly the active ones (`num_active` of them),
    each is told the solutions it generated itself, all of them, in order, and the rows handed out
    partition `[0, len(batch))`. -/
theorem tells_only_active (cfg : Cfg) (s : St) (status : Nat → Nat) (hc : Consistent s)
    (hp : s.phase = .ask) :
    let evs := tellSpecFrom status 0 0 s.pool
    (doTell cfg s status).1.trace = s.trace ++ addEvents cfg s.cur.length ++ evs ∧
    evs.length = countActive s.pool ∧
    (∀ e sols rows st, Event.tell e sols rows st ∈ evs →
      activeAt s.pool e = true ∧ sols = gen e sols.length ∧ rows.length = sols.length ∧
        st = rows.map status) ∧
    toldRows evs = List.range s.cur.length := by
  refine ⟨by rw [tell_slices cfg s status hc hp], tellSpecFrom_length _ _ _ _, ?_, ?_⟩
  · intro e sols rows st h
    obtain ⟨k, h1, h2⟩ := mem_tellSpecFrom _ _ _ _ _ _ _ _ h
    simp only [Nat.zero_add] at h1; subst h1; exact h2
  · rw [tellSpecFrom_partition, (hc hp).1, List.range_eq_range']

end Pyribs.C16
