/-!
# Rng — random sites, their provenance, and an abstract semantics of seeded runs (C09)

Core Lean only.  Two parts.

* **Site table types.**  `harness/translate/rng_sites.py` walks the AST of every
  module under `ribs/` on every check run and emits `PyribsGen/RngSites.lean`,
  a list of `Site` records (one per random site of the source) and a list of
  `Spawn` records (one per `SeedSequence.spawn`), using the types below.
* **Semantics.**  A run of a pyribs pipeline is a trace of *events*: executions of
  random sites on behalf of a component (an object owning a generator),
  arbitrary deterministic glue between them, and *foreign* actions of the
  surrounding program on the global generators.  The provenance of a site fixes
  where it reads its randomness from:

  | provenance                                | reads and advances                         |
  |-------------------------------------------|--------------------------------------------|
  | `fromSeedParam` / `ownGenerator` / `constant` | only the executing component's own state |
  | `entropyOnly`                             | its own state, but only a part of the seed (not *seeded*) |
  | `global`                                  | the global generator state                 |
  | `fresh`                                   | the OS entropy stream                      |
  | `unclassified`                            | (adversarially) global state and entropy   |

  Generator states, seeds and drawn values are natural numbers (any countable
  encoding); the generator algorithm `draw : Site → Nat → Nat × Nat`
  (source state ↦ drawn value, next state) and all glue are parameters, so the
  theorems of `PyribsProofs/C09.lean` hold for every deterministic choice of them.
-/
namespace Pyribs.Rng

/-! ## The site table (filled in by the translator) -/

/-- what kind of call the site is (keyed on the API name, not on code shape) -/
inductive Kind
  | construct    -- np.random.default_rng / SeedSequence / Generator / bit generators / RandomState / random.Random
  | spawn        -- SeedSequence.spawn / Generator.spawn
  | draw         -- <generator>.normal / standard_normal / uniform / integers / random / choice / …
  | moduleDraw   -- np.random.<fn> / random.<fn>: the process-wide generators
  | library      -- a library call that draws internally: sklearn k_means/KMeans, scipy.stats.qmc engines, cma
  | entropy      -- os.urandom / secrets.* / uuid.uuid4 / random.SystemRandom
  | seedParam    -- pseudo-site: a function takes a `seed` parameter and never uses it
  | escape       -- pseudo-site: seed material is stored into a container that may belong to the caller
  | other        -- a call into a random-capable library that the API table does not know
deriving DecidableEq, Repr

/-- where the randomness of a site comes from (intra-procedural def-use pass of the translator) -/
inductive Prov
  | fromSeedParam (path : String)   -- derived from the constructor's `seed`, e.g. `seed.SeedSequence.spawn[0]`
  | ownGenerator (attr : String)    -- a generator attribute (`self._rng`) that itself has seed provenance
  | callerOwned (path : String)     -- the seed / generator is written into an object the caller may share with
                                    -- other components (an un-copied dict parameter): they then draw one stream
  | global                          -- NumPy's / Python's process-wide generator
  | fresh                           -- no seed argument / library default: OS entropy
  | constant                        -- literal seed, or a deterministic sequence (`Sobol(scramble=False)`)
  | entropyOnly (path : String)     -- derived from the seed, but only through `.entropy` (or only `.spawn_key`)
                                    -- of a SeedSequence: siblings spawned from one parent collapse (see `SeedSeq`)
  | unclassified                    -- the translator could not classify the call
deriving DecidableEq, Repr

structure Site where
  file  : String
  line  : Nat
  col   : Nat
  scope : String      -- `Class.method` containing the call
  kind  : Kind
  api   : String      -- resolved API name, e.g. `numpy.random.default_rng`, `Generator.normal`
  prov  : Prov
deriving DecidableEq, Repr

/-- a site is *seeded* when its randomness is a function of its component's seed alone -/
def Site.seeded (s : Site) : Bool :=
  match s.prov with
  | .fromSeedParam _ | .ownGenerator _ | .constant => true
  | .entropyOnly _ | .callerOwned _ | .global | .fresh | .unclassified => false

/-- a call that receives seed material derived from a spawn -/
structure Consumer where
  line   : Nat
  callee : String        -- text of the called expression, e.g. `_get_es`, `_get_ranker`
  child  : Option Nat    -- index of the spawned child it receives; `none` = the un-spawned parent itself
deriving DecidableEq, Repr

/-- one `parent.spawn(n)` call and everything that is handed a child of it -/
structure Spawn where
  file      : String
  line      : Nat
  scope     : String
  n         : Option Nat       -- number of children when it is a literal
  consumers : List Consumer
deriving DecidableEq, Repr

/-- consumers with different callees receive different children, every index is in range,
    and nobody receives the un-spawned parent -/
def Spawn.separated (sp : Spawn) : Bool :=
  sp.consumers.all (fun a =>
    (match a.child, sp.n with
      | some i, some n => decide (i < n)
      | some _, none => true
      | none, _ => false) &&
    sp.consumers.all (fun b => a.callee == b.callee || a.child != b.child))

/-! ## Semantics -/

/-- where a site reads its randomness from -/
inductive Source
  | own | global | entropy | unknown
deriving DecidableEq, Repr

def Prov.source : Prov → Source
  | .fromSeedParam _ | .ownGenerator _ | .constant => .own
  | .entropyOnly _ => .own   -- reproducible and non-interfering, but it does not honour the whole seed
  | .callerOwned _ => .own   -- likewise, but the state it reads may be another component's (not *seeded*)
  | .global => .global
  | .fresh => .entropy
  | .unclassified => .unknown

theorem Site.own_of_seeded (s : Site) (h : s.seeded = true) : s.prov.source = .own := by
  cases s with
  | mk f l c sc k a p => cases p <;> simp_all [Site.seeded, Prov.source]

/-! ### Why `entropyOnly` is not seeded: a SeedSequence is entropy *and* spawn key -/

/-- `numpy.random.SeedSequence`: the user's entropy and the path of child indices it was spawned along -/
structure SeedSeq where
  entropy : Nat
  key     : List Nat
deriving DecidableEq, Repr

/-- `s.spawn(n)[i]` -/
def SeedSeq.child (s : SeedSeq) (i : Nat) : SeedSeq := ⟨s.entropy, s.key ++ [i]⟩

/-- `SeedSequence(s.entropy)`: what an `entropyOnly` site builds -/
def SeedSeq.fromEntropy (s : SeedSeq) : SeedSeq := ⟨s.entropy, []⟩

/-- `SeedSequence(s.entropy, spawn_key=s.spawn_key)`: a faithful copy -/
def SeedSeq.copy (s : SeedSeq) : SeedSeq := ⟨s.entropy, s.key⟩

/-- pointwise update of a finite map -/
def upd (f : Nat → Nat) (k v : Nat) : Nat → Nat := fun i => if i = k then v else f i

/-- The state of the world. `comp` and `data` together are the object graph that
`pickle.dumps(scheduler)` saves; `glob` and `ent` belong to the process. -/
structure World (δ ω : Type) where
  comp : Nat → Nat    -- generator state (or seed material) of component `c`
  data : δ            -- every other piece of program state (archive contents, optimizer mean, counters, …)
  glob : Nat          -- state of NumPy's / Python's global generators
  ent  : Nat          -- position in the OS entropy stream
  out  : List ω       -- observables emitted so far (ask() results, add feedback, data()), newest first

/-- what the library itself can do in one step -/
inductive LibEv (δ ω : Type)
  /-- deterministic code between random sites: updates the data, may emit observables -/
  | glue (f : δ → δ × List ω)
  /-- random site `s` executed on behalf of component `c`; the drawn value is consumed by deterministic code -/
  | site (s : Site) (c : Nat) (use : Nat → δ → δ × List ω)

/-- one event of a run: a library step, or a *foreign* action of the surrounding
program on the global generators (`np.random.seed(k)`, `np.random.rand()`, `random.random()`) -/
inductive Ev (δ ω : Type)
  | lib (e : LibEv δ ω)
  | foreign (f : Nat → Nat)

variable {δ ω : Type}

/-- every random site executed by this step is seeded -/
def LibEv.ok : LibEv δ ω → Bool
  | .glue _ => true
  | .site s _ _ => s.seeded

def Ev.ok : Ev δ ω → Bool
  | .lib e => e.ok
  | .foreign _ => true

def Ev.isLib : Ev δ ω → Bool
  | .lib _ => true
  | .foreign _ => false

/-- the library's own steps of a trace (foreign actions erased) -/
def libOf (tr : List (Ev δ ω)) : List (Ev δ ω) := tr.filter Ev.isLib

/-- what the foreign actions of a trace, and they alone, do to a global state -/
def foreignOnly : List (Ev δ ω) → Nat → Nat
  | [], g => g
  | .lib _ :: tr, g => foreignOnly tr g
  | .foreign f :: tr, g => foreignOnly tr (f g)

/-- commit the result of deterministic code: new data, emitted observables -/
def World.emit (w : World δ ω) (r : δ × List ω) : World δ ω :=
  { w with data := r.1, out := r.2 ++ w.out }

/-- one library step in the full world -/
def execLib (draw : Site → Nat → Nat × Nat) (entropy : Nat → Nat) (w : World δ ω) :
    LibEv δ ω → World δ ω
  | .glue f => w.emit (f w.data)
  | .site s c use =>
    match s.prov.source with
    | .own =>
      let r := draw s (w.comp c)
      ({ w with comp := upd w.comp c r.2 } : World δ ω).emit (use r.1 w.data)
    | .global =>
      let r := draw s w.glob
      ({ w with glob := r.2 } : World δ ω).emit (use r.1 w.data)
    | .entropy =>
      let r := draw s (entropy w.ent)
      ({ w with ent := w.ent + 1, comp := upd w.comp c r.2 } : World δ ω).emit (use r.1 w.data)
    | .unknown =>
      let r := draw s (w.glob + entropy w.ent)
      ({ w with glob := r.2, ent := w.ent + 1, comp := upd w.comp c r.2 } : World δ ω).emit
        (use r.1 w.data)

def exec (draw : Site → Nat → Nat × Nat) (entropy : Nat → Nat) (w : World δ ω) :
    Ev δ ω → World δ ω
  | .lib e => execLib draw entropy w e
  | .foreign f => { w with glob := f w.glob }

/-- a run: the events of the trace in order -/
def run (draw : Site → Nat → Nat × Nat) (entropy : Nat → Nat) (w : World δ ω) :
    List (Ev δ ω) → World δ ω
  | [] => w
  | e :: tr => run draw entropy (exec draw entropy w e) tr

/-! ### The pickled object graph and the run it determines on its own -/

/-- what `pickle.dumps(scheduler)` saves: every component's generator state and all data -/
structure Obj (δ : Type) where
  comp : Nat → Nat
  data : δ

def World.obj (w : World δ ω) : Obj δ := ⟨w.comp, w.data⟩

/-- `pickle.loads` in a process whose global generator is in state `g`, whose entropy
stream is at position `n`, and whose observer has logged `log` so far -/
def Obj.restore (o : Obj δ) (log : List ω) (g n : Nat) : World δ ω :=
  { comp := o.comp, data := o.data, glob := g, ent := n, out := log }

/-- one library step as a function of the object graph alone (every site reads its own component) -/
def stepObj (draw : Site → Nat → Nat × Nat) (o : Obj δ) : LibEv δ ω → Obj δ × List ω
  | .glue f => let r := f o.data; (⟨o.comp, r.1⟩, r.2)
  | .site s c use =>
    let d := draw s (o.comp c)
    let r := use d.1 o.data
    (⟨upd o.comp c d.2, r.1⟩, r.2)

/-- the run determined by the object graph alone; foreign actions are invisible to it.
Returns the final object graph and the observables it emitted (newest first). -/
def runObj (draw : Site → Nat → Nat × Nat) (o : Obj δ) : List (Ev δ ω) → Obj δ × List ω
  | [] => (o, [])
  | .foreign _ :: tr => runObj draw o tr
  | .lib e :: tr =>
    let r := stepObj draw o e
    let r' := runObj draw r.1 tr
    (r'.1, r'.2 ++ r.2)

/-! ### Programs: control flow that depends on the data -/

/-- The library as a deterministic program: from the program data alone it decides
its next step (`none` = finished).  Which sites execute, how often and in which
order may therefore depend on everything drawn so far. -/
abbrev Prog (δ ω : Type) := δ → Option (LibEv δ ω)

/-- the environment's schedule: at each tick either the library takes its next
step or foreign code acts on the global generators -/
inductive Tick
  | lib
  | foreign (f : Nat → Nat)

def Tick.isLib : Tick → Bool
  | .lib => true
  | .foreign _ => false

def tickForeignOnly : List Tick → Nat → Nat
  | [], g => g
  | .lib :: ts, g => tickForeignOnly ts g
  | .foreign f :: ts, g => tickForeignOnly ts (f g)

def stepProg (P : Prog δ ω) (draw : Site → Nat → Nat × Nat) (entropy : Nat → Nat)
    (w : World δ ω) : Tick → World δ ω
  | .foreign f => { w with glob := f w.glob }
  | .lib =>
    match P w.data with
    | none => w
    | some e => execLib draw entropy w e

def runProg (P : Prog δ ω) (draw : Site → Nat → Nat × Nat) (entropy : Nat → Nat)
    (w : World δ ω) : List Tick → World δ ω
  | [] => w
  | t :: ts => runProg P draw entropy (stepProg P draw entropy w t) ts

/-- `k` library steps of program `P` as a function of the object graph alone -/
def iterObj (P : Prog δ ω) (draw : Site → Nat → Nat × Nat) : Nat → Obj δ → Obj δ × List ω
  | 0, o => (o, [])
  | k + 1, o =>
    match P o.data with
    | none => iterObj P draw k o
    | some e =>
      let r := stepObj draw o e
      let r' := iterObj P draw k r.1
      (r'.1, r'.2 ++ r.2)

/-- all sites a program can ever execute are seeded -/
def Prog.ok (P : Prog δ ω) : Prop := ∀ d e, P d = some e → e.ok = true

end Pyribs.Rng
