import PyribsModel.Emit
/-!
Line-protocol machine `emit` for the `Emit` model (property C08).

Requests (one line each, tokens separated by blanks; a row is a comma separated list of rationals,
`|` separates the parts of one batch entry):

* `bounds <dim> none` / `bounds <dim> list <arg>…` — `parseBounds`; an `<arg>` is `N` (None for the whole
  dimension) or `S:<e>:<e>…` (a sequence; `S` alone is the empty one), each entry a rational or `N`.
  → `ok lo=… hi=…` | `err value`
* `setb <lo-list> <hi-list>` (entries rational, `-inf`, `inf`) — bounds used by the requests below → `ok`
* `clip <row>…`, `gauss <p>|<n>…`, `iso <p1>|<p2>|<iso>|<line>…`, `gopline <p1>|<p2>|<noise>|<line>…` → `ok <row>…`
* `inb <row>…` → `ok <0/1>…`
* `cfg kind=… dim=… batch=… x0=<row>|none dqd=0|1`, `init <row>…` / `noinit`, `arch <row>…`  → `ok`
* `ask idx=<nats> idx2=<nats> lines=<rats> noise <row>…` → `ok <row>…` | `err …`
* `rs new <batch>` → `rem=<k>`; `rs round <row>…` → `rem=<k> idx=<pending slots>` | `err shape`;
  `rs run <fuel>` (the pure `resample` over the recorded rounds) → `ok <row>@round:count:pos…` | `none`
* `dtype <kind> <sol> <meas> <jac>` → `rep=<d> cur=<d>`
-/
namespace Pyribs.EmitDrv
open Pyribs Emit

structure St where
  bounds : Bounds
  cfg    : Cfg
  arch   : List Row
  slots  : List Slot
  rounds : List (List Row)     -- candidates of round 0, 1, …
  batch  : Nat

def init : St :=
  ⟨[], ⟨.gaussian, 0, 0, none, none, [], false⟩, [], [], [], 0⟩

def showErr : Err → String
  | .value => "err value"
  | .index => "err index"
  | .runtime => "err runtime"

def parseRow (s : String) : Option Row := parseRatList s
def showRow (r : Row) : String := showRatList r
def showRows (rs : List Row) : String :=
  if rs.isEmpty then "ok" else "ok " ++ String.intercalate " " (rs.map showRow)

def parseLo (s : String) : Option (Option Rat) :=
  if s = "-inf" then some none else (parseRat s).map some
def parseHi (s : String) : Option (Option Rat) :=
  if s = "inf" then some none else (parseRat s).map some
def showLo : Option Rat → String | none => "-inf" | some q => showRat q
def showHi : Option Rat → String | none => "inf" | some q => showRat q

def parseEntry (s : String) : Option (Option Rat) :=
  if s = "N" then some none else (parseRat s).map some

def parseArg (s : String) : Option BndArg :=
  if s = "N" then some .none
  else match s.splitOn ":" with
    | "S" :: es => (es.mapM parseEntry).map .seq
    | _ => none

def parts (s : String) : List String := s.splitOn "|"

def parseKind : String → Option OpKind
  | "gaussian" => some .gaussian
  | "isoline" => some .isoline
  | "gopline" => some .gopLine
  | _ => none

def parseDType : String → Option DType
  | "f32" => some .f32
  | "f64" => some .f64
  | _ => none
def showDType : DType → String | .f32 => "f32" | .f64 => "f64"

def parseEKind : String → Option EmitterKind
  | "gaussian" => some .gaussian
  | "isoLine" => some .isoLine
  | "gaGaussian" => some .gaGaussian
  | "gaIsoLine" => some .gaIsoLine
  | "gopAskDqd" => some .gopAskDqd
  | "gopAsk" => some .gopAsk
  | "gopAskMeasureGrads" => some .gopAskMeasureGrads
  | "evolutionStrategy" => some .evolutionStrategy
  | "gaeAskDqd" => some .gaeAskDqd
  | "gaeAsk" => some .gaeAsk
  | _ => none

def pendingIdx (ss : List Slot) : List Nat :=
  (ss.zipIdx).filterMap (fun p => match p.1 with | .pending => some p.2 | .done _ => none)

def showEntry (e : Entry) : String := s!"{showRow e.row}@{e.round}:{e.count}:{e.pos}"

def quad (t : String) : Option (Row × Row × Row × Rat) :=
  match parts t with
  | [a, b, c, d] => do
    let a ← parseRow a; let b ← parseRow b; let c ← parseRow c; let d ← parseRat d
    pure (a, b, c, d)
  | _ => none

def step (st : St) (toks : List String) : St × String :=
  match toks with
  | ["bounds", dim, "none"] =>
    match dim.toNat? with
    | some dim =>
      match parseBounds none dim with
      | .ok b => (st, s!"ok lo={showList showLo (lowers b)} hi={showList showHi (uppers b)}")
      | .error e => (st, showErr e)
    | none => (st, "bad-op")
  | "bounds" :: dim :: "list" :: args =>
    match dim.toNat?, args.mapM parseArg with
    | some dim, some args =>
      match parseBounds (some args) dim with
      | .ok b => (st, s!"ok lo={showList showLo (lowers b)} hi={showList showHi (uppers b)}")
      | .error e => (st, showErr e)
    | _, _ => (st, "bad-op")
  | ["setb", lo, hi] =>
    match parseListWith parseLo lo, parseListWith parseHi hi with
    | some lo, some hi =>
      if lo.length ≠ hi.length then (st, "bad-op") else ({ st with bounds := List.zip lo hi }, "ok")
    | _, _ => (st, "bad-op")
  | "clip" :: rows =>
    match rows.mapM parseRow with
    | some rs => (st, showRows (clipRows st.bounds rs))
    | none => (st, "bad-op")
  | "inb" :: rows =>
    match rows.mapM parseRow with
    | some rs => (st, "ok " ++ String.intercalate " " (rs.map (fun r => showBool (inBRow st.bounds r))))
    | none => (st, "bad-op")
  | "gauss" :: rows =>
    match rows.mapM (fun t => match parts t with
        | [p, n] => do let p ← parseRow p; let n ← parseRow n; pure (p, n)
        | _ => none) with
    | some prs => (st, showRows (gaussianOp st.bounds (prs.map (·.1)) (prs.map (·.2))))
    | none => (st, "bad-op")
  | "iso" :: rows =>
    match rows.mapM quad with
    | some qs =>
      (st, showRows (isoLineOp st.bounds (qs.map (·.1)) (qs.map (·.2.1)) (qs.map (·.2.2.1)) (qs.map (·.2.2.2))))
    | none => (st, "bad-op")
  | "gopline" :: rows =>
    match rows.mapM quad with
    | some qs =>
      (st, showRows (gopLineOp st.bounds (qs.map (·.1)) (qs.map (·.2.1)) (qs.map (·.2.2.1)) (qs.map (·.2.2.2))))
    | none => (st, "bad-op")
  | "cfg" :: rest =>
    match (kv rest "kind").bind parseKind, (kv rest "dim").bind String.toNat?,
          (kv rest "batch").bind String.toNat?, kv rest "x0", kv rest "dqd" with
    | some k, some dim, some batch, some x0, some dqd =>
      let x0? : Option (Option Row) := if x0 = "none" then some none else (parseRow x0).map some
      match x0? with
      | some x0 =>
        ({ st with cfg := { kind := k, dim := dim, batch := batch, x0 := x0, init := st.cfg.init,
                            bounds := st.bounds, dqd := dqd = "1" } }, "ok")
      | none => (st, "bad-op")
    | _, _, _, _, _ => (st, "bad-op")
  | "init" :: rows =>
    match rows.mapM parseRow with
    | some rs => ({ st with cfg := { st.cfg with init := some rs } }, "ok")
    | none => (st, "bad-op")
  | ["noinit"] => ({ st with cfg := { st.cfg with init := none } }, "ok")
  | "arch" :: rows =>
    match rows.mapM parseRow with
    | some rs => ({ st with arch := rs }, "ok")
    | none => (st, "bad-op")
  | "ask" :: idx :: idx2 :: lines :: "noise" :: rows =>
    match (kv [idx] "idx").bind parseNatList, (kv [idx2] "idx2").bind parseNatList,
          (kv [lines] "lines").bind parseRatList, rows.mapM parseRow with
    | some idx, some idx2, some lines, some noise =>
      match emitterAsk { st.cfg with bounds := st.bounds } st.arch ⟨idx, idx2, noise, lines⟩ with
      | .ok rs => (st, showRows rs)
      | .error e => (st, showErr e)
    | _, _, _, _ => (st, "bad-op")
  | ["rs", "new", n] =>
    match n.toNat? with
    | some n => ({ st with slots := List.replicate n .pending, rounds := [], batch := n }, s!"rem={n}")
    | none => (st, "bad-op")
  | "rs" :: "round" :: rows =>
    match rows.mapM parseRow with
    | some cs =>
      match fill (inBRow st.bounds) st.rounds.length (pendingCount st.slots) st.slots cs 0 with
      | some slots' =>
        ({ st with slots := slots', rounds := st.rounds ++ [cs] },
          s!"rem={pendingCount slots'} idx={showNatList (pendingIdx slots')}")
      | none => (st, "err shape")
    | none => (st, "bad-op")
  | ["rs", "run", fuel] =>
    match fuel.toNat? with
    | some fuel =>
      let draw : Nat → Nat → List Row := fun r _ => st.rounds.getD r []
      match resample draw (inBRow st.bounds) fuel st.batch with
      | some es => (st, if es.isEmpty then "ok" else "ok " ++ String.intercalate " " (es.map showEntry))
      | none => (st, "none")
    | none => (st, "bad-op")
  | ["dtype", k, sol, meas, jac] =>
    match parseEKind k, parseDType sol, parseDType meas, parseDType jac with
    | some k, some sol, some meas, some jac =>
      (st, s!"rep={showDType (askDType k sol (boundsDType sol meas) jac)} " ++
           s!"cur={showDType (askDTypeCurrent k sol (boundsDTypeCurrent sol meas) jac)}")
    | _, _, _, _ => (st, "bad-op")
  | _ => (st, "bad-op")

end Pyribs.EmitDrv
