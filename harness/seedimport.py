"""Copy a seeding agent's deliverables into /verif/seeded/<id>-<k>/.

usage: seedimport.py <id> [src_root=/tmp/seed] [offset=0]   (round 2: seedimport.py C01 /tmp/seed2 2 -> C01-3, C01-4)
"""
import json, os, shutil, sys
pid = sys.argv[1]
root = sys.argv[2] if len(sys.argv) > 2 else "/tmp/seed"
off = int(sys.argv[3]) if len(sys.argv) > 3 else 0
src = f"{root}/{pid}_out"
for k in (1, 2, 3):
    if not os.path.exists(f"{src}/change{k}.diff"):
        continue
    dst = f"/verif/seeded/{pid}-{k + off}"
    os.makedirs(dst, exist_ok=True)
    shutil.copy(f"{src}/change{k}.diff", f"{dst}/patch.diff")
    shutil.copy(f"{src}/demo{k}.py", f"{dst}/demo.py")
    meta = json.load(open(f"{src}/meta{k}.json"))
    meta["property"] = pid
    meta["round"] = int(sys.argv[4]) if len(sys.argv) > 4 else (1 if off == 0 else 2)
    json.dump(meta, open(f"{dst}/meta.json", "w"), indent=1)
    print(dst, "-", str(meta.get("summary"))[:150])
