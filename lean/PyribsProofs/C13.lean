import PyribsModel.Store
/-!
# C13 — ArrayStore occupancy bookkeeping stays exact under add, clear and resize

Property theorems about `PyribsModel.Store` (the model of `_array_store.py`),
for every row type, every store satisfying the invariant, every index list
(arbitrary, repeated, unsorted), every transform chain and every history.
-/
namespace Pyribs.C13
open Pyribs Store

variable {ρ : Type}

/-- The bookkeeping invariant: `occupied_list` has no duplicates, lists exactly
the occupied indices, and every occupied index is below the capacity. -/
structure WF (s : Store ρ) : Prop where
  nodup : s.olist.Nodup
  mem   : ∀ i, i ∈ s.olist ↔ s.occupied i = true
  bound : ∀ i, s.occupied i = true → i < s.cap

/-! ## `lastWrite`: NumPy fancy assignment, last row wins -/

theorem lastWrite_isSome (ws : List (Nat × ρ)) (i : Nat) :
    (lastWrite ws i).isSome = true ↔ ∃ w ∈ ws, w.1 = i := by
  induction ws with
  | nil => simp [lastWrite]
  | cons w ws ih =>
    obtain ⟨j, r⟩ := w
    simp only [lastWrite, List.mem_cons, exists_eq_or_imp]
    cases h : lastWrite ws i with
    | some r' =>
      rw [h] at ih
      simp only [Option.isSome_some, true_iff] at ih ⊢
      exact Or.inr ih
    | none =>
      rw [h] at ih
      simp only [Option.isSome_none, Bool.false_eq_true, false_iff] at ih
      by_cases hj : j = i
      · simp [hj]
      · simp only [hj, if_false, Option.isSome_none, Bool.false_eq_true, false_or, false_iff]
        exact ih

theorem lastWrite_not_named (ws : List (Nat × ρ)) (i : Nat)
    (h : ∀ w ∈ ws, w.1 ≠ i) : lastWrite ws i = none := by
  cases hl : lastWrite ws i with
  | none => rfl
  | some r =>
    have := (lastWrite_isSome ws i).mp (by simp [hl])
    obtain ⟨w, hw, hi⟩ := this
    exact absurd hi (h w hw)

/-- T13.3 (core): the row at the *last* position naming `i` is what index `i` holds. -/
theorem lastWrite_last (pre post : List (Nat × ρ)) (i : Nat) (r : ρ)
    (h : ∀ w ∈ post, w.1 ≠ i) : lastWrite (pre ++ (i, r) :: post) i = some r := by
  induction pre with
  | nil => simp [lastWrite, lastWrite_not_named post i h]
  | cons w pre ih => obtain ⟨j, r'⟩ := w; simp [lastWrite, ih]

/-! ## `newIndices` -/

theorem mem_newIndices (s : Store ρ) (ws : List (Nat × ρ)) (i : Nat) :
    i ∈ newIndices s ws ↔ i < s.cap ∧ (∃ w ∈ ws, w.1 = i) ∧ s.occupied i = false := by
  simp [newIndices, List.mem_filter]

theorem newIndices_nodup (s : Store ρ) (ws : List (Nat × ρ)) : (newIndices s ws).Nodup :=
  (List.nodup_range).filter _

/-- within one call the newly filled indices are listed in ascending order -/
theorem newIndices_sorted (s : Store ρ) (ws : List (Nat × ρ)) :
    (newIndices s ws).Pairwise (· < ·) :=
  List.Pairwise.filter _ List.pairwise_lt_range

/-! ## shape of `rawAdd` -/

theorem inRange_iff (s : Store ρ) (ws : List (Nat × ρ)) :
    inRange s ws = true ↔ ∀ w ∈ ws, w.1 < s.cap := by
  simp [inRange]

/-- a rejected `add` (index out of range) leaves everything but the add counter unchanged -/
theorem rawAdd_error_unchanged (s : Store ρ) (ws : List (Nat × ρ)) (h : inRange s ws = false) :
    (rawAdd s ws).cells = s.cells ∧ (rawAdd s ws).olist = s.olist ∧
    (rawAdd s ws).cap = s.cap ∧ (rawAdd s ws).clears = s.clears ∧
    (rawAdd s ws).adds = s.adds + 1 := by
  simp [rawAdd, h]

/-- T13.3 `read_your_writes` : after a successful add, an index named by the call
holds its last row; every other index is unchanged. -/
theorem read_your_writes (s : Store ρ) (ws : List (Nat × ρ)) (h : inRange s ws = true) (i : Nat) :
    (rawAdd s ws).cells i = (lastWrite ws i).or (s.cells i) := by
  unfold rawAdd; rw [if_pos h]

/-- T13.2 `order` : a successful add appends exactly the named, not yet occupied
indices (each once, ascending) after the existing list. -/
theorem order (s : Store ρ) (ws : List (Nat × ρ)) (h : inRange s ws = true) :
    (rawAdd s ws).olist = s.olist ++ newIndices s ws := by
  simp [rawAdd, h]

theorem add_other_fields (s : Store ρ) (ws : List (Nat × ρ)) :
    (rawAdd s ws).cap = s.cap ∧ (rawAdd s ws).adds = s.adds + 1 ∧
    (rawAdd s ws).clears = s.clears := by
  unfold rawAdd; split <;> simp

/-- occupancy after a successful add: old occupied ∪ named -/
theorem occupied_after_add (s : Store ρ) (ws : List (Nat × ρ)) (h : inRange s ws = true) (i : Nat) :
    (rawAdd s ws).occupied i = true ↔ (s.occupied i = true ∨ ∃ w ∈ ws, w.1 = i) := by
  unfold occupied
  rw [read_your_writes s ws h i, ← lastWrite_isSome]
  cases lastWrite ws i <;> simp

/-! ## T13.1 the invariant is preserved by every operation -/

theorem wf_empty (cap : Nat) : WF (Store.empty cap : Store ρ) :=
  ⟨by simp [Store.empty], by simp [Store.empty, occupied], by simp [Store.empty, occupied]⟩

theorem wf_add (s : Store ρ) (ws : List (Nat × ρ)) (hw : WF s) (h : inRange s ws = true) :
    WF (rawAdd s ws) := by
  have hb : ∀ w ∈ ws, w.1 < s.cap := (inRange_iff s ws).mp h
  have hocc := occupied_after_add s ws h
  have hord := order s ws h
  have hcap := (add_other_fields s ws).1
  refine ⟨?_, ?_, ?_⟩
  · rw [hord]
    refine List.nodup_append.mpr ⟨hw.nodup, newIndices_nodup s ws, ?_⟩
    intro a ha b hb' hab
    subst hab
    have h1 := (hw.mem a).mp ha
    have h2 := ((mem_newIndices s ws a).mp hb').2.2
    simp [h1] at h2
  · intro i
    rw [hord, hocc, List.mem_append, hw.mem, mem_newIndices]
    constructor
    · rintro (h1 | ⟨_, h2, _⟩)
      · exact Or.inl h1
      · exact Or.inr h2
    · rintro (h1 | ⟨w, hw', rfl⟩)
      · exact Or.inl h1
      · by_cases ho : s.occupied w.1 = true
        · exact Or.inl ho
        · exact Or.inr ⟨hb w hw', ⟨w, hw', rfl⟩, by simpa using ho⟩
  · intro i hi
    rw [hocc] at hi
    rw [hcap]
    rcases hi with hi | ⟨w, hw', rfl⟩
    · exact hw.bound i hi
    · exact hb w hw'

/-- the state after *any* `rawAdd` (accepted or rejected) satisfies the invariant -/
theorem wf_rawAdd (s : Store ρ) (ws : List (Nat × ρ)) (hw : WF s) : WF (rawAdd s ws) := by
  cases h : inRange s ws with
  | true => exact wf_add s ws hw h
  | false =>
    obtain ⟨h1, h2, h3, _, _⟩ := rawAdd_error_unchanged s ws h
    exact ⟨by rw [h2]; exact hw.nodup,
           by intro i; rw [h2]; unfold occupied; rw [h1]; exact hw.mem i,
           by intro i; unfold occupied; rw [h1, h3]; exact hw.bound i⟩

theorem wf_addWith (s : Store ρ) (xs : List Xf) (ws : List (Nat × ρ)) (hw : WF s) :
    WF (addWith s xs ws) := wf_rawAdd s _ hw

theorem wf_clear (s : Store ρ) : WF s.clear :=
  ⟨by simp [clear], by simp [clear, occupied], by simp [clear, occupied]⟩

/-- T13.5 `resize_preserves` : a legal resize keeps every entry, the occupancy,
the order and the counters; an illegal one is rejected. -/
theorem resize_preserves (s s' : Store ρ) (c : Nat) (h : s.resize c = .ok s') :
    s.cap < c ∧ s'.cap = c ∧ s'.cells = s.cells ∧ s'.olist = s.olist ∧
    s'.adds = s.adds ∧ s'.clears = s.clears := by
  unfold resize at h
  split at h
  · simp at h
  · simp at h; subst h; simp; omega

theorem resize_reject_iff (s : Store ρ) (c : Nat) :
    s.resize c = .error .value ↔ c ≤ s.cap := by
  unfold resize; split <;> simp [*]

theorem wf_resize (s s' : Store ρ) (c : Nat) (hw : WF s) (h : s.resize c = .ok s') : WF s' := by
  obtain ⟨hc, hcap, hcells, hol, _, _⟩ := resize_preserves s s' c h
  refine ⟨by rw [hol]; exact hw.nodup, ?_, ?_⟩
  · intro i; rw [hol]; unfold occupied; rw [hcells]; exact hw.mem i
  · intro i hi; unfold occupied at hi; rw [hcells] at hi
    have := hw.bound i hi; omega

/-- T13.1 `len_eq_count` : `len` = number of occupied indices. -/
theorem len_eq_count (s : Store ρ) (hw : WF s) :
    s.len = ((List.range s.cap).filter (fun i => s.occupied i)).length := by
  unfold len
  apply List.Perm.length_eq
  apply (List.perm_ext_iff_of_nodup hw.nodup ((List.nodup_range).filter _)).mpr
  intro i
  rw [hw.mem, List.mem_filter, List.mem_range]
  constructor
  · intro h; exact ⟨hw.bound i h, h⟩
  · intro h; exact h.2

/-- `data()` lists each occupied index exactly once, with its row -/
theorem data_spec (s : Store ρ) (hw : WF s) :
    (s.data.map (·.1)).Nodup ∧
    ∀ i, s.occupied i = true ↔ (i, s.cells i) ∈ s.data := by
  constructor
  · simp only [data, List.map_map]
    have : ((fun p : Nat × Option ρ => p.1) ∘ fun i => (i, s.cells i)) = id := by funext i; rfl
    rw [this, List.map_id]; exact hw.nodup
  · intro i
    rw [← hw.mem i]
    simp only [data, List.mem_map]
    constructor
    · intro h; exact ⟨i, h, rfl⟩
    · rintro ⟨a, ha, hp⟩
      have : a = i := by simpa using congrArg Prod.fst hp
      exact this ▸ ha

/-! ## histories -/

inductive Op (ρ : Type)
  | add (xs : List Xf) (ws : List (Nat × ρ))
  | clear
  | resize (c : Nat)

def step (s : Store ρ) : Op ρ → Store ρ
  | .add xs ws => addWith s xs ws
  | .clear => s.clear
  | .resize c => match s.resize c with | .ok s' => s' | .error _ => s

def run (cap : Nat) (ops : List (Op ρ)) : Store ρ := ops.foldl step (Store.empty cap)

theorem wf_step (s : Store ρ) (op : Op ρ) (hw : WF s) : WF (step s op) := by
  cases op with
  | add xs ws => exact wf_addWith s xs ws hw
  | clear => exact wf_clear s
  | resize c =>
    simp only [step]
    cases h : s.resize c with
    | ok s' => exact wf_resize s s' c hw h
    | error e => exact hw

/-- T13.1 for every reachable state: after any history of add (any indices, any
transform chain, accepted or rejected), clear and resize (legal or not). -/
theorem wf_run (cap : Nat) (ops : List (Op ρ)) : WF (run cap ops) := by
  unfold run
  generalize hs : (Store.empty cap : Store ρ) = s0
  have h0 : WF s0 := hs ▸ wf_empty cap
  clear hs
  induction ops generalizing s0 with
  | nil => simpa
  | cons op ops ih => exact ih _ (wf_step s0 op h0)

/-- an add never removes or reorders: the old `occupied_list` is a prefix of the new one
(indices first filled by an earlier call come before those first filled by a later one) -/
theorem add_prefix (s : Store ρ) (xs : List Xf) (ws : List (Nat × ρ)) :
    s.olist <+: (addWith s xs ws).olist := by
  unfold addWith
  cases h : inRange s (chain s xs ws) with
  | true => rw [order s _ h]; exact List.prefix_append _ _
  | false => rw [(rawAdd_error_unchanged s _ h).2.1]; exact List.prefix_refl _

/-- every transform only ever drops, permutes or repeats the rows it was given -/
theorem applyXf_subset (s : Store ρ) (x : Xf) (ws : List (Nat × ρ)) :
    ∀ w ∈ applyXf s x ws, w ∈ ws := by
  intro w hw
  cases x <;> simp only [applyXf] at hw
  · exact hw
  · exact (List.mem_filter.mp hw).1
  · exact (List.mem_filter.mp hw).1
  · exact List.mem_reverse.mp hw
  · cases ws with
    | nil => simp at hw
    | cons a as =>
      rcases List.mem_append.mp hw with h | h
      · exact h
      · simp at h; subst h; exact List.mem_cons_self
  · simp at hw

theorem chain_subset (s : Store ρ) (xs : List Xf) (ws : List (Nat × ρ)) :
    ∀ w ∈ chain s xs ws, w ∈ ws := by
  unfold chain
  induction xs generalizing ws with
  | nil => intro w hw; simpa using hw
  | cons x xs ih =>
    intro w hw
    simp only [List.foldl_cons] at hw
    exact applyXf_subset s x ws w (ih _ w hw)

/-- T13.4 (one step) `never_written_unoccupied` : an index that is occupied after an
add was occupied before or is named by the rows handed to that add. -/
theorem occupied_after_addWith (s : Store ρ) (xs : List Xf) (ws : List (Nat × ρ)) (i : Nat)
    (h : (addWith s xs ws).occupied i = true) :
    s.occupied i = true ∨ ∃ w ∈ ws, w.1 = i := by
  unfold addWith at h
  cases hr : inRange s (chain s xs ws) with
  | true =>
    rcases (occupied_after_add s _ hr i).mp h with h | ⟨w, hw, rfl⟩
    · exact Or.inl h
    · exact Or.inr ⟨w, chain_subset s xs ws w hw, rfl⟩
  | false =>
    have := (rawAdd_error_unchanged s _ hr).1
    unfold occupied at h ⊢
    rw [this] at h
    exact Or.inl h

/-- T13.4 `never_written_unoccupied` over histories: an index that no add of the
history names is unoccupied in the final store. -/
theorem never_written_unoccupied (cap : Nat) (ops : List (Op ρ)) (i : Nat)
    (h : ∀ op ∈ ops, match op with | .add _ ws => ∀ w ∈ ws, w.1 ≠ i | _ => True) :
    (run cap ops).occupied i = false := by
  unfold run
  generalize hs : (Store.empty cap : Store ρ) = s0
  have h0 : s0.occupied i = false := by subst hs; simp [Store.empty, occupied]
  clear hs
  induction ops generalizing s0 with
  | nil => simpa
  | cons op ops ih =>
    simp only [List.foldl_cons]
    apply ih
    · intro op' hop'; exact h op' (List.mem_cons_of_mem _ hop')
    · have hop := h op List.mem_cons_self
      cases op with
      | add xs ws =>
        simp only [step]
        cases hc : (addWith s0 xs ws).occupied i with
        | false => rfl
        | true =>
          rcases occupied_after_addWith s0 xs ws i hc with h1 | ⟨w, hw, hwi⟩
          · simp [h0] at h1
          · exact absurd hwi (hop w hw)
      | clear => simp [step, clear, occupied]
      | resize c =>
        simp only [step]
        cases hr : s0.resize c with
        | ok s' =>
          have := (resize_preserves s0 s' c hr).2.2.1
          unfold occupied at h0 ⊢; rw [this]; exact h0
        | error e => exact h0

/-! ## T13.6 raw round trip -/

/-- observational equality of stores -/
def Equiv (a b : Store ρ) : Prop :=
  a.cap = b.cap ∧ a.cells = b.cells ∧ a.olist = b.olist ∧ a.adds = b.adds ∧ a.clears = b.clears

theorem raw_roundtrip (s : Store ρ) (hw : WF s) : Equiv (fromRaw (asRaw s)) s := by
  refine ⟨rfl, ?_, rfl, rfl, rfl⟩
  funext i
  simp only [fromRaw, asRaw]
  by_cases hi : i < s.cap
  · simp [List.getD, hi, occupied]
    cases h : s.cells i <;> simp
  · have : s.occupied i = false := by
      cases ho : s.occupied i with
      | false => rfl
      | true => exact absurd (hw.bound i ho) hi
    simp [List.getD, hi]
    unfold occupied at this
    cases h : s.cells i with
    | none => rfl
    | some r => simp [h] at this

/-- since `Equiv` is equality of all five components, every later operation agrees -/
theorem equiv_eq (a b : Store ρ) (h : Equiv a b) : a = b := by
  obtain ⟨h1, h2, h3, h4, h5⟩ := h
  cases a; cases b; simp_all

/-! ## T13.7 iterator -/

/-- `next` raises RuntimeError exactly when an `add` or `clear` happened after the
iterator was created; otherwise it yields the next entry of `occupied_list` or stops. -/
theorem iterator_stale_iff (it : Iter) (s : Store ρ) :
    ((it.next s).1 = .error .runtime ↔ (it.adds ≠ s.adds ∨ it.clears ≠ s.clears)) := by
  unfold Iter.next
  by_cases h : it.adds ≠ s.adds ∨ it.clears ≠ s.clears
  · simp [h]
  · simp only [h, if_false, iff_false]
    cases s.olist[it.pos]? <;> simp

theorem iterator_yields (it : Iter) (s : Store ρ) (h : it.adds = s.adds ∧ it.clears = s.clears) :
    (it.next s).1 = (match s.olist[it.pos]? with
      | none => .error .stop
      | some i => .ok (i, s.cells i)) := by
  unfold Iter.next
  have : ¬ (it.adds ≠ s.adds ∨ it.clears ≠ s.clears) := by simp [h.1, h.2]
  simp only [this, if_false]
  cases s.olist[it.pos]? <;> rfl

/-- every add and every clear invalidates a live iterator; resize does not -/
theorem add_invalidates (s : Store ρ) (xs : List Xf) (ws : List (Nat × ρ)) :
    (addWith s xs ws).adds = s.adds + 1 := (add_other_fields s _).2.1

theorem clear_invalidates (s : Store ρ) : s.clear.clears = s.clears + 1 := rfl

/-! ## non-vacuity -/

/-- a concrete history with repeated, unsorted indices, a transform chain, a
rejected add, a clear and a resize; the resulting store is what the theorems say -/
theorem nonvacuous :
    let s := run (ρ := Nat) 4
      [.add [] [(3, 10), (1, 11), (3, 12)], .add [.dropOcc] [(3, 13), (0, 14)],
       .add [] [(9, 1)], .resize 8, .add [.rev] [(5, 20), (5, 21)]]
    s.olist = [1, 3, 0, 5] ∧ s.cells 3 = some 12 ∧ s.cells 5 = some 20 ∧ s.cells 2 = none ∧
    s.cap = 8 ∧ s.adds = 4 := by
  decide

end Pyribs.C13
