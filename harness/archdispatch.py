"""Dispatch a case of the archive stack to its runner by `kind` (fixed-cell / sliding with remaps / proximity)."""
import archlib


def run_case(case, props):
    kind = case.get("kind")
    if kind == "hooks":
        return archlib.run_hooks(case, props)
    if kind == "sbr":
        from props import c15
        return archlib.guarded(c15.Run(case, props), props)
    if kind == "prox":
        from props import c14
        return archlib.guarded(c14.Run(case, props), props)
    return archlib.run_case(case, props)


def gen_sliding(rng):
    from props import c15
    return c15.gen_case(rng, micro=0.4)


def gen_prox(lc=None):
    from props import c14

    def g(rng):
        case = c14.gen_case(rng)
        if lc is not None and case["lc"] != lc:
            case["lc"] = lc
            if lc:
                case["noobj"] = False
        return case
    return g
