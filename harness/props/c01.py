"""C01 — elitist archives keep, per cell, the best candidate ever routed there."""
import archlib
from genf import translate  # noqa: E402,F401  (regenerates lean/PyribsGen/{Formulas,Control}.lean from the tree under check)

ID = "C01"
PROOF_MODULES = ["PyribsProofs.C01", "PyribsGen.Formulas", "PyribsGen.Control", "PyribsProofs.GenFArch"]
THEOREMS = [
    "Pyribs.GenFProofs.add_single_from_source",
    "Pyribs.GenFProofs.batch_caninsert_from_source",
    "Pyribs.GenFProofs.single_writes_from_source",
    "Pyribs.GenFProofs.transform_chains_from_source",
    "Pyribs.C01.contents_spec",
    "Pyribs.C01.contents_full",
    "Pyribs.C01.bestOf_spec",
    "Pyribs.C01.occupied_iff",
    "Pyribs.C01.row_integrity",
    "Pyribs.C01.objective_monotone",
    "Pyribs.C01.batching_invariance",
    "Pyribs.C01.cell_addBatch",
    "Pyribs.C01.cell_addSingle",
    "Pyribs.C01.nonvacuous",
    "Pyribs.Arch.batch_eq_bestFrom",
    "Pyribs.Arch.cellOf_addBatch",
    "Pyribs.Arch.argmaxFirst_first",
]
RULE = ("lock-step histories of add / add_single / clear / retrieve on GridArchive, CVTArchive (k-D tree, brute "
        "force, chunked; lattice centroids) and SlidingBoundariesArchive (between remaps), float32/float64, 8 "
        "extra-field layouts, strata: mixed, many candidates per cell, exact ties inside batches and across calls, "
        "float64 values colliding after the float32 entry cast, extreme magnitudes; a case is non-trivial when some "
        "cell receives two or more candidates between clears (a tie or a loss is decided); distinct by op list")
PARTIAL = []
ASSUMPTIONS = [
    "every field of a row other than objective and measures is derived injectively from the row's token",
    "objectives and measures are exactly representable (dyadic) in the archive dtype, or are rounded once on entry; "
    "the model is fed the entry-cast value",
    "routing is taken from the model's index map and cross-checked against index_of (measures at quarter points of "
    "cells, exact boundaries in float64, far out of range)",
]
PROPS = {"C01"}


def gen(profile, **kw):
    def g(rng):
        case = archlib.gen_case(rng, profile, **kw)
        case["profile"] = profile
        return case
    return g


def gen_sliding_rejected(rng):
    """sliding archives with an object field in every case, so that `archlib.sprinkle` puts rejected batches whose
    LATER rows are malformed into most histories (the rows before them must not stay behind)"""
    for _ in range(50):
        case = archlib.gen_case(rng, rng.choice(["mixed", "percell", "ties"]), kinds=("sb",))
        if "o" in case["layout"] or "t" in case["layout"]:
            break
    case["profile"] = "sliding-rejected"
    return case


def gen_scale(rng):
    """Large archives x large batches: the per-cell winner must not depend on any index arithmetic that runs out of
    range (cell index x batch size beyond 2^31, counts beyond a block size ...)."""
    side = rng.choice([1000, 1500, 2000])
    return {"kind": "scale", "side": side, "n": rng.choice([3000, 5000, 5000, 8000]), "dtype": rng.choice(["f32", "f64"]),
            "seed": rng.randrange(10**6), "high": rng.random() < 0.7, "ops": [{"op": "add"}, {"op": "add"}]}


def run_scale(case):
    """Oracle only (spec-shaped): per cell the highest objective wins, the earliest candidate on ties."""
    import numpy as np
    from core import Failure
    from ribs.archives import GridArchive
    side, n = case["side"], case["n"]
    r = np.random.default_rng(case["seed"])
    dt = np.float32 if case["dtype"] == "f32" else np.float64
    a = GridArchive(solution_dim=1, dims=[side, side], ranges=[(0, side), (0, side)], dtype=dt)
    best = {}       # cell -> (objective, token)
    tok = 0
    for _ in case["ops"]:
        ncell = max(1, n // 3)
        # cells with large flat indices (the upper rows of the grid), each hit about three times
        rows = r.integers(side * 4 // 5 if case["high"] else 0, side, size=ncell)
        cols = r.integers(0, side, size=ncell)
        pick = r.integers(0, ncell, size=n)
        obj = r.integers(-5, 6, size=n).astype(np.float64) * 1000.0      # many exact ties
        meas = np.stack([rows[pick] + 0.5, cols[pick] + 0.5], axis=1)
        sol = (np.arange(n, dtype=np.float64) + tok)[:, None]
        info = a.add(sol, obj, meas)
        for k in range(n):
            cell = int(rows[pick[k]]) * side + int(cols[pick[k]])
            cur = best.get(cell)
            if cur is None or obj[k] > cur[0]:
                best[cell] = (float(obj[k]), tok + k)
        tok += n
        d = a.data()
        got = {int(i): (float(o), int(s[0])) for i, o, s in zip(d["index"], d["objective"], d["solution"])}
        if len(d["index"]) != len(got):
            return Failure("oracle", f"[C01] {side}x{side} archive, batch of {n}: data() lists a cell twice")
        if set(got) != set(best):
            return Failure("oracle", f"[C01] {side}x{side} archive, batch of {n}: occupied cells differ from the cells that "
                           f"received a candidate ({len(got)} vs {len(best)})")
        for cell, want in best.items():
            if got[cell] != want:
                return Failure("oracle", f"[C01] {side}x{side} {case['dtype']} archive, one add of {n} candidates: cell {cell} "
                               f"holds candidate {got[cell][1]} (objective {got[cell][0]}) but the best routed there, earliest "
                               f"first on ties, is candidate {want[1]} (objective {want[0]})")
        if len(info["status"]) != n:
            return Failure("oracle", "[C01] add feedback has the wrong length")
    return None


def run_case(case):
    if case.get("kind") == "scale":
        return run_scale(case)
    return archlib.run_case(case, PROPS)


def run(ctx):
    budget = 9 if ctx.quick else 90
    for name, n in [("mixed", ctx.n(160, 12000)), ("percell", ctx.n(120, 8000)), ("ties", ctx.n(120, 8000)),
                    ("collide", ctx.n(100, 6000)), ("extreme", ctx.n(80, 5000))]:
        ctx.explore(name, gen(name), run_case, n, nontrivial=archlib.nontrivial_c01, time_budget=budget)
    ctx.explore("scale", gen_scale, run_case, ctx.n(4, 200), time_budget=6 if ctx.quick else 60)
    # SlidingBoundariesArchive inserts a batch row by row: histories with rejected batches (a defect of a later row)
    ctx.explore("sliding-rejected", gen_sliding_rejected, run_case, ctx.n(60, 3000), nontrivial=archlib.nontrivial_c01,
                time_budget=6 if ctx.quick else 60)


def replay(ctx, case):
    return run_case(case)
