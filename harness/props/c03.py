"""C03 — index_of maps measures to the documented cell for every archive type."""
import itertools
import math
from fractions import Fraction as F

import numpy as np

from core import Driver, Failure, nl, q, ql

ID = "C03"
from genf import translate  # noqa: E402,F401  (regenerates lean/PyribsGen/Formulas.lean from the tree under check)
PROOF_MODULES = ["PyribsProofs.C03", "PyribsGen.Formulas", "PyribsProofs.GenF"]
THEOREMS = [
    "Pyribs.GenFProofs.sliding_clip_from_source",
    "Pyribs.GenFProofs.sliding_coord_from_source",
    "Pyribs.GenFProofs.grid_quot_matches",
    "Pyribs.GenFProofs.grid_coord_from_source",
    "Pyribs.C03.grid_range",
    "Pyribs.C03.grid_monotone",
    "Pyribs.C03.grid_cell",
    "Pyribs.C03.grid_boundary",
    "Pyribs.C03.grid_eps_zone",
    "Pyribs.C03.grid_below",
    "Pyribs.C03.grid_above",
    "Pyribs.C03.ravel_unravel",
    "Pyribs.C03.unravel_ravel",
    "Pyribs.C03.ravel_lt",
    "Pyribs.C03.unravel_inRange",
    "Pyribs.C03.gridIdx_lt",
    "Pyribs.C03.argminFrom_spec",
    "Pyribs.C03.cvt_min",
    "Pyribs.C03.cvt_total",
    "Pyribs.C03.chunk_concat",
    "Pyribs.C03.countBelow_sorted",
    "Pyribs.C03.sb_cell",
    "Pyribs.C03.sb_monotone",
    "Pyribs.C03.single_eq_batch",
    "Pyribs.C03.nonvacuous",
]
RULE = ("the archive's *reported* geometry (bounds, epsilon, boundaries, centroids as exact rationals of the floats) "
        "and measure vectors are sent to the model, which answers with the admissible index set; the "
        "implementation's index must be in it. Strata: grid (1-5 dims, 1..1000 cells per dim, tiny / huge / offset "
        "ranges, float32/64; points interior, on reported boundaries, +-1..4 ulps around them, far outside up to "
        "the largest finite float), cvt (k-means / random / Sobol / Halton / custom / clustered / duplicated "
        "centroids; k-D tree, brute force and chunked search on the same points), sliding boundaries produced by "
        "real remaps, proximity, ravel/unravel (exhaustive on small grids). A case is non-trivial when it contains "
        "a point on or within 4 ulps of a boundary or outside the range (grid/sb) or two centroids within 1% of "
        "the minimum distance (cvt); distinct by point list")
PARTIAL = ["float rounding: the admissible set widens to both neighbours only when the exact pre-floor quotient is "
           "within the forward error bound 8u(d|m-lo|+eps)/(hi-lo) of an integer (u = unit round-off), or two "
           "squared distances agree to within 16u*dim relative; k-means / Sobol / Halton geometry is input data",
           "reading of the epsilon clause: the archive shifts a coordinate by epsilon/dims in measure units, so the "
           "admissible cells are those meeting [m - rounding, m + epsilon/dims + rounding]; for ranges narrower "
           "than epsilon this spans more than the adjacent cell (DESIGN section 3, not claimed as a violation)"]
ASSUMPTIONS = ["reported geometry (lower_bounds, upper_bounds, epsilon, boundaries, centroids) is what index_of uses"]
U = {"f32": F(1, 2**24), "f64": F(1, 2**53)}
NP = {"f32": np.float32, "f64": np.float64}
FMAX = {"f32": float(np.finfo(np.float32).max), "f64": float(np.finfo(np.float64).max)}


def fx(x):
    return F(float(x))


def nudge(x, k, dt):
    x = NP[dt](x)
    for _ in range(abs(k)):
        x = np.nextafter(x, NP[dt](np.inf if k > 0 else -np.inf), dtype=NP[dt])
    return float(x)


# ---------------------------------------------------------------------------- grid


def gen_grid(rng):
    nd = rng.choice([1, 1, 2, 3, 5])
    dims = [rng.choice([1, 2, 3, 7, 10, 100, 1000] if nd <= 2 else [1, 2, 3, 5, 10]) for _ in range(nd)]
    dt = rng.choice(["f64", "f64", "f32"])
    ranges = []
    for _ in range(nd):
        style = rng.choice(["unit", "dyadic", "generic", "offset", "tiny", "huge"])
        if style == "unit":
            lo, hi = 0.0, 1.0
        elif style == "dyadic":
            lo = float(rng.randint(-8, 8))
            hi = lo + float(2**rng.randint(-3, 6))
        elif style == "generic":
            lo = rng.uniform(-10, 10)
            hi = lo + rng.uniform(0.01, 50)
        elif style == "offset":
            lo = rng.choice([-1, 1]) * 10.0**rng.randint(3, 9) * rng.uniform(1, 9)
            hi = lo + rng.uniform(0.5, 1000)
        elif style == "tiny":
            lo = rng.uniform(-1, 1) * 1e-3
            hi = lo + rng.uniform(1, 9) * 10.0**rng.randint(-5, -2)
        else:
            lo = -rng.uniform(1, 9) * 10.0**rng.randint(6, 30)
            hi = rng.uniform(1, 9) * 10.0**rng.randint(6, 30)
        lo, hi = float(NP[dt](lo)), float(NP[dt](hi))
        if not lo < hi:
            lo, hi = 0.0, 1.0
        ranges.append([lo, hi])
    eps = rng.choice([None, None, 1e-6, 1e-9, 0.0, 1e-3])
    case = {"kind": "grid", "dims": dims, "dtype": dt, "ranges": ranges, "eps": eps}
    # points: chosen per coordinate from the reported boundaries
    pts = []
    for _ in range(rng.randint(8, 40)):
        pts.append([rng.random() for _ in range(nd)] + [rng.randrange(10**6)])
    case["ops"] = [{"style": rng.choice(["in", "in", "bnd", "ulp", "ulp", "out", "far", "max"]), "u": p[:-1],
                    "s": p[-1]} for p in pts]
    return case


def grid_points(case, archive):
    """Concrete measure vectors from the abstract point descriptions (needs the reported boundaries)."""
    import random
    dt = case["dtype"]
    pts = []
    for op in case["ops"]:
        r = random.Random(op["s"])
        vec = []
        for k, d in enumerate(case["dims"]):
            b = archive.boundaries[k]
            lo, hi = float(b[0]), float(b[-1])
            st = op["style"]
            if st == "in":
                x = lo + op["u"][k] * (hi - lo)
            elif st == "bnd":
                x = float(b[r.randrange(len(b))])
            elif st == "ulp":
                x = nudge(float(b[r.randrange(len(b))]), r.choice([-4, -2, -1, 1, 2, 4]), dt)
            elif st == "out":
                x = (lo - r.uniform(0, 3) * (hi - lo)) if r.random() < 0.5 else (hi + r.uniform(0, 3) * (hi - lo))
            elif st == "far":
                x = r.choice([-1, 1]) * 10.0**r.randint(8, 37 if dt == "f32" else 300)
            else:
                x = r.choice([-1, 1]) * FMAX[dt]
            x = float(NP[dt](x))
            if not math.isfinite(x):
                x = FMAX[dt] if x > 0 else -FMAX[dt]
            vec.append(x)
        pts.append(vec)
    return pts


def run_grid(case, drv):
    from ribs.archives import GridArchive
    dt = case["dtype"]
    kw = {} if case["eps"] is None else {"epsilon": case["eps"]}
    a = GridArchive(solution_dim=1, dims=case["dims"], ranges=[tuple(r) for r in case["ranges"]], dtype=NP[dt], **kw)
    pts = grid_points(case, a)
    arr = np.array(pts, dtype=NP[dt])
    with np.errstate(all="ignore"):
        idx = a.index_of(arr)
        single = [int(a.index_of_single(p)) for p in arr[:5]]
    if single != [int(i) for i in idx[:5]]:
        return Failure("oracle", f"[C03] index_of_single {single} != index_of {[int(i) for i in idx[:5]]}")
    cells = int(np.prod(case["dims"]))
    if np.any(idx < 0) or np.any(idx >= cells):
        return Failure("oracle", f"[C03] index_of returned an index outside [0, {cells}): {idx.tolist()}")
    coords = a.int_to_grid_index(idx)
    eps = fx(a.epsilon)
    u = U[dt]
    for p, g, i in zip(pts, coords, idx):
        m_ravel = int(drv.ask(f"ravel {nl(case['dims'])} {nl(g)}"))
        if m_ravel != int(i):
            return Failure("corr", f"[C03] grid_to_int_index/int_to_grid_index: impl {int(i)} <-> {g.tolist()}, "
                           f"model ravel = {m_ravel}")
        for k, d in enumerate(case["dims"]):
            lo, hi = fx(a.lower_bounds[k]), fx(a.upper_bounds[k])
            m = fx(p[k])
            b = [fx(x) for x in a.boundaries[k]]
            I = hi - lo
            err = 8 * u * (d * abs(m - lo) + eps) / I + F(1, 10**300)
            j = int(g[k])
            # ---- oracle: the cell(s) meeting [m - slack, m + eps/d + slack] by the reported boundaries
            slack = err * I / d + 4 * u * max(abs(b[0]), abs(b[-1]), abs(m))
            strict_above = dt == "f64" and eps / d > slack
            ok_low = j == 0 or b[j] <= m + eps / d + slack
            ok_high = j == d - 1 or (m < b[j + 1] if strict_above else m - slack < b[j + 1])
            if not (ok_low and ok_high):
                return Failure("oracle",
                               f"[C03] GridArchive dims={case['dims']} range=({float(lo)}, {float(hi)}) {dt}: coordinate "
                               f"{p[k]!r} of dimension {k} mapped to cell {j} = [{float(b[j])}, {float(b[j+1])}) "
                               f"(epsilon {float(eps)})")
            # ---- correspondence: admissible range of the model under the quotient error bound
            r = drv.ask(f"grid {d} {q(lo)} {q(hi)} {q(eps)} {q(err)} {q(m)}").split()
            jl, jh = int(r[1]), int(r[2])
            if not jl <= j <= jh:
                return Failure("corr", f"[C03] grid coordinate impl={j} model admissible=[{jl},{jh}] exact quotient "
                               f"{float(F(r[3]))} (d={d}, lo={float(lo)}, hi={float(hi)}, m={p[k]!r})")
    # monotone along each axis (oracle)
    for k in range(len(case["dims"])):
        order = np.argsort(arr[:, k], kind="stable")
        col = coords[order, k]
        if np.any(np.diff(col) < 0):
            return Failure("oracle", f"[C03] GridArchive index not monotone in coordinate {k}")
    return None


# ---------------------------------------------------------------------------- ravel / unravel


def gen_ravel(rng):
    nd = rng.randint(1, 5)
    dims = [rng.choice([1, 2, 3, 4, 7, 16, 100]) for _ in range(nd)]
    return {"kind": "ravel", "dims": dims, "ops": [rng.randrange(10**9) for _ in range(30)]}


def run_ravel(case, drv):
    from ribs.archives import GridArchive
    dims = case["dims"]
    a = GridArchive(solution_dim=1, dims=dims, ranges=[(0, 1)] * len(dims))
    cells = int(np.prod(dims))
    if cells <= 300:
        ints = list(range(cells))
    else:
        ints = sorted({s % cells for s in case["ops"]} | {0, cells - 1})
    g = a.int_to_grid_index(np.array(ints, dtype=np.int32))
    back = a.grid_to_int_index(g)
    if [int(x) for x in back] != ints:
        return Failure("oracle", f"[C03] grid_to_int_index(int_to_grid_index(i)) != i on dims {dims}")
    # both conversions take array-likes: the same through plain lists and int64 arrays
    g_l = a.int_to_grid_index([int(i) for i in ints])
    back_l = a.grid_to_int_index([[int(x) for x in row] for row in g]) if len(ints) else back
    back_64 = a.grid_to_int_index(np.asarray(g, dtype=np.int64))
    if not np.array_equal(g_l, g) or [int(x) for x in back_l] != ints or [int(x) for x in back_64] != ints:
        return Failure("oracle", f"[C03] int_to_grid_index / grid_to_int_index give other results for lists or int64 "
                       f"arrays than for int32 arrays on dims {dims}")
    if np.any(g < 0) or np.any(g >= np.array(dims)):
        return Failure("oracle", f"[C03] int_to_grid_index out of range on dims {dims}")
    if cells <= 300:
        allg = np.array(list(itertools.product(*[range(d) for d in dims])), dtype=np.int32).reshape(-1, len(dims))
        ii = a.grid_to_int_index(allg)
        if sorted(int(x) for x in ii) != list(range(cells)):
            return Failure("oracle", f"[C03] grid_to_int_index is not a bijection onto [0, cells) on dims {dims}")
        if not np.array_equal(a.int_to_grid_index(ii), allg):
            return Failure("oracle", f"[C03] int_to_grid_index(grid_to_int_index(g)) != g on dims {dims}")
    for i, row in zip(ints, g):
        m = drv.ask(f"unravel {nl(dims)} {i}")
        if m != nl(row):
            return Failure("corr", f"[C03] int_to_grid_index({i}) impl={row.tolist()} model={m}")
    return None


# ---------------------------------------------------------------------------- cvt


def gen_cvt(rng):
    dt = rng.choice(["f64", "f64", "f32"])
    nd = rng.choice([1, 2, 2, 3])
    n = rng.choice([1, 2, 5, 16, 40])
    method = rng.choice(["kmeans", "random", "scrambled_sobol", "halton", "custom", "clustered", "dup", "lattice"])
    scale = rng.choice([1.0, 1.0, 1e-3, 1e6])
    # a measure space far from the origin relative to its size: squared norms of the centroids dwarf their spacing
    # (any distance computation that does not subtract first loses the difference)
    off = rng.choice([0, 0, 0, 1, 2]) * (100.0 if dt == "f32" else 5e5) * scale
    if off:
        n = rng.choice([16, 40, 64])
    # range widths that differ between the dimensions (a search in range-normalised coordinates is not Euclidean)
    aspect = [1.0] * nd if rng.random() < 0.4 else [rng.choice([1.0, 1.0, 25.0, 100.0, 0.125]) for _ in range(nd)]
    return {"kind": "cvt", "dtype": dt, "nd": nd, "n": n, "method": method, "scale": scale, "off": off,
            "aspect": aspect, "seed": rng.randrange(10**6),
            "ops": [[rng.random() for _ in range(nd)] + [rng.choice(["in", "in", "cent", "mid", "out"])]
                    for _ in range(rng.randint(6, 25))]}


def cvt_archives(case):
    import random
    from ribs.archives import CVTArchive
    dt, nd, n = case["dtype"], case["nd"], case["n"]
    s = case["scale"]
    r = random.Random(case["seed"])
    off = case.get("off", 0.0)
    asp = case.get("aspect") or [1.0] * nd
    ranges = [(off * (k + 1) - s * asp[k], off * (k + 1) + s * asp[k]) for k in range(nd)]
    meth = case["method"]
    if meth in ("kmeans", "random", "scrambled_sobol", "halton"):
        first = CVTArchive(solution_dim=1, cells=n, ranges=ranges, centroid_method=meth, samples=max(200, 10 * n),
                           seed=case["seed"], dtype=NP[dt])
        cents = np.array(first.centroids)
    else:
        if meth == "custom":
            cents = np.array([[off * (k + 1) + r.uniform(-s, s) * asp[k] for k in range(nd)] for _ in range(n)])
        elif meth == "clustered":
            c0 = [off * (k + 1) + r.uniform(-s, s) * asp[k] for k in range(nd)]
            cents = np.array([[c + r.uniform(-1, 1) * s * 1e-7 for c in c0] for _ in range(n)])
        elif meth == "dup":
            base = [[off * (k + 1) + r.uniform(-s, s) * asp[k] for k in range(nd)] for _ in range(max(1, n // 2))]
            cents = np.array([base[r.randrange(len(base))] for _ in range(n)])
        else:
            cents = np.array([[off * (k + 1) + s * asp[k] * (r.randrange(-4, 5) / 4) for k in range(nd)] for _ in range(n)])
        cents = cents.astype(NP[dt])
    out = {}
    keep = cents.copy()
    for name, kw in [("kd_tree", {}), ("brute", {"use_kd_tree": False}),        # k-D tree: the documented default
                     ("chunked", {"use_kd_tree": False, "chunk_size": 3})]:
        out[name] = CVTArchive(solution_dim=1, cells=len(cents), ranges=ranges, custom_centroids=cents, dtype=NP[dt], **kw)
    # the caller re-uses its array afterwards (archives own their centroids: the oracle reads archive.centroids)
    cents *= -1
    cents[...] = cents[::-1].copy()
    return keep, out


def run_cvt(case, drv):
    import random
    dt = case["dtype"]
    cents, archs = cvt_archives(case)
    s = case["scale"]
    r = random.Random(case["seed"] + 1)
    rep = np.array(archs["brute"].centroids)
    asp = case.get("aspect") or [1.0] * case["nd"]
    drv.ask("cvtset " + ";".join(ql(fx(x) for x in c) for c in rep))
    pts = []
    for op in case["ops"]:
        st = op[-1]
        off = case.get("off", 0.0)
        if st == "in":
            p = [off * (k + 1) + (2 * t - 1) * s * asp[k] for k, t in enumerate(op[:-1])]
        elif st == "cent":
            p = [float(x) for x in rep[r.randrange(len(rep))]]
        elif st == "mid":
            a, b = rep[r.randrange(len(rep))], rep[r.randrange(len(rep))]
            p = [(float(x) + float(y)) / 2 for x, y in zip(a, b)]
        else:
            p = [off * (k + 1) + (2 * t - 1) * s * asp[k] * r.choice([3, 1e3, 1e9]) for k, t in enumerate(op[:-1])]
        pts.append([float(NP[dt](x)) for x in p])
    arr = np.array(pts, dtype=NP[dt])
    tol = 16 * U[dt] * (case["nd"] + 2)
    res = {name: [int(i) for i in a.index_of(arr)] for name, a in archs.items()}
    single = [int(archs["kd_tree"].index_of_single(p)) for p in arr[:3]]
    if single != res["kd_tree"][:3]:
        return Failure("oracle", "[C03] CVTArchive.index_of_single disagrees with index_of")
    for k, p in enumerate(pts):
        # oracle: exact squared distances to the reported centroids
        d2 = [sum((fx(c) - fx(x))**2 for c, x in zip(cen, p)) for cen in rep]
        dmin = min(d2)
        mline = drv.ask(f"cvt {ql(fx(x) for x in p)} {q(tol)} {q(F(1, 10**290))}").split()
        adm = set(int(x) for x in mline[1].split(",")) if mline[1] != "-" else set()
        for name in res:
            i = res[name][k]
            if not 0 <= i < len(rep):
                return Failure("oracle", f"[C03] CVTArchive({name}).index_of returned {i}, not a centroid index (n={len(rep)})")
            if d2[i] > dmin * (1 + tol) + F(1, 10**290):
                return Failure("oracle", f"[C03] CVTArchive({name}) {dt}: point {p} mapped to centroid {i} at squared "
                               f"distance {float(d2[i])!r} but centroid {d2.index(dmin)} is at {float(dmin)!r}")
            if i not in adm:
                return Failure("corr", f"[C03] CVT index impl({name})={i} model admissible={sorted(adm)}")
    return None


def gen_cvt_overflow(rng):
    """known finding D18: squared coordinate differences overflow the dtype"""
    dt = rng.choice(["f64", "f32"])
    big = 1e160 if dt == "f64" else 1e22
    return {"kind": "cvt_overflow", "dtype": dt, "big": big, "kd": rng.random() < 0.5, "ops": [rng.random() for _ in range(3)]}


def run_cvt_overflow(case, drv):
    from ribs.archives import CVTArchive
    dt, big = case["dtype"], case["big"]
    cents = np.array([[-big], [0.0], [big]], dtype=NP[dt])
    a = CVTArchive(solution_dim=1, cells=3, ranges=[(-big, big)], custom_centroids=cents, dtype=NP[dt],
                   use_kd_tree=case["kd"])
    pts = np.array([[big * (0.9 + 0.1 * t)] for t in case["ops"]], dtype=NP[dt])
    with np.errstate(all="ignore"):
        idx = [int(i) for i in a.index_of(pts)]
    if any(i != 2 for i in idx):
        return Failure("oracle", f"[C03] CVTArchive {'k-D tree' if case['kd'] else 'brute force'} {dt}: points near "
                       f"{big:g} mapped to {idx} instead of the nearest centroid 2 (squared distance overflows)",
                       key="D18-cvt-distance-overflow")
    return None


def gen_extreme(rng):
    """known findings D18 (ProximityArchive) and D31: magnitudes within a few orders of the largest finite float"""
    gen_extreme.n = getattr(gen_extreme, "n", -1) + 1       # every kind on every run
    which = ["prox-far", "grid-range", "grid-width"][gen_extreme.n % 3]
    return {"kind": "extreme", "which": which, "dtype": "f64" if which == "prox-far" else rng.choice(["f64", "f32"]),
            "ops": [rng.random() for _ in range(3)]}


def run_extreme(case, drv):
    from ribs.archives import GridArchive, ProximityArchive
    dt, which = case["dtype"], case["which"]
    top = 1e307 if dt == "f64" else 1e37
    with np.errstate(all="ignore"):
        if which == "prox-far":
            a = ProximityArchive(solution_dim=1, measure_dim=2, k_neighbors=1, novelty_threshold=0.5, dtype=NP[dt])
            a.add([[0.0], [1.0], [2.0], [3.0]], None, [[0.0, 0.0], [1.0, 1.0], [5.0, 5.0], [-3.0, 2.0]])
            pts = np.array([[1e160 * (1 + t), 1e160] for t in case["ops"]], dtype=NP[dt])
            idx = [int(i) for i in a.index_of(pts)]
            if any(not 0 <= i < len(a) for i in idx):
                return Failure("oracle", f"[C03] ProximityArchive.index_of of finite measures of magnitude 1e160 returned "
                               f"{idx}: not an index of a stored entry (n={len(a)}; the k-D tree's squared distance "
                               f"overflows)", key="D18-proximity-distance-overflow")
            if any(i != 2 for i in idx):
                return Failure("oracle", f"[C03] ProximityArchive.index_of: far points mapped to {idx}, nearest entry is 2")
            return None
        if which == "grid-range":
            a = GridArchive(solution_dim=1, dims=[100], ranges=[(0.0, top)], dtype=NP[dt])
            fracs = [0.5, 0.2] + [0.1 + 0.8 * t for t in case["ops"]]
            pts = np.array([[top * f] for f in fracs], dtype=NP[dt])
            idx = [int(i) for i in a.index_of(pts)]
            want = [int(100 * f) for f in fracs]
            if any(abs(i - w) > 1 for i, w in zip(idx, want)):
                return Failure("oracle", f"[C03] GridArchive(dims=[100], ranges=[(0, {top:g})], {dt}).index_of maps interior "
                               f"points at fractions {[round(f, 3) for f in fracs]} of the range to cells {idx}, documented "
                               f"cells {want} (dims * (measures - lower) overflows)",
                               key="D31-grid-range-near-float-max")
            return None
        a = GridArchive(solution_dim=1, dims=[100], ranges=[(-top * 10, top * 10)], dtype=NP[dt])
        try:
            idx = [int(i) for i in a.index_of(np.array([[0.0], [top]], dtype=NP[dt]))]
        except ValueError as e:
            return Failure("oracle", f"[C03] GridArchive(dims=[100], ranges=[({-top * 10:g}, {top * 10:g})], {dt}).index_of "
                           f"raised {str(e)[:80]} on finite measures (upper - lower is not finite in the archive dtype)",
                           key="D31-grid-range-near-float-max")
        if any(abs(i - w) > 1 for i, w in zip(idx, [50, 55])):
            return Failure("oracle", f"[C03] GridArchive with a range of width {20 * top:g}: cells {idx}, documented [50, 55]",
                           key="D31-grid-range-near-float-max")
        return None


# ---------------------------------------------------------------------------- sliding boundaries


def gen_sb(rng):
    nd = rng.choice([1, 2, 2, 3])
    dims = [rng.choice([1, 2, 3, 5, 8]) for _ in range(nd)]
    dt = rng.choice(["f64", "f32"])
    # a measure space far from the origin (float64): the epsilon added before the search is absolute, whatever |m|
    off = rng.choice([0, 0, 1000, -50000]) if dt == "f64" else 0
    return {"kind": "sb", "dims": dims, "dtype": dt, "freq": rng.choice([2, 3, 5, 8]),
            "cap": rng.choice([1, 3, 8, 30]) if False else rng.choice([3, 8, 30]), "nadd": rng.randint(0, 30),
            "seed": rng.randrange(10**6), "dup": rng.random() < 0.4, "off": off,
            # `peek`: the reported boundaries are read right after construction and again between insertions -- what
            # is reported later must still be what index_of uses (a derived view that is computed once goes stale)
            "peek": rng.random() < 0.5,
            # continue on a pickled / deep-copied archive after this many insertions (None: never)
            "ckpt": [rng.randint(0, 12), rng.choice(["pickle", "deepcopy", "copy-chain"])] if rng.random() < 0.4 else None,
            "ops": [[rng.random() for _ in range(nd)] + [rng.choice(["in", "bnd", "ulp", "out", "eps", "eps"])]
                    for _ in range(rng.randint(6, 25))]}


def run_sb(case, drv):
    import random
    from ribs.archives import SlidingBoundariesArchive
    dt = case["dtype"]
    nd = len(case["dims"])
    r = random.Random(case["seed"])
    off = case.get("off", 0)
    a = SlidingBoundariesArchive(solution_dim=1, dims=case["dims"], ranges=[(off - 1, off + 1)] * nd, dtype=NP[dt],
                                 remap_frequency=case["freq"], buffer_capacity=case["cap"])
    peeks = 0
    if case.get("peek"):
        peeks += sum(len(b) for b in a.boundaries)
    pool = [off + r.uniform(-3, 3) for _ in range(4)]
    for t in range(case["nadd"]):
        m = [r.choice(pool) if case["dup"] else off + r.uniform(-3, 3) for _ in range(nd)]
        if case.get("ckpt") and t == case["ckpt"][0]:
            import archlib
            a = archlib.checkpoint(a, case["ckpt"][1])
        a.add_single([float(t)], r.uniform(-1, 1), m)
        if case.get("peek") and t % 3 == 0:
            peeks += sum(len(b) for b in a.boundaries) + len(a.lower_bounds) + len(a.upper_bounds)
    del peeks
    eps = fx(a.epsilon)
    u = U[dt]
    pts = []
    for op in case["ops"]:
        vec = []
        for k in range(nd):
            b = a.boundaries[k]
            st = op[-1]
            if st == "in":
                x = float(b[0]) + op[k] * (float(b[case["dims"][k]]) - float(b[0]))
            elif st == "bnd":
                x = float(b[r.randrange(case["dims"][k] + 1)])
            elif st == "ulp":
                x = nudge(float(b[r.randrange(case["dims"][k] + 1)]), r.choice([-2, -1, 1, 2]), dt)
            elif st == "eps":
                # a few epsilon below / above a boundary (below by more than epsilon is the cell below, at any |m|)
                x = float(b[r.randrange(case["dims"][k] + 1)]) + float(a.epsilon) * r.choice([-400, -30, -3, -1.5, -0.5, 0.5, 3])
            else:
                x = r.choice([-1, 1]) * 10.0**r.randint(1, 30)
            vec.append(float(NP[dt](x)))
        pts.append(vec)
    arr = np.array(pts, dtype=NP[dt])
    idx = a.index_of(arr)
    cells = int(np.prod(case["dims"]))
    for k, d in enumerate(case["dims"]):
        # the reported bounds are the first / last boundary in use (what index_of clips to is what it searches in)
        if float(a.lower_bounds[k]) != float(a.boundaries[k][0]) or float(a.upper_bounds[k]) != float(a.boundaries[k][d]):
            return Failure("oracle", f"[C03] SlidingBoundariesArchive {dt}: the bounds of dimension {k} "
                           f"[{float(a.lower_bounds[k])!r}, {float(a.upper_bounds[k])!r}] are not the first / last boundary "
                           f"[{float(a.boundaries[k][0])!r}, {float(a.boundaries[k][d])!r}] after {case['nadd']} insertions"
                           + (f" (continued on a {case['ckpt'][1]} copy after insertion {case['ckpt'][0]})" if case.get("ckpt") else ""))
    if np.any(idx < 0) or np.any(idx >= cells):
        return Failure("oracle", f"[C03] SlidingBoundariesArchive.index_of outside [0, {cells})")
    if [int(a.index_of_single(p)) for p in arr[:3]] != [int(i) for i in idx[:3]]:
        return Failure("oracle", "[C03] SlidingBoundariesArchive.index_of_single disagrees with index_of")
    coords = a.int_to_grid_index(idx)
    for p, g in zip(pts, coords):
        for k, d in enumerate(case["dims"]):
            b = [fx(x) for x in a.boundaries[k][:d + 1]]
            if any(b[t] > b[t + 1] for t in range(d)):
                return Failure("oracle", f"[C03] boundaries of dimension {k} are not sorted: {[float(x) for x in b]}")
            lo, hi = fx(a.lower_bounds[k]), fx(a.upper_bounds[k])
            m = fx(p[k])
            err = 4 * u * (abs(m) + eps + abs(hi)) + F(1, 10**300)
            j = int(g[k])
            x = min(max(m + eps, lo), hi - eps)
            cnt_lo = sum(1 for t in b[:d] if t < x - err)
            cnt_hi = sum(1 for t in b[:d] if t < x + err)
            if not max(0, cnt_lo - 1) <= j <= max(0, cnt_hi - 1):
                return Failure("oracle", f"[C03] SlidingBoundariesArchive {dt}: coordinate {p[k]!r} of dimension {k} mapped "
                               f"to cell {j}, boundaries {[float(t) for t in b]} delimit cell "
                               f"{max(0, cnt_lo - 1)}..{max(0, cnt_hi - 1)}")
            rr = drv.ask(f"sb {ql(b[:d])} {q(lo)} {q(hi)} {q(eps)} {q(err)} {q(m)}").split()
            if not int(rr[1]) <= j <= int(rr[2]):
                return Failure("corr", f"[C03] sliding coordinate impl={j} model admissible=[{rr[1]},{rr[2]}]")
    return None


# ---------------------------------------------------------------------------- proximity


def gen_prox(rng):
    nd = rng.choice([1, 2, 3])
    lc = rng.random() < 0.6
    steps = []
    for _ in range(rng.randint(1, 6)):
        n = rng.choice([1, 1, 2, 3, 6])
        steps.append({"rows": [[[rng.choice([-1, 0, 0.5, 1]) if rng.random() < 0.3 else round(rng.uniform(-2, 2), 3)
                                 for _ in range(nd)], rng.randint(-5, 5)] for _ in range(n)],
                      "qs": [[rng.uniform(-2, 2) for _ in range(nd)] for _ in range(rng.randint(2, 8))]})
    return {"kind": "prox", "nd": nd, "dtype": rng.choice(["f64", "f32"]), "lc": lc,
            "nu": rng.choice([0.0, 0.5, 1.0, 2.0]), "k": rng.choice([1, 2, 3]), "ops": steps}


def run_prox(case, drv):
    """histories of adds (with local competition: replacements move stored measures) with index_of queries after
    every add: the result must be a *currently* stored entry at minimum distance"""
    from ribs.archives import ProximityArchive
    dt = case["dtype"]
    a = ProximityArchive(solution_dim=1, measure_dim=case["nd"], k_neighbors=case["k"], novelty_threshold=case["nu"],
                         local_competition=case["lc"], dtype=NP[dt], initial_capacity=2)
    tol = 16 * U[dt] * (case["nd"] + 2)
    t = 0
    for step in case["ops"]:
        ms = np.array([r[0] for r in step["rows"]], dtype=NP[dt]).reshape(len(step["rows"]), case["nd"])
        objs = np.array([float(r[1]) for r in step["rows"]])
        a.add(np.arange(t, t + len(ms), dtype=NP[dt]).reshape(-1, 1), objs, ms)
        t += len(ms)
        d = a.data()
        stored = {int(i): [fx(x) for x in m] for i, m in zip(d["index"], d["measures"])}
        if not stored:
            continue
        keys = sorted(stored)
        # queries: the given points plus every stored entry's own measures
        arr = np.array(step["qs"] + [[float(x) for x in stored[k]] for k in keys], dtype=NP[dt])
        idx = [int(i) for i in a.index_of(arr)]
        if [int(a.index_of_single(p)) for p in arr[:2]] != idx[:2]:
            return Failure("oracle", "[C03] ProximityArchive.index_of_single disagrees with index_of")
        drv.ask("cvtset " + ";".join(ql(stored[i]) for i in keys))
        for p, i in zip(arr, idx):
            if i not in stored:
                return Failure("oracle", f"[C03] ProximityArchive.index_of returned {i}, not a stored entry")
            d2 = {k: sum((c - fx(x))**2 for c, x in zip(stored[k], p)) for k in stored}
            dmin = min(d2.values())
            if d2[i] > dmin * (1 + tol) + F(1, 10**290):
                return Failure("oracle", f"[C03] ProximityArchive (local_competition={case['lc']}): {p.tolist()} mapped to "
                               f"entry {i} at squared distance {float(d2[i])!r}, but a stored entry is at {float(dmin)!r}")
            mline = drv.ask(f"cvt {ql(fx(x) for x in p)} {q(tol)} {q(F(1, 10**290))}").split()
            adm = {keys[int(x)] for x in mline[1].split(",")}
            if i not in adm:
                return Failure("corr", f"[C03] proximity index impl={i} model admissible={sorted(adm)}")
    return None


def gen_prox_growth(rng):
    return {"kind": "prox_growth", "nd": rng.choice([1, 2, 3]), "dtype": rng.choice(["f64", "f32"]),
            "top": rng.choice([70, 140, 270]), "batch": rng.choice([1, 1, 2, 3]), "seed": rng.randrange(10**6), "ops": [0]}


def run_prox_growth(case, drv):
    """the archive grows one (or a few) entries at a time through every size up to `top` -- past every power of two
    -- and is queried at each size: a stored entry at minimum distance (dyadic coordinates: float arithmetic exact)"""
    import random
    from ribs.archives import ProximityArchive
    del drv
    dt, nd = case["dtype"], case["nd"]
    r = random.Random(case["seed"])
    a = ProximityArchive(solution_dim=1, measure_dim=nd, k_neighbors=1, novelty_threshold=0.0, dtype=NP[dt])
    side = 64 if nd > 1 else 512        # (side**nd points to choose `top` <= 270 distinct ones from)
    cells = r.sample(range(side**nd), case["top"])
    pts = [[(c // side**k % side) / 4.0 - 8 for k in range(nd)] for c in cells]
    stored = []
    while len(stored) < len(pts):
        chunk = pts[len(stored):len(stored) + case["batch"]]
        a.add(np.zeros((len(chunk), 1)), np.zeros(len(chunk)), np.array(chunk, dtype=NP[dt]))
        stored += chunk
        if len(a) != len(stored):
            return Failure("oracle", f"[C03] ProximityArchive with novelty_threshold 0: {len(a)} entries after {len(stored)} adds")
        qs = [[r.randrange(-40, 40) / 4.0 for _ in range(nd)] for _ in range(4)] + [stored[-1], stored[0]]
        idx = [int(i) for i in a.index_of(np.array(qs, dtype=NP[dt]))]
        S = np.array(stored)
        for p, i in zip(qs, idx):
            d2 = ((S - np.array(p))**2).sum(axis=1)
            if not 0 <= i < len(stored) or d2[i] != d2.min():
                return Failure("oracle", f"[C03] ProximityArchive with {len(stored)} entries: {p} mapped to entry {i} "
                               f"(squared distance {float(d2[i]) if 0 <= i < len(stored) else None}), a stored entry is at "
                               f"{float(d2.min())}")
    return None


RUNNERS = {"prox_growth": run_prox_growth, "grid": run_grid, "ravel": run_ravel, "cvt": run_cvt, "cvt_overflow": run_cvt_overflow, "extreme": run_extreme, "sb": run_sb,
           "prox": run_prox}


def archlib_gen_hooks(rng):
    import archlib
    return archlib.gen_hooks(rng)


def run_case(case):
    import traceback
    from core import Infra
    if case.get("kind") == "hooks":
        import archlib
        return archlib.run_hooks(case, {"C03"})
    drv = Driver("idx")
    try:
        return RUNNERS[case["kind"]](case, drv)
    except Infra:
        raise
    except (ValueError, RuntimeError, IndexError, FloatingPointError, OverflowError) as e:
        # every input of this check is a valid archive with finite measures: an exception from the library is
        # itself a violation ("all finite measure vectors ... up to the largest finite float")
        tb = traceback.extract_tb(e.__traceback__)
        if any("/ribs/" in fr.filename for fr in tb):
            where = next(f"{fr.filename.split('/ribs/')[-1]}:{fr.lineno}" for fr in reversed(tb) if "/ribs/" in fr.filename)
            return Failure("oracle", f"[C03] {case['kind']}: a valid index query with finite measures raised "
                           f"{type(e).__name__}: {str(e)[:160]} (at ribs/{where})")
        raise
    finally:
        drv.close()


def nontrivial(case):
    if case["kind"] in ("grid", "sb"):
        return any((op["style"] if isinstance(op, dict) else op[-1]) in ("bnd", "ulp", "out", "far", "max")
                   for op in case["ops"])
    if case["kind"] == "cvt":
        return case["method"] in ("clustered", "dup", "lattice") or any(op[-1] in ("mid", "cent") for op in case["ops"])
    return True


def run(ctx):
    b = 7 if ctx.quick else 80
    ctx.explore("grid", gen_grid, run_case, ctx.n(250, 20000), nontrivial=nontrivial, time_budget=2 * b)
    ctx.explore("ravel", gen_ravel, run_case, ctx.n(60, 3000), nontrivial=nontrivial, time_budget=b)
    ctx.explore("cvt", gen_cvt, run_case, ctx.n(80, 6000), nontrivial=nontrivial, time_budget=b)
    ctx.explore("sb", gen_sb, run_case, ctx.n(100, 8000), nontrivial=nontrivial, time_budget=b)
    ctx.explore("prox", gen_prox, run_case, ctx.n(80, 6000), nontrivial=nontrivial, time_budget=b)
    # a user subclass overriding the documented routing hook `index_of`: index_of_single / retrieve go through it
    ctx.explore("hooks", archlib_gen_hooks, run_case, ctx.n(60, 3000), time_budget=b)
    ctx.explore("prox-growth", gen_prox_growth, run_case, ctx.n(4, 200), nontrivial=nontrivial, time_budget=b)
    ctx.explore("cvt-overflow", gen_cvt_overflow, run_case, ctx.n(4, 40), nontrivial=nontrivial, time_budget=b)
    ctx.explore("extreme-magnitudes", gen_extreme, run_case, ctx.n(9, 60), nontrivial=nontrivial, time_budget=b)
    ctx.extra["points_checked"] = ctx.dist.copy()


def replay(ctx, case):
    return run_case(case)
