import PyribsProofs.Lemmas.Proximity
import PyribsProofs.C06
namespace Pyribs.C14
open Pyribs Pyribs.Prox Pyribs.Arch Pyribs.Store

structure ProxInv (p : Prox) : Prop where
  cfg_eq  : p.arch.cfg = ⟨1, none, p.cfg.offset⟩
  thr     : C01.ThrObj p.arch
  wf      : C13.WF p.arch.store
  dense   : ∀ i, (p.arch.cellOf i).isSome = true ↔ i < p.len
  len_le  : p.len ≤ p.capacity
  cap_pos : 0 < p.capacity

theorem ProxInv.elitist {p : Prox} (h : ProxInv p) : C01.Elitist p.arch.cfg := by
  rw [h.cfg_eq]; exact ⟨rfl, rfl⟩

/-- the archive with its store grown for `n` new entries (the `resize` of `ProximityArchive.add`) -/
def grown (p : Prox) (n : Nat) : Arch :=
  { p.arch with store := { p.arch.store with cap := growCap p.capacity (p.len + n) (p.len + n) } }

def nNovel (flags : List Bool) : Nat := (flags.filter id).length

theorem add_ok (p : Prox) (hs : List Hinted) (p' : Prox) (fb : Feedback)
    (h : p.add hs = .ok (p', fb)) :
    ∃ rows, p.assign hs p.len = .ok (rows, fb.novel) ∧
      p' = { p with arch := ((grown p (nNovel fb.novel)).addBatch rows).1 } := by
  unfold Prox.add at h
  simp only [bind, Except.bind] at h
  cases hr : p.assign hs p.len with
  | error e => rw [hr] at h; simp at h
  | ok rf =>
    obtain ⟨rows, flags⟩ := rf
    rw [hr] at h
    simp only [pure, Except.pure, Except.ok.injEq, Prod.mk.injEq] at h
    obtain ⟨h1, h2⟩ := h
    subst h2
    exact ⟨rows, rfl, h1.symm⟩

theorem add_cfg (p : Prox) (hs : List Hinted) (p' : Prox) (fb : Feedback)
    (h : p.add hs = .ok (p', fb)) : p'.cfg = p.cfg := by
  obtain ⟨rows, _, rfl⟩ := add_ok p hs p' fb h
  rfl

theorem commit_store (a : Arch) (ws : List (Nat × Elite)) : (a.commit ws).store = a.store.rawAdd ws := by
  unfold commit; split <;> rfl

theorem cell_of_abs (a : Arch) (ht : C01.ThrObj a) (i : Nat) :
    a.cellOf i = (C01.absCell (a.cellOf i)).map (fun c => c.withThr c.obj) := by
  cases hc : a.cellOf i with
  | none => rfl
  | some e =>
    have := ht i e hc
    simp only [C01.absCell, Option.map_some, Option.some.injEq]
    cases e; simp_all [Elite.toCand, Cand.withThr]

theorem elite_eq_of_thr (w : Elite) (h : w.thr = w.obj) : w = w.toCand.withThr w.toCand.obj := by
  cases w; simp_all [Elite.toCand, Cand.withThr]

theorem bestFrom_none_toList (o : Option Cand) : bestFrom none o.toList = o := by
  cases o <;> simp [bestFrom, better]

theorem count_lt (f : Nat → Bool) (N c : Nat) (hf : ∀ i, f i = true ↔ i < N) :
    ((List.range c).filter f).length = min c N := by
  induction c with
  | zero => simp
  | succ c ih =>
    rw [List.range_succ, List.filter_append, List.length_append, ih]
    by_cases h : c < N
    · have : f c = true := (hf c).mpr h
      simp [this]; omega
    · have : f c = false := by
        cases hfc : f c with
        | false => rfl
        | true => exact absurd ((hf c).mp hfc) h
      simp [this]; omega

/-- the facts `add` establishes about the rows it hands to `Arch.addBatch` -/
theorem assign_tb (p : Prox) (hinv : ProxInv p) (hs : List Hinted) (rows : List (Nat × Cand))
    (flags : List Bool) (h : p.assign hs p.len = .ok (rows, flags)) :
    flags.length = hs.length ∧ rows = mkRows p.cfg.lc hs flags p.len ∧ TB p.cfg.lc hs flags p.len := by
  obtain ⟨h1, h2, h3⟩ := assign_spec p hs p.len rows flags h
  refine ⟨h1, h2, ?_⟩
  intro hlc x hx hf j hj
  obtain ⟨j', hj', hmem⟩ := (h3 x hx).2 hf hlc
  rw [hj] at hj'
  cases hj'
  obtain ⟨e, _, he, _⟩ := (nearestSet_spec p _ j).mp hmem
  exact (hinv.dense j).mp (by simp [he])

/-- every cell after `add`, in the abstraction "token, objective, measures" -/
theorem cells_after (p : Prox) (hinv : ProxInv p) (hs : List Hinted) (rows : List (Nat × Cand))
    (flags : List Bool) (h : p.assign hs p.len = .ok (rows, flags)) (i : Nat) :
    C01.absCell (((grown p (nNovel flags)).addBatch rows).1.cellOf i) =
      if i < p.len then bestFrom (C01.absCell (p.arch.cellOf i)) (competitors p.cfg.lc hs flags i)
      else (novels hs flags)[i - p.len]? := by
  obtain ⟨hlen, hrows, htb⟩ := assign_tb p hinv hs rows flags h
  have he : C01.Elitist (grown p (nNovel flags)).cfg := hinv.elitist
  have ht : C01.ThrObj (grown p (nNovel flags)) := hinv.thr
  have hcap : p.len + nNovel flags ≤ (grown p (nNovel flags)).store.cap :=
    growCap_ge _ _ _ hinv.cap_pos (le_refl _)
  have hcell : ∀ j, (grown p (nNovel flags)).cellOf j = p.arch.cellOf j := fun _ => rfl
  have hnone : ∀ j, ¬ j < p.len → p.arch.cellOf j = none := by
    intro j hj
    cases hc : p.arch.cellOf j with
    | none => rfl
    | some e => exact absurd ((hinv.dense j).mp (by simp [hc])) hj
  by_cases hi : i < (grown p (nNovel flags)).store.cap
  · rw [C01.cell_addBatch _ he ht rows i hi, hcell, hrows]
    by_cases hil : i < p.len
    · rw [if_pos hil, rowsTo_mkRows_lt _ _ _ _ _ hil]
    · rw [if_neg hil, rowsTo_mkRows_ge _ _ _ p.len p.len i htb (le_refl _) (by omega), if_neg hil,
        hnone i hil]
      exact bestFrom_none_toList _
  · rw [cellOf_addBatch, if_neg hi, hcell]
    have hil : ¬ i < p.len := by omega
    rw [if_neg hil, hnone i hil]
    have : (novels hs flags).length ≤ i - p.len := by
      have hn : nNovel flags = (flags.filter id).length := rfl
      rw [novels_length hs flags hlen]; omega
    simp [C01.absCell, List.getElem?_eq_none this]

theorem wf_grown (p : Prox) (hinv : ProxInv p) (n : Nat) : C13.WF (grown p n).store :=
  ⟨hinv.wf.nodup, hinv.wf.mem, fun i hi => lt_of_lt_of_le (hinv.wf.bound i hi) (growCap_ge_cap _ _ _)⟩

/-- occupancy and size after `add` -/
theorem dense_after (p : Prox) (hinv : ProxInv p) (hs : List Hinted) (rows : List (Nat × Cand))
    (flags : List Bool) (h : p.assign hs p.len = .ok (rows, flags)) :
    (∀ i, (((grown p (nNovel flags)).addBatch rows).1.cellOf i).isSome = true ↔ i < p.len + nNovel flags) ∧
    ((grown p (nNovel flags)).addBatch rows).1.store.len = p.len + nNovel flags := by
  obtain ⟨hlen, hrows, htb⟩ := assign_tb p hinv hs rows flags h
  have hcap : p.len + nNovel flags ≤ (grown p (nNovel flags)).store.cap :=
    growCap_ge _ _ _ hinv.cap_pos (le_refl _)
  have hd : ∀ i, (((grown p (nNovel flags)).addBatch rows).1.cellOf i).isSome = true ↔
      i < p.len + nNovel flags := by
    intro i
    have := cells_after p hinv hs rows flags h i
    have hiso : (((grown p (nNovel flags)).addBatch rows).1.cellOf i).isSome =
        (C01.absCell (((grown p (nNovel flags)).addBatch rows).1.cellOf i)).isSome := by
      simp [C01.absCell]
    rw [hiso, this]
    by_cases hil : i < p.len
    · rw [if_pos hil, bestFrom_isSome]
      have : (p.arch.cellOf i).isSome = true := (hinv.dense i).mpr hil
      simp [C01.absCell, this]; omega
    · rw [if_neg hil]
      have hnl := novels_length hs flags hlen
      unfold nNovel
      constructor
      · intro h1
        obtain ⟨c, hc⟩ := Option.isSome_iff_exists.mp h1
        have := (List.getElem?_eq_some_iff.mp hc).1
        omega
      · intro h1
        have : i - p.len < (novels hs flags).length := by omega
        simp [List.getElem?_eq_getElem this]
  refine ⟨hd, ?_⟩
  have hwf : C13.WF ((grown p (nNovel flags)).addBatch rows).1.store := by
    unfold addBatch
    simp only
    rw [commit_store]
    exact C13.wf_rawAdd _ _ (wf_grown p hinv _)
  rw [C13.len_eq_count _ hwf,
    count_lt (fun i => ((grown p (nNovel flags)).addBatch rows).1.store.occupied i)
      (p.len + nNovel flags) _ hd, addBatch_cap]
  omega

/-- **T14.0 `inv_add`** : the invariant is preserved by every accepted `add` -/
theorem inv_add (p : Prox) (hinv : ProxInv p) (hs : List Hinted) (p' : Prox) (fb : Feedback)
    (h : p.add hs = .ok (p', fb)) : ProxInv p' := by
  obtain ⟨rows, hr, rfl⟩ := add_ok p hs p' fb h
  obtain ⟨hd, hl⟩ := dense_after p hinv hs rows fb.novel hr
  have hcap : p.len + nNovel fb.novel ≤ (grown p (nNovel fb.novel)).store.cap :=
    growCap_ge _ _ _ hinv.cap_pos (le_refl _)
  refine ⟨?_, ?_, ?_, ?_, ?_, ?_⟩
  · show ((grown p (nNovel fb.novel)).addBatch rows).1.cfg = _
    rw [addBatch_cfg]; exact hinv.cfg_eq
  · exact C01.thrObj_addBatch (grown p (nNovel fb.novel)) hinv.elitist hinv.thr rows
  · show C13.WF ((grown p (nNovel fb.novel)).addBatch rows).1.store
    unfold addBatch
    simp only
    rw [commit_store]
    exact C13.wf_rawAdd _ _ (wf_grown p hinv _)
  · intro i
    show (((grown p (nNovel fb.novel)).addBatch rows).1.cellOf i).isSome = true ↔
      i < ((grown p (nNovel fb.novel)).addBatch rows).1.store.len
    rw [hl]; exact hd i
  · show ((grown p (nNovel fb.novel)).addBatch rows).1.store.len ≤
      ((grown p (nNovel fb.novel)).addBatch rows).1.store.cap
    rw [hl, addBatch_cap]; exact hcap
  · show 0 < ((grown p (nNovel fb.novel)).addBatch rows).1.store.cap
    rw [addBatch_cap]
    exact lt_of_lt_of_le hinv.cap_pos (growCap_ge_cap _ _ _)

theorem inv_new (cfg : PCfg) (cap : Nat) (hc : 0 < cap) : ProxInv (Prox.new cfg cap) :=
  ⟨rfl, by intro i e h; simp [Prox.new, Arch.new, cellOf, Store.empty] at h, C13.wf_empty cap,
   by intro i; simp [Prox.new, Arch.new, cellOf, Store.empty, Prox.len, Store.len],
   by simp [Prox.new, Arch.new, Store.empty, Prox.len, Store.len], hc⟩

theorem inv_clear (p : Prox) (hinv : ProxInv p) : ProxInv p.clear :=
  ⟨hinv.cfg_eq, by intro i e h; simp [Prox.clear, Arch.clear, cellOf, Store.clear] at h,
   C13.wf_clear _,
   by intro i; simp [Prox.clear, Arch.clear, cellOf, Store.clear, Prox.len, Store.len],
   by simp [Prox.clear, Arch.clear, Store.clear, Prox.len, Store.len], hinv.cap_pos⟩


/-! ## histories -/

inductive Op
  | add (hs : List Hinted)
  | clear

/-- a rejected call (the implementation's hints contradict the model) leaves the state unchanged -/
def addOrSkip (p : Prox) (hs : List Hinted) : Prox :=
  match p.add hs with
  | .ok (p', _) => p'
  | .error _ => p

def step (p : Prox) : Op → Prox
  | .add hs => addOrSkip p hs
  | .clear => p.clear

def run (cfg : PCfg) (cap : Nat) (ops : List Op) : Prox := ops.foldl step (Prox.new cfg cap)

theorem inv_step (p : Prox) (hinv : ProxInv p) (op : Op) : ProxInv (step p op) := by
  cases op with
  | add hs =>
    simp only [step, addOrSkip]
    cases h : p.add hs with
    | error e => exact hinv
    | ok r => obtain ⟨p', fb⟩ := r; exact inv_add p hinv hs p' fb h
  | clear => exact inv_clear p hinv

theorem inv_foldl (p : Prox) (hinv : ProxInv p) (ops : List Op) : ProxInv (ops.foldl step p) := by
  induction ops generalizing p with
  | nil => exact hinv
  | cons op ops ih => exact ih _ (inv_step p hinv op)

/-- **T14.0 `inv_history`** : every reachable state satisfies the invariant -/
theorem inv_history (cfg : PCfg) (cap : Nat) (hc : 0 < cap) (ops : List Op) :
    ProxInv (run cfg cap ops) := inv_foldl _ (inv_new cfg cap hc) ops

/-! ## T14.3 append-only -/

/-- novel candidates get the fresh indices `len, len+1, …` in batch order (with or without local
competition), and the size grows by exactly their number -/
theorem novel_fresh (p : Prox) (hinv : ProxInv p) (hs : List Hinted) (p' : Prox) (fb : Feedback)
    (h : p.add hs = .ok (p', fb)) :
    p'.len = p.len + nNovel fb.novel ∧
    (novels hs fb.novel).length = nNovel fb.novel ∧
    ∀ j c, (novels hs fb.novel)[j]? = some c → p'.arch.cellOf (p.len + j) = some (c.withThr c.obj) := by
  have hinv' := inv_add p hinv hs p' fb h
  obtain ⟨rows, hr, rfl⟩ := add_ok p hs p' fb h
  obtain ⟨hlen, _, _⟩ := assign_tb p hinv hs rows fb.novel hr
  refine ⟨(dense_after p hinv hs rows fb.novel hr).2, novels_length hs fb.novel hlen, ?_⟩
  intro j c hj
  have hc := cells_after p hinv hs rows fb.novel hr (p.len + j)
  rw [if_neg (by omega), Nat.add_sub_cancel_left, hj] at hc
  rw [cell_of_abs _ hinv'.thr (p.len + j)]
  show Option.map _ (C01.absCell (((grown p (nNovel fb.novel)).addBatch rows).1.cellOf (p.len + j))) = _
  rw [hc]; rfl

/-- **T14.3 `append_only`** : without local competition an `add` leaves every earlier entry
identical (capacity growth included), grows the archive by the number of novel candidates, and
the `j`-th novel candidate sits at index `len + j`. -/
theorem append_only (p : Prox) (hinv : ProxInv p) (hlc : p.cfg.lc = false) (hs : List Hinted)
    (p' : Prox) (fb : Feedback) (h : p.add hs = .ok (p', fb)) :
    (∀ i, i < p.len → p'.arch.cellOf i = p.arch.cellOf i) ∧
    p'.len = p.len + nNovel fb.novel ∧
    (novels hs fb.novel).length = nNovel fb.novel ∧
    (∀ j c, (novels hs fb.novel)[j]? = some c → p'.arch.cellOf (p.len + j) = some (c.withThr c.obj)) ∧
    (∀ i, p.len + nNovel fb.novel ≤ i → p'.arch.cellOf i = none) := by
  have hinv' := inv_add p hinv hs p' fb h
  obtain ⟨h1, h2, h3⟩ := novel_fresh p hinv hs p' fb h
  refine ⟨?_, h1, h2, h3, ?_⟩
  · obtain ⟨rows, hr, rfl⟩ := add_ok p hs p' fb h
    intro i hi
    have hc := cells_after p hinv hs rows fb.novel hr i
    rw [if_pos hi, hlc] at hc
    simp only [competitors, Bool.false_eq_true, if_false, bestFrom, List.foldl_nil] at hc
    rw [cell_of_abs _ hinv'.thr i, cell_of_abs _ hinv.thr i]
    show Option.map _ (C01.absCell (((grown p (nNovel fb.novel)).addBatch rows).1.cellOf i)) = _
    rw [hc]
  · intro i hi
    cases hc : p'.arch.cellOf i with
    | none => rfl
    | some e =>
      have := (hinv'.dense i).mp (by simp [hc])
      omega

theorem addOrSkip_cfg (p : Prox) (hs : List Hinted) : (addOrSkip p hs).cfg = p.cfg := by
  unfold addOrSkip
  cases h : p.add hs with
  | error e => rfl
  | ok r => obtain ⟨p', fb⟩ := r; exact add_cfg p hs p' fb h

/-- **T14.3 `append_only_history`** : over any history without `clear` (any number of adds, any
growth), an entry once stored at index `i` stays there unchanged for ever. -/
theorem append_only_history (p : Prox) (hinv : ProxInv p) (hlc : p.cfg.lc = false) (ops : List Op)
    (hnc : ∀ op ∈ ops, op ≠ Op.clear) (i : Nat) (e : Elite) (h : p.arch.cellOf i = some e) :
    (ops.foldl step p).arch.cellOf i = some e := by
  induction ops generalizing p with
  | nil => exact h
  | cons op ops ih =>
    simp only [List.foldl_cons]
    have hnc' : ∀ op ∈ ops, op ≠ Op.clear := fun o ho => hnc o (List.mem_cons_of_mem _ ho)
    cases op with
    | clear => exact absurd rfl (hnc Op.clear List.mem_cons_self)
    | add hs =>
      apply ih (step p (.add hs)) (inv_step p hinv _) (by simp only [step]; rw [addOrSkip_cfg]; exact hlc) hnc'
      simp only [step, addOrSkip]
      cases ha : p.add hs with
      | error e' => exact h
      | ok r =>
        obtain ⟨p', fb⟩ := r
        have hi : i < p.len := (hinv.dense i).mp (by simp [h])
        simp only
        rw [(append_only p hinv hlc hs p' fb ha).1 i hi]; exact h

/-! ## T14.4 replacement by local competition -/

theorem bestFrom_some_eq_self (i : Cand) (cs : List Cand) :
    bestFrom (some i) cs = some i ↔ ∀ c ∈ cs, c.obj ≤ i.obj := by
  rw [bestFrom_some_eq]
  cases hm : argmaxFirst cs with
  | none =>
    have : cs = [] := argmaxFirst_none.mp hm
    subst this; simp
  | some m =>
    obtain ⟨hmem, hub⟩ := argmaxFirst_spec hm
    simp only [Option.some.injEq]
    by_cases h : i.obj < m.obj
    · simp only [h, if_true]
      constructor
      · intro heq; subst heq; exact absurd h (lt_irrefl _)
      · intro hall; exact absurd (hall m hmem) (not_le.mpr h)
    · simp only [h, if_false, true_iff]
      intro c hc; exact le_trans (hub c hc) (not_lt.mp h)

/-- **T14.4 `replace_iff`** : with local competition, the stored entry `e` at index `t` becomes
the strict-improvement fold of `e` over the non-novel candidates whose row targets `t` (batch
order): it is kept iff none of them has a strictly higher objective; otherwise it is replaced by
the best of them, the earliest on ties. -/
theorem replace_iff (p : Prox) (hinv : ProxInv p) (hs : List Hinted) (p' : Prox) (fb : Feedback)
    (h : p.add hs = .ok (p', fb)) (t : Nat) (e : Elite) (he : p.arch.cellOf t = some e) :
    C01.absCell (p'.arch.cellOf t) = bestFrom (some e.toCand) (competitors p.cfg.lc hs fb.novel t) ∧
    (p'.arch.cellOf t = some e ↔ ∀ c ∈ competitors p.cfg.lc hs fb.novel t, c.obj ≤ e.obj) ∧
    (∀ w, p'.arch.cellOf t = some w → w ≠ e →
      w.toCand ∈ competitors p.cfg.lc hs fb.novel t ∧ e.obj < w.obj ∧ w.thr = w.obj ∧
      ∃ pre post, competitors p.cfg.lc hs fb.novel t = pre ++ w.toCand :: post ∧
        (∀ c ∈ pre, c.obj < w.obj) ∧ (∀ c ∈ post, c.obj ≤ w.obj)) := by
  have hinv' := inv_add p hinv hs p' fb h
  have ht : t < p.len := (hinv.dense t).mp (by simp [he])
  have habs : C01.absCell (p'.arch.cellOf t) =
      bestFrom (some e.toCand) (competitors p.cfg.lc hs fb.novel t) := by
    obtain ⟨rows, hr, rfl⟩ := add_ok p hs p' fb h
    have hc := cells_after p hinv hs rows fb.novel hr t
    rw [if_pos ht, he] at hc
    exact hc
  have hee : e = e.toCand.withThr e.toCand.obj := elite_eq_of_thr e (hinv.thr t e he)
  refine ⟨habs, ?_, ?_⟩
  · show _ ↔ ∀ c ∈ competitors p.cfg.lc hs fb.novel t, c.obj ≤ e.toCand.obj
    rw [← bestFrom_some_eq_self, ← habs]
    constructor
    · intro h1; rw [h1]; rfl
    · intro h1
      rw [cell_of_abs _ hinv'.thr t, h1]
      simp only [Option.map_some, Option.some.injEq]
      exact hee.symm
  · intro w hw hne
    have hwt := hinv'.thr t w hw
    rw [hw] at habs
    simp only [C01.absCell, Option.map_some] at habs
    have hwne : w.toCand ≠ e.toCand := by
      intro hc
      apply hne
      have hww : w = w.toCand.withThr w.toCand.obj := elite_eq_of_thr w hwt
      rw [hww, hc, ← hee]
    rw [bestFrom_some_eq] at habs
    simp only [Option.some.injEq] at habs
    cases hm : argmaxFirst (competitors p.cfg.lc hs fb.novel t) with
    | none => rw [hm] at habs; exact absurd habs hwne
    | some m =>
      rw [hm] at habs
      simp only at habs
      by_cases h2 : e.toCand.obj < m.obj
      · simp only [h2, if_true] at habs
        subst habs
        obtain ⟨hmem, hub⟩ := argmaxFirst_spec hm
        obtain ⟨pre, post, hcs, hpre⟩ := argmaxFirst_first hm
        refine ⟨hmem, h2, hwt, pre, post, hcs, hpre, ?_⟩
        intro c hc
        exact hub c (by rw [hcs]; simp [hc])
      · simp only [h2, if_false] at habs
        exact absurd habs hwne

/-! ## T14.6 capacity -/

theorem growCap_spec (cap n fuel : Nat) (hc : 0 < cap) (hf : n ≤ fuel) :
    n ≤ growCap cap n fuel ∧ cap ≤ growCap cap n fuel ∧
    (∃ j, growCap cap n fuel = cap * 2 ^ j) ∧
    (n ≤ cap → growCap cap n fuel = cap) ∧
    (cap < n → growCap cap n fuel < 2 * n) :=
  ⟨growCap_ge cap n fuel hc hf, growCap_ge_cap cap n fuel, growCap_pow cap n fuel,
   growCap_of_le cap n fuel, fun h => growCap_lt cap n fuel hc h hf⟩

theorem capacity_ge_len (p : Prox) (hinv : ProxInv p) : p.len ≤ p.capacity := hinv.len_le

/-- the capacity after an `add` is the old one doubled just often enough to hold the new size;
it never shrinks, and `clear` keeps it -/
theorem capacity_add (p : Prox) (hinv : ProxInv p) (hs : List Hinted) (p' : Prox) (fb : Feedback)
    (h : p.add hs = .ok (p', fb)) :
    p'.capacity = growCap p.capacity p'.len p'.len ∧ p.capacity ≤ p'.capacity ∧
    (∃ j, p'.capacity = p.capacity * 2 ^ j) ∧
    (p'.len ≤ p.capacity → p'.capacity = p.capacity) ∧
    (p.capacity < p'.len → p'.capacity < 2 * p'.len) := by
  have hl := (novel_fresh p hinv hs p' fb h).1
  obtain ⟨rows, hr, rfl⟩ := add_ok p hs p' fb h
  have hcap : Prox.capacity { p with arch := ((grown p (nNovel fb.novel)).addBatch rows).1 } =
      growCap p.capacity (p.len + nNovel fb.novel) (p.len + nNovel fb.novel) := by
    show ((grown p (nNovel fb.novel)).addBatch rows).1.store.cap = _
    rw [addBatch_cap]; rfl
  rw [hl, hcap]
  obtain ⟨_, h2, h3, h4, h5⟩ := growCap_spec p.capacity (p.len + nNovel fb.novel)
    (p.len + nNovel fb.novel) hinv.cap_pos (le_refl _)
  exact ⟨rfl, h2, h3, h4, h5⟩

theorem capacity_clear (p : Prox) : p.clear.capacity = p.capacity := rfl

theorem capacity_mono_step (p : Prox) (hinv : ProxInv p) (op : Op) : p.capacity ≤ (step p op).capacity := by
  cases op with
  | clear => exact le_refl _
  | add hs =>
    simp only [step, addOrSkip]
    cases h : p.add hs with
    | error e => exact le_refl _
    | ok r => obtain ⟨p', fb⟩ := r; exact (capacity_add p hinv hs p' fb h).2.1

end Pyribs.C14
