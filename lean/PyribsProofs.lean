import PyribsProofs.C13
