import PyribsModel.Cqd
/-! Line-protocol machine "cqd". -/
namespace Pyribs.CqdDrv
open Pyribs Cqd

abbrev St := Unit
def init : St := ()

def parseElite (t : String) : Option Elite :=
  match t.splitOn ":" with
  | [o, m] => do pure ⟨← parseRat o, ← parseRatList m⟩
  | _ => none

def step (st : St) (toks : List String) : St × String :=
  match toks with
  | "score" :: rest =>
    match kv rest "ord" with
    | some "2" => (st, "unsupported")
    | some o =>
      let ord? : Option Ord := if o = "1" then some .l1 else if o = "inf" then some .linf else none
      let r : Option String := do
        let ord ← ord?
        let span ← (kv rest "span") >>= parseRat
        let dmax ← (kv rest "dmax") >>= parseRat
        let pens ← (kv rest "pens") >>= parseRatList
        let elites ← (kv rest "elites") >>= fun s => (s.splitOn ";").mapM parseElite
        let its ← (kv rest "targets") >>= fun s => (s.splitOn "|").mapM (fun it => (it.splitOn ";").mapM parseRatList)
        let scores ← its.mapM (fun ts => scoreIter ord span dmax pens elites ts)
        pure (showRatList scores)
      (st, r.getD "bad-op")
    | none => (st, "bad-op")
  | "dmax" :: rest =>
    let r : Option String := do
      let o ← kv rest "ord"
      let ord ← (if o = "1" then some Ord.l1 else if o = "inf" then some Ord.linf else none)
      let lo ← (kv rest "lo") >>= parseRatList
      let hi ← (kv rest "hi") >>= parseRatList
      pure (showRat (defaultDistMax ord lo hi))
    (st, r.getD "bad-op")
  | _ => (st, "bad-op")

end Pyribs.CqdDrv
