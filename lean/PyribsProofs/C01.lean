import PyribsProofs.Lemmas.Archive
import PyribsProofs.C02
/-!
# C01 — elitist archives keep, per cell, the best candidate ever routed there

Setting: the default (elitist) configuration `threshold_min = -inf`,
`learning_rate = 1`.  Histories are arbitrary lists of `add` (any batch, any
size), `add_single` and `clear`; rows carry the cell their measures are routed to
(the routing maps are the subject of C03; they always return an index below the
number of cells, which is the `WellRouted` hypothesis).
-/
namespace Pyribs.C01
open Pyribs Arch Store

def Elitist (cfg : Cfg) : Prop := cfg.tmin = none ∧ cfg.lr = 1

theorem elitist_valid {cfg : Cfg} (h : Elitist cfg) : C02.ValidCfg cfg := fun _ => h.2

/-- in an elitist archive every cell's threshold is its elite's objective -/
def ThrObj (a : Arch) : Prop := ∀ i e, a.cellOf i = some e → e.thr = e.obj

def absCell (o : Option Elite) : Option Cand := o.map Elite.toCand

theorem toCand_withThr (c : Cand) (t : Rat) : (c.withThr t).toCand = c := rfl

/-- per cell, the code-shaped batch add is the strict-improvement fold over the rows routed there -/
theorem cell_addBatch (a : Arch) (he : Elitist a.cfg) (ht : ThrObj a) (rows : List (Nat × Cand))
    (i : Nat) (hi : i < a.store.cap) :
    absCell ((a.addBatch rows).1.cellOf i) = bestFrom (absCell (a.cellOf i)) (rowsTo rows i) := by
  rw [cellOf_addBatch, if_pos hi, ← batch_eq_bestFrom]
  unfold cellWrite
  rw [cellAcc_accRows]
  have hpred : (fun c => canInsert a.cfg (a.store.cells i) c) =
      (fun c => match absCell (a.cellOf i) with
        | none => true
        | some j => decide (j.obj < c.obj)) := by
    funext c
    unfold canInsert cmpThr absCell cellOf
    cases hc : a.store.cells i with
    | none => simp [he.1]
    | some e =>
      have := ht i e hc
      simp [Elite.toCand, this]
  rw [hpred]
  cases hm : argmaxFirst ((rowsTo rows i).filter _) with
  | none => simp [absCell]
  | some w => simp [absCell, toCand_withThr]

theorem thrObj_addBatch (a : Arch) (he : Elitist a.cfg) (ht : ThrObj a) (rows : List (Nat × Cand)) :
    ThrObj (a.addBatch rows).1 := by
  intro i e h
  rw [cellOf_addBatch] at h
  split at h
  · unfold cellWrite at h
    cases hm : argmaxFirst (cellAcc (accRows a.cfg a.store.cells rows) i) with
    | none => rw [hm] at h; simp at h; exact ht i e h
    | some w =>
      rw [hm] at h
      simp only [Option.map_some, Option.some_or, Option.some.injEq] at h
      subst h
      simp [Cand.withThr, newThrBatch, he.1]
  · exact ht i e h

/-- `add_single` is `add` on a batch of one (C02), so the same per-cell law holds -/
theorem cell_addSingle (a : Arch) (he : Elitist a.cfg) (ht : ThrObj a) (r : Nat × Cand)
    (hr : r.1 < a.store.cap) (i : Nat) (hi : i < a.store.cap) :
    absCell ((a.addSingle r).1.cellOf i) = bestFrom (absCell (a.cellOf i)) (rowsTo [r] i) := by
  rw [(C02.single_eq_batch_one a (elitist_valid he) r hr).1]
  exact cell_addBatch a he ht [r] i hi

theorem thrObj_addSingle (a : Arch) (he : Elitist a.cfg) (ht : ThrObj a) (r : Nat × Cand)
    (hr : r.1 < a.store.cap) : ThrObj (a.addSingle r).1 := by
  rw [(C02.single_eq_batch_one a (elitist_valid he) r hr).1]
  exact thrObj_addBatch a he ht [r]

/-! ## histories -/

inductive Op
  | add (rows : List (Nat × Cand))
  | add1 (r : Nat × Cand)
  | clear

def step (a : Arch) : Op → Arch
  | .add rows => (a.addBatch rows).1
  | .add1 r => (a.addSingle r).1
  | .clear => a.clear

def run (cfg : Cfg) (cells : Nat) (ops : List Op) : Arch := ops.foldl step (Arch.new cfg cells)

/-- candidates routed to cell `i` since the last clear, flattened in submission order
(earlier call first; within a batch, lower position first) -/
def routedStep (i : Nat) (acc : List Cand) : Op → List Cand
  | .add rows => acc ++ rowsTo rows i
  | .add1 r => acc ++ rowsTo [r] i
  | .clear => []

def routed (ops : List Op) (i : Nat) : List Cand := ops.foldl (routedStep i) []

/-- every `add_single` names a cell below the number of cells (true of every `index_of`, C03) -/
def WellRouted (cells : Nat) (ops : List Op) : Prop :=
  ∀ op ∈ ops, match op with | .add1 r => r.1 < cells | _ => True

structure RunInv (cfg : Cfg) (cells : Nat) (a : Arch) (acc : Nat → List Cand) : Prop where
  cfg_eq : a.cfg = cfg
  cap_eq : a.store.cap = cells
  thr    : ThrObj a
  spec   : ∀ i, i < cells → absCell (a.cellOf i) = bestFrom none (acc i)

theorem inv_step (cfg : Cfg) (he : Elitist cfg) (cells : Nat) (a : Arch) (acc : Nat → List Cand)
    (h : RunInv cfg cells a acc) (op : Op)
    (hop : match op with | .add1 r => r.1 < cells | _ => True) :
    RunInv cfg cells (step a op) (fun i => routedStep i (acc i) op) := by
  have he' : Elitist a.cfg := h.cfg_eq ▸ he
  cases op with
  | add rows =>
    refine ⟨by simp [step, addBatch_cfg, h.cfg_eq], by simp [step, addBatch_cap, h.cap_eq],
            thrObj_addBatch a he' h.thr rows, ?_⟩
    intro i hi
    simp only [step, routedStep]
    rw [cell_addBatch a he' h.thr rows i (h.cap_eq ▸ hi), h.spec i hi, ← bestFrom_append]
  | add1 r =>
    have hr : r.1 < a.store.cap := h.cap_eq ▸ hop
    refine ⟨by simp [step, addSingle_cfg, h.cfg_eq], by simp [step, addSingle_cap, h.cap_eq],
            thrObj_addSingle a he' h.thr r hr, ?_⟩
    intro i hi
    simp only [step, routedStep]
    rw [cell_addSingle a he' h.thr r hr i (h.cap_eq ▸ hi), h.spec i hi, ← bestFrom_append]
  | clear =>
    refine ⟨h.cfg_eq, h.cap_eq, ?_, ?_⟩
    · intro i e hc; simp [step, Arch.clear, cellOf, Store.clear] at hc
    · intro i _; simp [step, Arch.clear, cellOf, Store.clear, absCell, routedStep, bestFrom]

theorem inv_run (cfg : Cfg) (he : Elitist cfg) (cells : Nat) (ops : List Op)
    (hw : WellRouted cells ops) :
    RunInv cfg cells (run cfg cells ops) (routed ops) := by
  unfold run routed
  have h0 : RunInv cfg cells (Arch.new cfg cells) (fun _ => []) :=
    ⟨rfl, rfl, by intro i e h; simp [Arch.new, cellOf, Store.empty] at h,
     by intro i _; simp [Arch.new, cellOf, Store.empty, absCell, bestFrom]⟩
  generalize Arch.new cfg cells = a0 at h0
  generalize hacc : (fun _ : Nat => ([] : List Cand)) = acc0 at h0
  have hfold : ∀ (ops : List Op) (a : Arch) (acc : Nat → List Cand),
      WellRouted cells ops → RunInv cfg cells a acc →
      RunInv cfg cells (ops.foldl step a) (fun i => ops.foldl (routedStep i) (acc i)) := by
    intro ops
    induction ops with
    | nil => intro a acc _ h; simpa using h
    | cons op ops ih =>
      intro a acc hw h
      simp only [List.foldl_cons]
      exact ih (step a op) (fun i => routedStep i (acc i) op)
        (fun o ho => hw o (List.mem_cons_of_mem _ ho))
        (inv_step cfg he cells a acc h op (hw op List.mem_cons_self))
  have := hfold ops a0 acc0 hw h0
  subst hacc
  exact this

/-- **T01.1 `contents_spec`** : after any history, every cell holds the
highest-objective candidate routed to it since the last clear, the earliest
submitted one winning ties. -/
theorem contents_spec (cfg : Cfg) (he : Elitist cfg) (cells : Nat) (ops : List Op)
    (hw : WellRouted cells ops) (i : Nat) (hi : i < cells) :
    absCell ((run cfg cells ops).cellOf i) = bestOf (routed ops i) :=
  (inv_run cfg he cells ops hw).spec i hi

/-- the stored threshold is the stored objective, so the whole entry is determined -/
theorem contents_full (cfg : Cfg) (he : Elitist cfg) (cells : Nat) (ops : List Op)
    (hw : WellRouted cells ops) (i : Nat) (hi : i < cells) :
    (run cfg cells ops).cellOf i = (bestOf (routed ops i)).map (fun c => c.withThr c.obj) := by
  have h1 := contents_spec cfg he cells ops hw i hi
  have h2 := (inv_run cfg he cells ops hw).thr i
  cases hc : (run cfg cells ops).cellOf i with
  | none => rw [hc] at h1; simp [absCell] at h1; simp [← h1]
  | some e =>
    rw [hc] at h1
    simp only [absCell, Option.map_some] at h1
    rw [← h1]
    have := h2 e hc
    simp only [Option.map_some, Option.some.injEq]
    cases e; simp_all [Elite.toCand, Cand.withThr]

/-- `bestOf` really is "highest objective, earliest first on ties" -/
theorem bestOf_spec (cs : List Cand) (m : Cand) (h : bestOf cs = some m) :
    ∃ pre post, cs = pre ++ m :: post ∧ (∀ c ∈ pre, c.obj < m.obj) ∧ (∀ c ∈ post, c.obj ≤ m.obj) := by
  rw [bestOf_eq_bestFrom, bestFrom_none_eq] at h
  obtain ⟨pre, post, hcs, hpre⟩ := argmaxFirst_first h
  refine ⟨pre, post, hcs, hpre, ?_⟩
  intro c hc
  exact (argmaxFirst_spec h).2 c (by rw [hcs]; simp [hc])

/-- **T01.2 `occupied_iff`** : a cell is occupied exactly when some candidate has been
routed to it since the last clear. -/
theorem occupied_iff (cfg : Cfg) (he : Elitist cfg) (cells : Nat) (ops : List Op)
    (hw : WellRouted cells ops) (i : Nat) (hi : i < cells) :
    ((run cfg cells ops).cellOf i).isSome = true ↔ routed ops i ≠ [] := by
  have h := contents_spec cfg he cells ops hw i hi
  have h2 := bestFrom_isSome none (routed ops i)
  rw [← bestOf_eq_bestFrom, ← h] at h2
  simp only [absCell, Option.isSome_map, Option.isSome_none, Bool.false_or] at h2
  rw [h2]
  cases routed ops i <;> simp

/-- **T01.3 `row_integrity`** : the stored elite is — token, objective and measures
together — one of the candidates routed to the cell. -/
theorem row_integrity (cfg : Cfg) (he : Elitist cfg) (cells : Nat) (ops : List Op)
    (hw : WellRouted cells ops) (i : Nat) (hi : i < cells) (e : Elite)
    (h : (run cfg cells ops).cellOf i = some e) : e.toCand ∈ routed ops i := by
  have hs := contents_spec cfg he cells ops hw i hi
  rw [h] at hs
  simp only [absCell, Option.map_some] at hs
  rcases bestFrom_mem none (routed ops i) e.toCand hs.symm with h1 | h1
  · simp at h1
  · exact h1

/-- **T01.6 `batching_invariance`** : two histories that route the same candidate
sequence to every cell (splitting, merging, single-stepping batches) end in the
same contents. -/
theorem batching_invariance (cfg : Cfg) (he : Elitist cfg) (cells : Nat) (ops ops' : List Op)
    (hw : WellRouted cells ops) (hw' : WellRouted cells ops')
    (h : ∀ i, i < cells → routed ops i = routed ops' i) (i : Nat) (hi : i < cells) :
    (run cfg cells ops).cellOf i = (run cfg cells ops').cellOf i := by
  rw [contents_full cfg he cells ops hw i hi, contents_full cfg he cells ops' hw' i hi, h i hi]

theorem routed_snoc (ops : List Op) (op : Op) (i : Nat) :
    routed (ops ++ [op]) i = routedStep i (routed ops i) op := by
  simp [routed, List.foldl_append]

/-- **T01.4 / T01.5 `objective_monotone`, `never_empties_except_clear`** : an `add` or
`add_single` never empties an occupied cell and never lowers its objective. -/
theorem objective_monotone (cfg : Cfg) (he : Elitist cfg) (cells : Nat) (ops : List Op) (op : Op)
    (hw : WellRouted cells (ops ++ [op])) (hnc : op ≠ .clear) (i : Nat) (hi : i < cells) (e : Elite)
    (h : (run cfg cells ops).cellOf i = some e) :
    ∃ e', (run cfg cells (ops ++ [op])).cellOf i = some e' ∧ e.obj ≤ e'.obj := by
  have hw0 : WellRouted cells ops := fun o ho => hw o (List.mem_append_left _ ho)
  have h1 := contents_spec cfg he cells ops hw0 i hi
  have h2 := contents_spec cfg he cells (ops ++ [op]) hw i hi
  rw [h] at h1
  simp only [absCell, Option.map_some] at h1
  rw [routed_snoc] at h2
  have happ : ∃ extra, routedStep i (routed ops i) op = routed ops i ++ extra := by
    cases op with
    | add rows => exact ⟨_, rfl⟩
    | add1 r => exact ⟨_, rfl⟩
    | clear => exact absurd rfl hnc
  obtain ⟨extra, hex⟩ := happ
  rw [hex, bestOf_eq_bestFrom, bestFrom_append, ← bestOf_eq_bestFrom, ← h1] at h2
  cases hc : (run cfg cells (ops ++ [op])).cellOf i with
  | none =>
    rw [hc] at h2
    have := bestFrom_isSome (some e.toCand) extra
    rw [← h2] at this
    simp [absCell] at this
  | some e' =>
    refine ⟨e', rfl, ?_⟩
    rw [hc] at h2
    simp only [absCell, Option.map_some] at h2
    have := (bestFrom_ge (some e.toCand) extra e'.toCand h2.symm).1 e.toCand rfl
    exact this

/-! ## non-vacuity -/

/-- a 3-cell history with an in-batch tie (tokens 10, 11), a cross-call tie (13), a
losing candidate, a clear and a re-fill -/
theorem nonvacuous :
    let ops : List Op :=
      [.add [(0, ⟨10, 1, []⟩), (0, ⟨11, 1, []⟩), (1, ⟨12, 5, []⟩)], .add1 (0, ⟨13, 1, []⟩),
       .add [(1, ⟨14, 4, []⟩), (2, ⟨15, -7, []⟩)]]
    WellRouted 3 ops ∧
    ((run ⟨1, none, 0⟩ 3 ops).cellOf 0).map (·.tok) = some 10 ∧
    ((run ⟨1, none, 0⟩ 3 ops).cellOf 1).map (·.tok) = some 12 ∧
    ((run ⟨1, none, 0⟩ 3 (ops ++ [.clear, .add1 (1, ⟨16, 2, []⟩)])).cellOf 1).map (·.tok) = some 16 ∧
    ((run ⟨1, none, 0⟩ 3 (ops ++ [.clear, .add1 (1, ⟨16, 2, []⟩)])).cellOf 0) = none := by
  refine ⟨?_, by decide +kernel, by decide +kernel, by decide +kernel, by decide +kernel⟩
  intro op hop
  simp only [List.mem_cons, List.mem_nil_iff, or_false] at hop
  rcases hop with rfl | rfl | rfl <;> simp

end Pyribs.C01
