import PyribsModel.Store
/-!
# Archive — model of `ArchiveBase.add / add_single / clear / retrieve` and of the
transforms in `ribs/archives/_transforms.py`

One state machine carries C01, C02, C05, C06, C07 and C11.  A candidate row is a
token plus the values the property talks about (objective, measures); every other
field of the row (solution, extra fields) is derived from the token by the
harness, so "all fields come from one submitted candidate" is a statement about
one token.

Code shape:
* `canInsert`, `status`, `baseline`, `judge` ↔ the head of `batch_entries_with_threshold`
  / `single_entry_with_threshold` (status and value against the pre-call state);
* `accRows` ↔ `indices[can_insert]`; `newThrBatch` ↔ `_compute_thresholds` (and the
  elitist special case `new_threshold = objective`); `argmaxFirst` ↔
  `aggregate(..., func="argmax")`; `batchWrites` ↔ `should_insert` (one row per cell,
  ascending cell index);
* `objSumDelta` ↔ `compute_objective_sum`; `bestWrite` ↔ `compute_best_index`;
  `statsUpdate` ↔ `ArchiveBase._stats_update`;
* `addBatch`, `addSingle`, `clear`, `retrieve`.
The routing (`index_of`) is a parameter here: rows arrive with their cell index
(the index maps are in `GridIndex.lean`).
-/
namespace Pyribs

structure Cand where
  tok  : Nat
  obj  : Rat
  meas : List Rat
deriving DecidableEq, Repr

structure Elite where
  tok  : Nat
  obj  : Rat
  meas : List Rat
  thr  : Rat
deriving DecidableEq, Repr

def Elite.toCand (e : Elite) : Cand := ⟨e.tok, e.obj, e.meas⟩
def Cand.withThr (c : Cand) (t : Rat) : Elite := ⟨c.tok, c.obj, c.meas, t⟩

/-- `tmin = none` is `threshold_min = -inf` (the elitist / CMA-ME setting) -/
structure Cfg where
  lr     : Rat
  tmin   : Option Rat
  offset : Rat
deriving Repr

/-- `ArchiveBase.__init__` coupling of `learning_rate` and `threshold_min`:
`lrArg = none` means "not given" (defaults to 1). -/
def mkCfg (lrArg : Option Rat) (tmin : Option Rat) (offset : Rat) : Option Cfg :=
  match lrArg, tmin with
  | none, none => some ⟨1, none, offset⟩
  | none, some _ => none                         -- finite threshold_min needs a learning rate
  | some lr, none => if lr = 1 then some ⟨1, none, offset⟩ else none
  | some lr, some t => some ⟨lr, some t, offset⟩

namespace Arch

/-- the threshold a candidate is compared with: the cell's threshold, or `tmin` for an empty cell -/
def cmpThr (cfg : Cfg) (pre : Option Elite) : Option Rat :=
  match pre with
  | some e => some e.thr
  | none => cfg.tmin

def canInsert (cfg : Cfg) (pre : Option Elite) (c : Cand) : Bool :=
  match cmpThr cfg pre with
  | none => true
  | some t => decide (t < c.obj)

/-- what `value` is measured from: the prior threshold; for an empty cell 0 in
default mode and `tmin` when it is finite -/
def baseline (cfg : Cfg) (pre : Option Elite) : Rat :=
  match pre with
  | some e => e.thr
  | none => cfg.tmin.getD 0

def status (cfg : Cfg) (pre : Option Elite) (c : Cand) : Nat :=
  if canInsert cfg pre c then (if pre.isSome then 1 else 2) else 0

def judge (cfg : Cfg) (pre : Option Elite) (c : Cand) : Nat × Rat :=
  (status cfg pre c, c.obj - baseline cfg pre)

/-- rows that pass `can_insert` (judged against the pre-call cells `pre`) -/
def accRows (cfg : Cfg) (pre : Nat → Option Elite) (rows : List (Nat × Cand)) : List (Nat × Cand) :=
  rows.filter (fun r => canInsert cfg (pre r.1) r.2)

/-- accepted candidates aimed at cell `i`, in batch order -/
def cellAcc (acc : List (Nat × Cand)) (i : Nat) : List Cand :=
  (acc.filter (fun r => r.1 == i)).map (·.2)

def objSum (cs : List Cand) : Rat := (cs.map (·.obj)).sum

/-- `_compute_thresholds` (CMA-MAE batch rule) and the elitist special case -/
def newThrBatch (cfg : Cfg) (pre : Option Elite) (accI : List Cand) (winner : Cand) : Rat :=
  match cfg.tmin with
  | none => winner.obj
  | some _ =>
    let k := accI.length
    let ratio := (1 - cfg.lr) ^ k
    ratio * baseline cfg pre + (objSum accI / (k : Rat)) * (1 - ratio)

/-- first element with maximal objective (`aggregate(func="argmax")`, `np.argmax`) -/
def argmaxFirst : List Cand → Option Cand
  | [] => none
  | c :: cs =>
    match argmaxFirst cs with
    | none => some c
    | some m => if c.obj < m.obj then some m else some c

/-- the row written to cell `i` by a batch, if any -/
def cellWrite (cfg : Cfg) (pre : Nat → Option Elite) (acc : List (Nat × Cand)) (i : Nat) : Option Elite :=
  (argmaxFirst (cellAcc acc i)).map (fun w => w.withThr (newThrBatch cfg (pre i) (cellAcc acc i) w))

/-- `should_insert`: at most one row per cell, ascending cell index -/
def batchWrites (cfg : Cfg) (cap : Nat) (pre : Nat → Option Elite) (rows : List (Nat × Cand)) :
    List (Nat × Elite) :=
  let acc := accRows cfg pre rows
  (List.range cap).filterMap (fun i => (cellWrite cfg pre acc i).map (fun e => (i, e)))

structure Stats where
  numElites : Nat
  objSum    : Rat
  objMax    : Option Rat
  best      : Option (Nat × Elite)
deriving Repr

def Stats.zero : Stats := ⟨0, 0, none, none⟩

/-- `compute_objective_sum`: new minus replaced objective, unoccupied counted as 0 -/
def objSumDelta (pre : Nat → Option Elite) (ws : List (Nat × Elite)) : Rat :=
  (ws.map (fun w => w.2.obj - ((pre w.1).map (·.obj)).getD 0)).sum

/-- `compute_best_index`: first row with maximal objective among the written rows -/
def bestWrite : List (Nat × Elite) → Option (Nat × Elite)
  | [] => none
  | w :: ws =>
    match bestWrite ws with
    | none => some w
    | some m => if w.2.obj < m.2.obj then some m else some w

/-- `_stats_update` (only called when something was inserted) -/
def statsUpdate (st : Stats) (len : Nat) (newSum : Rat) (best : Option (Nat × Elite)) : Stats :=
  match best with
  | none => { st with numElites := len, objSum := newSum }
  | some b =>
    let replace := match st.objMax with
      | none => true
      | some m => decide (m < b.2.obj)
    { numElites := len, objSum := newSum,
      objMax := if replace then some b.2.obj else st.objMax,
      best := if replace then some b else st.best }

end Arch

structure Arch where
  cfg   : Cfg
  store : Store Elite
  stats : Arch.Stats

namespace Arch

def new (cfg : Cfg) (cells : Nat) : Arch := ⟨cfg, Store.empty cells, Stats.zero⟩

def cellOf (a : Arch) (i : Nat) : Option Elite := a.store.cells i

/-- apply the final writes of a call and update the statistics as `ArchiveBase.add` does -/
def commit (a : Arch) (ws : List (Nat × Elite)) : Arch :=
  let store' := a.store.rawAdd ws
  if ws.isEmpty then { a with store := store' }
  else
    { a with
      store := store'
      stats := statsUpdate a.stats store'.len (a.stats.objSum + objSumDelta a.store.cells ws)
                 (bestWrite ws) }

/-- `ArchiveBase.add` after validation and routing: rows carry their cell index -/
def addBatch (a : Arch) (rows : List (Nat × Cand)) : Arch × List (Nat × Rat) :=
  let pre := a.store.cells
  (a.commit (batchWrites a.cfg a.store.cap pre rows),
   rows.map (fun r => judge a.cfg (pre r.1) r.2))

/-- `single_entry_with_threshold`: new threshold of an accepted single candidate -/
def newThrSingle (cfg : Cfg) (pre : Option Elite) (c : Cand) : Rat :=
  baseline cfg pre * (1 - cfg.lr) + c.obj * cfg.lr

/-- `ArchiveBase.add_single` after validation and routing -/
def addSingle (a : Arch) (r : Nat × Cand) : Arch × (Nat × Rat) :=
  let pre := a.store.cells r.1
  (a.commit (if status a.cfg pre r.2 = 0 then []
             else [(r.1, r.2.withThr (newThrSingle a.cfg pre r.2))]),
   judge a.cfg pre r.2)

def clear (a : Arch) : Arch := { a with store := a.store.clear, stats := Stats.zero }

/-- `retrieve` after routing: occupied flag and elite per queried cell -/
def retrieve (a : Arch) (idx : List Nat) : List (Option Elite) := a.store.retrieve idx

/-! ### derived statistics (`ArchiveStats`) -/
def qdScore (a : Arch) : Rat := a.stats.objSum - (a.stats.numElites : Rat) * a.cfg.offset
def coverage (a : Arch) : Rat := (a.stats.numElites : Rat) / (a.store.cap : Rat)
def normQd (a : Arch) : Rat := a.qdScore / (a.store.cap : Rat)
def objMean (a : Arch) : Option Rat :=
  if a.stats.numElites = 0 then none else some (a.stats.objSum / (a.stats.numElites : Rat))

/-! ### spec-shaped: the best candidate of a history, earliest first on ties -/

def better (inc : Option Cand) (c : Cand) : Option Cand :=
  match inc with
  | none => some c
  | some i => if i.obj < c.obj then some c else some i

def bestOf (cs : List Cand) : Option Cand := cs.foldl better none

end Arch
end Pyribs
