#!/bin/bash
# confirm + test the given seeded directories:  seedround.sh C01-6 C01-7 ...
for s in "$@"; do
  [ -d /verif/seeded/$s ] || continue
  echo "== $s: $(python3 -c "import json;print(str(json.load(open('/verif/seeded/$s/meta.json')).get('summary'))[:200])")"
  /venv/bin/python /verif/harness/seedtest.py /verif/seeded/$s --demo --tests --seeds 0,1 2>&1 | grep "^CAUGHT\|^MISSED\|^INFRA\|^demo\|^tests" | cut -c1-300
done
