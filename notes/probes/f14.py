import numpy as np, random, warnings
from ribs.archives import GridArchive, CVTArchive, SlidingBoundariesArchive, ProximityArchive
warnings.simplefilter("ignore")
bad=0
def check_stats(a,name,seed,inserted_max):
    global bad
    d=a.data(); n=len(d["index"]); s=a.stats
    if s.num_elites!=n or len(a)!=n or a.empty!=(n==0): print("NUM",name,seed); bad+=1
    if n==0:
        if not (s.obj_max is None and s.obj_mean is None and s.qd_score==0 and s.coverage==0 and a.best_elite is None): print("EMPTYSTATS",name,seed,s); bad+=1
        return
    off=float(a.qd_score_offset); objs=d["objective"].astype(float)
    cells=a.cells
    exp=dict(qd=float(np.sum(objs-off)),cov=n/cells,mean=float(np.mean(objs)))
    if not (float(s.qd_score)==exp["qd"] and float(s.coverage)==np.dtype(d["objective"].dtype).type(exp["cov"]) and float(s.norm_qd_score)==float(np.dtype(d["objective"].dtype).type(exp["qd"]/cells)) and float(s.obj_mean)==float(np.dtype(d["objective"].dtype).type(exp["mean"]))): print("STATS",name,seed,s,exp); bad+=1
    if float(s.obj_max)!=inserted_max: print("OBJMAX",name,seed,s.obj_max,inserted_max); bad+=1
    be=a.best_elite
    if float(be["objective"])!=inserted_max: print("BEST",name,seed); bad+=1
for seed in range(400):
    rnd=random.Random(seed); dt=rnd.choice([np.float32,np.float64]); off=rnd.choice([0.0,-3.0,2.5])
    kinds={
      "sba":lambda: SlidingBoundariesArchive(solution_dim=1,dims=[3,2],ranges=[(0,4),(0,4)],remap_frequency=rnd.choice([3,5]),buffer_capacity=rnd.choice([2,6]),dtype=dt,qd_score_offset=off,extra_fields={"i":((),np.int32),"o":((),object)}),
      "prox":lambda: ProximityArchive(solution_dim=1,measure_dim=2,k_neighbors=2,novelty_threshold=1.0,dtype=dt,qd_score_offset=off,initial_capacity=2,extra_fields={"i":((),np.int32),"o":((),object)}),
      "proxlc":lambda: ProximityArchive(solution_dim=1,measure_dim=2,k_neighbors=2,novelty_threshold=1.0,local_competition=True,dtype=dt,qd_score_offset=off,initial_capacity=2,extra_fields={"i":((),np.int32),"o":((),object)}),
      "cvt":lambda: CVTArchive(solution_dim=1,cells=6,ranges=[(0,4),(0,4)],samples=300,seed=seed,dtype=dt,qd_score_offset=off,extra_fields={"i":((),np.int32),"o":((),object)}),
    }
    for name,mk in kinds.items():
        a=mk(); imax=None
        for step in range(rnd.randint(1,15)):
            r=rnd.random()
            if r<0.1: a.clear(); imax=None
            else:
                n=1 if r<0.4 else rnd.randint(0,5)
                m=np.array([[rnd.randint(0,4),rnd.randint(0,4)] for _ in range(n)],dtype=float).reshape(n,2); o=np.array([rnd.randint(-8,8)/2 for _ in range(n)]); sol=np.arange(n,dtype=float).reshape(n,1)
                ii=np.arange(n,dtype=np.int32); oo=np.empty(n,dtype=object); oo[:]=[f"x{k}" for k in range(n)]
                if r<0.4: info=a.add_single(sol[0],o[0],m[0],i=ii[0],o=oo[0]); st=np.atleast_1d(info["status"])
                else: info=a.add(sol,o,m,i=ii,o=oo); st=info.get("status",np.zeros(0))
                ins=[x for x,s_ in zip(o,st) if s_]
                # elitist archives: obj_max == max of current; sba remap clears internally -> use current max
            d=a.data()
            cur=float(d["objective"].max()) if len(d["objective"]) else None
            check_stats(a,name,seed,cur) if cur is not None else check_stats(a,name,seed,None)
            # retrieve blanks
            if name in("sba","cvt"):
                occ,rt=a.retrieve(np.array([[0.1,0.1],[3.9,3.9],[2.0,2.0]]))
                for j,oc in enumerate(occ):
                    if not oc:
                        if not (np.isnan(rt["objective"][j]) and np.all(np.isnan(rt["solution"][j])) and rt["index"][j]==-1 and rt["i"][j]==0 and rt["o"][j] is None and np.isnan(rt["threshold"][j])): print("BLANK",name,seed,{k:v[j] for k,v in rt.items()}); bad+=1
print("bad",bad)
