"""C17 — rankers return a best-first permutation by their documented key.

Correspondence: the eight real rankers of `ribs.emitters.rankers` and the Lean
`Ranker` model (`PyribsModel/Ranker.lean`, machine `ranker`) are driven in lock
step over generated batches and histories of `reset` / `rank` / direction-setter
calls.  The implementation's permutation is never compared index by index (the
tie order of NumPy's sort is unspecified): it must be a permutation and the KEY
SEQUENCE along it must equal the key sequence along the model's permutation
(theorem `keyseq_unique` says that this is forced for every best-first
permutation).  Ranking values and the direction state are compared as exact
rationals.

Oracle (independent of the Lean model): the returned indices are a permutation
of 0..n-1, the documented keys (computed by the harness in exact rational
arithmetic from the raw inputs) never get better along them, the ranking values
are those keys at their original positions, none of the inputs (data arrays,
add feedback, archive contents) changed, the direction did not move during
`rank`, and after `reset` it equals the replayed
`default_rng(seed).standard_normal(d) * (upper_bounds - lower_bounds)`.
"""
import atexit
import glob
import hashlib
import itertools
import json
import os
import shutil
import tempfile
import warnings
from fractions import Fraction

import numpy as np

from core import Driver, Failure, Infra, kvs, nl, ql, unnl, unql

ID = "C17"
PROOF_MODULES = ["PyribsProofs.C17"]
THEOREMS = [
    "Pyribs.C17.KeyGE_total",
    "Pyribs.C17.KeyGE_trans",
    "Pyribs.C17.KeyGE_antisymm",
    "Pyribs.C17.rank_perm",
    "Pyribs.C17.rank_sorted",
    "Pyribs.C17.density_ascending",
    "Pyribs.C17.values_aligned",
    "Pyribs.C17.vals_shape",
    "Pyribs.C17.vals_size",
    "Pyribs.C17.topk_dominates",
    "Pyribs.C17.head_is_best",
    "Pyribs.C17.keyseq_unique",
    "Pyribs.C17.mergeSort_keyseq",
    "Pyribs.C17.rank_pure",
    "Pyribs.C17.run_ranks",
    "Pyribs.C17.reset_dir",
    "Pyribs.C17.scaleDir_get",
    "Pyribs.C17.scaleDir_length",
    "Pyribs.C17.reset_noDir",
    "Pyribs.C17.dir_after_reset",
    "Pyribs.C17.rank_after_reset",
    "Pyribs.C17.rank_unset",
    "Pyribs.C17.nonvacuous",
    "Pyribs.C17.nonvacuous_history",
]
RULE = ("six strata. `large-batches`: every ranker at batch sizes 64, 100, 127, 128, 200, 255, 256, 300 (quick: the "
        "single-stage ones at 64, 128, 300), the two-stage rankers with the status given as int8 / uint8 / int16 / "
        "uint16 / int32 / int64 arrays and as a plain list, all three statuses and many values with ties. "
        "`long-resets`: more than 512 resets of ONE rd / 2rd ranker object (directly, with the archive argument of "
        "reset switched between archives of other ranges / measure_dim, interleaved rank calls; or ~300 restarts "
        "through a real emitter with restart_rule=1): every direction is the next replayed draw times the ranges "
        "and no draw may ever be re-used (also checked for unseeded rankers). `combinations`: for every ranker, every batch of size 1..3 (thorough: 1..4) over a pool of "
        "row symbols = every status in {0,1,2} x every value of a small pool (negative, zero, positive), so every "
        "status/value combination with ties is enumerated, measure rows chosen so that different rows project "
        "equally. `batches`: random batches of size 1..12 (0 rarely) for all eight rankers, values drawn from small "
        "pools (ties) of dyadic and arbitrary finite floats incl. -0.0, denormals and huge magnitudes, float32 / "
        "float64 inputs, status arrays of every integer dtype, float32 / float64 archives (prefilled), real add "
        "feedback from archive.add, direction set through the public setter, plus the rejections (direction unset, "
        "archive without compute_density, shape mismatches, missing novelty); 30% of the rank calls carry NEAR-EQUAL "
        "(not equal) keys -- relative differences 1e-13..1e-9, absolute 1e-14..1e-10, one ulp -- at magnitudes "
        "1e-12..1e8 and both signs, for every float-keyed ranker; for the projection rankers the direction then has "
        "power-of-two entries and the rows one arbitrary float on an axis, so that the projections are still exact; "
        "calls are made positionally and by keyword, with arrays and with plain lists. `direction`: the two random-direction "
        "rankers under histories of reset / rank / setter calls, direction replayed from the seed (int seeds and "
        "SeedSequences, constructed directly or by a real EvolutionStrategyEmitter), power-of-two and general "
        "measure ranges, on archives with fixed bounds (GridArchive) and on archives whose bounds MOVE between "
        "resets (SlidingBoundariesArchive with small remap_frequency, ProximityArchive growing; entries added by "
        "add / add_single between the resets): after every reset the direction must be the replayed draw times "
        "(upper_bounds - lower_bounds) read from the archive at that moment; 45% of the cases use measure ranges "
        "between 1e-6 and 1e6, different per dimension (direction and projections at many magnitudes), with "
        "axis-aligned power-of-two rows of the size of the ranges (exact) or arbitrary rows inside the ranges "
        "(np.dot rounds: the reported projections must match the exact ones within 2^-40 relative and the order is "
        "judged on exactly the floats the ranker reports). `emitter`: a real "
        "EvolutionStrategyEmitter + real archive (grid / sliding / proximity) driven through ask / add / rank / "
        "tell cycles with restarts (restart_rule no_improvement, 1, 2, basic; restarts detected through the public "
        "restart counter). `rejected calls` (drawn inside the batches / direction / emitter / long-resets strata, 1..3 "
        "per history at random positions incl. the very first and last op): a call the ranker REJECTS (raises) -- "
        "reset() against an archive whose bounds are unavailable (an empty ProximityArchive, one that is empty again "
        "after clear() -- a separate one or the archive in use --, a user-defined GridArchive subclass whose "
        "upper_bounds / lower_bounds property raises RuntimeError / ValueError / NotImplementedError / AttributeError "
        "/ a custom exception, archive=None), rank() with malformed inputs (add_info / data None or not a dict, a "
        "missing key, status too short / too long / 2-D, measures of another width / 3-D) -- after which the SAME "
        "object is used for the rest of the history and must behave exactly like a twin (deep copy taken before the "
        "first rejected call) that never makes these calls: same target_measure_dir straight after the rejection, "
        "same direction after every later reset, same outcome of every later rank call; the archive and the inputs "
        "of the rejected call must be unchanged. A case is non-trivial when some ranked batch has two rows with the same key "
        "(a tie) or the history has two resets; counted once per distinct op list")
PARTIAL = []
ASSUMPTIONS = [
    "keys are finite floats (NaN / infinite objectives are outside the property's quantifier)",
    "projections are compared exactly with the model where float arithmetic is exact (dyadic measures / directions, "
    "power-of-two directions, or axis-aligned power-of-two measure rows under a drawn direction); where np.dot "
    "rounds, the reported projections are compared with the exact ones within 2^-40 (float32: 2^-18) of "
    "sum|m_j d_j|, the best-first order is judged on the reported floats themselves, and the key sequence is not "
    "compared with the model's (near-ties may resolve differently)",
    "IEEE multiplication is correctly rounded: the drawn direction is compared with the correctly rounded exact "
    "product z*(upper-lower), after which the model is re-synchronised with the rounded value",
    "DensityRanker is exercised with a GridArchive subclass that adds compute_density (this tree has no "
    "DensityArchive)",
]
TRUSTED_EXTRA = ["numpy.random.default_rng / SeedSequence replay of the standard-normal draws"]
TECHNIQUE = "Lean 4 proof about an executable model + lock-step correspondence + property oracle"
LEVEL_TEXT = "proof (unbounded: all batches, all histories) + correspondence on generated cases"

KINDS = ["imp", "2imp", "rd", "2rd", "obj", "2obj", "nov", "density"]
CLS = {
    "imp": "ImprovementRanker",
    "2imp": "TwoStageImprovementRanker",
    "rd": "RandomDirectionRanker",
    "2rd": "TwoStageRandomDirectionRanker",
    "obj": "ObjectiveRanker",
    "2obj": "TwoStageObjectiveRanker",
    "nov": "NoveltyRanker",
    "density": "DensityRanker",
}
TWO = {"2imp", "2rd", "2obj"}
DIR = {"rd", "2rd"}
INT_DTYPES = ["int8", "int16", "int32", "int64", "uint8", "uint16", "uint32", "uint64", "intp", "uintp"]
FLOAT_DTYPES = ["float32", "float64"]
ERRS = {RuntimeError: "runtime", AttributeError: "attribute", ValueError: "value", KeyError: "key"}

# row layout inside ops: [status, value, objective, [measures...], novelty, density]
ST, VAL, OBJ, MEAS, NOV, DEN = range(6)

_DRV = [None]
STATS = {"range-subtraction-rounded": 0, "resets-after-the-bounds-moved": 0, "resets-skipped-empty-archive": 0,
         "rank-calls-compared": 0, "rank-calls-compared-rounded-projection": 0, "rank-calls-skipped-inexact-projection": 0, "rejections-compared": 0,
         "resets-replayed": 0, "resets-rounded-then-synchronised": 0, "restarts-inside-tell": 0,
         "tell-raised": 0, "rejected-calls-raised-then-object-used-again": 0, "rejected-calls-accepted-by-the-library": 0,
         "twin-compared-after-rejected-call": 0, "twin-compared-resets-after-rejected-call": 0,
         "twin-compared-rank-calls-after-rejected-call": 0}


def driver():
    d = _DRV[0]
    if d is None or d.p.poll() is not None:
        d = Driver("ranker")
        _DRV[0] = d
    return d


def _close_driver():
    if _DRV[0] is not None:
        _DRV[0].close()
        _DRV[0] = None


atexit.register(_close_driver)


# --------------------------------------------------------------------------
# helpers


_COPRIME = getattr(Fraction, "_from_coprime_ints", None)


def fr(x):
    """exact rational value of a finite float / numpy scalar"""
    if _COPRIME is not None:
        return _COPRIME(*float(x).as_integer_ratio())  # as_integer_ratio is in lowest terms
    return Fraction(float(x))


def qs(x):
    """wire form (`n` or `n/d`) of the exact value of a finite float / numpy scalar"""
    n, d = float(x).as_integer_ratio()
    return str(n) if d == 1 else f"{n}/{d}"


def finite(a):
    a = np.asarray(a)
    return a.dtype.kind in "iub" or bool(np.all(np.isfinite(a)))


def digest(obj):
    """checksum of a dict of arrays / an array (dtype, shape and bytes)"""
    h = hashlib.sha1()

    def feed(x):
        if isinstance(x, dict):
            for k in sorted(x):
                h.update(str(k).encode())
                feed(x[k])
        else:
            a = np.asarray(x)
            h.update(a.dtype.str.encode())
            h.update(repr(a.shape).encode())
            h.update(np.ascontiguousarray(a).tobytes() if a.dtype != object else repr(a.tolist()).encode())

    feed(obj)
    return h.hexdigest()


def archive_digest(archive):
    d = {"len": np.array(len(archive))}
    data = archive.data()
    order = np.argsort(np.asarray(data["index"]), kind="stable")
    for k, v in data.items():
        d["data." + k] = np.asarray(v)[order]
    for name in ("lower_bounds", "upper_bounds"):
        try:
            d[name] = np.asarray(getattr(archive, name))
        except (AttributeError, RuntimeError):  # ProximityArchive: undefined while empty
            pass
    return digest(d)


def make_archive(case):
    from ribs.archives import GridArchive, ProximityArchive, SlidingBoundariesArchive

    dt = np.dtype(case["adt"]).type
    sd = case["sol_dim"]
    if case["archive"] == "proximity":
        # bounds = min / max of the stored measures: they move as the archive grows
        return ProximityArchive(solution_dim=sd, measure_dim=len(case["ranges"]), k_neighbors=1,
                                novelty_threshold=case.get("nov_thr", 0.5), dtype=dt)
    if case["archive"] == "sliding":
        # bounds are recomputed from the buffer at every remap
        return SlidingBoundariesArchive(solution_dim=sd, dims=case["dims"], ranges=[tuple(r) for r in case["ranges"]],
                                        remap_frequency=case.get("remap", 3), buffer_capacity=case.get("buffer", 6),
                                        dtype=dt)

    class DensityGrid(GridArchive):
        """GridArchive with the `compute_density` method DensityRanker asks for."""

        table = None
        as_list = False

        def compute_density(self, measures):
            if self.table is not None:
                out = np.array(self.table)
            else:
                m = np.asarray(measures, dtype=np.float64)
                out = np.abs(m).sum(axis=1) if m.size else np.zeros(len(m))
            return out.tolist() if self.as_list else out

    cls = DensityGrid if case["archive"] == "density" else GridArchive
    return cls(solution_dim=sd, dims=case["dims"], ranges=[tuple(r) for r in case["ranges"]], dtype=dt)


def grow(archive, rows, d, sol_dim, single=False):
    """add rows to the archive (this is what moves the bounds of sliding / proximity archives)"""
    if not rows:
        return
    meas = np.array([r[MEAS] for r in rows], dtype=np.float64).reshape(len(rows), -1)[:, :d]
    obj = [r[OBJ] for r in rows]
    if single:
        for o, m in zip(obj, meas):
            archive.add_single(np.zeros(sol_dim), o, m)
    else:
        archive.add(np.zeros((len(rows), sol_dim)), obj, meas)


def bounds_of(archive):
    """(lower, upper) as the archive reports them right now, or None (empty ProximityArchive)"""
    try:
        return np.asarray(archive.lower_bounds), np.asarray(archive.upper_bounds)
    except RuntimeError:
        return None


def bounds_key(archive):
    b = bounds_of(archive)
    return None if b is None else (b[0].tolist(), b[1].tolist())


def replay_seed(case):
    """an independent, equal copy of the seed the ranker's generator is built from"""
    if case["seedkind"] == "none":
        return None
    if case["via"] == "emitter":
        return np.random.SeedSequence(case["seed"]).spawn(2)[1]
    if case["seedkind"] == "seq":
        return np.random.SeedSequence(case["seed"], spawn_key=(1,))
    return case["seed"]


def exact_dot_ok(meas, d):
    """every float operation of np.dot(meas, d) is exact, whatever the summation order"""
    bits = 24 if np.result_type(meas.dtype, d.dtype) == np.float32 else 53
    if meas.ndim != 2 or d.ndim != 1 or meas.shape[1] != d.shape[0]:
        return True  # rejected by both sides, nothing is computed
    dd = [fr(x) for x in d]
    for row in meas:
        prods = [fr(m) * x for m, x in zip(row, dd)]
        nz = [p for p in prods if p != 0]
        if not nz:
            continue
        quantum = Fraction(1, max(p.denominator for p in nz))
        if sum(abs(p) for p in nz) / quantum >= 2**bits:
            return False
        if any(abs(p) < Fraction(1, 2**900) or abs(p) > 2**900 for p in nz):
            return False
    return True


# --------------------------------------------------------------------------
# one case


class Run:
    """lock-step execution of one case"""

    def __init__(self, case):
        import ribs.emitters.rankers as rk
        from ribs.emitters import EvolutionStrategyEmitter

        self.case = case
        self.kind = case["kind"]
        self.drv = driver()
        self.archive = make_archive(case)
        self.d = len(case["ranges"])
        grow(self.archive, case.get("prefill") or [], self.d, case["sol_dim"])
        self.bounds_at_reset = []  # bounds in force at each replayed reset (coverage)
        self.seen_draws = {}  # unscaled direction -> number of the reset that produced it
        self.n_resets = 0
        self.alts = {}  # further archives a reset may be pointed at (reset takes the archive as an argument)
        self.twin = None  # deep copy of the ranker taken before the first REJECTED call; it never makes such calls
        cls = getattr(rk, CLS[self.kind])
        seedkind = case["seedkind"]
        self.replay = None if seedkind == "none" else np.random.default_rng(replay_seed(case))
        self.pending_reset = False
        bs = case.get("batch_size", 3)
        x0 = [0.0] * case["sol_dim"]
        if case["via"] == "emitter":
            got = []

            def factory(seed):
                r = cls(seed)
                got.append(r)
                return r

            self.emitter = EvolutionStrategyEmitter(self.archive, x0=x0, sigma0=1.0, ranker=factory,
                                                    seed=case["seed"], batch_size=bs,
                                                    restart_rule=case.get("restart_rule", "no_improvement"))
            self.ranker = got[0]
            self.pending_reset = True  # the emitter's constructor called reset(self, archive)
        else:
            if seedkind == "none":
                s = None
            elif seedkind == "seq":
                s = np.random.SeedSequence(case["seed"], spawn_key=(1,))
            else:
                s = case["seed"]
            form = case.get("ctor", "kw")  # the forms a ranker can be constructed in
            self.ranker = cls() if (s is None and form == "default") else cls(s) if form == "pos" else cls(seed=s)
            self.emitter = EvolutionStrategyEmitter(self.archive, x0=x0, sigma0=1.0, ranker="obj",
                                                    seed=case["seed"], batch_size=bs)
        self.drv.ask(f"new kind={self.kind}")

    # ---- direction -------------------------------------------------------

    def impl_dir(self):
        if self.kind not in DIR:
            return None
        v = self.ranker.target_measure_dir
        return None if v is None else np.array(v, copy=True)

    def model_dir(self):
        s = kvs(self.drv.ask("dir"))["dir"]
        return None if s == "none" else unql(s)

    def compare_dir(self, where):
        """model and implementation hold the same direction (exact)"""
        a, b = self.impl_dir(), self.model_dir()
        if self.kind not in DIR:
            return None if b is None else Failure("corr", f"{where}: model has a direction for a ranker without one")
        if (a is None) != (b is None):
            return Failure("corr", f"{where}: direction impl={a} model={b}")
        if a is not None and [fr(x) for x in a] != b:
            return Failure("corr", f"{where}: direction impl={a.tolist()} model={[float(x) for x in b]}")
        return None

    def after_reset(self, where, before, archive=None):
        """oracle + correspondence for a reset (against `archive`) that the implementation has just executed"""
        if self.kind not in DIR:
            self.drv.ask(f"reset z={ql([0] * self.d)} lo={ql([0] * self.d)} hi={ql([1] * self.d)}")
            return self.compare_dir(where)
        after = self.impl_dir()
        if self.twin is not None:
            # the twin that never made the rejected call(s) resets against the same archive: same direction
            self.twin.reset(self.emitter, self.archive if archive is None else archive)
            STATS["twin-compared-resets-after-rejected-call"] += 1
            f = self.twin_same(where)
            if f:
                return f
        # the archive's measure ranges AT THIS MOMENT (sliding / proximity archives move their bounds)
        lb, ub = bounds_of(self.archive if archive is None else archive)
        d = len(lb)
        rng_f = ub - lb  # the float subtraction the documented formula performs
        lo = [fr(x) for x in lb]
        hi = [fr(x) for x in ub]
        if [h - l for l, h in zip(lo, hi)] != [fr(x) for x in rng_f]:
            # upper - lower is itself rounded (non-dyadic bounds): hand the model the rounded ranges
            STATS["range-subtraction-rounded"] += 1
            lo, hi = [Fraction(0)] * d, [fr(x) for x in rng_f]
        if after is None or after.shape != (d,) or not finite(after):
            return Failure("oracle", f"{where}: direction after reset is {after}, expected shape ({d},)")
        if before is not None and np.array_equal(before, after) and any(h != l for l, h in zip(lo, hi)):
            return Failure("oracle", f"{where}: reset did not draw a new direction ({after.tolist()})")
        if all(h != l for l, h in zip(lo, hi)):
            # "on reset it draws a new one": a continuous draw never comes back (also checked when unseeded);
            # the unscaled vector is compared so that moving ranges cannot hide a re-used draw
            unscaled = tuple(float(fr(x) / (h - l)) for x, l, h in zip(after, lo, hi))
            if unscaled in self.seen_draws:
                return Failure("oracle", f"{where}: reset #{self.n_resets + 1} re-used the draw of reset "
                               f"#{self.seen_draws[unscaled]} (direction {after.tolist()})")
            self.seen_draws[unscaled] = self.n_resets + 1
        self.n_resets += 1
        if self.replay is None:
            # unseeded: nothing to replay; synchronise the model with the drawn direction
            self.drv.ask(f"setdir d={ql(qs(x) for x in after)}")
            return None
        z = self.replay.standard_normal(d)
        want = [float(fr(zj) * (h - l)) for zj, l, h in zip(z, lo, hi)]
        if after.tolist() != want:
            return Failure("oracle", f"{where}: direction {after.tolist()} != standard_normal({d}) * "
                           f"(upper_bounds - lower_bounds) = {want} replayed from the seed (z={z.tolist()}, "
                           f"current lower_bounds={lb.tolist()}, upper_bounds={ub.tolist()})")
        key = (lb.tolist(), ub.tolist())
        if self.bounds_at_reset and self.bounds_at_reset[-1] != key:
            STATS["resets-after-the-bounds-moved"] += 1
        self.bounds_at_reset.append(key)
        self.drv.ask(f"reset z={ql(qs(x) for x in z)} lo={ql(lo)} hi={ql(hi)}")
        m = self.model_dir()
        if m is None or [float(x) for x in m] != after.tolist():
            return Failure("corr", f"{where}: model direction {m} does not round to {after.tolist()}")
        STATS["resets-replayed"] += 1
        if m != [fr(x) for x in after]:
            # z * range was rounded by the float multiplication: continue from the rounded value
            STATS["resets-rounded-then-synchronised"] += 1
            self.drv.ask(f"setdir d={ql(qs(x) for x in after)}")
        return None

    def alt_archive(self, k):
        """the k-th alternative archive of the case (GridArchive with its own ranges / measure_dim)"""
        from ribs.archives import GridArchive
        if k not in self.alts:
            spec = self.case["alts"][k]
            self.alts[k] = GridArchive(solution_dim=self.case["sol_dim"], dims=[2] * len(spec),
                                       ranges=[tuple(r) for r in spec])
        return self.alts[k]

    def do_reset(self, where, op):
        target = self.archive
        if op.get("alt") is not None and self.kind in DIR and op["alt"] < len(self.case.get("alts") or []):
            target = self.alt_archive(op["alt"])
        if self.kind in DIR and bounds_of(target) is None:
            # empty ProximityArchive: it has no bounds yet (only reachable in shrunk cases)
            STATS["resets-skipped-empty-archive"] += 1
            return None
        before = self.impl_dir()
        if op.get("kw"):
            self.ranker.reset(emitter=self.emitter, archive=target)
        else:
            self.ranker.reset(self.emitter, target)
        return self.after_reset(where, before, target)

    # ---- rejected calls ----------------------------------------------------

    def twin_same(self, where):
        """the ranker holds the same public state as its twin, which never made the rejected call(s)"""
        if self.twin is None or self.kind not in DIR:
            return None
        a, b = self.ranker.target_measure_dir, self.twin.target_measure_dir
        same = (a is None) == (b is None)
        if same and a is not None:
            a, b = np.asarray(a), np.asarray(b)
            same = a.shape == b.shape and a.dtype == b.dtype and bool(np.array_equal(a, b))
        if not same:
            return Failure("oracle", f"{where}: after a rejected call the ranker's direction is "
                           f"{None if a is None else np.asarray(a).tolist()}; a copy of the ranker that never made the "
                           f"call holds {None if b is None else np.asarray(b).tolist()} (a rejected call is not a reset)")
        return None

    def twin_rank(self, where, data, add_info, out, err):
        """the same rank call on the twin: same outcome"""
        import copy
        terr, tout = None, None
        try:
            tout = self.twin.rank(self.emitter, self.archive, copy.deepcopy(data), copy.deepcopy(add_info))
        except Exception as e:  # pylint: disable=broad-except
            terr = next((v for k, v in ERRS.items() if isinstance(e, k)), "other:" + type(e).__name__)
        STATS["twin-compared-rank-calls-after-rejected-call"] += 1
        if err != terr:
            return Failure("oracle", f"{where}: rank after a rejected call: outcome {err or 'returned'}, on a copy of "
                           f"the ranker that never made the rejected call: {terr or 'returned'}")
        if err is None:
            try:
                same = len(out) == len(tout) == 2 and all(
                    np.asarray(x).shape == np.asarray(y).shape and np.array_equal(np.asarray(x), np.asarray(y))
                    for x, y in zip(out, tout))
            except Exception:  # pylint: disable=broad-except
                same = False
            if not same:
                return Failure("oracle", f"{where}: rank after a rejected call returned "
                               f"{[np.asarray(x).tolist() for x in out]}; a copy of the ranker that never made the "
                               f"rejected call returns {[np.asarray(x).tolist() for x in tout]}")
        return self.twin_same(where)

    def unbounded_archive(self, how):
        """an archive whose measure bounds are unavailable"""
        from ribs.archives import GridArchive, ProximityArchive
        d, sd = self.d, self.case["sol_dim"]
        if how in ("empty-proximity", "cleared-proximity"):
            a = ProximityArchive(solution_dim=sd, measure_dim=d, k_neighbors=1, novelty_threshold=0.5)
            if how == "cleared-proximity":
                # it HAD bounds (extent 3 / 0.25 per dimension) and is empty again
                a.add(np.zeros((2, sd)), [0.0, 1.0], np.array([[-1.0] * d, [2.0] * d]) * ([1.0, 0.125] * d)[:d])
                a.clear()
            return a
        if how == "none":
            return None
        which, _, exc_name = how.partition(":")  # a user-defined archive whose bounds property raises

        class Unavailable(LookupError):
            pass

        exc = {"runtime": RuntimeError, "value": ValueError, "notimplemented": NotImplementedError,
               "attribute": AttributeError, "custom": Unavailable}[exc_name]

        def raising(self_):
            raise exc("the bounds of this archive are not available")

        members = {}
        if which in ("upper", "both"):
            members["upper_bounds"] = property(raising)
        if which in ("lower", "both"):
            members["lower_bounds"] = property(raising)
        cls = type("UnboundedGrid", (GridArchive,), members)
        return cls(solution_dim=sd, dims=[2] * d, ranges=[tuple(r) for r in self.case["ranges"]])

    def rejected(self, where, op):
        """a call the ranker must REJECT (it raises), after which the object is used again: from the first such
        call on a twin (deep copy taken before the call) that never makes these calls is carried along, and the
        ranker must hold the same public state and return the same outputs for the rest of the history"""
        import copy
        how = op["how"]
        kind = self.kind
        if self.twin is None:
            self.twin = copy.deepcopy(self.ranker)
        refill = None
        if op["call"] == "reset":
            if how == "cleared-main":
                # the archive in use is emptied (ProximityArchive: no bounds while empty), the reset is rejected,
                # then entries arrive again
                if self.case["archive"] != "proximity" or self.case["via"] != "direct":
                    return None
                self.archive.clear()
                target, refill = self.archive, op.get("rows") or []
            else:
                target = self.unbounded_archive(how)

            def call():
                if op.get("kw"):
                    return self.ranker.reset(emitter=self.emitter, archive=target)
                return self.ranker.reset(self.emitter, target)
        else:
            rows = op["rows"]
            data, info = build_batch(rows, op["sdt"], op["fdt"], op["fdt"], self.d, self.case["sol_dim"])
            if self.case["archive"] == "density":
                self.archive.table = None
                self.archive.as_list = False
            if how == "add_info-none":
                info = None
            elif how == "data-none":
                data = None
            elif how == "add_info-not-a-dict":
                info = [info["status"], info["value"]]
            elif how.startswith("missing:"):
                for part in (data, info):
                    part.pop(how.split(":")[1], None)
            elif how == "status-short":
                info["status"] = info["status"][:-1]
            elif how == "status-long":
                info["status"] = np.concatenate([info["status"], info["status"][:1]])
            elif how == "status-2d":
                info["status"] = np.stack([info["status"], info["status"]], axis=0)
            elif how == "measures-wider":
                data["measures"] = np.concatenate([data["measures"], data["measures"][:, :1]], axis=1)
            elif how == "measures-narrower":
                data["measures"] = data["measures"][:, :-1] if self.d > 1 else data["measures"][:, :0]
            elif how == "measures-3d":
                data["measures"] = data["measures"][:, :, None] * np.ones(3)
            target = self.archive

            def call():
                if op.get("kw"):
                    return self.ranker.rank(emitter=self.emitter, archive=self.archive, data=data, add_info=info)
                return self.ranker.rank(self.emitter, self.archive, data, info)
        before = (archive_digest(self.archive), None if op["call"] == "reset" else digest({"data": data or {}, "add_info": info if isinstance(info, dict) else {}}))
        raised = None
        try:
            call()
        except Exception as e:  # pylint: disable=broad-except
            raised = e
        if refill is not None:
            grow(self.archive, refill, self.d, self.case["sol_dim"])
        if raised is None:
            # not rejected: whatever the call did is not judged here (the property does not demand rejections);
            # the twin and the model follow the ranker
            STATS["rejected-calls-accepted-by-the-library"] += 1
            self.twin = copy.deepcopy(self.ranker)
            if kind in DIR:
                v = self.impl_dir()
                if v is not None and finite(v) and v.ndim == 1:
                    self.drv.ask(f"setdir d={ql(qs(x) for x in v)}")
            return None
        STATS["rejected-calls-raised-then-object-used-again"] += 1
        if refill is None:
            after = (archive_digest(self.archive), None if op["call"] == "reset" else digest({"data": data or {}, "add_info": info if isinstance(info, dict) else {}}))
            if before != after:
                return Failure("oracle", f"{where}: the rejected call ({type(raised).__name__}) modified the archive or its inputs")
        STATS["twin-compared-after-rejected-call"] += 1
        f = self.twin_same(f"{where} raised {type(raised).__name__}")
        if f:
            return f
        return self.compare_dir(where)

    # ---- rank ------------------------------------------------------------

    def rank(self, where, data, add_info, dens=None, has_density=True, kw=False):
        """one `rank` call on both sides; `dens` = what compute_density returns for this batch"""
        kind = self.kind
        dir0 = self.impl_dir()
        rounded = False  # the float dot product rounds: projections are judged on the reported floats
        if kind in DIR and dir0 is not None and "measures" in data:
            meas0 = np.asarray(data["measures"])
            if not finite(dir0) or meas0.ndim != 2 or (meas0.shape[0] == 0 and meas0.shape[1:] != dir0.shape):
                STATS["rank-calls-skipped-inexact-projection"] += 1
                return "skipped"
            rounded = not exact_dot_ok(meas0, dir0)
        before = (digest(data), digest(add_info), archive_digest(self.archive))
        err = None
        out = None
        try:
            if kw:
                out = self.ranker.rank(emitter=self.emitter, archive=self.archive, data=data, add_info=add_info)
            else:
                out = self.ranker.rank(self.emitter, self.archive, data, add_info)
        except Exception as e:  # pylint: disable=broad-except
            err = next((v for k, v in ERRS.items() if isinstance(e, k)), "other:" + type(e).__name__)
        after = (digest(data), digest(add_info), archive_digest(self.archive))
        for name, x, y in zip(("data", "add_info", "archive"), before, after):
            if x != y:
                return Failure("oracle", f"{where}: rank modified its input `{name}`")
        if self.twin is not None:
            f = self.twin_rank(where, data, add_info, out, err)
            if f:
                return f
        dir1 = self.impl_dir()
        if (dir0 is None) != (dir1 is None) or (dir0 is not None and not np.array_equal(dir0, dir1)):
            return Failure("oracle", f"{where}: rank changed the direction {dir0} -> {dir1}")

        # -- harness keys (exact rationals, straight from the raw inputs)
        n_of = {"imp": "value", "2imp": "value", "obj": "objective", "2obj": "objective", "nov": "novelty"}
        keys = None
        expect_err = None
        st = [int(x) for x in add_info["status"]] if "status" in add_info else None
        if kind in DIR:
            meas = np.asarray(data["measures"])
            if dir0 is None:
                expect_err = "runtime"
            elif meas.shape[1] != len(dir0):
                expect_err = "value"
            else:
                dd = [fr(x) for x in dir0]
                base = [sum((fr(m) * x for m, x in zip(row, dd)), Fraction(0)) for row in meas]
        elif kind == "density":
            if not has_density:
                expect_err = "attribute"
            else:
                base = [fr(x) for x in dens]
        else:
            src = data if n_of[kind] == "objective" else add_info
            if n_of[kind] not in src:
                expect_err = "key"
            else:
                base = [fr(x) for x in src[n_of[kind]]]
        if expect_err is None and kind in TWO and len(st) != len(base):
            expect_err = "value"
        if expect_err is None:
            keys = [((st[i] if kind in TWO else 0), base[i]) for i in range(len(base))]

        # -- model
        nov = ql(qs(x) for x in add_info["novelty"]) if "novelty" in add_info else "none"
        den = ql(qs(x) for x in dens) if has_density and dens is not None else "none"
        meas_s = ";".join(ql(qs(x) for x in row) for row in np.asarray(data["measures"])) or "-"
        resp = kvs(self.drv.ask(
            f"rank obj={ql(qs(x) for x in data['objective'])} meas={meas_s} "
            f"st={nl(add_info['status']) if 'status' in add_info else '-'} "
            f"val={ql(qs(x) for x in add_info['value']) if 'value' in add_info else '-'} nov={nov} dens={den}"))

        # -- oracle
        if expect_err is not None:
            if err is None:
                # the property does not demand a rejection; the model does (correspondence)
                return Failure("corr", f"{where}: impl accepted, model says {resp}")
            if resp.get("err") != err:
                return Failure("corr", f"{where}: rejection impl={err} model={resp}")
            STATS["rejections-compared"] += 1
            return None
        if err is not None:
            return Failure("oracle", f"{where}: valid rank call raised {err}")
        n = len(keys)
        try:
            idx, vals = out
            idx = np.asarray(idx)
            varr = np.asarray(vals)
        except Exception as e:  # pylint: disable=broad-except
            return Failure("oracle", f"{where}: rank did not return (indices, ranking_values): {e!r}")
        if idx.shape != (n,) or idx.dtype.kind not in "iu" or sorted(idx.tolist()) != list(range(n)):
            return Failure("oracle", f"{where}: indices {idx.tolist()} are not a permutation of 0..{n-1}")
        idx = [int(i) for i in idx]
        shape = (n, 2) if kind in TWO else (n,)
        if varr.shape != shape or varr.dtype.kind not in "fiu" or not finite(varr):
            return Failure("oracle", f"{where}: ranking values have shape {varr.shape} / dtype {varr.dtype}, "
                           f"expected finite numbers of shape {shape}")
        got = [(fr(r[0]), fr(r[1])) for r in varr] if kind in TWO else [(0, fr(x)) for x in varr]
        slack = [Fraction(0)] * n
        if rounded:
            # np.dot rounds here: the reported projection must be the exact one up to accumulated rounding
            # (continuous relation), and the ORDER is judged on exactly the floats the ranker reports
            bits = 18 if varr.dtype == np.float32 else 40
            slack = [sum((abs(fr(m) * x) for m, x in zip(row, dd)), Fraction(0)) / 2**bits for row in meas]
        bad = [i for i in range(n) if got[i][0] != keys[i][0] or abs(got[i][1] - keys[i][1]) > slack[i]]
        if bad:
            return Failure("oracle", f"{where}: ranking value at position {bad[0]} is {show_key(got[bad[0]])}, "
                           f"the key of that solution is {show_key(keys[bad[0]])}")
        along = [got[i] for i in idx]  # == keys (exact) unless `rounded`
        for t in range(n - 1):
            worse = along[t] > along[t + 1] if kind == "density" else along[t] < along[t + 1]
            if worse:
                return Failure(
                    "oracle", f"{where}: not best-first: position {idx[t]} (key {show_key(along[t])}) is ranked before "
                    f"position {idx[t+1]} (key {show_key(along[t+1])}); indices {idx}")

        # -- correspondence
        if "err" in resp:
            return Failure("corr", f"{where}: impl ranked, model rejects with {resp['err']}")
        midx = unnl(resp["idx"])
        if kind in TWO:
            mkeys = [] if resp["vals"] == "-" else [(int(t.split(":")[0]), Fraction(t.split(":")[1]))
                                                     for t in resp["vals"].split(",")]
        else:
            mkeys = [(0, x) for x in unql(resp["vals"])]
        if len(mkeys) != n or any(mkeys[i][0] != got[i][0] or abs(mkeys[i][1] - got[i][1]) > slack[i]
                                  for i in range(n)):
            return Failure("corr", f"{where}: ranking values impl={[show_key(k) for k in got]} "
                           f"model={[show_key(k) for k in mkeys]}")
        if sorted(midx) != list(range(n)):
            return Failure("corr", f"{where}: model indices {midx} are not a permutation")
        if rounded:
            # the model ranks the exact projections, the implementation the rounded ones: near-ties may
            # legitimately resolve differently, so the key sequences are not compared here
            STATS["rank-calls-compared-rounded-projection"] += 1
            return self.compare_dir(where)
        if [mkeys[i] for i in idx] != [mkeys[i] for i in midx]:
            return Failure("corr", f"{where}: key sequence along impl ranking {idx} differs from the one along the "
                           f"model ranking {midx}")
        STATS["rank-calls-compared"] += 1
        return self.compare_dir(where)


def show_key(k):
    return f"({k[0]}, {float(k[1])!r})"


def build_batch(rows, sdt, fdt, mdt, d, sol_dim):
    n = len(rows)
    data = {
        "solution": np.zeros((n, sol_dim), dtype=mdt),
        "objective": np.array([r[OBJ] for r in rows], dtype=fdt),
        "measures": np.array([r[MEAS] for r in rows], dtype=mdt).reshape(n, -1 if n else d),
    }
    info = {
        "status": np.array([r[ST] for r in rows], dtype=sdt),
        "value": np.array([r[VAL] for r in rows], dtype=fdt),
        "novelty": np.array([r[NOV] for r in rows], dtype=fdt),
    }
    return data, info


_MAIN_PID = os.getpid()
_STATS_DIR = [None]  # where forked thorough-tier workers leave their counters
_CASES = [0]


def run_case(case):
    warnings.simplefilter("ignore")
    try:
        return _run_case(case)
    except Infra:
        _close_driver()
        raise
    finally:
        _CASES[0] += 1
        if os.getpid() != _MAIN_PID and _STATS_DIR[0] and _CASES[0] % 20 == 0:
            # a forked worker of the thorough tier: its counters would otherwise be lost
            path = os.path.join(_STATS_DIR[0], f"{os.getpid()}.json")
            with open(path + ".tmp", "w") as f:
                json.dump(STATS, f)
            os.replace(path + ".tmp", path)


def cycle(run, case, op, where):
    """one evaluated batch with REAL add feedback: (ask) / archive.add / rank, and for a full batch of an
    emitter-driven case also tell() -- which may restart the emitter and thereby reset the ranker"""
    kind = case["kind"]
    archive = run.archive
    adt = case["adt"]
    rows = op["rows"]
    n = len(rows)
    full = op["op"] in ("gen", "gens") and n == run.emitter.batch_size
    if n == 0:
        return None
    sols = run.emitter.ask() if full else np.zeros((n, case["sol_dim"]), dtype=adt)
    obj = np.array([r[OBJ] for r in rows], dtype=adt)
    meas = np.array([r[MEAS] for r in rows], dtype=adt).reshape(n, -1)
    info = archive.add(sols, obj, meas)
    data = {"solution": np.asarray(sols), "objective": obj, "measures": meas}
    has_density = case["archive"] == "density"
    dens = None
    if has_density:
        archive.table = None
        archive.as_list = False
        dens = archive.compute_density(meas)
    f = run.rank(where, data, info, dens=dens, has_density=has_density)
    if isinstance(f, Failure):
        return f
    if full and case["via"] == "emitter":
        before = run.impl_dir()
        restarts = run.emitter.restarts
        try:
            run.emitter.tell(sols, obj, meas, info)
        except Exception:  # pylint: disable=broad-except
            # the optimizer's update is not this property's business (C10 / C18)
            STATS["tell-raised"] += 1
            return "stop"
        after = run.impl_dir()
        if run.emitter.restarts != restarts:
            # the emitter restarted: exactly one reset, against the archive's bounds as they are now
            STATS["restarts-inside-tell"] += 1
            return run.after_reset(where + " (restart inside tell)", before)
        if kind in DIR and not np.array_equal(before, after):
            return Failure("oracle", f"{where}: the direction moved in tell() without a restart "
                           f"({before} -> {after})")
        return run.compare_dir(where + " (after tell)")
    return None


def _run_case(case):
    run = Run(case)
    kind = case["kind"]
    archive = run.archive
    sol_dim = case["sol_dim"]
    d = run.d
    adt = case["adt"]
    if run.pending_reset:
        f = run.after_reset("construction by the emitter", None)
        if f:
            return f
    else:
        f = run.compare_dir("after construction")
        if f:
            return f
    for step, op in enumerate(case["ops"]):
        name = op["op"]
        where = f"op#{step} {name}"
        if name == "reset":
            f = run.do_reset(where, op)
            if f:
                return f
        elif name == "resets":
            # `count` resets in a row of ONE ranker object (one op, so that shrinking stays cheap)
            for k in range(op["count"]):
                f = run.do_reset(f"{where} ({k + 1} of {op['count']})", op)
                if f:
                    return f
        elif name == "setdir":
            if kind not in DIR:
                continue
            v = np.array(op["d"], dtype=op.get("dt", "float64"))
            run.ranker.target_measure_dir = v
            if run.twin is not None:
                run.twin.target_measure_dir = v.copy()
            run.drv.ask(f"setdir d={ql(qs(x) for x in v)}")
            f = run.compare_dir(where)
            if f:
                return f
        elif name == "rejected":
            f = run.rejected(f"{where} [{op['call']}: {op['how']}]", op)
            if f:
                return f
        elif name == "fill":
            before = run.impl_dir()
            grow(archive, op["rows"], d, sol_dim, single=bool(op.get("single")))
            after = run.impl_dir()
            if (before is None) != (after is None) or (before is not None and not np.array_equal(before, after)):
                return Failure("oracle", f"{where}: the direction moved without a reset ({before} -> {after})")
        elif name == "rank":
            rows = op["rows"]
            data, info = build_batch(rows, op["sdt"], op["fdt"], op.get("mdt", op["fdt"]), d, sol_dim)
            dens = None
            has_density = case["archive"] == "density"
            if has_density:
                dens = np.array([r[DEN] for r in rows], dtype=op["fdt"])
                archive.table = dens.tolist() if op.get("denlist") else dens
                archive.as_list = bool(op.get("denlist"))
            cut = op.get("cut")
            if cut == "status" and len(rows):
                info["status"] = info["status"][:-1]
            elif cut == "novelty":
                del info["novelty"]
            if op.get("aslist") and len(rows):
                # plain (nested) lists instead of arrays, as in the library's own tests
                data = {k: v.tolist() for k, v in data.items()}
                info = {k: v.tolist() for k, v in info.items()}
            f = run.rank(where, data, info, dens=dens, has_density=has_density, kw=bool(op.get("kw")))
            if isinstance(f, Failure):
                return f
        elif name in ("addrank", "gen", "gens"):
            for rep_k in range(op.get("count", 1) if name == "gens" else 1):
                w = f"op#{step} gens ({rep_k + 1} of {op['count']})" if name == "gens" else where
                f = cycle(run, case, op, w)
                if isinstance(f, Failure):
                    return f
                if f == "stop":
                    return None
    return None


# --------------------------------------------------------------------------
# generators

DYADIC = [-4.0, -3.0, -2.0, -1.5, -1.0, -0.75, -0.5, -0.25, -0.0, 0.0, 0.25, 0.5, 0.75, 1.0, 1.5, 2.0, 3.0, 5.0]
WILD = [0.1, -0.1, 1.0 / 3.0, 1e-30, -1e-30, 1e30, -1e30, 5e-324, -5e-324, 123456.789, -2.5e-7, 16777217.0,
        0.30000000000000004, 0.3]
RANGES_POW2 = [[0.0, 1.0], [-1.0, 1.0], [0.5, 1.0], [-2.0, 2.0], [0.0, 4.0], [-0.25, 0.25], [1.0, 9.0],
               [-0.5, 0.0]]
RANGES_ANY = [[0.0, 3.0], [-1.0, 0.5], [0.25, 1.0], [-5.0, 5.0], [0.0, 1.25], [-3.0, -0.5]]


NEAR_BASES = [0.3, -0.3, 1.0, -1.0, 0.1, 7.0, -2.5e-7, 1e-9, 3e-10, -4e-10, 5e-6, 1e-3, 123.456, -98765.4321,
              7e5, -1e6, 1e8, 2e-12]


def near_pool(rng):
    """keys that differ by tiny amounts without being equal: relative 1e-12..1e-9, absolute 1e-13..1e-10,
    one ulp -- at many magnitudes and both signs (plus the odd exact tie)"""
    import math
    base = rng.choice(NEAR_BASES) if rng.random() < 0.7 else \
        rng.choice([-1, 1]) * rng.uniform(1, 10) * 10.0**rng.randint(-10, 8)
    out = [base]
    for _ in range(rng.choice([1, 2, 3, 4])):
        r = rng.random()
        if r < 0.4:
            out.append(base * (1 + rng.choice([-1, 1]) * rng.uniform(1, 10) * 10.0**rng.randint(-13, -10)))
        elif r < 0.8:
            out.append(base + rng.choice([-1, 1]) * rng.uniform(1, 10) * 10.0**rng.randint(-14, -11))
        elif r < 0.9:
            out.append(math.nextafter(base, rng.choice([-math.inf, math.inf])))
        else:
            out.append(base)
    return out


def pow2_dir(rng, d, single=False):
    """direction whose entries are 0 or signed powers of two: m * entry is exact for EVERY float m"""
    v = [0.0] * d
    hot = [rng.randrange(d)] if single else [j for j in range(d) if rng.random() < 0.7] or [rng.randrange(d)]
    for j in hot:
        v[j] = rng.choice([-1, 1]) * 2.0**rng.randint(-3, 3)
    return v


def near_rows(rng, n, d, direction):
    """rows whose projections onto `direction` (from pow2_dir) are near-equal and computed exactly:
    one arbitrary float on an axis the direction sees; where the direction is 0 anything goes"""
    rows = gen_rows(rng, n, d, False, False, near=True)
    pool = near_pool(rng)
    hot = [j for j in range(d) if direction[j] != 0.0]
    for r in rows:
        m = [0.0 if direction[j] != 0.0 else rng.choice([0.0, rng.gauss(0, 1), 0.7]) for j in range(d)]
        j = rng.choice(hot)
        m[j] = rng.choice(pool) / abs(direction[j]) if rng.random() < 0.5 else rng.choice(pool)
        r[MEAS] = m
    return rows


def wide_ranges(rng, d):
    """measure ranges from 1e-6 to 1e6, different per dimension, zero-based / symmetric / offset"""
    out = []
    for _ in range(d):
        w = rng.choice([1.0, 2.0, 5.0, 2.5, 1.0]) * 10.0**rng.randint(-6, 6)
        r = rng.random()
        lo = 0.0 if r < 0.5 else -w if r < 0.7 else -w / 2 if r < 0.85 else w
        out.append([lo, lo + w if lo != w else 3 * w])
    return out


def scales_of(ranges):
    """per dimension the largest power of two not above the width of the range"""
    import math
    return [2.0**math.floor(math.log2(hi - lo)) for lo, hi in ranges]


def value_pool(rng, wild):
    k = rng.choice([1, 2, 2, 3, 4, 6])
    src = DYADIC + (WILD + [rng.gauss(0, 1) for _ in range(3)] if wild else [])
    return [rng.choice(src) for _ in range(k)]


def grid_row(rng, d):
    return [rng.choice([-2.0, -1.0, -0.5, 0.0, 0.0, 0.25, 0.5, 1.0, 1.0, 1.5, 2.0]) for _ in range(d)]


def axis_row(rng, d, scales=None):
    """at most one non-zero entry, a signed power of two (of the size of that dimension's range):
    exact under any direction"""
    row = [0.0] * d
    if rng.random() < 0.85:
        j = rng.randrange(d)
        row[j] = rng.choice([-1, 1]) * 2.0**rng.randint(-2, 2) * (scales[j] if scales else 1.0)
    return row


def free_row(rng, d, scales=None):
    """arbitrary floats of the size of the ranges: the projection rounds (judged on the reported floats)"""
    return [rng.uniform(-1, 1) * (scales[j] if scales else 1.0) for j in range(d)]


def gen_rows(rng, n, d, wild, axis, near=False, scales=None, free=False):
    pools = [near_pool(rng) if near else value_pool(rng, wild) for _ in range(4)]
    base = free_row if free else axis_row if axis else grid_row
    mk = (lambda r, k: base(r, k, scales)) if (free or axis) else base
    mpool = [mk(rng, d) for _ in range(rng.choice([1, 2, 3, 5, 8]))]
    stpool = rng.choice([[0, 1, 2], [0, 1, 2], [0, 1], [1, 2], [2], [0, 2], [0]])
    rows = []
    for _ in range(n):
        m = list(rng.choice(mpool)) if rng.random() < 0.8 else mk(rng, d)
        rows.append([rng.choice(stpool), rng.choice(pools[0]), rng.choice(pools[1]), m,
                     abs(rng.choice(pools[2])), abs(rng.choice(pools[3]))])
    return rows


def batch_size(rng):
    r = rng.random()
    if r < 0.02:
        return 0
    if r < 0.12:
        return 1
    if r < 0.25:
        return 2
    return rng.randint(3, 12)


def base_case(rng, kind, pow2=None):
    d = rng.choice([1, 2, 2, 3, 4])
    if pow2 is None:
        pow2 = rng.random() < 0.7
    return {
        "kind": kind,
        "seed": rng.randrange(2**32),
        "seedkind": "int",
        "via": "direct",
        "adt": rng.choice(FLOAT_DTYPES),
        "archive": "proximity" if kind == "nov" and rng.random() < 0.3 else
                   ("density" if kind == "density" or rng.random() < 0.15 else "grid"),
        "ranges": [list(rng.choice(RANGES_POW2 if pow2 or rng.random() < 0.4 else RANGES_ANY)) for _ in range(d)],
        "dims": [rng.choice([1, 2, 3, 5]) for _ in range(d)],
        "sol_dim": rng.choice([1, 2, 3]),
        "batch_size": rng.randint(2, 6),
    }


def dyadic_dir(rng, d):
    return [rng.choice([-2.0, -1.0, -0.5, -0.25, 0.0, 0.25, 0.5, 1.0, 1.0, 2.0, 3.0]) for _ in range(d)]


def gen_batches(rng):
    kind = rng.choice(KINDS)
    case = base_case(rng, kind)
    d = len(case["ranges"])
    ops = []
    if rng.random() < 0.6:
        ops.append({"op": "fill", "rows": gen_rows(rng, rng.randint(1, 6), d, False, False)})
    have_dir = False
    for _ in range(rng.randint(1, 5)):
        if kind in DIR and (not have_dir and rng.random() < 0.93 or rng.random() < 0.3):
            ops.append({"op": "setdir", "d": dyadic_dir(rng, d), "dt": rng.choice(FLOAT_DTYPES)})
            have_dir = True
        n = batch_size(rng)
        r = rng.random()
        if r < 0.12 and case["archive"] != "proximity" and kind != "nov":
            ops.append({"op": "addrank", "rows": gen_rows(rng, max(n, 1), d, False, False)})
            continue
        fdt = rng.choice(FLOAT_DTYPES)
        if rng.random() < 0.3:
            # near-equal (not equal) keys at many magnitudes, both signs; projections computed exactly
            fdt = rng.choice(["float64", "float64", "float64", "float32"])
            if kind in DIR:
                direction = pow2_dir(rng, d, single=rng.random() < 0.4)
                ops.append({"op": "setdir", "d": direction, "dt": "float64"})
                have_dir = True
                rows = near_rows(rng, max(n, 2), d, direction)
            else:
                rows = gen_rows(rng, max(n, 2), d, False, False, near=True)
            ops.append({"op": "rank", "rows": rows, "sdt": rng.choice(INT_DTYPES), "fdt": fdt, "mdt": fdt,
                        "denlist": rng.random() < 0.2, "kw": rng.random() < 0.3, "aslist": rng.random() < 0.15,
                        "near": True})
            if kind in DIR:
                have_dir = False  # the next plain op installs a dyadic direction again
            continue
        op = {"op": "rank", "rows": gen_rows(rng, n, d, kind not in DIR and rng.random() < 0.5, False),
              "sdt": rng.choice(INT_DTYPES), "fdt": fdt, "mdt": rng.choice([fdt, "float64"]),
              "denlist": rng.random() < 0.2, "kw": rng.random() < 0.3, "aslist": rng.random() < 0.1}
        r = rng.random()
        if r < 0.04:
            op["cut"] = "status"
        elif r < 0.08:
            op["cut"] = "novelty"
        ops.append(op)
    if kind in DIR and rng.random() < 0.1:
        # wrong direction length
        bad = d + rng.choice([-1, 1])
        if bad >= 1:
            ops.append({"op": "setdir", "d": dyadic_dir(rng, bad), "dt": "float64"})
            ops.append({"op": "rank", "rows": gen_rows(rng, rng.randint(1, 4), d, False, False), "sdt": "int32",
                        "fdt": "float64"})
    if kind == "density" and rng.random() < 0.1:
        case["archive"] = "grid"  # no compute_density: AttributeError
    sprinkle_rejected(rng, case, ops, 0.35, lambda: [
        {"op": "rank", "rows": gen_rows(rng, rng.randint(1, 6), d, False, False), "sdt": rng.choice(INT_DTYPES),
         "fdt": rng.choice(FLOAT_DTYPES)}])
    case["ops"] = ops
    return case


def moving_archive(rng, case, d):
    """archive whose measure bounds move while it is used: SlidingBoundariesArchive (remaps) or
    ProximityArchive (bounds = extent of the contents; must not be empty at a reset)"""
    case["archive"] = rng.choice(["sliding", "proximity"])
    if case["archive"] == "sliding":
        case["remap"] = rng.choice([1, 2, 3, 5])
        case["buffer"] = rng.choice([2, 4, 8])
        case["dims"] = [rng.choice([2, 3, 5]) for _ in range(d)]
        case["prefill"] = wide_rows(rng, rng.choice([0, 0, 1, 3]), d, case.get("scales"))
    else:
        case["nov_thr"] = rng.choice([0.0, 0.25, 0.5])
        case["prefill"] = wide_rows(rng, rng.randint(1, 4), d, case.get("scales"))


def wide_rows(rng, n, d, scales=None):
    """rows whose (dyadic) measures spread well beyond the initial ranges, so that bounds really move"""
    rows = gen_rows(rng, n, d, False, False)
    scale = rng.choice([0.25, 1.0, 1.0, 4.0])
    for r in rows:
        r[MEAS] = [scale * (scales[j] if scales else 1.0) *
                   rng.choice([-3.0, -2.0, -1.0, -0.5, 0.0, 0.25, 0.5, 1.0, 1.5, 2.0, 5.0]) for j in range(d)]
    return rows


def maybe_wide(rng, case, p):
    """with probability p: measure ranges between 1e-6 and 1e6, different per dimension, so that the drawn
    direction and the projections live at many magnitudes"""
    if rng.random() < p:
        case["ranges"] = wide_ranges(rng, len(case["ranges"]))
        case["scales"] = scales_of(case["ranges"])
        case["wide"] = True
    return case.get("scales")


def gen_direction(rng):
    kind = rng.choice(["rd", "2rd"])
    case = base_case(rng, kind)
    case["archive"] = rng.choice(["grid", "density"])
    d = len(case["ranges"])
    scales = maybe_wide(rng, case, 0.45)
    moving = rng.random() < 0.6
    if moving:
        moving_archive(rng, case, d)
    case["ctor"] = rng.choice(["kw", "pos", "default"])
    case["seedkind"] = rng.choice(["int", "int", "seq", "none"] if rng.random() < 0.5 else ["int", "seq"])
    case["via"] = rng.choice(["direct", "emitter"]) if case["seedkind"] == "int" else "direct"
    ops = []
    if rng.random() < 0.3:
        ops.append({"op": "fill", "rows": gen_rows(rng, rng.randint(1, 4), d, False, False)})
    real = case["via"] == "emitter"  # a drawn (non-dyadic) direction is in force
    for _ in range(rng.randint(2, 10)):
        r = rng.random()
        if moving and rng.random() < 0.35:
            # entries arrive between two resets: the archive's bounds move (remap / growth)
            ops.append({"op": "fill", "rows": wide_rows(rng, rng.randint(1, 5), d, scales),
                        "single": rng.random() < 0.5})
        if r < 0.35:
            ops.append({"op": "reset", "kw": rng.random() < 0.3})
            real = True
        elif r < 0.45:
            ops.append({"op": "setdir", "d": dyadic_dir(rng, d), "dt": rng.choice(FLOAT_DTYPES)})
            real = False
        else:
            fdt = rng.choice(FLOAT_DTYPES)
            # under a drawn direction: axis-aligned power-of-two rows of the size of the ranges (exact
            # projections), or arbitrary rows inside the ranges (rounded projections, judged on the reported floats)
            free = real and rng.random() < 0.3
            ops.append({"op": "rank", "rows": gen_rows(rng, batch_size(rng), d, False, real, scales=scales, free=free),
                        "sdt": rng.choice(INT_DTYPES), "fdt": fdt, "mdt": "float64" if scales else fdt,
                        "kw": rng.random() < 0.3})

    def follow():
        # the ranker is used again after the rejected call: rank under the direction it holds, reset, rank
        fdt = rng.choice(FLOAT_DTYPES)
        out = [{"op": "rank", "rows": gen_rows(rng, rng.randint(1, 6), d, False, True, scales=scales),
                "sdt": rng.choice(INT_DTYPES), "fdt": fdt, "mdt": "float64" if scales else fdt}]
        if rng.random() < 0.6:
            out = out + [{"op": "reset", "kw": rng.random() < 0.3}] + [dict(out[0])]
        return out

    sprinkle_rejected(rng, case, ops, 0.6, follow)
    case["ops"] = ops
    return case


def gen_emitter(rng, adts=tuple(FLOAT_DTYPES)):
    kind = rng.choice(KINDS)
    case = base_case(rng, kind)
    case["adt"] = rng.choice(list(adts))
    case["via"] = "emitter"
    case["archive"] = {"nov": "proximity", "density": "density"}.get(kind, "grid")
    d = len(case["ranges"])
    scales = maybe_wide(rng, case, 0.45) if kind in DIR else None
    if kind in DIR and rng.random() < 0.7:
        # restarts (= ranker resets) on an archive whose bounds have moved since the previous reset
        moving_archive(rng, case, d)
    case["restart_rule"] = rng.choice(["no_improvement", "no_improvement", 1, 1, 2, "basic"])
    bs = case["batch_size"]
    ops = []
    floor = 0.0
    for _ in range(rng.randint(2, 7)):
        rows = gen_rows(rng, bs, d, False, kind in DIR, scales=scales, free=kind in DIR and rng.random() < 0.3,
                        near=kind not in DIR and rng.random() < 0.2)
        if rng.random() < 0.35:
            # a batch that cannot improve anything: the emitter restarts and resets its ranker
            floor -= 8.0
            for r in rows:
                r[OBJ] = floor + rng.choice([-1.0, -0.5, -0.5, 0.0])
        ops.append({"op": "gen", "rows": rows})
    sprinkle_rejected(rng, case, ops, 0.4, lambda: [
        {"op": "gen", "rows": gen_rows(rng, bs, d, False, kind in DIR, scales=scales)}])
    case["ops"] = ops
    return case


# rejected calls -------------------------------------------------------------------

RESET_REJECTIONS = (["empty-proximity", "cleared-proximity", "none"] +
                    [f"{w}:{e}" for w in ("upper", "lower", "both")
                     for e in ("runtime", "value", "notimplemented", "attribute", "custom")])
_NEEDS_INFO = {"imp", "2imp", "2rd", "2obj", "nov"}
_NEEDS_DATA = {"rd", "2rd", "obj", "2obj", "density"}
_KEY_OF = {"imp": ["value"], "2imp": ["value", "status"], "rd": ["measures"], "2rd": ["measures", "status"],
           "obj": ["objective"], "2obj": ["objective", "status"], "nov": ["novelty"], "density": ["measures"]}
ALL_RANK_REJECTIONS = (["add_info-none", "add_info-not-a-dict", "data-none", "status-short", "status-long",
                        "status-2d", "measures-wider", "measures-narrower", "measures-3d"] +
                       ["missing:" + k for k in ("value", "status", "measures", "objective", "novelty")])


def rank_rejections(kind):
    """the malformed rank calls that concern this ranker (it reads the malformed part)"""
    out = ["missing:" + k for k in _KEY_OF[kind]]
    if kind in _NEEDS_INFO:
        out += ["add_info-none", "add_info-not-a-dict"]
    if kind in _NEEDS_DATA:
        out.append("data-none")
    if kind in TWO:
        out += ["status-short", "status-long", "status-2d"]
    if kind in DIR:
        out += ["measures-wider", "measures-narrower", "measures-3d"]
    return out


def gen_rejected(rng, case, d):
    """one call that is to be rejected: reset() against an archive whose bounds are unavailable (an empty /
    emptied ProximityArchive, a user-defined archive whose bounds properties raise, no archive at all), or rank()
    with malformed data / add feedback"""
    kind = case["kind"]
    if rng.random() < (0.6 if kind in DIR else 0.1):
        hows = list(RESET_REJECTIONS)
        if case["archive"] == "proximity" and case["via"] == "direct":
            hows += ["cleared-main"] * 6
        op = {"op": "rejected", "call": "reset", "how": rng.choice(hows), "kw": rng.random() < 0.3}
        if op["how"] == "cleared-main":
            op["rows"] = wide_rows(rng, rng.randint(1, 4), d, case.get("scales"))
        return op
    hows = rank_rejections(kind) if rng.random() < 0.85 else ALL_RANK_REJECTIONS
    return {"op": "rejected", "call": "rank", "how": rng.choice(hows), "kw": rng.random() < 0.3,
            "rows": gen_rows(rng, rng.randint(1, 5), d, False, kind in DIR, scales=case.get("scales")),
            "sdt": rng.choice(INT_DTYPES), "fdt": rng.choice(FLOAT_DTYPES)}


def sprinkle_rejected(rng, case, ops, p, follow=None):
    """with probability p: 1..3 rejected calls at random positions of the history (start and end included);
    `follow()` makes an op to append when nothing would come after the last rejected call"""
    if rng.random() >= p:
        return ops
    d = len(case["ranges"])
    for _ in range(rng.choice([1, 1, 2, 3])):
        ops.insert(rng.randint(0, len(ops)), gen_rejected(rng, case, d))
    if ops[-1]["op"] == "rejected" and follow is not None:
        ops.extend(follow())
    case["rejected"] = True
    return ops


# large batches ------------------------------------------------------------------

LARGE_SIZES = [64, 100, 127, 128, 200, 255, 256, 300]
LARGE_STATUS_FORMS = ["int8", "uint8", "int16", "uint16", "int32", "int64", "list"]


def large_cases(seed, quick=False):
    """every ranker x every large batch size; for the two-stage rankers every status form (narrow and wide
    integer dtypes, plain lists): 'integer status arrays of any integer dtype', 'every batch size'"""
    import random
    for kind in KINDS:
        for n in LARGE_SIZES:
            if quick and kind not in TWO and n not in (64, 128, 300):
                continue  # the status dtype cannot matter for a single-stage ranker
            rng = random.Random(f"{seed}/{kind}/{n}")
            d = 2
            ops = []
            if kind in DIR:
                ops.append({"op": "setdir", "d": dyadic_dir(rng, d), "dt": "float64"})
            for form in (LARGE_STATUS_FORMS if kind in TWO else [rng.choice(LARGE_STATUS_FORMS)]):
                rows = gen_rows(rng, n, d, kind not in DIR and rng.random() < 0.5, False)
                pool = [rng.choice(DYADIC) * rng.choice([1.0, 4.0, 0.125]) + rng.choice([0.0, 8.0, -8.0])
                        for _ in range(rng.choice([3, 10, 40, 400]))]
                for r in rows:
                    # all three statuses, many distinct values (and ties) inside each status
                    r[ST] = rng.choice([0, 1, 2])
                    r[VAL], r[OBJ] = rng.choice(pool), rng.choice(pool)
                    r[NOV], r[DEN] = abs(rng.choice(pool)), abs(rng.choice(pool))
                ops.append({"op": "rank", "rows": rows, "sdt": "int64" if form == "list" else form,
                            "fdt": rng.choice(FLOAT_DTYPES), "mdt": "float64", "aslist": form == "list",
                            "kw": rng.random() < 0.3})
            yield {"kind": kind, "seed": 1, "seedkind": "int", "via": "direct", "adt": "float64",
                   "archive": "density" if kind == "density" else "grid", "ranges": [[0.0, 1.0], [-1.0, 1.0]],
                   "dims": [2, 3], "sol_dim": 1, "batch_size": 2, "large": n, "ops": ops}


# many resets of one ranker object -------------------------------------------------


def gen_long(rng, emitter_every=4):
    """> 512 resets of ONE random-direction ranker: every direction must be the next draw of the replayed
    generator times the ranges (and no draw may ever come back) -- directly, with the archive argument of
    reset() switched now and then, and through a real emitter that restarts on every tell()"""
    kind = rng.choice(["rd", "2rd"])
    case = base_case(rng, kind)
    case["archive"] = "grid"
    d = len(case["ranges"])
    maybe_wide(rng, case, 0.3)
    scales = case.get("scales")
    if rng.randrange(emitter_every) == 0:
        case["via"] = "emitter"
        case["adt"] = "float64"
        case["restart_rule"] = 1
        case["batch_size"] = 2
        case["ops"] = [{"op": "gens", "count": rng.randint(270, 330), "rows": gen_rows(rng, 2, d, False, True,
                                                                                    scales=scales)}]
        return case
    case["seedkind"] = rng.choice(["int", "int", "seq", "none"])
    case["ctor"] = rng.choice(["kw", "pos", "default"])
    # archives of the same measure_dim with other ranges, and (early, at most once) one of another measure_dim
    case["alts"] = [wide_ranges(rng, d) if rng.random() < 0.5 else
                    [list(rng.choice(RANGES_POW2 + RANGES_ANY)) for _ in range(d)] for _ in range(2)]
    ops = []
    if rng.random() < 0.3:
        d2 = d + 1 if d < 4 else d - 1
        case["alts"].append([list(rng.choice(RANGES_POW2)) for _ in range(d2)])
        ops.append({"op": "resets", "count": rng.randint(1, 5), "alt": 2})
    left = rng.randint(540, 640)
    switch = rng.random() < 0.5
    while left > 0:
        k = min(left, rng.choice([1, 7, 60, 200, 257, 300, 600]))
        op = {"op": "resets", "count": k, "kw": rng.random() < 0.3}
        if switch and rng.random() < 0.3:
            op["alt"] = rng.randrange(2)
        ops.append(op)
        left -= k
        if rng.random() < 0.5:
            ops.append({"op": "rank", "rows": gen_rows(rng, rng.randint(1, 6), d, False, True, scales=scales),
                        "sdt": rng.choice(INT_DTYPES), "fdt": "float64", "mdt": "float64"})
    sprinkle_rejected(rng, case, ops, 0.5, lambda: [{"op": "resets", "count": rng.randint(1, 5)}])
    case["ops"] = ops
    return case


# exhaustive small combinations ------------------------------------------------

COMBO_DIR = [1.0, 2.0]
# two different measure rows per value with the same projection onto COMBO_DIR
COMBO_ROWS = {-1.0: [[-1.0, 0.0], [1.0, -1.0]], 0.0: [[0.0, 0.0], [2.0, -1.0]], 0.5: [[0.5, 0.0], [-0.5, 0.5]]}


def combo_cases(values, max_n, chunk):
    symbols = [(s, v) for v in values for s in (0, 1, 2)]
    for kind in KINDS:
        for n in range(1, max_n + 1):
            ops = []
            for combo in itertools.product(symbols, repeat=n):
                rows = []
                for pos, (s, v) in enumerate(combo):
                    rows.append([s, v, v, list(COMBO_ROWS[v][pos % 2]), v + 1.0, v + 1.0])
                ops.append({"op": "rank", "rows": rows, "sdt": INT_DTYPES[len(ops) % len(INT_DTYPES)],
                            "fdt": FLOAT_DTYPES[len(ops) % 2]})
                if len(ops) == chunk:
                    yield combo_case(kind, ops)
                    ops = []
            if ops:
                yield combo_case(kind, ops)


def combo_case(kind, ops):
    head = [{"op": "setdir", "d": COMBO_DIR, "dt": "float64"}] if kind in DIR else []
    return {"kind": kind, "seed": 1, "seedkind": "int", "via": "direct", "adt": "float64",
            "archive": "density" if kind == "density" else "grid", "ranges": [[0.0, 1.0], [-1.0, 1.0]],
            "dims": [2, 3], "sol_dim": 1, "batch_size": 2, "ops": head + ops}


# --------------------------------------------------------------------------


def nontrivial(case):
    kind = case["kind"]
    resets = sum(op.get("count", 1) for op in case["ops"] if op["op"] in ("reset", "resets", "gens"))
    if resets >= 2:
        return True
    for op in case["ops"]:
        rows = op.get("rows")
        if op["op"] not in ("rank", "addrank", "gen") or not rows or len(rows) < 2:
            continue
        col = {"imp": VAL, "2imp": VAL, "obj": OBJ, "2obj": OBJ, "nov": NOV, "density": DEN, "rd": MEAS,
               "2rd": MEAS}[kind]
        keys = [((r[ST],) if kind in TWO else ()) + (repr(r[col]),) for r in rows]
        if len(set(keys)) < len(keys):
            return True
    return False


def features(ctx, case):
    ctx.count("kind:" + case["kind"])
    for op in case["ops"]:
        if op["op"] == "rank":
            n = len(op["rows"])
            ctx.count("rank-calls")
            ctx.count("n=1" if n == 1 else "n=0" if n == 0 else "n>=2")
            ctx.count("status-dtype:" + op["sdt"])
            ctx.count("archive:" + case["archive"])
            ctx.count("float-dtype:" + op["fdt"])
            if op.get("cut"):
                ctx.count("rejection:" + op["cut"])
            if op.get("near"):
                ctx.count("rank-calls-with-near-equal-keys")
            if op.get("kw") or op.get("aslist"):
                ctx.count("rank-calls-keyword-or-list-form")
            if case.get("wide"):
                ctx.count("rank-calls-on-wide-range-archives")
            if case.get("large"):
                ctx.count(f"large-batch:n={n}")
                if case["kind"] in TWO:
                    ctx.count("large-batch-two-stage-status:" + ("list" if op.get("aslist") else op["sdt"]))
        elif op["op"] in ("reset", "setdir", "addrank", "gen"):
            ctx.count(op["op"] + "-ops")
        elif op["op"] in ("resets", "gens"):
            ctx.count("resets-in-long-reset-histories", op["count"])
        elif op["op"] == "rejected":
            ctx.count("rejected-call-ops")
            ctx.count(f"rejected-call:{op['call']}:{op['how']}")


def run(ctx):
    def counted(case):
        # `nontrivial` is evaluated exactly once per case, in the parent process, in the serial and in the
        # parallel (forked workers) mode of ctx.explore alike: count the case's features there
        features(ctx, case)
        return nontrivial(case)

    all_combos = list(combo_cases([-1.0, 0.5] if ctx.quick else [-1.0, 0.0, 0.5], 3 if ctx.quick else 4, 40))
    # the enumeration is indexed by the case index; ctx.explore hands the generator only the per-index rng
    # (possibly inside a forked worker), so the index is recovered from that rng's first output
    index_of = {ctx.rng("combinations", i).getrandbits(64): i for i in range(len(all_combos))}
    if len(index_of) != len(all_combos):
        raise Infra("combination index table collided")

    def nth_combo(rng):
        return dict(all_combos[index_of[rng.getrandbits(64)]])

    all_large = list(large_cases(ctx.seed, ctx.quick))
    large_index = {ctx.rng("large-batches", i).getrandbits(64): i for i in range(len(all_large))}
    if len(large_index) != len(all_large):
        raise Infra("large-batch index table collided")

    def nth_large(rng):
        return dict(all_large[large_index[rng.getrandbits(64)]])

    _STATS_DIR[0] = tempfile.mkdtemp(prefix="c17stats_")
    try:
        ctx.explore("combinations", nth_combo, run_case, len(all_combos), nontrivial=counted,
                    time_budget=8 if ctx.quick else 100)
        ctx.explore("large-batches", nth_large, run_case, len(all_large), nontrivial=counted,
                    time_budget=8 if ctx.quick else 60)
        ctx.explore("long-resets", gen_long, run_case, ctx.n(8, 400), nontrivial=counted,
                    time_budget=8 if ctx.quick else 60)
        ctx.explore("batches", gen_batches, run_case, ctx.n(1000, 120000), nontrivial=counted,
                    time_budget=10 if ctx.quick else 140)
        ctx.explore("direction", gen_direction, run_case, ctx.n(500, 50000), nontrivial=counted,
                    time_budget=9 if ctx.quick else 80)
        # numba compiles the optimizer once per dtype (seconds): the quick tier keeps to float64 archives here
        # (float32 archives are covered by the other strata and by the thorough tier)
        adts = ("float64",) if ctx.quick else tuple(FLOAT_DTYPES)
        ctx.explore("emitter", lambda rng: gen_emitter(rng, adts), run_case, ctx.n(250, 20000),
                    nontrivial=counted, time_budget=10 if ctx.quick else 90)
    finally:
        _close_driver()
        total = dict(STATS)
        for path in glob.glob(os.path.join(_STATS_DIR[0], "*.json")):
            try:
                for k, v in json.load(open(path)).items():
                    total[k] = total.get(k, 0) + v
            except (OSError, ValueError):
                pass
        shutil.rmtree(_STATS_DIR[0], ignore_errors=True)
        _STATS_DIR[0] = None
        for k, v in total.items():
            ctx.count(k + " (incl. shrinking re-runs; workers report every 20 cases)", v)


def replay(ctx, case):
    try:
        return run_case(case)
    finally:
        _close_driver()
