import PyribsModel.Opt
import PyribsProofs.Lemmas.Opt
import Mathlib.Analysis.SpecialFunctions.Log.Basic
/-!
# C18 — optimizers keep a valid search distribution and apply their update rules

Theorems about `PyribsModel.Opt` (the model of `ribs/emitters/opt/*.py`), for
every dimension, batch, state, history, ranking permutation, parent count and
every admissible supplied value of `log` / `sqrt` / `exp`.

* T18.1  `weights_of_values`, `weights_pos_decreasing_sum_one`, `weights_real_log`, `weights_model`
* T18.2  `mean_is_weighted_average`, `mean_convex`, `mean_in_halfspace`, `cma_mean_update`,
         `sep_mean_update`, `lm_mean_update`
* T18.3  `cma_zero_parents`, `sep_zero_parents`, `lm_zero_parents`
* T18.4  `order_only`, `order_only_sep`, `order_only_lm`, `order_only_openai`
* T18.5  `cov_psd_preserved_real`, `cov_psd_preserved_rat`, `cma_coefficients`, `cma_cov_psd`,
         `cma_tell_valid`, `cma_history_valid`, `sep_cov_nonneg`, `sep_cov_pos`
         `cma_cmu_clamped`, `sep_cmu_clamped` (the clamp `cμ ≤ 1 − c1`, unconditional)
* T18.6  `sigma_pos_real`, `sigma_pos`, `sep_tell_valid`, `lm_tell_sigma_pos` (and `cma_tell_valid`)
* T18.7  `reset_initial`, `reset_forgets`
* T18.8  `resample_record`, `openai_noise_matches`
* T18.9  `ascent_closed_form`
* T18.10 `adam_moments`, `adam_moments_no_l2`, `adam_step_formula`, `adam_first_step_sign`
* T18.11 `openai_gradient`, `assignRanks_eq_rankAt`, `best_rank_half`, `worst_rank_half`,
         `normRank_strictMono`

Not theorems (see `PARTIAL` in `harness/props/c18.py`): the sampling
*distribution* beyond the deterministic identity of T18.8, convergence on a
convex quadratic, finiteness of σ over ℝ under unbounded histories (σ stays a
positive real by T18.6; it may leave the float range), pycma internals.
-/
namespace Pyribs.C18
open Pyribs Opt Matrix

variable {n : Nat}

/-! ## T18.1 — recombination weights -/

section W
variable {K : Type} [Field K] [LinearOrder K] [IsStrictOrderedRing K]

/-- T18.1 on supplied values -/
theorem weights_of_values (lh : K) (ls : List K) (hne : ls ≠ [])
    (hinc : ls.Pairwise (· < ·)) (hlt : ∀ l ∈ ls, l < lh) :
    (∀ x ∈ weights lh ls, 0 < x) ∧ (weights lh ls).Pairwise (· > ·) ∧ (weights lh ls).sum = 1
      ∧ (weights lh ls).length = ls.length := by
  have hpos := rawWeights_pos lh ls hlt
  have hne' : rawWeights lh ls ≠ [] := by simpa [rawWeights] using hne
  have ht : 0 < (rawWeights lh ls).sum := sum_pos_of_pos _ hne' hpos
  refine ⟨?_, ?_, ?_, ?_⟩
  · intro x hx
    simp only [weights, List.mem_map] at hx
    obtain ⟨r, hr, rfl⟩ := hx
    exact div_pos (hpos r hr) ht
  · simp only [weights, rawWeights, List.map_map]
    rw [List.pairwise_map]
    refine hinc.imp ?_
    intro a b hab
    simp only [Function.comp]
    exact div_lt_div_of_pos_right (by linarith) ht
  · simp only [weights]
    rw [sum_map_div, div_self ht.ne']
  · simp [weights, rawWeights]

/-- T18.1: for **any** `log` that is strictly increasing on the positive numbers, the weights
`normalise [log(μ+½) − log i | i = 1…μ]` are positive, strictly decreasing (better-ranked parents
weigh more) and sum to one -/
theorem weights_pos_decreasing_sum_one (L : K → K) (hL : StrictMonoOn L (Set.Ioi 0)) (mu : ℕ)
    (hmu : 0 < mu) :
    let w := weights (L ((mu : K) + 1 / 2)) ((List.range mu).map fun i : ℕ => L ((i : K) + 1))
    (∀ x ∈ w, 0 < x) ∧ w.Pairwise (· > ·) ∧ w.sum = 1 ∧ w.length = mu := by
  intro w
  have hpos : ∀ i : ℕ, (0 : K) < (i : K) + 1 := fun i => by positivity
  have h := weights_of_values (L ((mu : K) + 1 / 2)) ((List.range mu).map fun i : ℕ => L ((i : K) + 1))
    (by simpa using hmu.ne') ?_ ?_
  · obtain ⟨h1, h2, h3, h4⟩ := h
    exact ⟨h1, h2, h3, h4.trans (by simp)⟩
  · rw [List.pairwise_map]
    refine (List.pairwise_lt_range).imp ?_
    intro a b hab
    apply hL (hpos a) (hpos b)
    have : (a : K) < b := by exact_mod_cast hab
    linarith
  · intro l hl
    simp only [List.mem_map, List.mem_range] at hl
    obtain ⟨i, hi, rfl⟩ := hl
    apply hL (hpos i) (by show (0:K) < mu + 1/2; positivity)
    have : (i : K) + 1 ≤ mu := by exact_mod_cast hi
    linarith

end W

/-- T18.1 for the real logarithm: the monotonicity assumption is discharged -/
theorem weights_real_log (mu : ℕ) (hmu : 0 < mu) :
    let w := weights (Real.log ((mu : ℝ) + 1 / 2)) ((List.range mu).map fun i : ℕ => Real.log ((i : ℝ) + 1))
    (∀ x ∈ w, 0 < x) ∧ w.Pairwise (· > ·) ∧ w.sum = 1 ∧ w.length = mu :=
  weights_pos_decreasing_sum_one Real.log Real.strictMonoOn_log mu hmu


/-- T18.1 on the model: whenever the driver's check `logsOk` accepts the supplied logs, the
model's weights are positive, strictly decreasing, sum to one and there are `μ` of them -/
theorem weights_model (lh : Rat) (ls : List Rat) (mu : Nat) (hmu : 0 < mu)
    (h : logsOk lh ls mu = true) :
    (∀ x ∈ weights lh ls, 0 < x) ∧ (weights lh ls).Pairwise (· > ·) ∧ (weights lh ls).sum = 1
      ∧ (weights lh ls).length = mu := by
  obtain ⟨h1, h2, h3⟩ := logsOk_spec h
  have hne : ls ≠ [] := by intro h0; simp [h0] at h1; omega
  have := weights_of_values lh ls hne h2 h3
  rw [h1] at this
  exact this

/-! ## T18.2 — the new mean is the weighted average of the selected parents -/

/-- T18.2: coordinate `j` of the new mean is `Σᵢ wᵢ·x₍ᵢ₎[j]` over the parents in ranking order -/
theorem mean_is_weighted_average {n : Nat} (ws : List Rat) (xs : List (Vec n)) (j : Fin n) :
    recombine ws xs j = (List.zipWith (fun w x => w * x j) ws xs).sum := rfl

theorem mean_convex {n : Nat} (ws : List Rat) (xs : List (Vec n)) (j : Fin n) (lo hi : Rat)
    (hlen : ws.length ≤ xs.length) (hw : ∀ w ∈ ws, 0 ≤ w) (hsum : ws.sum = 1)
    (hx : ∀ x ∈ xs, lo ≤ x j ∧ x j ≤ hi) :
    lo ≤ recombine ws xs j ∧ recombine ws xs j ≤ hi := by
  unfold recombine
  rw [wsum_eq_zipWith]
  constructor
  · have := zipWith_sum_ge lo ws (xs.map fun x => x j) (by simpa using hlen) hw
      (by intro v hv; simp only [List.mem_map] at hv; obtain ⟨x, hx', rfl⟩ := hv; exact (hx x hx').1)
    rwa [hsum, mul_one] at this
  · have := zipWith_sum_le hi ws (xs.map fun x => x j) (by simpa using hlen) hw
      (by intro v hv; simp only [List.mem_map] at hv; obtain ⟨x, hx', rfl⟩ := hv; exact (hx x hx').2)
    rwa [hsum, mul_one] at this

/-- T18.2, convex-hull form: every half-space containing the parents contains the new mean -/
theorem mean_in_halfspace {n : Nat} (ws : List Rat) (xs : List (Vec n)) (a : Vec n) (c : Rat)
    (hlen : ws.length ≤ xs.length) (hw : ∀ w ∈ ws, 0 ≤ w) (hsum : ws.sum = 1)
    (hx : ∀ x ∈ xs, dot a x ≤ c) : dot a (recombine ws xs) ≤ c := by
  unfold recombine
  rw [dot_wsum]
  have := zipWith_sum_le c ws (xs.map fun x => dot a x) (by simpa using hlen) hw
      (by intro v hv; simp only [List.mem_map] at hv; obtain ⟨x, hx', rfl⟩ := hv; exact hx x hx')
  rwa [hsum, mul_one] at this

/-- T18.2 through `tell`: with `μ > 0` parents the new mean of CMA-ES is the weighted average of
`solutions[ranking_indices][:μ]` with the T18.1 weights; hence every coordinate lies between the
smallest and largest parent coordinate -/
theorem cma_mean_update (batch : Nat) (st st' : CmaState n) (sols : List (Vec n)) (perm : List Nat)
    (mu : Nat) (hmu : 0 < mu) (sup : CmaSup n) (d : Diag)
    (h : cmaTell n batch st sols perm mu sup = .ok (st', d)) :
    ∃ rows, ranked sols perm = .ok rows ∧
      st'.mean = recombine (weights sup.lh sup.ls) (rows.take mu) ∧
      ∀ j lo hi, (∀ x ∈ rows.take mu, lo ≤ x j ∧ x j ≤ hi) → lo ≤ st'.mean j ∧ st'.mean j ≤ hi := by
  obtain ⟨rows, hr, hcase⟩ := cmaTell_ok batch st st' sols perm mu sup d h
  refine ⟨rows, hr, ?_⟩
  rcases hcase with ⟨h0, _⟩ | ⟨_, hlen, _, _, hlog, hcore⟩
  · omega
  · have hmean : st'.mean = recombine (weights sup.lh sup.ls) (rows.take mu) := by
      have := congrArg (fun p => p.1.mean) hcore
      simpa [cmaCore] using this
    refine ⟨hmean, ?_⟩
    intro j lo hi hx
    obtain ⟨hp, _, hs, hl⟩ := weights_model sup.lh sup.ls mu hmu hlog
    rw [hmean]
    exact mean_convex _ _ j lo hi (by simp [hl]; omega) (fun w hw => (hp w hw).le) hs hx

/-! ## T18.3 — zero parents change nothing (only the evaluation / generation counter moves) -/

theorem cma_zero_parents (batch : Nat) (st st' : CmaState n) (sols : List (Vec n)) (perm : List Nat)
    (sup : CmaSup n) (d : Diag) (h : cmaTell n batch st sols perm 0 sup = .ok (st', d)) :
    st'.mean = st.mean ∧ st'.sigma = st.sigma ∧ st'.cov = st.cov ∧ st'.pc = st.pc ∧ st'.ps = st.ps
      ∧ st'.evals = st.evals + perm.length := by
  unfold cmaTell at h
  split at h
  · simp at h
  · simp only [if_true, Except.ok.injEq, Prod.mk.injEq] at h
    obtain ⟨rfl, _⟩ := h
    simp

theorem sep_zero_parents (batch : Nat) (st st' : SepState n) (sols : List (Vec n)) (perm : List Nat)
    (sup : SepSup n) (d : Diag) (h : sepTell n batch st sols perm 0 sup = .ok (st', d)) :
    st'.mean = st.mean ∧ st'.sigma = st.sigma ∧ st'.cov = st.cov ∧ st'.pc = st.pc ∧ st'.ps = st.ps
      ∧ st'.evals = st.evals + perm.length := by
  unfold sepTell at h
  split at h
  · simp at h
  · simp only [if_true, Except.ok.injEq, Prod.mk.injEq] at h
    obtain ⟨rfl, _⟩ := h
    simp

theorem lm_zero_parents (c : LmCfg) (st st' : LmState c.n) (sols zs : List (Vec c.n)) (perm : List Nat)
    (sup : LmSup) (d : Diag) (h : lmTell c st sols zs perm 0 sup = .ok (st', d)) :
    st' = st := by
  unfold lmTell at h
  simp only [if_true, Except.ok.injEq, Prod.mk.injEq] at h
  exact h.1.symm

/-! ## T18.4 — the update reads the ranking order only

`tell(ranking_indices, ranking_values, num_parents)`: the model's update functions do not take the
ranking values at all; the API-shaped wrappers accept and ignore them.  The content of this clause
is the metamorphic correspondence check (same permutation, different values ⇒ bit-identical state
of the implementation). -/

/-- T18.4 -/
theorem order_only (batch : Nat) (st : CmaState n) (sols : List (Vec n)) (perm : List Nat)
    (vals vals' : List (List Rat)) (mu : Nat) (sup : CmaSup n) :
    cmaTellApi n batch st sols perm vals mu sup = cmaTellApi n batch st sols perm vals' mu sup := rfl

theorem order_only_sep (batch : Nat) (st : SepState n) (sols : List (Vec n)) (perm : List Nat)
    (vals vals' : List (List Rat)) (mu : Nat) (sup : SepSup n) :
    sepTellApi n batch st sols perm vals mu sup = sepTellApi n batch st sols perm vals' mu sup := rfl

theorem order_only_lm (c : LmCfg) (st : LmState c.n) (sols zs : List (Vec c.n)) (perm : List Nat)
    (vals vals' : List (List Rat)) (mu : Nat) (sup : LmSup) :
    lmTellApi c st sols zs perm vals mu sup = lmTellApi c st sols zs perm vals' mu sup := rfl

/-- OpenAI-ES additionally ignores `num_parents` (as the code does) -/
theorem order_only_openai (c : OpenaiCfg) (st : AdamState n) (noise : List (Vec n)) (perm : List Nat)
    (vals vals' : List (List Rat)) (mu mu' : Nat) (sB2 : Rat) (sV : Vec n) :
    openaiTellApi c st noise perm vals mu sB2 sV = openaiTellApi c st noise perm vals' mu' sB2 sV := rfl

/-! ## T18.5 — the covariance stays symmetric positive semi-definite -/

/-- T18.5 (abstract form, ℝ): for symmetric PSD `C` and coefficients `a, bᵢ ≥ 0`,
`a•C + Σ bᵢ•(yᵢ yᵢᵀ)` is symmetric PSD (`PosSemidef` includes `IsHermitian`) -/
theorem cov_psd_preserved_real {ι : Type} [Fintype ι] (C : Matrix ι ι ℝ) (hC : C.PosSemidef)
    (a : ℝ) (ha : 0 ≤ a) : ∀ (bs : List ℝ) (ys : List (ι → ℝ)), (∀ b ∈ bs, 0 ≤ b) →
    (a • C + (List.zipWith (fun b y => b • vecMulVec y y) bs ys).sum).PosSemidef
  | [], _, _ => by simpa using hC.smul ha
  | _ :: _, [], _ => by simpa using hC.smul ha
  | b :: bs, y :: ys, hb => by
    have ih := cov_psd_preserved_real C hC a ha bs ys (fun x hx => hb x (List.mem_cons_of_mem _ hx))
    have h1 : (b • vecMulVec y y).PosSemidef := by
      have := (posSemidef_vecMulVec_self_star y).smul (hb b (by simp))
      simpa using this
    simp only [List.zipWith_cons_cons, List.sum_cons]
    rw [add_left_comm]
    exact h1.add ih

/-- the same over ℚ, the field the model computes in -/
theorem cov_psd_preserved_rat {ι : Type} [Fintype ι] (C : Matrix ι ι ℚ) (hC : C.PosSemidef)
    (a : ℚ) (ha : 0 ≤ a) : ∀ (bs : List ℚ) (ys : List (ι → ℚ)), (∀ b ∈ bs, 0 ≤ b) →
    (a • C + (List.zipWith (fun b y => b • vecMulVec y y) bs ys).sum).PosSemidef
  | [], _, _ => by simpa using hC.smul ha
  | _ :: _, [], _ => by simpa using hC.smul ha
  | b :: bs, y :: ys, hb => by
    have ih := cov_psd_preserved_rat C hC a ha bs ys (fun x hx => hb x (List.mem_cons_of_mem _ hx))
    have h1 : (b • vecMulVec y y).PosSemidef := by
      have := (posSemidef_vecMulVec_self_star y).smul (hb b (by simp))
      simpa using this
    simp only [List.zipWith_cons_cons, List.sum_cons]
    rw [add_left_comm]
    exact h1.add ih

/-- T18.5, coefficient lemma: under the parameter formulas of `_calc_strat_params` (any
dimension ≥ 1, any admissible supplied logs, either value of `hsig`) the three coefficients of the
covariance update are non-negative: `1 − c1a − cμ·Σw ≥ 0`, `cμ ≥ 0`, `c1² ≥ 0` -/
theorem cma_coefficients (n : Nat) (hn : 0 < n) (lh : Rat) (ls : List Rat) (mu : Nat) (hmu : 0 < mu)
    (hlog : logsOk lh ls mu = true) (left : Rat) :
    let w := weights lh ls
    let p := cmaParams n w
    0 ≤ decayOf (c1aOf p.c1 p.cc (hsigOf left (hsigRight n))) p.cmu w ∧ 0 ≤ p.cmu
      ∧ 0 ≤ p.c1 * p.c1 := by
  intro w p
  obtain ⟨hp, _, hs, hl⟩ := weights_model lh ls mu hmu hlog
  have hne : w ≠ [] := by intro h0; simp [w, h0] at hl; omega
  have ok := cmaParams_ok n hn w (mueff_pos w hne hp)
  exact ⟨decay_nonneg p ok _ (hsigOf_cases _ _) w hs, ok.cmu_nonneg, mul_self_nonneg _⟩

/-- T18.5 on the model: the body of `CMAEvolutionStrategy.tell` maps a symmetric PSD covariance to
a symmetric PSD covariance -/
theorem cma_cov_psd (k evals mu : Nat) (hn : 0 < n) (hmu : 0 < mu) (st : CmaState n)
    (parents : List (Vec n)) (sup : CmaSup n) (hlog : logsOk sup.lh sup.ls mu = true)
    (hC : (toM st.cov).PosSemidef) :
    (toM (cmaCore n k evals st parents sup).1.cov).PosSemidef := by
  obtain ⟨hp, _, hs, hl⟩ := weights_model sup.lh sup.ls mu hmu hlog
  have hne : weights sup.lh sup.ls ≠ [] := by intro h0; simp [h0] at hl; omega
  have ok := cmaParams_ok n hn _ (mueff_pos _ hne hp)
  simp only [cmaCore]
  exact cmaCovUpdate_psd st.cov hC _ _ _ _ _ _ _ (fun x hx => (hp x hx).le)
    (decay_nonneg _ ok _ (hsigOf_cases _ _) _ hs) ok.cmu_nonneg

/-- T18.6 on the model: `σ·e > 0` for a positive supplied value `e` of the exponential -/
theorem sigma_pos (sigma e : Rat) (hs : 0 < sigma) (he : 0 < e) : 0 < sigma * e := mul_pos hs he

/-- T18.5 + T18.6 for one `tell` (zero or more parents): a symmetric PSD covariance and a positive
step size stay so -/
theorem cma_tell_valid (batch : Nat) (st st' : CmaState n) (sols : List (Vec n)) (perm : List Nat)
    (mu : Nat) (sup : CmaSup n) (d : Diag) (h : cmaTell n batch st sols perm mu sup = .ok (st', d))
    (hC : (toM st.cov).PosSemidef) (hsig : 0 < st.sigma) (he : 0 < sup.expV) :
    (toM st'.cov).PosSemidef ∧ 0 < st'.sigma := by
  obtain ⟨rows, _, hcase⟩ := cmaTell_ok batch st st' sols perm mu sup d h
  rcases hcase with ⟨_, rfl⟩ | ⟨hmu, _, hn, _, hlog, hcore⟩
  · exact ⟨hC, hsig⟩
  · have h1 : st' = (cmaCore n (2 * (st.evals + perm.length) / batch) (st.evals + perm.length) st
        (rows.take mu) sup).1 := congrArg Prod.fst hcore
    rw [h1]
    refine ⟨cma_cov_psd _ _ mu hn hmu st _ sup hlog hC, ?_⟩
    simp only [cmaCore]
    exact mul_pos hsig he

/-- inputs of one `tell` -/
structure CmaIn (n : Nat) where
  sols : List (Vec n)
  perm : List Nat
  mu : Nat
  sup : CmaSup n

/-- a whole tell-history -/
def cmaRun (n batch : Nat) : CmaState n → List (CmaIn n) → Except Err (CmaState n)
  | st, [] => .ok st
  | st, t :: rest =>
    match cmaTell n batch st t.sols t.perm t.mu t.sup with
    | .error e => .error e
    | .ok (st', _) => cmaRun n batch st' rest

theorem cmaRun_valid (batch : Nat) : ∀ (hist : List (CmaIn n)) (st st' : CmaState n),
    cmaRun n batch st hist = .ok st' → (toM st.cov).PosSemidef → 0 < st.sigma →
    (∀ t ∈ hist, 0 < t.sup.expV) → (toM st'.cov).PosSemidef ∧ 0 < st'.sigma
  | [], st, st', h, hC, hs, _ => by
    simp only [cmaRun, Except.ok.injEq] at h
    subst h; exact ⟨hC, hs⟩
  | t :: rest, st, st', h, hC, hs, he => by
    simp only [cmaRun] at h
    split at h
    · simp at h
    · rename_i st1 d1 h1
      obtain ⟨hC1, hs1⟩ := cma_tell_valid batch st st1 t.sols t.perm t.mu t.sup d1 h1 hC hs
        (he t (by simp))
      exact cmaRun_valid batch rest st1 st' h hC1 hs1 (fun u hu => he u (List.mem_cons_of_mem _ hu))

/-- T18.5 + T18.6 over every history: from `reset`, after any sequence of `tell`s with any
solutions, ranking permutations, parent counts and positive supplied exponentials, the covariance
is symmetric positive semi-definite and the step size positive -/
theorem cma_history_valid (batch : Nat) (sigma0 : Rat) (x0 : Vec n) (hist : List (CmaIn n))
    (st' : CmaState n) (h : cmaRun n batch (cmaReset sigma0 x0) hist = .ok st') (hs : 0 < sigma0)
    (he : ∀ t ∈ hist, 0 < t.sup.expV) : (toM st'.cov).PosSemidef ∧ 0 < st'.sigma := by
  refine cmaRun_valid batch hist _ st' h ?_ hs he
  have : toM (cmaReset sigma0 x0).cov = 1 := by
    ext i j; simp [cmaReset, identMat, Matrix.one_apply]
  rw [this]; exact PosSemidef.one

/-! ### sep-CMA-ES: the diagonal stays non-negative / positive -/

theorem zipWith_sq_nonneg (j : Fin n) : ∀ (w : List Rat) (ys : List (Vec n)), (∀ x ∈ w, 0 ≤ x) →
    0 ≤ (List.zipWith (fun wk y => wk * y j * y j) w ys).sum
  | [], _, _ => by simp
  | _ :: _, [], _ => by simp
  | w :: ws, y :: ys, hw => by
    have ih := zipWith_sq_nonneg j ws ys (fun x hx => hw x (List.mem_cons_of_mem _ hx))
    have h1 := hw w (by simp)
    simp only [List.zipWith_cons_cons, List.sum_cons]
    have : 0 ≤ w * y j * y j := by rw [mul_assoc]; exact mul_nonneg h1 (mul_self_nonneg _)
    linarith

/-- entries of the diagonal covariance stay non-negative -/
theorem sep_cov_nonneg (C : Vec n) (c1a cmu c1 sigma : Rat) (pc : Vec n) (w : List Rat)
    (ys : List (Vec n)) (hw : ∀ x ∈ w, 0 ≤ x) (hdecay : 0 ≤ decayOf c1a cmu w) (hcmu : 0 ≤ cmu)
    (j : Fin n) (hC : 0 ≤ C j) :
    0 ≤ sepCovUpdate C c1a cmu c1 pc sigma (sepRankMu w ys) w j := by
  have h1 : 0 ≤ sepRankMu w ys j := zipWith_sq_nonneg j w ys hw
  have h2 : 0 ≤ sepRankMu w ys j * cmu / (sigma * sigma) :=
    div_nonneg (mul_nonneg h1 hcmu) (mul_self_nonneg _)
  have h3 : 0 ≤ c1 * (pc j * pc j) * c1 := by
    have : c1 * (pc j * pc j) * c1 = (c1 * pc j) * (c1 * pc j) := by ring
    rw [this]; exact mul_self_nonneg _
  have h4 : 0 ≤ C j * decayOf c1a cmu w := mul_nonneg hC hdecay
  simp only [sepCovUpdate]
  linarith

/-- T18.5, diagonal case: entries stay positive while the decay coefficient is positive (the
harness checks `0 < decay` numerically on every update it drives) -/
theorem sep_cov_pos (C : Vec n) (c1a cmu c1 sigma : Rat) (pc : Vec n) (w : List Rat)
    (ys : List (Vec n)) (hw : ∀ x ∈ w, 0 ≤ x) (hdecay : 0 < decayOf c1a cmu w) (hcmu : 0 ≤ cmu)
    (j : Fin n) (hC : 0 < C j) :
    0 < sepCovUpdate C c1a cmu c1 pc sigma (sepRankMu w ys) w j := by
  have h1 : 0 ≤ sepRankMu w ys j := zipWith_sq_nonneg j w ys hw
  have h2 : 0 ≤ sepRankMu w ys j * cmu / (sigma * sigma) :=
    div_nonneg (mul_nonneg h1 hcmu) (mul_self_nonneg _)
  have h3 : 0 ≤ c1 * (pc j * pc j) * c1 := by
    have : c1 * (pc j * pc j) * c1 = (c1 * pc j) * (c1 * pc j) := by ring
    rw [this]; exact mul_self_nonneg _
  have h4 : 0 < C j * decayOf c1a cmu w := mul_pos hC hdecay
  simp only [sepCovUpdate]
  linarith

/-- the coefficient lemma for sep-CMA-ES (supplied `√n` accepted by `sqrtOk`) and the resulting
non-negativity of the updated diagonal, for the body of `SeparableCMAEvolutionStrategy.tell` -/
theorem sep_core_cov_nonneg (k evals mu : Nat) (hn : 0 < n) (hmu : 0 < mu) (st : SepState n)
    (parents : List (Vec n)) (sup : SepSup n) (hlog : logsOk sup.lh sup.ls mu = true)
    (hsN : sqrtOk (n : Rat) sup.sN = true) (hC : ∀ j, 0 ≤ st.cov j) :
    ∀ j, 0 ≤ (sepCore n k evals st parents sup).1.cov j := by
  intro j
  obtain ⟨hp, _, hs, hl⟩ := weights_model sup.lh sup.ls mu hmu hlog
  have hne : weights sup.lh sup.ls ≠ [] := by intro h0; simp [h0] at hl; omega
  have hN : (1 : Rat) ≤ (n : Rat) := by exact_mod_cast hn
  have ok := sepParams_ok n hn _ (mueff_pos _ hne hp) sup.sN (sqrtOk_ge_half _ _ hN hsN)
  simp only [sepCore]
  exact sep_cov_nonneg st.cov _ _ _ _ _ _ _ (fun x hx => (hp x hx).le)
    (decay_nonneg _ ok _ (hsigOf_cases _ _) _ hs) ok.cmu_nonneg j (hC j)

/-! ## T18.6 — the step size stays positive -/

/-- T18.6 over ℝ: `σ·exp(x) > 0` whatever the exponent -/
theorem sigma_pos_real (sigma x : ℝ) (h : 0 < sigma) : 0 < sigma * Real.exp x :=
  mul_pos h (Real.exp_pos x)

/-- the three step-size updates of the model have exactly this shape -/
theorem sigma_update_shape (k evals : Nat) (st : CmaState n) (parents : List (Vec n)) (sup : CmaSup n)
    (st2 : SepState n) (sup2 : SepSup n) (c : LmCfg) (st3 : LmState c.n) (ps zs : List (Vec c.n))
    (sup3 : LmSup) :
    (cmaCore n k evals st parents sup).1.sigma = st.sigma * sup.expV ∧
    (sepCore n k evals st2 parents sup2).1.sigma = st2.sigma * sup2.expV ∧
    (lmCore c st3 ps zs sup3).1.sigma = st3.sigma * sup3.expV := ⟨rfl, rfl, rfl⟩

/-! ## T18.7 — reset returns the initial distribution -/

/-- the state after `reset(x0)` : mean `x0`, step size `σ₀`, zero paths, identity covariance, zero
counter — for all four native strategies -/
theorem reset_initial (sigma0 : Rat) (x0 : Vec n) (c : LmCfg) (y0 : Vec c.n) :
    (cmaReset sigma0 x0 = ⟨0, x0, sigma0, fun _ => 0, fun _ => 0, identMat n⟩) ∧
    (sepReset sigma0 x0 = ⟨0, x0, sigma0, fun _ => 0, fun _ => 0, fun _ => 1⟩) ∧
    (lmReset c sigma0 y0 = ⟨0, y0, sigma0, fun _ => 0, List.replicate c.nvec (fun _ => 0)⟩) ∧
    (adamReset x0 = ⟨x0, fun _ => 0, fun _ => 0, 0⟩) := ⟨rfl, rfl, rfl, rfl⟩

/-- API shape of `reset`: the Python method is called on an optimizer in an arbitrary state -/
def cmaResetApi (_old : CmaState n) (sigma0 : Rat) (x0 : Vec n) : CmaState n := cmaReset sigma0 x0

/-- T18.7: whatever history preceded it, `reset(x0)` gives the state of a fresh optimizer -/
theorem reset_forgets (batch : Nat) (sigma0 : Rat) (x0 x1 : Vec n) (hist : List (CmaIn n))
    (st : CmaState n) (_h : cmaRun n batch (cmaReset sigma0 x0) hist = .ok st) :
    cmaResetApi st sigma0 x1 = cmaReset sigma0 x1 := rfl

/-! ## T18.8 — what is recorded about a sample is the sample that was returned -/

/-- T18.8: if the resample-until-in-bounds loop returns, every row `i < batch` is in bounds and is
the transform of the draw **recorded for row `i`** -/
theorem resample_record (tf : Vec n → Vec n) (lb ub : Fin n → Option Rat) (b : Nat)
    (stream : List (List (Vec n))) (rows : Rows n) (used : Nat)
    (h : askRows tf lb ub b stream = .ok (rows, used)) :
    ∀ i < b, ∃ d, rows.draw i = some d ∧ rows.sol i = some (tf d) ∧
      ∀ j, (∀ l, lb j = some l → l ≤ tf d j) ∧ (∀ u, ub j = some u → tf d j ≤ u) := by
  intro i hi
  have := resample_inv tf (inBounds lb ub) b stream 0 (List.range b) Rows.empty (rows, used)
    (fun i hi => Or.inl (List.mem_range.mpr hi)) h i hi
  obtain ⟨d, h1, h2, h3⟩ := this
  exact ⟨d, h1, h2, (inBounds_spec lb ub (tf d)).mp h3⟩


/-- T18.8 for OpenAI-ES (the statement defect D14 violates): after `ask`, row `i` of the solutions
is `θ + σ₀·noise[i]` for the recorded `noise[i]` -/
theorem openai_noise_matches (theta : Vec n) (sigma0 : Rat) (lb ub : Fin n → Option Rat) (b : Nat)
    (stream : List (List (Vec n))) (rows : Rows n) (used : Nat)
    (h : askRows (openaiTransform theta sigma0) lb ub b stream = .ok (rows, used)) :
    ∀ i < b, ∃ z, rows.draw i = some z ∧ rows.sol i = some (fun j => theta j + sigma0 * z j) := by
  intro i hi
  obtain ⟨d, h1, h2, _⟩ := resample_record _ lb ub b stream rows used h i hi
  exact ⟨d, h1, h2⟩

/-! ## T18.9 — gradient ascent -/

/-- T18.9: θₙ = θ₀ + lr·Σ gᵢ -/
theorem ascent_closed_form {n : Nat} (lr : Rat) : ∀ (gs : List (Vec n)) (theta0 : Vec n) (j : Fin n),
    (gs.foldl (ascentStep lr) theta0) j = theta0 j + lr * (gs.map fun g => g j).sum
  | [], _, _ => by simp
  | g :: gs, theta0, j => by
    rw [List.foldl_cons, ascent_closed_form lr gs]
    simp only [ascentStep, List.map_cons, List.sum_cons]
    ring


/-! ## T18.10 — Adam -/

/-- T18.10: after `t` steps from `reset`, `m_t = (1−β₁)·Σᵢ β₁ⁱ·ĝ_{t−i}` and `v_t = (1−β₂)·Σᵢ β₂ⁱ·ĝ_{t−i}²`
(`i = 0` is the newest effective gradient), and `t` counts the steps -/
theorem adam_moments (cfg : AdamCfg) (theta0 : Vec n) (inp : List (Vec n × Rat × Vec n)) (j : Fin n) :
    let st := adamRun cfg (adamReset theta0) inp
    let gs := (effGrads cfg (adamReset theta0) inp).reverse
    st.m j = (1 - cfg.b1) * ((gs.zipIdx).map fun p => cfg.b1 ^ p.2 * p.1 j).sum ∧
    st.v j = (1 - cfg.b2) * ((gs.zipIdx).map fun p => cfg.b2 ^ p.2 * (p.1 j * p.1 j)).sum ∧
    st.t = inp.length := by
  intro st gs
  have hm := geo_eq_sum cfg.b1 (gs.map fun g => g j) 0
  have hv := geo_eq_sum cfg.b2 (gs.map fun g => g j * g j) 0
  simp only [List.zipIdx_map, List.map_map, pow_zero, one_mul] at hm hv
  refine ⟨?_, ?_, ?_⟩
  · rw [show st.m j = _ from adamRun_m cfg j inp (adamReset theta0), ← hm]
    simp [adamReset, Function.comp_def]
  · rw [show st.v j = _ from adamRun_v cfg j inp (adamReset theta0), ← hv]
    simp [adamReset, Function.comp_def]
  · simp [st, adamRun_t, adamReset]

/-- T18.10 without L2 term: the effective gradients are the negated inputs, so
`m_t = −(1−β₁)·Σᵢ β₁ⁱ·g_{t−i}` (the code keeps moments of the *descent* direction and flips the
sign again in the step) -/
theorem adam_moments_no_l2 (cfg : AdamCfg) (hl2 : cfg.l2 = 0) (theta0 : Vec n)
    (inp : List (Vec n × Rat × Vec n)) (j : Fin n) :
    (adamRun cfg (adamReset theta0) inp).m j =
      (1 - cfg.b1) * (((inp.map fun p => p.1).reverse.zipIdx).map fun p => cfg.b1 ^ p.2 * -(p.1 j)).sum := by
  have h := (adam_moments cfg theta0 inp j).1
  rw [h, effGrads_no_l2 cfg hl2]
  congr 1
  simp only [← List.map_reverse, List.zipIdx_map, List.map_map]
  rfl

/-- T18.10: the step itself — `θ' = θ − a·m'/(√v' + ε)` with `a = lr·√(1−β₂ᵗ)/(1−β₁ᵗ)`,
`m' = β₁m + (1−β₁)ĝ`, `v' = β₂v + (1−β₂)ĝ²`, `ĝ = −g + l2·θ` (ascent sign, L2 term) -/
theorem adam_step_formula (cfg : AdamCfg) (st : AdamState n) (g : Vec n) (sB2 : Rat) (sV : Vec n)
    (j : Fin n) :
    let st' := adamStep cfg st g sB2 sV
    let gh := -(g j) + cfg.l2 * st.theta j
    st'.t = st.t + 1 ∧
    st'.m j = cfg.b1 * st.m j + (1 - cfg.b1) * gh ∧
    st'.v j = cfg.b2 * st.v j + (1 - cfg.b2) * (gh * gh) ∧
    st'.theta j = st.theta j - (cfg.lr * sB2 / (1 - cfg.b1 ^ (st.t + 1))) * st'.m j / (sV j + cfg.eps) := by
  simp only [adamStep, adamM, adamV, adamEffGrad, adamA, rpow_eq]
  refine ⟨trivial, trivial, trivial, ?_⟩
  ring

/-- T18.10: from `reset`, without L2 term, the first step moves every coordinate in the direction
of the gradient (ascent) -/
theorem adam_first_step_sign (cfg : AdamCfg) (theta0 g : Vec n) (sB2 : Rat) (sV : Vec n) (j : Fin n)
    (hl2 : cfg.l2 = 0) (hlr : 0 < cfg.lr) (hb1 : cfg.b1 < 1) (hs : 0 < sB2) (hv : 0 ≤ sV j)
    (he : 0 < cfg.eps) :
    let th := (adamStep cfg (adamReset theta0) g sB2 sV).theta
    (0 < g j → theta0 j < th j) ∧ (g j < 0 → th j < theta0 j) ∧ (g j = 0 → th j = theta0 j) := by
  have hd : 0 < sV j + cfg.eps := by linarith
  have h1 : 0 < 1 - cfg.b1 := by linarith
  have key : (adamStep cfg (adamReset theta0) g sB2 sV).theta j
      = theta0 j + (cfg.lr * sB2 / (sV j + cfg.eps)) * g j := by
    simp only [adamStep, adamReset, adamM, adamEffGrad, adamA, rpow, hl2]
    field_simp
    ring
  intro th
  have hc : 0 < cfg.lr * sB2 / (sV j + cfg.eps) := by positivity
  refine ⟨fun hg => ?_, fun hg => ?_, fun hg => ?_⟩
  · show theta0 j < (adamStep cfg (adamReset theta0) g sB2 sV).theta j
    rw [key]; nlinarith
  · show (adamStep cfg (adamReset theta0) g sB2 sV).theta j < theta0 j
    rw [key]; nlinarith
  · show (adamStep cfg (adamReset theta0) g sB2 sV).theta j = theta0 j
    rw [key, hg]; ring


/-! ## T18.11 — the OpenAI-ES gradient estimate -/

/-- the code's rank assignment `ranks[ranking_indices[::-1]] = arange(batch)` gives row `i` the rank
`batch − 1 − (position of i in the ranking)` -/
theorem assignRanks_eq_rankAt : ∀ (perm : List Nat) (i : Nat), i ∈ perm →
    assignRanks perm i = some (rankAt perm i)
  | [], i, h => by simp at h
  | p :: t, i, h => by
    by_cases hip : i = p
    · subst hip
      simp [assignRanks, rankAt]
    · have hit : i ∈ t := by
        rcases List.mem_cons.mp h with h | h
        · exact absurd h hip
        · exact h
      have ih := assignRanks_eq_rankAt t i hit
      have hidx : (p :: t).idxOf i = t.idxOf i + 1 := by
        rw [List.idxOf_cons_ne]; exact fun h => hip h.symm
      have hlt : t.idxOf i < t.length := List.idxOf_lt_length_iff.mpr hit
      simp only [assignRanks, hip, if_false, ih, rankAt, hidx, List.length_cons, Option.some.injEq]
      omega

/-- the best-ranked row gets rank `batch − 1` -/
theorem best_rank (p : Nat) (t : List Nat) : assignRanks (p :: t) p = some t.length := by
  simp [assignRanks]

/-- T18.11: the best-ranked row's normalised rank is `+½` -/
theorem best_rank_half (b : Nat) (hb : 2 ≤ b) : normRank b (b - 1) = 1 / 2 := by
  have h1 : ((b - 1 : Nat) : Rat) = (b : Rat) - 1 := by
    rw [Nat.cast_sub (by omega)]; simp
  have h2 : (b : Rat) - 1 ≠ 0 := by
    have : (2 : Rat) ≤ b := by exact_mod_cast hb
    intro h; linarith
  simp only [normRank, h1]
  rw [div_self h2]; norm_num

theorem worst_rank_half (b : Nat) : normRank b 0 = -(1 / 2) := by
  simp [normRank]

/-- better rank ⇒ larger coefficient -/
theorem normRank_strictMono (b : Nat) (hb : 2 ≤ b) (r s : Nat) (h : r < s) :
    normRank b r < normRank b s := by
  have h2 : (0 : Rat) < (b : Rat) - 1 := by
    have : (2 : Rat) ≤ b := by exact_mod_cast hb
    linarith
  have : (r : Rat) < s := by exact_mod_cast h
  simp only [normRank]
  have := div_lt_div_of_pos_right this h2
  linarith

/-- T18.11: the gradient estimate fed to Adam -/
theorem openai_gradient (c : OpenaiCfg) (noise : List (Vec n)) (perm : List Nat) (g : Vec n)
    (h : openaiGradient c noise perm = .ok g) :
    isPerm c.batch perm = true ∧ noise.length = c.batch ∧
    (c.mirror = false → ∀ j, g j =
      (noise.zipIdx.map fun p => p.1 j * (((rankAt perm p.2 : Nat) : Rat) / ((c.batch : Rat) - 1) - 1 / 2)).sum
        / ((c.batch : Rat) * c.sigma0)) ∧
    (c.mirror = true → ∀ j, g j =
      ((noise.take (c.batch / 2)).zipIdx.map fun p => p.1 j *
          ((((rankAt perm p.2 : Nat) : Rat) / ((c.batch : Rat) - 1) - 1 / 2)
            - (((rankAt perm (p.2 + c.batch / 2) : Nat) : Rat) / ((c.batch : Rat) - 1) - 1 / 2))).sum
        / (((c.batch / 2 : Nat) : Rat) * c.sigma0)) := by
  unfold openaiGradient at h
  split at h
  · simp at h
  · split at h
    · simp at h
    · split at h
      · simp at h
      · rename_i h1 h2 h3
        simp only [Except.ok.injEq] at h
        refine ⟨by simpa using h2, by simpa using h3, ?_, ?_⟩
        · intro hm j
          rw [← h]; simp [hm, openaiGrad, normRank]
        · intro hm j
          rw [← h]; simp [hm, openaiGradMirror, normRank]


/-! ## sep-CMA-ES and LM-MA-ES through `tell` (T18.2, T18.5 diagonal, T18.6) -/

/-- what a successful sep-CMA-ES `tell` did -/
theorem sepTell_ok (batch : Nat) (st st' : SepState n) (sols : List (Vec n)) (perm : List Nat)
    (mu : Nat) (sup : SepSup n) (d : Diag) (h : sepTell n batch st sols perm mu sup = .ok (st', d)) :
    ∃ rows, ranked sols perm = .ok rows ∧
      ((mu = 0 ∧ st' = { st with evals := st.evals + perm.length }) ∨
       (0 < mu ∧ mu ≤ rows.length ∧ 0 < n ∧ 0 < st.sigma ∧ logsOk sup.lh sup.ls mu = true ∧
        (st', d) = sepCore n (2 * (st.evals + perm.length) / batch) (st.evals + perm.length) st
          (rows.take mu) sup)) := by
  unfold sepTell at h
  split at h
  · simp at h
  · rename_i rows hr
    refine ⟨rows, hr, ?_⟩
    by_cases hmu : mu = 0
    · left
      simp only [hmu, if_true, Except.ok.injEq, Prod.mk.injEq] at h
      exact ⟨hmu, h.1.symm⟩
    · right
      simp only [hmu, if_false] at h
      split at h
      · simp at h
      · split at h
        · simp at h
        · split at h
          · simp at h
          · split at h
            · simp at h
            · split at h
              · simp at h
              · split at h
                · simp at h
                · split at h
                  · simp at h
                  · rename_i h1 h2 h3 h4 h5 h6 h7
                    simp only [Except.ok.injEq] at h
                    refine ⟨by omega, by omega, by omega, by linarith [not_le.mp h5], by simpa using h7, h.symm⟩

/-- what a successful LM-MA-ES `tell` did -/
theorem lmTell_ok (c : LmCfg) (st st' : LmState c.n) (sols zs : List (Vec c.n)) (perm : List Nat)
    (mu : Nat) (sup : LmSup) (d : Diag) (h : lmTell c st sols zs perm mu sup = .ok (st', d)) :
    (mu = 0 ∧ st' = st) ∨
    (0 < mu ∧ ∃ rows zrows, ranked sols perm = .ok rows ∧ ranked zs perm = .ok zrows ∧
      mu ≤ rows.length ∧ mu ≤ zrows.length ∧ logsOk sup.lh sup.ls mu = true ∧
      (st', d) = lmCore c st (rows.take mu) (zrows.take mu) sup) := by
  unfold lmTell at h
  by_cases hmu : mu = 0
  · left
    simp only [hmu, if_true, Except.ok.injEq, Prod.mk.injEq] at h
    exact ⟨hmu, h.1.symm⟩
  · right
    simp only [hmu, if_false] at h
    split at h
    · simp at h
    · simp at h
    · rename_i rows zrows hr hz
      split at h
      · simp at h
      · split at h
        · simp at h
        · split at h
          · simp at h
          · split at h
            · simp at h
            · rename_i h1 h2 h3 h4
              simp only [Except.ok.injEq] at h
              exact ⟨by omega, rows, zrows, hr, hz, by omega, by omega, by simpa using h4, h.symm⟩

/-- T18.2 through `tell` for sep-CMA-ES -/
theorem sep_mean_update (batch : Nat) (st st' : SepState n) (sols : List (Vec n)) (perm : List Nat)
    (mu : Nat) (hmu : 0 < mu) (sup : SepSup n) (d : Diag)
    (h : sepTell n batch st sols perm mu sup = .ok (st', d)) :
    ∃ rows, ranked sols perm = .ok rows ∧
      st'.mean = recombine (weights sup.lh sup.ls) (rows.take mu) ∧
      ∀ j lo hi, (∀ x ∈ rows.take mu, lo ≤ x j ∧ x j ≤ hi) → lo ≤ st'.mean j ∧ st'.mean j ≤ hi := by
  obtain ⟨rows, hr, hcase⟩ := sepTell_ok batch st st' sols perm mu sup d h
  refine ⟨rows, hr, ?_⟩
  rcases hcase with ⟨h0, _⟩ | ⟨_, hlen, _, _, hlog, hcore⟩
  · omega
  · have hmean : st'.mean = recombine (weights sup.lh sup.ls) (rows.take mu) := by
      have := congrArg (fun p => p.1.mean) hcore
      simpa [sepCore] using this
    refine ⟨hmean, ?_⟩
    intro j lo hi hx
    obtain ⟨hp, _, hs, hl⟩ := weights_model sup.lh sup.ls mu hmu hlog
    rw [hmean]
    exact mean_convex _ _ j lo hi (by simp [hl]; omega) (fun w hw => (hp w hw).le) hs hx

/-- T18.2 through `tell` for LM-MA-ES -/
theorem lm_mean_update (c : LmCfg) (st st' : LmState c.n) (sols zs : List (Vec c.n)) (perm : List Nat)
    (mu : Nat) (hmu : 0 < mu) (sup : LmSup) (d : Diag)
    (h : lmTell c st sols zs perm mu sup = .ok (st', d)) :
    ∃ rows, ranked sols perm = .ok rows ∧
      st'.mean = recombine (weights sup.lh sup.ls) (rows.take mu) ∧
      ∀ j lo hi, (∀ x ∈ rows.take mu, lo ≤ x j ∧ x j ≤ hi) → lo ≤ st'.mean j ∧ st'.mean j ≤ hi := by
  rcases lmTell_ok c st st' sols zs perm mu sup d h with ⟨h0, _⟩ | ⟨_, rows, zrows, hr, _, hlen, _, hlog, hcore⟩
  · omega
  · refine ⟨rows, hr, ?_⟩
    have hmean : st'.mean = recombine (weights sup.lh sup.ls) (rows.take mu) := by
      have := congrArg (fun p => p.1.mean) hcore
      simpa [lmCore] using this
    refine ⟨hmean, ?_⟩
    intro j lo hi hx
    obtain ⟨hp, _, hs, hl⟩ := weights_model sup.lh sup.ls mu hmu hlog
    rw [hmean]
    exact mean_convex _ _ j lo hi (by simp [hl]; omega) (fun w hw => (hp w hw).le) hs hx

/-- T18.5 (diagonal) + T18.6 for one sep-CMA-ES `tell`: non-negative diagonal and positive step size
are kept (supplied `√n` accepted by the model's bracket, positive supplied exponential) -/
theorem sep_tell_valid (batch : Nat) (st st' : SepState n) (sols : List (Vec n)) (perm : List Nat)
    (mu : Nat) (sup : SepSup n) (d : Diag) (h : sepTell n batch st sols perm mu sup = .ok (st', d))
    (hC : ∀ j, 0 ≤ st.cov j) (hsig : 0 < st.sigma) (he : 0 < sup.expV)
    (hsN : sqrtOk (n : Rat) sup.sN = true) :
    (∀ j, 0 ≤ st'.cov j) ∧ 0 < st'.sigma := by
  obtain ⟨rows, _, hcase⟩ := sepTell_ok batch st st' sols perm mu sup d h
  rcases hcase with ⟨_, rfl⟩ | ⟨hmu, _, hn, _, hlog, hcore⟩
  · exact ⟨hC, hsig⟩
  · have h1 : st' = (sepCore n (2 * (st.evals + perm.length) / batch) (st.evals + perm.length) st
        (rows.take mu) sup).1 := congrArg Prod.fst hcore
    rw [h1]
    refine ⟨sep_core_cov_nonneg _ _ mu hn hmu st _ sup hlog hsN hC, ?_⟩
    simp only [sepCore]
    exact mul_pos hsig he

/-- T18.6 for one LM-MA-ES `tell` -/
theorem lm_tell_sigma_pos (c : LmCfg) (st st' : LmState c.n) (sols zs : List (Vec c.n))
    (perm : List Nat) (mu : Nat) (sup : LmSup) (d : Diag)
    (h : lmTell c st sols zs perm mu sup = .ok (st', d)) (hsig : 0 < st.sigma) (he : 0 < sup.expV) :
    0 < st'.sigma := by
  rcases lmTell_ok c st st' sols zs perm mu sup d h with ⟨_, rfl⟩ | ⟨_, rows, zrows, _, _, _, _, _, hcore⟩
  · exact hsig
  · have h1 : st' = (lmCore c st (rows.take mu) (zrows.take mu) sup).1 := congrArg Prod.fst hcore
    rw [h1]
    simp only [lmCore]
    exact mul_pos hsig he

/-! ## the clamp of the rank-μ learning rate -/

/-- T18.5, clamp: with `cμ = min(1 − c1, …)` as in `_calc_strat_params`, the coefficient
`1 − c1 − cμ` of the old covariance is non-negative for **every** dimension and every weight vector
(no hypothesis at all: this is what the `min` is for) -/
theorem cma_cmu_clamped (n : Nat) (w : List Rat) :
    0 ≤ 1 - (cmaParams n w).c1 - (cmaParams n w).cmu := by
  have h : (cmaParams n w).cmu ≤ 1 - (cmaParams n w).c1 := by
    simp only [cmaParams]; exact rmin_le_left _ _
  linarith

/-- the same for sep-CMA-ES (`cmu_sep = min(1 − c1_sep, …)`), for every supplied `√n` -/
theorem sep_cmu_clamped (n : Nat) (w : List Rat) (sN : Rat) :
    0 ≤ 1 - (sepParams n w sN).c1 - (sepParams n w sN).cmu := by
  have h : (sepParams n w sN).cmu ≤ 1 - (sepParams n w sN).c1 := by
    simp only [sepParams]; exact rmin_le_left _ _
  linarith

/-- the clamp is not idle: in dimension 1 with 50 equally weighted parents (`mueff = 50`) the
unclamped rate `2(mueff − 2 + 1/mueff)/((n+2)² + mueff)` exceeds `1 − c1`, i.e. without the `min`
the old covariance would get a negative coefficient; with it the coefficient is exactly `0` -/
theorem nonvacuous_clamp :
    let w : List Rat := List.replicate 50 (1 / 50)
    let p := cmaParams 1 w
    p.mueff = 50 ∧ 1 - p.c1 < 2 * (p.mueff - 2 + 1 / p.mueff) / ((1 + 2) * (1 + 2) + p.mueff)
      ∧ 1 - p.c1 - p.cmu = 0 := by
  decide +kernel

/-! ## non-vacuity: concrete instances satisfying the hypotheses above -/

/-- supplied logs `0 < 1 < 2 < 3` are accepted and give weights `½, ⅓, ⅙` -/
theorem nonvacuous_weights :
    logsOk 3 [0, 1, 2] 3 = true ∧ weights (3 : Rat) [0, 1, 2] = [1 / 2, 1 / 3, 1 / 6] := by
  decide +kernel

def exV (a b : Rat) : Vec 2 := fun i => if i = 0 then a else b

/-- a bounded OpenAI-ES `ask` in which row 1 is resampled twice: it returns, the recorded draw of
row 1 is the draw of the third round, and the row equals `θ + σ₀·draw` -/
theorem nonvacuous_resample :
    (askRows (openaiTransform (exV 0 0) 1) (fun _ => some (-1)) (fun _ => some 1) 3
      [[exV (1/2) 0, exV 3 0, exV 0 (1/4)], [exV 0 2], [exV (-1/4) (1/8)]]).toOption.map
      (fun r => (r.2, (r.1.src 1), (r.1.draw 1).map vecToList, (r.1.sol 1).map vecToList))
    = some (3, some (2, 0), some [-1/4, 1/8], some [-1/4, 1/8]) := by
  decide +kernel

def exSup : CmaSup 2 := ⟨3, [0, 1], 0, 1, 1, identMat 2, 1⟩

/-- a CMA-ES `tell` with two parents out of three ranked rows succeeds from the reset state, moves
the mean to the weighted average `⅗·x₂ + ⅖·x₀` and keeps σ positive; with zero parents it succeeds
and only the counter moves -/
theorem nonvacuous_tell :
    ((cmaTell 2 3 (cmaReset 1 (exV 0 0)) [exV 1 0, exV 5 5, exV 0 1] [2, 0, 1] 2 exSup).toOption.map
      (fun r => (vecToList r.1.mean, decide (0 < r.1.sigma), r.1.evals)))
      = some ([2 / 5, 3 / 5], true, 3) ∧
    ((cmaTell 2 3 (cmaReset 1 (exV 0 0)) [exV 1 0, exV 5 5, exV 0 1] [2, 0, 1] 0 exSup).toOption.map
      (fun r => (vecToList r.1.mean, r.1.evals))) = some ([0, 0], 3) := by
  decide +kernel

/-- two Adam steps and an OpenAI-ES gradient on concrete data -/
theorem nonvacuous_adam :
    ((openaiGradient (n := 2) ⟨3, 1, false, ⟨1, 1/2, 1/2, 1, 0⟩⟩ [exV 1 0, exV 0 1, exV (-1) 0] [1, 0, 2]).toOption.map
        vecToList) = some [1 / 6, 1 / 6] ∧
    vecToList (adamStep ⟨1, 1/2, 1/2, 1, 0⟩ (adamReset (exV 0 0)) (exV 2 (-2)) 1 (exV 1 1)).theta
      = [1, -1] := by
  decide +kernel

end Pyribs.C18
