import PyribsModel.Bandit
/-!
Line-protocol machine `bandit` for the `Bandit` model.

```
new pool=5 active=2 resel=terminated|all mode=batch|single result=0|1   → ok
ask restarts=-1,0,3,0,0 scores=top,1/2:3/4,top,0:0,top batch=2,0,1,0,0 active=1,0,0,1,0
      → ok sols=0.0,0.1,3.0 ev=<events> active=1,0,0,1,0 | err runtime | err index | inadmissible
      (`active=model`: the model selects by itself)
tell status=2,0,1          → ok ev=<events> | err runtime | err type
askdqd | telldqd           → err notimplemented
state                      → phase=ask active=… sel=… succ=… restarts=… emitted=…
```
`restarts`, `scores`, `batch` are per pool member; `status` is per row of the current batch.
A score is `top` or `lo:hi`.  `<events>`: `ask:<em>:<n>`, `add:<result>:<rows>`,
`tell:<em>:<sols>:<rows>:<status>`, `;`-separated, `none` when empty.
-/
namespace Pyribs.BanditDrv
open Pyribs Bandit
open Pyribs.Scheduler (Sol Mode)

structure St where
  cfg : Cfg
  s   : Bandit.St

def init : St := ⟨⟨1, .terminated, .batch, false⟩, Bandit.init 1⟩

def showSol (p : Sol) : String := s!"{p.1}.{p.2}"
def showSols (xs : List Sol) : String := showList showSol xs

def showEvent : Event → String
  | .ask e n => s!"ask:{e}:{n}"
  | .add r rows => s!"add:{showBool r}:{showNatList rows}"
  | .tell e sols rows st => s!"tell:{e}:{showSols sols}:{showNatList rows}:{showNatList st}"

def showEvents (es : List Event) : String :=
  if es.isEmpty then "none" else String.intercalate ";" (es.map showEvent)

def showErr : Err → String
  | .runtime => "err runtime"
  | .notImplemented => "err notimplemented"
  | .index => "err index"
  | .type => "err type"

def showPhase : Phase → String
  | .none => "none" | .ask => "ask" | .tell => "tell"

def showActive (p : List Em) : String := showList (fun em => showBool em.active) p

def parseScore (t : String) : Option Score :=
  if t = "top" then some .top
  else match t.splitOn ":" with
    | [lo, hi] => do
      let lo ← parseRat lo
      let hi ← parseRat hi
      if lo ≤ hi then pure (.iv lo hi) else none
    | _ => none

def parseBool (t : String) : Option Bool :=
  if t = "1" then some true else if t = "0" then some false else none

def doOp (st : St) (op : Op) : St × String :=
  let (s', out) := step st.cfg st.s op
  let ev := showEvents (s'.trace.drop st.s.trace.length)
  ({ st with s := s' },
    match out with
    | .asked sols => s!"ok sols={showSols sols} ev={ev} active={showActive s'.pool}"
    | .told => s!"ok ev={ev}"
    | .error e => showErr e
    | .inadmissible => "inadmissible")

def step (st : St) (toks : List String) : St × String :=
  match toks with
  | "new" :: rest =>
    match (kv rest "pool").bind String.toNat?, (kv rest "active").bind String.toNat?,
          kv rest "resel", kv rest "mode", (kv rest "result").bind parseBool with
    | some n, some k, some r, some m, some res =>
      match (if r = "terminated" then some Resel.terminated else if r = "all" then some Resel.all else none),
            (if m = "batch" then some Mode.batch else if m = "single" then some Mode.single else none) with
      | some r, some m => (⟨⟨k, r, m, res⟩, Bandit.init n⟩, "ok")
      | _, _ => (st, "bad-op")
    | _, _, _, _, _ => (st, "bad-op")
  | "ask" :: rest =>
    let n := st.s.pool.length
    match (kv rest "restarts").bind parseIntList, (kv rest "scores").bind (parseListWith parseScore),
          (kv rest "batch").bind parseNatList, kv rest "active" with
    | some rs, some sc, some bt, some act =>
      let choice : Option (Option (List Bool)) :=
        if act = "model" then some none else (parseListWith parseBool act).map some
      match choice with
      | some ch =>
        if rs.length = n ∧ sc.length = n ∧ bt.length = n then
          doOp st (.ask ⟨fun i => rs.getD i (-1), fun i => sc.getD i .top, fun i => bt.getD i 0, ch⟩)
        else (st, "bad-op")
      | none => (st, "bad-op")
    | _, _, _, _ => (st, "bad-op")
  | "tell" :: rest =>
    match (kv rest "status").bind parseNatList with
    | some stt =>
      -- (an out-of-order tell is rejected before the status is looked at)
      if st.s.phase ≠ .ask ∨ stt.length = st.s.cur.length then doOp st (.tell fun p => stt.getD p 0)
      else (st, "bad-op")
    | none => (st, "bad-op")
  | ["askdqd"] => doOp st .askDqd
  | ["telldqd"] => doOp st .tellDqd
  | ["state"] =>
    let p := st.s.pool
    (st, s!"phase={showPhase st.s.phase} active={showActive p} " ++
      s!"sel={showNatList (p.map (·.selection))} succ={showNatList (p.map (·.success))} " ++
      s!"restarts={showIntList (p.map (·.restarts))} " ++
      s!"emitted={showList (showOpt toString) (p.map (·.emitted))}")
  | _ => (st, "bad-op")

end Pyribs.BanditDrv
