"""Translators that regenerate Lean model parts from the pyribs source tree."""
