import numpy as np, warnings
from ribs.archives import GridArchive, CVTArchive, SlidingBoundariesArchive, ProximityArchive
warnings.simplefilter("default")
print("== D1 grid index_of far out of range")
a = GridArchive(solution_dim=1, dims=[10], ranges=[(0,1)])
for m in [0.5, 1.5, 2.0, 1e3, 1e8, 1e9, 3e8, 1e10, 1e300, -1e10, -1e300, 1.7976931348623157e308]:
    with warnings.catch_warnings(record=True) as w:
        warnings.simplefilter("always")
        print(m, a.index_of(np.array([[m]])), [str(x.message) for x in w])
a32 = GridArchive(solution_dim=1, dims=[10], ranges=[(0,1)], dtype=np.float32)
for m in [1e8, 3e8, 1e10, 3e38, -3e38]:
    with warnings.catch_warnings(record=True) as w:
        warnings.simplefilter("always")
        print('f32', m, a32.index_of(np.array([[m]], dtype=np.float32)), [str(x.message) for x in w])

print("== D4 float32 batch vs single")
for mode in ("batch","single"):
    a = GridArchive(solution_dim=1, dims=[1], ranges=[(0,1)], dtype=np.float32)
    a.add_single([0.0], 1.0, [0.5])
    o = 1.0 + 1e-10
    if mode=="batch":
        r = a.add(np.array([[1.0]]), np.array([o]), np.array([[0.5]]))
    else:
        r = a.add_single(np.array([1.0]), o, np.array([0.5]))
    print(mode, r, a.data("solution"), a.data("objective"))
